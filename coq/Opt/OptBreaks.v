(* The kind of line break is irrelevant to a successful result: if the tokenizer returns pairs on
   a text without carriage returns, it returns the same pairs when every line feed is replaced by
   CR LF, or by CR.  Simulation of every function of the model between a stream [s] over the text
   and a stream [s'] over the expanded text. *)
From Coq Require Import List NArith Bool Lia Arith.
From MV Require Import Base.PyStr.
From MV Require Import Base.Res.
From MV Require Import Gen.OptConsts.
From MV Require Import Opt.OptModel.
From MV Require Import Opt.OptBreaksDef.
Import ListNotations.
Open Scope N_scope.

Section Brk.
(* [h] is what stands in the place of a line feed: CR (alone or followed by LF) or NEL *)
Variable h : N.
Variable nl : str.
Hypothesis Hh : h = 13 \/ h = 133.
Hypothesis Hnl : (nl = [13; 10] /\ h = 13) \/ nl = [h].

(* closed side conditions about [h] *)
Ltac hs := destruct Hh as [Eh|Eh]; rewrite Eh; reflexivity.

Notation X := (expand_nl nl).

(* ------------------------------------------------------------------ the relation *)

Definition okbuf (t : str) : Prop := Forall (fun c => c <> 13) t /\ (forall pre, t <> pre ++ [10]).

Definition R (s s' : stream) : Prop :=
  s_rest s' = X (s_rest s) /\ s_col s' = s_col s /\ (s_idx s' =? 0) = (s_idx s =? 0) /\ okbuf (s_rest s).

(* characters seen at corresponding positions *)
Definition C (c c' : N) : Prop := c' = if c =? 10 then h else c.

Lemma C_cases c c' : C c c' -> (c = 10 /\ c' = h) \/ (c' = c /\ c <> 10).
Proof.
  unfold C. destruct (c =? 10) eqn:E; intros ->; [left | right].
  - apply N.eqb_eq in E. auto.
  - apply N.eqb_neq in E. auto.
Qed.

Definition sim {A} (Q : A -> A -> Prop) (r r' : res A) : Prop :=
  match r with Ok a => exists a', r' = Ok a' /\ Q a a' | Raise _ => True end.

Lemma sim_bind {A B} (Q : A -> A -> Prop) (Q2 : B -> B -> Prop) r r' (k k' : A -> res B) :
  sim Q r r' -> (forall a a', Q a a' -> sim Q2 (k a) (k' a')) -> sim Q2 (bind r k) (bind r' k').
Proof.
  destruct r as [a|e]; cbn [sim bind]; [|auto]. intros (a' & -> & Hq) Hk. cbn [bind]. auto.
Qed.

Lemma sim_ok {A} (Q : A -> A -> Prop) a a' : Q a a' -> sim Q (Ok a) (Ok a').
Proof. intros H. exists a'. auto. Qed.

Lemma sim_mono {A} (Q Q2 : A -> A -> Prop) r r' : sim Q r r' -> (forall a a', Q a a' -> Q2 a a') -> sim Q2 r r'.
Proof. destruct r as [a|e]; cbn [sim]; [|auto]. intros (a' & -> & Hq) H. eauto. Qed.

Definition R1 {A} (x x' : stream * A) : Prop := R (fst x) (fst x') /\ snd x = snd x'.

(* ------------------------------------------------------------------ facts about the expansion *)

Lemma nl_head : exists t, nl = h :: t.
Proof. destruct Hnl as [[-> ->]| ->]; eauto. Qed.

Lemma X_cons c r : X (c :: r) = (if c =? 10 then nl else [c]) ++ X r.
Proof. reflexivity. Qed.

Lemma X_run : forall a b, Forall (fun c => c <> 10) a -> X (a ++ b) = a ++ X b.
Proof.
  induction a as [|c a IH]; intros b H; [reflexivity|]. inversion H as [|? ? Hc H']; subst.
  cbn [app]. rewrite X_cons, (IH _ H'). apply N.eqb_neq in Hc. rewrite Hc. reflexivity.
Qed.

Lemma X_length t : (length t <= length (X t))%nat.
Proof.
  induction t as [|c t IH]; [cbn; lia|]. rewrite X_cons, app_length. cbn [length].
  destruct (c =? 10); [|cbn [length]; lia]. destruct Hnl as [[-> _]| ->]; cbn [length]; lia.
Qed.

Lemma X_no_lf t : nl = [h] -> ~ In 10 (X t).
Proof.
  intros E. induction t as [|c t IH]; [cbn; tauto|]. rewrite X_cons. intros H. apply in_app_or in H as [H|H]; [|auto].
  destruct (c =? 10) eqn:Ec; [rewrite E in H; destruct H as [H|[]]; destruct Hh as [Eh|Eh]; rewrite Eh in H; discriminate|].
  destruct H as [H|[]]. apply N.eqb_neq in Ec. congruence.
Qed.

Lemma okbuf_tl c r : okbuf (c :: r) -> okbuf r.
Proof.
  intros [H1 H2]. split; [inversion H1; assumption|]. intros pre E. apply (H2 (c :: pre)). rewrite E. reflexivity.
Qed.

Lemma okbuf_skip : forall a b, okbuf (a ++ b) -> okbuf b.
Proof. induction a as [|c a IH]; intros b H; [exact H|]. apply IH. eapply okbuf_tl. exact H. Qed.

Lemma fuel_le s s' : R s s' -> (fuel_of s <= fuel_of s')%nat.
Proof. intros (Hr & _). unfold fuel_of. rewrite Hr. pose proof (X_length (s_rest s)). lia. Qed.

(* ------------------------------------------------------------------ peek, forward, prefix *)

Definition Cp (s : stream) (c c' : N) : Prop := C c c' /\ exists r, s_rest s = c :: r.

Lemma peek0_sim s s' : R s s' -> sim (Cp s) (peek s 0) (peek s' 0).
Proof.
  intros (Hr & _). unfold peek. destruct (s_rest s) as [|c r] eqn:E; cbn [nth_error sim]; [exact I|].
  rewrite Hr, X_cons. destruct nl_head as [t Ht].
  exists (if c =? 10 then h else c). split; [|split; [reflexivity | eauto]].
  destruct (c =? 10); [rewrite Ht|]; reflexivity.
Qed.

Lemma idx_succ_nz i : (i + 1 =? 0) = false.
Proof. apply N.eqb_neq. lia. Qed.

(* one ordinary character (no line feed, no carriage return) *)
Lemma forward1_sim s s' c r : R s s' -> s_rest s = c :: r -> c <> 10 ->
  sim (fun s1 s1' => R s1 s1' /\ s_rest s1 = r) (forward1 s) (forward1 s').
Proof.
  intros (Hr & Hc & Hi & Hok) E Hn. assert (Hcr : c <> 13) by (rewrite E in Hok; destruct Hok as [H _]; inversion H; assumption).
  assert (Hok' : okbuf r) by (rewrite E in Hok; eapply okbuf_tl; exact Hok).
  unfold forward1. rewrite Hr, E, X_cons. apply N.eqb_neq in Hn. rewrite Hn. cbn [app].
  apply N.eqb_neq in Hcr. unfold c_cr. rewrite Hcr.
  destruct (mem_N c in_forward_0); [|destruct (negb (c =? c_bom))];
    (apply sim_ok; split; [split; [|split; [|split]]|]; cbn [s_rest s_col s_idx]; rewrite ?idx_succ_nz;
     [reflexivity | congruence | reflexivity | exact Hok' | reflexivity]).
Qed.

Lemma forward_run : forall a b s s', R s s' -> s_rest s = a ++ b -> Forall (fun c => c <> 10) a ->
  sim (fun s1 s1' => R s1 s1' /\ s_rest s1 = b) (forward s (length a)) (forward s' (length a)).
Proof.
  induction a as [|c a IH]; intros b s s' HR E Ha; [apply sim_ok; auto|].
  inversion Ha as [|? ? Hc Ha']; subst. cbn [length forward].
  eapply sim_bind; [eapply forward1_sim; eassumption|].
  intros s1 s1' [HR1 E1]. apply (IH b); assumption.
Qed.

Lemma prefix_run a b s s' : R s s' -> s_rest s = a ++ b -> Forall (fun c => c <> 10) a ->
  prefix s' (length a) = prefix s (length a).
Proof.
  intros (Hr & _) E Ha. unfold prefix. rewrite Hr, E, (X_run _ _ Ha).
  rewrite !firstn_app, !firstn_all, Nat.sub_diag. reflexivity.
Qed.

(* a count over the buffer stops at a line break at the latest *)
Lemma count_split p : p 10 = false -> forall l n, count_while p l = Ok n ->
  exists a c b, l = a ++ c :: b /\ length a = n /\ Forall (fun x => x <> 10) a /\ p c = false.
Proof.
  intros Hp. induction l as [|x l IH]; intros n H; [discriminate|]. cbn [count_while] in H.
  destruct (p x) eqn:Ex.
  - destruct (count_while p l) as [m|e]; [|discriminate]. cbn [bind] in H. inversion H; subst.
    destruct (IH m eq_refl) as (a & c & b & -> & Hl & Ha & Hc).
    exists (x :: a), c, b. repeat split; [cbn; congruence | | exact Hc].
    constructor; [intros ->; congruence | exact Ha].
  - inversion H; subst. exists [], x, l. repeat split; [constructor | exact Ex].
Qed.

Lemma count_X p : p 10 = false -> p h = false -> forall l n, count_while p l = Ok n -> count_while p (X l) = Ok n.
Proof.
  intros H10 H13. induction l as [|x l IH]; intros n H; [discriminate|]. cbn [count_while] in H.
  rewrite X_cons. destruct (x =? 10) eqn:Ex.
  - apply N.eqb_eq in Ex. subst x. rewrite H10 in H. inversion H; subst.
    destruct nl_head as [t ->]. cbn [app count_while]. rewrite H13. reflexivity.
  - cbn [app count_while]. destruct (p x); [|exact H].
    destruct (count_while p l) as [m|e]; [|discriminate]. cbn [bind] in H. inversion H; subst.
    rewrite (IH m eq_refl). reflexivity.
Qed.

(* what the callers of a count need *)
Lemma count_sim p s s' n : p 10 = false -> p h = false -> R s s' -> count_while p (s_rest s) = Ok n ->
  count_while p (s_rest s') = Ok n /\ prefix s' n = prefix s n /\
  sim R (forward s n) (forward s' n).
Proof.
  intros H10 H13 HR H. pose proof HR as (Hr & _).
  destruct (count_split p H10 _ _ H) as (a & c & b & E & Hl & Ha & Hc). subst n.
  split; [rewrite Hr; apply count_X; assumption|].
  split; [eapply prefix_run; eassumption|].
  eapply sim_mono; [eapply forward_run; eassumption|]. intros ? ? [? _]. assumption.
Qed.

(* ------------------------------------------------------------------ closed tests on LF / CR *)

Ltac ceval1 :=
  repeat match goal with
  | |- context [mem_N 10 ?T] => let b := eval vm_compute in (mem_N 10 T) in change (mem_N 10 T) with b
  | |- context [mem_N 13 ?T] => let b := eval vm_compute in (mem_N 13 T) in change (mem_N 13 T) with b
  | |- context [mem_N 133 ?T] => let b := eval vm_compute in (mem_N 133 T) in change (mem_N 133 T) with b
  | |- context [N.eqb 10 ?k] => let b := eval vm_compute in (N.eqb 10 k) in change (N.eqb 10 k) with b
  | |- context [N.eqb 13 ?k] => let b := eval vm_compute in (N.eqb 13 k) in change (N.eqb 13 k) with b
  | |- context [N.eqb 133 ?k] => let b := eval vm_compute in (N.eqb 133 k) in change (N.eqb 133 k) with b
  | |- context [assoc 10 ?T] => let b := eval vm_compute in (assoc 10 T) in change (assoc 10 T) with b
  | |- context [assoc 13 ?T] => let b := eval vm_compute in (assoc 13 T) in change (assoc 13 T) with b
  | |- context [assoc 133 ?T] => let b := eval vm_compute in (assoc 133 T) in change (assoc 133 T) with b
  | |- context [is_end 10] => change (is_end 10) with false
  | |- context [is_end 13] => change (is_end 13) with false
  | |- context [is_end 133] => change (is_end 133) with false
  end; cbn [negb andb orb].
(* with the case split on [h] *)
Ltac ceval := destruct Hh as [Eh|Eh]; rewrite ?Eh; ceval1.

(* ------------------------------------------------------------------ skip loops *)

Lemma forward_one s s' c r : R s s' -> s_rest s = c :: r -> c <> 10 -> sim R (forward s 1) (forward s' 1).
Proof.
  intros HR E Hc. eapply sim_mono; [apply (forward_run [c] r s s' HR E); repeat constructor; exact Hc|].
  intros ? ? [? _]. assumption.
Qed.

Lemma skip_while_f_sim p : p 10 = false -> p h = false -> forall f1 f2 s s', (f1 <= f2)%nat -> R s s' ->
  sim R (skip_while_f f1 p s) (skip_while_f f2 p s').
Proof.
  intros H10 H13. induction f1 as [|f1 IH]; intros f2 s s' Hf HR; [exact I|].
  destruct f2 as [|f2]; [lia|]. cbn [skip_while_f].
  eapply sim_bind; [apply peek0_sim; exact HR|]. intros c c' [Hc [r Er]].
  destruct (C_cases _ _ Hc) as [[-> ->]|[-> Hn]].
  - rewrite H10, H13. apply sim_ok. exact HR.
  - destruct (p c); [|apply sim_ok; exact HR].
    eapply sim_bind; [eapply forward_one; eassumption|]. intros s1 s1' HR1. apply IH; [lia | exact HR1].
Qed.

Lemma skip_while_sim p s s' : p 10 = false -> p h = false -> R s s' -> sim R (skip_while p s) (skip_while p s').
Proof. intros H10 H13 HR. apply skip_while_f_sim; [assumption | assumption | apply fuel_le; exact HR | exact HR]. Qed.

(* ------------------------------------------------------------------ _scan_line_break *)

Lemma str_eqb_head c l l2 : c <> 13 -> str_eqb (c :: l) (13 :: l2) = false.
Proof. intros H. cbn [str_eqb]. apply N.eqb_neq in H. rewrite H. reflexivity. Qed.

Lemma lb_crlf s' XR : s_rest s' = 13 :: 10 :: XR ->
  (if str_eqb (prefix s' 2) [c_cr; c_lf] then do s1 <- forward s' 2; Ok (s1, [c_lf])
   else do s1 <- forward s' 1; Ok (s1, [c_lf])) =
  Ok (mkS (s_idx s' + 1 + 1) (s_line s' + 1) 0 XR, [10]).
Proof.
  intros E. unfold prefix. rewrite E. cbn [firstn]. replace (str_eqb [13; 10] [c_cr; c_lf]) with true by reflexivity.
  cbn [forward]. unfold forward1 at 1. rewrite E.
  replace (mem_N 13 in_forward_0) with false by reflexivity.
  replace (13 =? c_cr) with true by reflexivity. replace (negb (10 =? c_lf)) with false by reflexivity.
  replace (negb (13 =? c_bom)) with true by reflexivity. cbn [bind].
  unfold forward1. cbn [s_rest s_idx s_line s_col]. replace (mem_N 10 in_forward_0) with true by reflexivity. reflexivity.
Qed.

Lemma lb_cr s' y t0 : s_rest s' = 13 :: y :: t0 -> y <> 10 ->
  (if str_eqb (prefix s' 2) [c_cr; c_lf] then do s1 <- forward s' 2; Ok (s1, [c_lf])
   else do s1 <- forward s' 1; Ok (s1, [c_lf])) =
  Ok (mkS (s_idx s' + 1) (s_line s' + 1) 0 (y :: t0), [10]).
Proof.
  intros E Hy. unfold prefix. rewrite E. cbn [firstn]. apply N.eqb_neq in Hy.
  assert (Hs : str_eqb [13; y] [c_cr; c_lf] = false).
  { unfold c_cr, c_lf. cbn [str_eqb]. rewrite Hy. reflexivity. }
  rewrite Hs. cbn [forward]. unfold forward1. rewrite E.
  replace (mem_N 13 in_forward_0) with false by reflexivity.
  replace (13 =? c_cr) with true by reflexivity. unfold c_lf. rewrite Hy. reflexivity.
Qed.

Lemma lb_nel s' t0 : s_rest s' = 133 :: t0 ->
  (if str_eqb (prefix s' 2) [c_cr; c_lf] then do s1 <- forward s' 2; Ok (s1, [c_lf])
   else do s1 <- forward s' 1; Ok (s1, [c_lf])) =
  Ok (mkS (s_idx s' + 1) (s_line s' + 1) 0 t0, [10]).
Proof.
  intros E. unfold prefix. rewrite E.
  assert (Hs : str_eqb (firstn 2 (133 :: t0)) [c_cr; c_lf] = false) by (destruct t0; reflexivity).
  rewrite Hs. cbn [forward]. unfold forward1. rewrite E.
  replace (mem_N 133 in_forward_0) with true by reflexivity. reflexivity.
Qed.

Lemma scan_line_break_sim s s' : R s s' -> sim R1 (scan_line_break s) (scan_line_break s').
Proof.
  intros HR. pose proof HR as (Hr & Hcol & Hi & Hok). unfold scan_line_break.
  eapply sim_bind; [apply peek0_sim; exact HR|]. intros c c' [Hc [r Er]].
  destruct (C_cases _ _ Hc) as [[-> ->]|[-> Hn]].
  - (* a line feed against CR LF, CR or NEL *)
    assert (Hrn : r <> []). { intros ->. destruct Hok as [_ H]. apply (H []). rewrite Er. reflexivity. }
    assert (Hok' : okbuf r) by (rewrite Er in Hok; eapply okbuf_tl; exact Hok).
    assert (Hm : mem_N 10 in_scan_line_break_0 = true /\ mem_N h in_scan_line_break_0 = true).
    { split; [reflexivity | hs]. }
    destruct Hm as [Hm1 Hm2]. rewrite Hm1, Hm2.
    assert (Hs : (if str_eqb (prefix s 2) [c_cr; c_lf] then do s1 <- forward s 2; Ok (s1, [c_lf])
                  else do s1 <- forward s 1; Ok (s1, [c_lf])) =
                 Ok (mkS (s_idx s + 1) (s_line s + 1) 0 r, [10])).
    { unfold prefix. rewrite Er. cbn [firstn]. unfold c_cr. cbn [str_eqb N.eqb Pos.eqb andb].
      cbn [forward]. unfold forward1. rewrite Er. replace (mem_N 10 in_forward_0) with true by reflexivity. reflexivity. }
    rewrite Hs. cbn [sim].
    assert (Er0 : exists XR, XR = X r /\ s_rest s' = nl ++ XR) by (eexists; split; [reflexivity | rewrite Hr, Er, X_cons; reflexivity]).
    destruct Er0 as (XR & EX & Er').
    assert (Hfin : forall i l, R (mkS (s_idx s + 1) (s_line s + 1) 0 r) (mkS (i + 1) l 0 XR)).
    { intros i l. split; [|split; [|split]]; cbn [s_rest s_col s_idx]; rewrite ?idx_succ_nz; auto. }
    destruct Hnl as [[E Eh]|E].
    + (* CR LF *)
      rewrite E in Er'. cbn [app] in Er'. rewrite (lb_crlf s' _ Er').
      eexists. split; [reflexivity|]. split; [|reflexivity]. cbn [fst]. apply Hfin.
    + (* CR or NEL alone: what follows is not a line feed *)
      assert (Hx : exists y t, XR = y :: t /\ y <> 10).
      { rewrite EX. destruct r as [|y r']; [congruence|]. pose proof (X_no_lf (y :: r') E) as Hno.
        destruct (X (y :: r')) as [|z t] eqn:Ez.
        - exfalso. rewrite X_cons in Ez. destruct (y =? 10); [rewrite E in Ez|]; discriminate.
        - exists z, t. split; [reflexivity|]. intros ->. apply Hno. left. reflexivity. }
      destruct Hx as (y & t0 & Ey & Hy).
      destruct Hh as [Eh|Eh].
      * assert (Er2 : s_rest s' = 13 :: y :: t0) by (rewrite Er', Ey, E, Eh; reflexivity).
        rewrite (lb_cr s' y t0 Er2 Hy).
        eexists. split; [reflexivity|]. split; [|reflexivity]. cbn [fst]. rewrite <- Ey. apply Hfin.
      * assert (Er2 : s_rest s' = 133 :: y :: t0) by (rewrite Er', Ey, E, Eh; reflexivity).
        rewrite (lb_nel s' _ Er2).
        eexists. split; [reflexivity|]. split; [|reflexivity]. cbn [fst]. rewrite <- Ey. apply Hfin.
  - (* any other character: the same branch *)
    assert (Hcr : c <> 13) by (rewrite Er in Hok; destruct Hok as [H _]; inversion H; assumption).
    assert (Hpre : str_eqb (prefix s' 2) [c_cr; c_lf] = false /\ str_eqb (prefix s 2) [c_cr; c_lf] = false).
    { unfold prefix. rewrite Hr, Er, X_cons. apply N.eqb_neq in Hn. rewrite Hn. cbn [app firstn].
      split; apply str_eqb_head; exact Hcr. }
    destruct Hpre as [Hp' Hp]. rewrite Hp, Hp'.
    destruct (mem_N c in_scan_line_break_0).
    + eapply sim_bind; [eapply forward_one; eassumption|]. intros s1 s1' H1. apply sim_ok. split; [exact H1 | reflexivity].
    + destruct (mem_N c in_scan_line_break_1).
      * eapply sim_bind; [eapply forward_one; eassumption|]. intros s1 s1' H1. apply sim_ok. split; [exact H1 | reflexivity].
      * apply sim_ok. split; [exact HR | reflexivity].
Qed.

(* ------------------------------------------------------------------ conditionals on a character *)

Lemma sim_if_C {A} (Q : A -> A -> Prop) (t : N -> bool) c c' (a b a' b' : res A) :
  C c c' -> t h = t 10 -> (t c = true -> sim Q a a') -> (t c = false -> sim Q b b') ->
  sim Q (if t c then a else b) (if t c' then a' else b').
Proof.
  intros Hc Ht Ha Hb. destruct (C_cases _ _ Hc) as [[-> ->]|[-> _]].
  - rewrite Ht. destruct (t 10); auto.
  - destruct (t c); auto.
Qed.

Ltac speek HR c c' Hc r Er := eapply sim_bind; [apply peek0_sim; exact HR|]; intros c c' [Hc [r Er]].

(* ------------------------------------------------------------------ _scan_to_next_token *)

Lemma stnt_f_sim : forall f1 f2 s s', (f1 <= f2)%nat -> R s s' ->
  sim R (scan_to_next_token_f f1 s) (scan_to_next_token_f f2 s').
Proof.
  induction f1 as [|f1 IH]; intros f2 s s' Hf HR; [exact I|]. destruct f2 as [|f2]; [lia|].
  cbn [scan_to_next_token_f].
  eapply sim_bind; [apply skip_while_sim; [reflexivity | hs | exact HR]|]. intros s1 s1' H1.
  speek H1 c c' Hc r Er.
  eapply sim_bind with (Q := R).
  { apply (sim_if_C R (fun ch => ch =? c_hash)); [exact Hc | hs | |].
    - intros _. apply skip_while_sim; [reflexivity | hs | exact H1].
    - intros _. apply sim_ok. exact H1. }
  intros s2 s2' H2.
  eapply sim_bind; [apply scan_line_break_sim; exact H2|]. intros [s3 lb] [s3' lb'] [H3 Elb]. cbn [fst snd] in *. subst lb'.
  destruct (negb (nonempty lb)); [apply sim_ok; exact H3 | apply IH; [lia | exact H3]].
Qed.

Lemma stnt_sim s s' : R s s' -> sim R (scan_to_next_token s) (scan_to_next_token s').
Proof.
  intros HR. pose proof HR as (_ & _ & Hi & _). unfold scan_to_next_token. rewrite Hi.
  eapply sim_bind with (Q := R).
  { destruct (s_idx s =? 0); [|apply sim_ok; exact HR].
    speek HR c c' Hc r Er.
    apply (sim_if_C R (fun ch => ch =? c_bom)); [exact Hc | hs | | intros _; apply sim_ok; exact HR].
    intros Eb. apply N.eqb_eq in Eb. eapply forward_one; [exact HR | exact Er | rewrite Eb; discriminate]. }
  intros s0 s0' H0. apply stnt_f_sim; [apply fuel_le; exact H0 | exact H0].
Qed.

(* ------------------------------------------------------------------ plain scalars *)

Lemma plain_breaks_f_sim : forall f1 f2 s s' br, (f1 <= f2)%nat -> R s s' ->
  sim R1 (plain_breaks_f f1 s br) (plain_breaks_f f2 s' br).
Proof.
  induction f1 as [|f1 IH]; intros f2 s s' br Hf HR; [exact I|]. destruct f2 as [|f2]; [lia|].
  cbn [plain_breaks_f]. speek HR c c' Hc r Er.
  destruct (C_cases _ _ Hc) as [[-> ->]|[-> Hn]].
  - ceval.
    all: eapply sim_bind; [apply scan_line_break_sim; exact HR|]; intros [s1 lb] [s1' lb'] [H1 Elb]; cbn [fst snd] in *; subst lb';
      apply IH; [lia | exact H1].
  - destruct (mem_N c in_scan_plain_spaces_1); [|apply sim_ok; split; [exact HR | reflexivity]].
    destruct (c =? c_space).
    + eapply sim_bind; [eapply forward_one; eassumption|]. intros s1 s1' H1. apply IH; [lia | exact H1].
    + eapply sim_bind; [apply scan_line_break_sim; exact HR|]. intros [s1 lb] [s1' lb'] [H1 Elb]. cbn [fst snd] in *. subst lb'.
      apply IH; [lia | exact H1].
Qed.

Lemma scan_plain_spaces_sim s s' b : R s s' -> sim R1 (scan_plain_spaces s b) (scan_plain_spaces s' b).
Proof.
  intros HR. unfold scan_plain_spaces.
  destruct (count_while (fun ch => ch =? c_space) (s_rest s)) as [n|e] eqn:En; [|exact I]. cbn [bind].
  match type of En with count_while ?p0 _ = _ => destruct (count_sim p0 s s' n eq_refl ltac:(hs) HR En) as (En' & Hp & Hfw) end. rewrite En'. cbn [bind]. rewrite Hp.
  eapply sim_bind; [exact Hfw|]. intros s1 s1' H1. speek H1 c c' Hc r Er.
  apply (sim_if_C R1 (fun ch => b && mem_N ch in_scan_plain_spaces_0)); [exact Hc | hs | |].
  - intros _.
    eapply sim_bind; [apply scan_line_break_sim; exact H1|]. intros [s2 lb] [s2' lb'] [H2 Elb]. cbn [fst snd] in *. subst lb'.
    eapply sim_bind; [apply plain_breaks_f_sim; [apply fuel_le; exact H2 | exact H2]|].
    intros [s3 br] [s3' br'] [H3 Ebr]. cbn [fst snd] in *. subst br'. apply sim_ok. split; [exact H3 | reflexivity].
  - intros _. destruct (nonempty (prefix s n)); apply sim_ok; (split; [exact H1 | reflexivity]).
Qed.

Lemma X_head c r : exists t, X (c :: r) = (if c =? 10 then h else c) :: t.
Proof. rewrite X_cons. destruct nl_head as [t ->]. destruct (c =? 10); cbn [app]; eauto. Qed.

Lemma plain_len_X b : forall l n, plain_len b l = Ok n ->
  plain_len b (X l) = Ok n /\ exists a t, l = a ++ t /\ length a = n /\ Forall (fun x => x <> 10) a.
Proof.
  induction l as [|c l IH]; intros n H; [discriminate|]. cbn [plain_len] in H.
  destruct (mem_N c in_scan_plain_scalar_0) eqn:E0.
  - inversion H; subst. split; [|exists [], (c :: l); repeat split; constructor].
    destruct (X_head c l) as [t ->]. cbn [plain_len].
    destruct (c =? 10) eqn:Ec; [destruct Hh as [Eh|Eh]; rewrite Eh; reflexivity | rewrite E0; reflexivity].
  - assert (Hc : c <> 10) by (intros ->; discriminate E0).
    rewrite X_cons. pose proof Hc as Hc'. apply N.eqb_neq in Hc'. rewrite Hc'. cbn [app plain_len]. rewrite E0.
    assert (Hstop : forall v, (if b && (c =? c_colon) then match l with [] => Raise IndexError | n0 :: _ => Ok (mem_N n0 in_scan_plain_scalar_1) end else Ok false) = Ok v ->
                    (if b && (c =? c_colon) then match X l with [] => Raise IndexError | n0 :: _ => Ok (mem_N n0 in_scan_plain_scalar_1) end else Ok false) = Ok v).
    { intros v. destruct (b && (c =? c_colon)); [|auto]. destruct l as [|y l']; [discriminate|].
      destruct (X_head y l') as [t ->]. destruct (y =? 10) eqn:Ey; [|auto].
      apply N.eqb_eq in Ey. subst y. intros Hv. rewrite <- Hv. destruct Hh as [Eh|Eh]; rewrite Eh; reflexivity. }
    destruct (if b && (c =? c_colon) then match l with [] => Raise IndexError | n0 :: _ => Ok (mem_N n0 in_scan_plain_scalar_1) end else Ok false) as [stop|e] eqn:Es;
      [|discriminate]. rewrite (Hstop stop eq_refl). cbn [bind] in *.
    destruct stop.
    + inversion H; subst. split; [reflexivity | exists [], (c :: l); repeat split; constructor].
    + destruct (plain_len b l) as [m|e] eqn:Em; [|discriminate]. cbn [bind] in H. inversion H; subst.
      destruct (IH m eq_refl) as (HX & a & t0 & -> & Hl & Ha). rewrite HX. cbn [bind].
      split; [reflexivity|]. exists (c :: a), t0. repeat split; [cbn; congruence | constructor; assumption].
Qed.

Lemma plain_scalar_f_sim b : forall f1 f2 s s' ch sp, (f1 <= f2)%nat -> R s s' ->
  sim R1 (plain_scalar_f f1 b s ch sp) (plain_scalar_f f2 b s' ch sp).
Proof.
  induction f1 as [|f1 IH]; intros f2 s s' ch sp Hf HR; [exact I|]. destruct f2 as [|f2]; [lia|].
  cbn [plain_scalar_f]. speek HR c c' Hc r Er.
  apply (sim_if_C R1 (fun x => x =? c_hash)); [exact Hc | hs | intros _; apply sim_ok; split; [exact HR | reflexivity] | intros _].
  destruct (plain_len b (s_rest s)) as [n|e] eqn:En; [|exact I]. cbn [bind].
  pose proof HR as (Hr & _).
  destruct (plain_len_X b _ _ En) as (En' & a & t0 & Ea & Hl & Ha). rewrite Hr, En'. cbn [bind].
  destruct n as [|n]; [apply sim_ok; split; [exact HR | reflexivity]|].
  rewrite <- Hl. rewrite (prefix_run a t0 s s' HR Ea Ha).
  eapply sim_bind; [eapply sim_mono; [apply (forward_run a t0 s s' HR Ea Ha)|]; intros ? ? [H _]; exact H|].
  intros s1 s1' H1.
  eapply sim_bind; [apply scan_plain_spaces_sim; exact H1|]. intros [s2 sp2] [s2' sp2'] [H2 Esp]. cbn [fst snd] in *. subst sp2'.
  pose proof H2 as (_ & Hcol2 & _).
  destruct sp2 as [|x sp2].
  - speek H2 c2 c2' Hc2 r2 Er2. apply sim_ok. split; [exact H2 | reflexivity].
  - speek H2 c2 c2' Hc2 r2 Er2. rewrite Hcol2.
    apply (sim_if_C R1 (fun y => (y =? c_hash) || (s_col s2 <? (if b then 0 else 1)))); [exact Hc2 | hs | |].
    + intros _. apply sim_ok. split; [exact H2 | reflexivity].
    + intros _. apply IH; [lia | exact H2].
Qed.

Lemma scan_plain_scalar_sim s s' b : R s s' -> sim R1 (scan_plain_scalar s b) (scan_plain_scalar s' b).
Proof.
  intros HR. unfold scan_plain_scalar.
  eapply sim_bind; [apply plain_scalar_f_sim; [apply fuel_le; exact HR | exact HR]|].
  intros [s1 c] [s1' c'] [H1 Ec]. cbn [fst snd] in *. subst c'. apply sim_ok. split; [exact H1 | reflexivity].
Qed.

(* ------------------------------------------------------------------ flow scalars *)

Lemma flow_scalar_breaks_f_sim : forall f1 f2 s s' ch, (f1 <= f2)%nat -> R s s' ->
  sim R1 (flow_scalar_breaks_f f1 s ch) (flow_scalar_breaks_f f2 s' ch).
Proof.
  induction f1 as [|f1 IH]; intros f2 s s' ch Hf HR; [exact I|]. destruct f2 as [|f2]; [lia|].
  cbn [flow_scalar_breaks_f].
  eapply sim_bind; [apply skip_while_sim; [reflexivity | hs | exact HR]|]. intros s1 s1' H1.
  speek H1 c c' Hc r Er.
  apply (sim_if_C R1 (fun x => mem_N x in_scan_flow_scalar_breaks_1)); [exact Hc | hs | |].
  - intros _. eapply sim_bind; [apply scan_line_break_sim; exact H1|].
    intros [s2 lb] [s2' lb'] [H2 Elb]. cbn [fst snd] in *. subst lb'. apply IH; [lia | exact H2].
  - intros _. apply sim_ok. split; [exact H1 | reflexivity].
Qed.

Lemma scan_flow_scalar_breaks_sim s s' : R s s' -> sim R1 (scan_flow_scalar_breaks s) (scan_flow_scalar_breaks s').
Proof. intros HR. apply flow_scalar_breaks_f_sim; [apply fuel_le; exact HR | exact HR]. Qed.

Lemma scan_flow_scalar_spaces_sim s s' : R s s' -> sim R1 (scan_flow_scalar_spaces s) (scan_flow_scalar_spaces s').
Proof.
  intros HR. unfold scan_flow_scalar_spaces.
  destruct (count_while (fun ch => mem_N ch in_scan_flow_scalar_spaces_0) (s_rest s)) as [n|e] eqn:En; [|exact I]. cbn [bind].
  match type of En with count_while ?p0 _ = _ => destruct (count_sim p0 s s' n eq_refl ltac:(hs) HR En) as (En' & Hp & Hfw) end. rewrite En'. cbn [bind]. rewrite Hp.
  eapply sim_bind; [exact Hfw|]. intros s1 s1' H1. speek H1 c c' Hc r Er.
  apply (sim_if_C R1 is_end); [exact Hc | hs | intros _; exact I | intros _].
  apply (sim_if_C R1 (fun x => mem_N x in_scan_flow_scalar_spaces_1)); [exact Hc | hs | |].
  - intros _. eapply sim_bind; [apply scan_line_break_sim; exact H1|].
    intros [s2 lb] [s2' lb'] [H2 Elb]. cbn [fst snd] in *. subst lb'.
    eapply sim_bind; [apply scan_flow_scalar_breaks_sim; exact H2|].
    intros [s3 br] [s3' br'] [H3 Ebr]. cbn [fst snd] in *. subst br'. apply sim_ok. split; [exact H3 | reflexivity].
  - intros _. apply sim_ok. split; [exact H1 | reflexivity].
Qed.

Lemma hex_check_X : forall n l, hex_check n l = Ok true ->
  hex_check n (X l) = Ok true /\ exists a t, l = a ++ t /\ length a = n /\ Forall (fun x => x <> 10) a.
Proof.
  induction n as [|n IH]; intros l H.
  - split; [reflexivity | exists [], l; repeat split; constructor].
  - cbn [hex_check] in H. destruct l as [|c l]; [discriminate|].
    destruct (mem_N c in_scan_flow_scalar_non_spaces_2) eqn:E; [|discriminate].
    assert (Hc : c <> 10) by (intros ->; discriminate E).
    destruct (IH l H) as (HX & a & t0 & -> & Hl & Ha).
    rewrite X_cons. apply N.eqb_neq in Hc. rewrite Hc. cbn [app hex_check]. rewrite E. split; [exact HX|].
    exists (c :: a), t0. repeat split; [cbn; congruence | constructor; [apply N.eqb_neq; exact Hc | exact Ha]].
Qed.

Lemma scan_escape_sim s s' r : R s s' -> s_rest s = 92 :: r -> sim R1 (scan_escape s) (scan_escape s').
Proof.
  intros HR Er. unfold scan_escape.
  eapply sim_bind; [eapply forward_one; [exact HR | exact Er | discriminate]|]. intros s1 s1' H1.
  speek H1 c c' Hc r1 Er1.
  destruct (C_cases _ _ Hc) as [[-> ->]|[-> Hn]].
  - (* an escaped line break *)
    ceval.
    all: eapply sim_bind; [apply scan_line_break_sim; exact H1|];
      intros [s2 lb] [s2' lb'] [H2 _]; cbn [fst] in *; apply scan_flow_scalar_breaks_sim; exact H2.
  - destruct (assoc c ESCAPE_REPLACEMENTS) as [rep|].
    + eapply sim_bind; [eapply forward_one; eassumption|]. intros s2 s2' H2. apply sim_ok. split; [exact H2 | reflexivity].
    + destruct (assoc c ESCAPE_CODES) as [len|].
      * eapply sim_bind; [eapply forward_one; eassumption|]. intros s2 s2' H2.
        destruct (hex_check (N.to_nat len) (s_rest s2)) as [[|]|e] eqn:Eh; cbn [bind negb]; [| exact I | exact I].
        pose proof H2 as (Hr2 & _).
        destruct (hex_check_X _ _ Eh) as (Eh' & a & t0 & Ea & Hl & Ha). rewrite Hr2, Eh'. cbn [bind negb].
        rewrite <- Hl. rewrite (prefix_run a t0 s2 s2' H2 Ea Ha).
        destruct (int16 (prefix s2 (length a))) as [code|e]; cbn [bind]; [|exact I].
        destruct (match CHR_GUARD with Some g => g <? code | None => false end); [exact I|].
        destruct (py_chr code) as [ch|e]; cbn [bind]; [|exact I].
        eapply sim_bind; [eapply sim_mono; [apply (forward_run a t0 s2 s2' H2 Ea Ha)|]; intros ? ? [H _]; exact H|].
        intros s3 s3' H3. apply sim_ok. split; [exact H3 | reflexivity].
      * destruct (mem_N c in_scan_flow_scalar_non_spaces_3); [|exact I].
        eapply sim_bind; [apply scan_line_break_sim; exact H1|].
        intros [s2 lb] [s2' lb'] [H2 _]. cbn [fst] in *. apply scan_flow_scalar_breaks_sim. exact H2.
Qed.

Definition Ro (o o' : option (stream * list str)) : Prop :=
  match o, o' with
  | Some x, Some x' => R1 x x'
  | None, None => True
  | _, _ => False
  end.

Lemma flow_ns_branch_sim s s' d : R s s' -> sim Ro (flow_ns_branch s d) (flow_ns_branch s' d).
Proof.
  intros HR. pose proof HR as (Hr & _). unfold flow_ns_branch. speek HR c c' Hc r Er.
  destruct (C_cases _ _ Hc) as [[-> ->]|[-> Hn]].
  - ceval. all: rewrite !andb_false_r; cbn [bind orb]; apply sim_ok; exact I.
  - assert (Hrest : sim Ro
      (if d && (c =? c_squote) || negb d && mem_N c in_scan_flow_scalar_non_spaces_1
       then do s2 <- forward s 1; Ok (Some (s2, [[c]]))
       else if d && (c =? c_bslash) then do r0 <- scan_escape s; Ok (Some r0) else Ok None)
      (if d && (c =? c_squote) || negb d && mem_N c in_scan_flow_scalar_non_spaces_1
       then do s2 <- forward s' 1; Ok (Some (s2, [[c]]))
       else if d && (c =? c_bslash) then do r0 <- scan_escape s'; Ok (Some r0) else Ok None)).
    { destruct (d && (c =? c_squote) || negb d && mem_N c in_scan_flow_scalar_non_spaces_1).
      - eapply sim_bind; [eapply forward_one; eassumption|]. intros s2 s2' H2.
        apply sim_ok. split; [exact H2 | reflexivity].
      - destruct (d && (c =? c_bslash)) eqn:Eb; [|apply sim_ok; exact I].
        apply andb_true_iff in Eb as [_ Eb]. apply N.eqb_eq in Eb. subst c.
        eapply sim_bind; [eapply scan_escape_sim; eassumption|]. intros x x' Hx. apply sim_ok. exact Hx. }
    destruct (negb d && (c =? c_squote)) eqn:Eq; [|cbn [bind]; exact Hrest].
    (* the second quote of a doubled one *)
    unfold peek. rewrite Hr, Er, X_cons. pose proof Hn as Hn'. apply N.eqb_neq in Hn'. rewrite Hn'. cbn [app nth_error].
    destruct r as [|y r']; [exact I|]. destruct (X_head y r') as [t0 Et0]. rewrite Et0. cbn [nth_error bind].
    assert (Ey : ((if y =? 10 then h else y) =? c_squote) = (y =? c_squote)).
    { destruct (y =? 10) eqn:E10; [|reflexivity]. apply N.eqb_eq in E10. subst y. hs. }
    rewrite Ey. destruct (y =? c_squote) eqn:Ey2; [|exact Hrest].
    apply N.eqb_eq in Ey2. subst y.
    eapply sim_bind.
    { eapply sim_mono; [apply (forward_run [c; c_squote] r' s s' HR Er)|].
      - repeat constructor; [exact Hn | discriminate].
      - intros ? ? [H _]. exact H. }
    intros s2 s2' H2. apply sim_ok. split; [exact H2 | reflexivity].
Qed.

Lemma flow_non_spaces_f_sim d : forall f1 f2 s s' ch, (f1 <= f2)%nat -> R s s' ->
  sim R1 (flow_non_spaces_f f1 s d ch) (flow_non_spaces_f f2 s' d ch).
Proof.
  induction f1 as [|f1 IH]; intros f2 s s' ch Hf HR; [exact I|]. destruct f2 as [|f2]; [lia|].
  cbn [flow_non_spaces_f].
  destruct (count_while (fun c => negb (mem_N c in_scan_flow_scalar_non_spaces_0)) (s_rest s)) as [n|e] eqn:En; [|exact I].
  cbn [bind].
  match type of En with count_while ?p0 _ = _ => destruct (count_sim p0 s s' n eq_refl ltac:(hs) HR En) as (En' & Hp & Hfw) end. rewrite En'. cbn [bind]. rewrite Hp.
  eapply sim_bind; [exact Hfw|]. intros s1 s1' H1.
  eapply sim_bind; [apply flow_ns_branch_sim; exact H1|]. intros o o' Ho.
  destruct o as [[s2 cs]|], o' as [[s2' cs']|]; cbn [Ro] in Ho; try contradiction.
  - destruct Ho as [H2 Ecs]. cbn [fst snd] in *. subst cs'. apply IH; [lia | exact H2].
  - apply sim_ok. split; [exact H1 | reflexivity].
Qed.

Lemma scan_flow_scalar_non_spaces_sim s s' d : R s s' ->
  sim R1 (scan_flow_scalar_non_spaces s d) (scan_flow_scalar_non_spaces s' d).
Proof. intros HR. apply flow_non_spaces_f_sim; [apply fuel_le; exact HR | exact HR]. Qed.

Lemma flow_scalar_f_sim d q : q <> 10 -> q <> h -> forall f1 f2 s s' ch, (f1 <= f2)%nat -> R s s' ->
  sim R1 (flow_scalar_f f1 s d q ch) (flow_scalar_f f2 s' d q ch).
Proof.
  intros Hq1 Hq2. induction f1 as [|f1 IH]; intros f2 s s' ch Hf HR; [exact I|]. destruct f2 as [|f2]; [lia|].
  cbn [flow_scalar_f]. speek HR c c' Hc r Er.
  apply (sim_if_C R1 (fun x => negb (x =? q))); [exact Hc | | |].
  - assert (H1 : (h =? q) = false) by (apply N.eqb_neq; congruence).
    assert (H2 : (10 =? q) = false) by (apply N.eqb_neq; congruence). rewrite H1, H2. reflexivity.
  - intros _. eapply sim_bind; [apply scan_flow_scalar_spaces_sim; exact HR|].
    intros [s1 c1] [s1' c1'] [H1 E1]. cbn [fst snd] in *. subst c1'.
    eapply sim_bind; [apply scan_flow_scalar_non_spaces_sim; exact H1|].
    intros [s2 c2] [s2' c2'] [H2 E2]. cbn [fst snd] in *. subst c2'. apply IH; [lia | exact H2].
  - intros _. apply sim_ok. split; [exact HR | reflexivity].
Qed.

Lemma flow_scalar_f_exit d q : forall f s ch s3 ch3, flow_scalar_f f s d q ch = Ok (s3, ch3) -> peek s3 0 = Ok q.
Proof.
  induction f as [|f IH]; intros s ch s3 ch3 H; [discriminate|]. cbn [flow_scalar_f] in H.
  destruct (peek s 0) as [c|e] eqn:Ep; cbn [bind] in H; [|discriminate].
  destruct (c =? q) eqn:Ec; cbn [negb] in H.
  - inversion H; subst. apply N.eqb_eq in Ec. subst c. exact Ep.
  - destruct (scan_flow_scalar_spaces s) as [[s1 c1]|e]; cbn [bind] in H; [|discriminate].
    destruct (scan_flow_scalar_non_spaces s1 d) as [[s2 c2]|e]; cbn [bind] in H; [|discriminate].
    eapply IH. exact H.
Qed.

Lemma scan_flow_scalar_sim s s' style : R s s' -> peek s 0 = Ok style -> style = c_squote \/ style = c_dquote ->
  sim R1 (scan_flow_scalar s style) (scan_flow_scalar s' style).
Proof.
  intros HR Hpk Hst. unfold scan_flow_scalar.
  assert (Hs10 : style <> 10) by (destruct Hst; subst; discriminate).
  assert (Hs13 : style <> h) by (destruct Hh as [Eh|Eh]; rewrite Eh; destruct Hst; subst; discriminate).
  speek HR q q' Hc r Er.
  assert (q = style) by (unfold peek in Hpk; rewrite Er in Hpk; cbn in Hpk; congruence). subst q.
  destruct (C_cases _ _ Hc) as [[E _]|[-> _]]; [congruence|].
  eapply sim_bind; [eapply forward_one; eassumption|]. intros s1 s1' H1.
  eapply sim_bind; [apply scan_flow_scalar_non_spaces_sim; exact H1|].
  intros [s2 c0] [s2' c0'] [H2 E0]. cbn [fst snd] in *. subst c0'.
  destruct (flow_scalar_f (fuel_of s1) s2 (style =? c_dquote) style c0) as [[s3 ch]|e] eqn:Ef; [|exact I].
  pose proof (flow_scalar_f_sim (style =? c_dquote) style Hs10 Hs13 (fuel_of s1) (fuel_of s1') s2 s2' c0 (fuel_le _ _ H1) H2) as Hsim.
  rewrite Ef in Hsim. destruct Hsim as ([s3' ch'] & Ef' & H3 & E3). cbn [fst snd] in *. subst ch'. rewrite Ef'. cbn [bind].
  pose proof (flow_scalar_f_exit _ _ _ _ _ _ _ Ef) as Hq.
  assert (Er3 : exists r3, s_rest s3 = style :: r3).
  { unfold peek in Hq. destruct (s_rest s3) as [|x r3]; [discriminate|]. cbn in Hq. inversion Hq. eauto. }
  destruct Er3 as [r3 Er3].
  eapply sim_bind; [eapply forward_one; eassumption|]. intros s4 s4' H4. apply sim_ok. split; [exact H4 | reflexivity].
Qed.

(* ------------------------------------------------------------------ block scalars *)

Definition R2 {A B} (x x' : stream * A * B) : Prop :=
  R (fst (fst x)) (fst (fst x')) /\ snd (fst x) = snd (fst x') /\ snd x = snd x'.

Ltac rok := cbn [fst snd]; repeat (split; [first [assumption | reflexivity]|]); first [assumption | reflexivity].

Lemma C_same c c' (t : N -> bool) : C c c' -> t 10 = false -> t c = true -> c' = c.
Proof. intros Hc H10 Ht. destruct (C_cases _ _ Hc) as [[-> _]|[-> _]]; [congruence | reflexivity]. Qed.

Lemma head_ne s c r (t : N -> bool) : s_rest s = c :: r -> t 10 = false -> t c = true -> c <> 10.
Proof. intros _ H10 Ht ->. congruence. Qed.

Lemma scan_block_scalar_indicators_sim s s' : R s s' ->
  sim R2 (scan_block_scalar_indicators s) (scan_block_scalar_indicators s').
Proof.
  intros HR. unfold scan_block_scalar_indicators. speek HR c c' Hc r Er.
  eapply sim_bind with (Q := R2).
  { apply (sim_if_C R2 (fun x => mem_N x in_scan_block_scalar_indicators_0)); [exact Hc | hs | |].
    - intros E0. pose proof (C_same _ _ (fun x => mem_N x in_scan_block_scalar_indicators_0) Hc eq_refl E0) as ->.
      eapply sim_bind; [eapply forward_one; [exact HR | exact Er | exact (head_ne _ _ _ (fun x => mem_N x in_scan_block_scalar_indicators_0) Er eq_refl E0)]|].
      intros s1 s1' H1. speek H1 c1 c1' Hc1 r1 Er1.
      apply (sim_if_C R2 (fun x => mem_N x in_scan_block_scalar_indicators_1)); [exact Hc1 | hs | |].
      + intros E1. pose proof (C_same _ _ (fun x => mem_N x in_scan_block_scalar_indicators_1) Hc1 eq_refl E1) as ->.
        destruct (digit_val c1) as [inc|e]; cbn [bind]; [|exact I].
        destruct (inc =? 0); [exact I|].
        eapply sim_bind; [eapply forward_one; [exact H1 | exact Er1 | exact (head_ne _ _ _ (fun x => mem_N x in_scan_block_scalar_indicators_1) Er1 eq_refl E1)]|].
        intros s2 s2' H2. apply sim_ok; rok.
      + intros _. apply sim_ok; rok.
    - intros _.
      apply (sim_if_C R2 (fun x => mem_N x in_scan_block_scalar_indicators_2)); [exact Hc | hs | |].
      + intros E2. pose proof (C_same _ _ (fun x => mem_N x in_scan_block_scalar_indicators_2) Hc eq_refl E2) as ->.
        destruct (digit_val c) as [inc|e]; cbn [bind]; [|exact I].
        destruct (inc =? 0); [exact I|].
        eapply sim_bind; [eapply forward_one; [exact HR | exact Er | exact (head_ne _ _ _ (fun x => mem_N x in_scan_block_scalar_indicators_2) Er eq_refl E2)]|].
        intros s1 s1' H1. speek H1 c1 c1' Hc1 r1 Er1.
        apply (sim_if_C R2 (fun x => mem_N x in_scan_block_scalar_indicators_3)); [exact Hc1 | hs | |].
        * intros E3. pose proof (C_same _ _ (fun x => mem_N x in_scan_block_scalar_indicators_3) Hc1 eq_refl E3) as ->.
          eapply sim_bind; [eapply forward_one; [exact H1 | exact Er1 | exact (head_ne _ _ _ (fun x => mem_N x in_scan_block_scalar_indicators_3) Er1 eq_refl E3)]|].
          intros s2 s2' H2. apply sim_ok; rok.
        * intros _. apply sim_ok; rok.
      + intros _. apply sim_ok; rok. }
  intros [[s1 ch] inc] [[s1' ch'] inc'] (H1 & E1 & E2). cbn [fst snd] in *. subst ch' inc'.
  speek H1 c1 c1' Hc1 r1 Er1.
  apply (sim_if_C R2 (fun x => negb (mem_N x in_scan_block_scalar_indicators_4))); [exact Hc1 | hs | intros _; exact I |].
  intros _. apply sim_ok; rok.
Qed.

Lemma scan_block_scalar_ignored_line_sim s s' : R s s' ->
  sim R (scan_block_scalar_ignored_line s) (scan_block_scalar_ignored_line s').
Proof.
  intros HR. unfold scan_block_scalar_ignored_line.
  eapply sim_bind; [apply skip_while_sim; [reflexivity | hs | exact HR]|]. intros s1 s1' H1.
  speek H1 c c' Hc r Er.
  eapply sim_bind with (Q := R).
  { apply (sim_if_C R (fun x => x =? c_hash)); [exact Hc | hs | |].
    - intros _. apply skip_while_sim; [reflexivity | hs | exact H1].
    - intros _. apply sim_ok. exact H1. }
  intros s2 s2' H2. speek H2 c2 c2' Hc2 r2 Er2.
  apply (sim_if_C R (fun x => negb (mem_N x in_scan_block_scalar_ignored_line_1))); [exact Hc2 | hs | intros _; exact I |].
  intros _. eapply sim_bind; [apply scan_line_break_sim; exact H2|].
  intros [s3 lb] [s3' lb'] [H3 _]. apply sim_ok. exact H3.
Qed.

Lemma block_indentation_f_sim : forall f1 f2 s s' ch m, (f1 <= f2)%nat -> R s s' ->
  sim R2 (block_indentation_f f1 s ch m) (block_indentation_f f2 s' ch m).
Proof.
  induction f1 as [|f1 IH]; intros f2 s s' ch m Hf HR; [exact I|]. destruct f2 as [|f2]; [lia|].
  cbn [block_indentation_f]. speek HR c c' Hc r Er.
  apply (sim_if_C R2 (fun x => mem_N x in_scan_block_scalar_indentation_0)); [exact Hc | hs | |].
  - intros _. apply (sim_if_C R2 (fun x => negb (x =? c_space))); [exact Hc | hs | |].
    + intros _. eapply sim_bind; [apply scan_line_break_sim; exact HR|].
      intros [s1 lb] [s1' lb'] [H1 Elb]. cbn [fst snd] in *. subst lb'. apply IH; [lia | exact H1].
    + intros Es. apply negb_false_iff, N.eqb_eq in Es. subst c.
      eapply sim_bind; [eapply forward_one; [exact HR | exact Er | discriminate]|]. intros s1 s1' H1.
      pose proof H1 as (_ & Hcol & _). rewrite Hcol. apply IH; [lia | exact H1].
  - intros _. apply sim_ok; rok.
Qed.

Lemma skip_indent_f_sim ind : forall f1 f2 s s', (f1 <= f2)%nat -> R s s' ->
  sim R (skip_indent_f f1 ind s) (skip_indent_f f2 ind s').
Proof.
  induction f1 as [|f1 IH]; intros f2 s s' Hf HR; [exact I|]. destruct f2 as [|f2]; [lia|].
  cbn [skip_indent_f]. pose proof HR as (_ & Hcol & _). rewrite Hcol.
  destruct (s_col s <? ind); [|apply sim_ok; exact HR].
  speek HR c c' Hc r Er.
  apply (sim_if_C R (fun x => x =? c_space)); [exact Hc | hs | |].
  - intros Es. apply N.eqb_eq in Es. subst c.
    eapply sim_bind; [eapply forward_one; [exact HR | exact Er | discriminate]|]. intros s1 s1' H1. apply IH; [lia | exact H1].
  - intros _. apply sim_ok. exact HR.
Qed.

Lemma skip_indent_sim ind s s' : R s s' -> sim R (skip_indent ind s) (skip_indent ind s').
Proof. intros HR. apply skip_indent_f_sim; [apply fuel_le; exact HR | exact HR]. Qed.

Lemma block_breaks_f_sim ind : forall f1 f2 s s' ch, (f1 <= f2)%nat -> R s s' ->
  sim R1 (block_breaks_f f1 ind s ch) (block_breaks_f f2 ind s' ch).
Proof.
  induction f1 as [|f1 IH]; intros f2 s s' ch Hf HR; [exact I|]. destruct f2 as [|f2]; [lia|].
  cbn [block_breaks_f]. speek HR c c' Hc r Er.
  apply (sim_if_C R1 (fun x => mem_N x in_scan_block_scalar_breaks_0)); [exact Hc | hs | |].
  - intros _. eapply sim_bind; [apply scan_line_break_sim; exact HR|].
    intros [s1 lb] [s1' lb'] [H1 Elb]. cbn [fst snd] in *. subst lb'.
    eapply sim_bind; [apply skip_indent_sim; exact H1|]. intros s2 s2' H2. apply IH; [lia | exact H2].
  - intros _. apply sim_ok. split; [exact HR | reflexivity].
Qed.

Lemma scan_block_scalar_breaks_sim s s' ind : R s s' ->
  sim R1 (scan_block_scalar_breaks s ind) (scan_block_scalar_breaks s' ind).
Proof.
  intros HR. unfold scan_block_scalar_breaks.
  eapply sim_bind; [apply skip_indent_sim; exact HR|]. intros s1 s1' H1.
  apply block_breaks_f_sim; [apply fuel_le; exact H1 | exact H1].
Qed.

Definition Co (o o' : option N) : Prop :=
  match o, o' with Some c, Some c' => C c c' | None, None => True | _, _ => False end.

Lemma at_content_sim s s' ind : R s s' -> sim Co (at_content s ind) (at_content s' ind).
Proof.
  intros HR. unfold at_content. pose proof HR as (_ & Hcol & _). rewrite Hcol.
  destruct (s_col s =? ind); [|apply sim_ok; exact I].
  speek HR c c' Hc r Er.
  apply (sim_if_C Co (fun x => negb (is_end x))); [exact Hc | hs | |]; intros _; apply sim_ok; [exact Hc | exact I].
Qed.

Definition R4 {A B D} (x x' : stream * A * B * D) : Prop :=
  R (fst (fst (fst x))) (fst (fst (fst x'))) /\ snd (fst (fst x)) = snd (fst (fst x')) /\
  snd (fst x) = snd (fst x') /\ snd x = snd x'.

Lemma mem_C c c' T : C c c' -> mem_N h T = mem_N 10 T -> mem_N c' T = mem_N c T.
Proof. intros Hc H. destruct (C_cases _ _ Hc) as [[-> ->]|[-> _]]; [exact H | reflexivity]. Qed.

Lemma block_lines_f_sim fo ind : forall f1 f2 s s' c c' ch br, (f1 <= f2)%nat -> R s s' -> C c c' ->
  sim R4 (block_lines_f f1 fo ind s c ch br) (block_lines_f f2 fo ind s' c' ch br).
Proof.
  induction f1 as [|f1 IH]; intros f2 s s' c c' ch br Hf HR Hc; [exact I|]. destruct f2 as [|f2]; [lia|].
  cbn [block_lines_f]. cbv zeta.
  destruct (count_while (fun x => negb (mem_N x in_scan_block_scalar_1)) (s_rest s)) as [n|e] eqn:En; [|exact I].
  cbn [bind].
  match type of En with count_while ?p0 _ = _ => destruct (count_sim p0 s s' n eq_refl ltac:(hs) HR En) as (En' & Hp & Hfw) end. rewrite En'. cbn [bind]. rewrite Hp.
  eapply sim_bind; [exact Hfw|]. intros s1 s1' H1.
  eapply sim_bind; [apply scan_line_break_sim; exact H1|].
  intros [s2 lb] [s2' lb'] [H2 Elb]. cbn [fst snd] in *. subst lb'.
  eapply sim_bind; [apply scan_block_scalar_breaks_sim; exact H2|].
  intros [s3 br3] [s3' br3'] [H3 Ebr]. cbn [fst snd] in *. subst br3'.
  eapply sim_bind; [apply at_content_sim; exact H3|]. intros o o' Ho.
  destruct o as [c3|], o' as [c3'|]; cbn [Co] in Ho; try contradiction.
  - rewrite (mem_C c c' in_scan_block_scalar_0 Hc ltac:(hs)), (mem_C c3 c3' in_scan_block_scalar_2 Ho ltac:(hs)).
    apply IH; [lia | exact H3 | exact Ho].
  - apply sim_ok; rok.
Qed.

Lemma scan_block_scalar_sim s s' style : R s s' -> peek s 0 = Ok style -> style <> 10 ->
  sim R1 (scan_block_scalar s style) (scan_block_scalar s' style).
Proof.
  intros HR Hpk Hst. unfold scan_block_scalar. cbv zeta.
  assert (Er : exists r, s_rest s = style :: r).
  { unfold peek in Hpk. destruct (s_rest s) as [|x r]; [discriminate|]. cbn in Hpk. inversion Hpk. eauto. }
  destruct Er as [r Er].
  eapply sim_bind; [eapply forward_one; eassumption|]. intros s1 s1' H1.
  eapply sim_bind; [apply scan_block_scalar_indicators_sim; exact H1|].
  intros [[s2 chomp] inc] [[s2' chomp'] inc'] (H2 & E1 & E2). cbn [fst snd] in *. subst chomp' inc'.
  eapply sim_bind; [apply scan_block_scalar_ignored_line_sim; exact H2|]. intros s3 s3' H3.
  eapply sim_bind with (Q := R2).
  { destruct inc as [i|].
    - eapply sim_bind; [apply scan_block_scalar_breaks_sim; exact H3|].
      intros [s4 b] [s4' b'] [H4 Eb]. cbn [fst snd] in *. subst b'. apply sim_ok; rok.
    - eapply sim_bind; [apply block_indentation_f_sim; [apply fuel_le; exact H3 | exact H3]|].
      intros [[s4 b] m] [[s4' b'] m'] (H4 & Eb & Em). cbn [fst snd] in *. subst b' m'. apply sim_ok; rok. }
  intros [[s4 b] ind] [[s4' b'] ind'] (H4 & Eb & Ei). cbn [fst snd] in *. subst b' ind'.
  eapply sim_bind; [apply at_content_sim; exact H4|]. intros o o' Ho.
  eapply sim_bind with (Q := R4).
  { destruct o as [c|], o' as [c'|]; cbn [Co] in Ho; try contradiction.
    - apply block_lines_f_sim; [apply fuel_le; exact H4 | exact H4 | exact Ho].
    - apply sim_ok; rok. }
  intros [[[s5 ch] lb] br] [[[s5' ch'] lb'] br'] (H5 & E1 & E2 & E3). cbn [fst snd] in *. subst ch' lb' br'.
  apply sim_ok. split; [exact H5 | reflexivity].
Qed.

(* ------------------------------------------------------------------ _tokenize *)

Definition tokrel (t t' : token) : Prop :=
  match t, t' with
  | TKey k, TKey k' => k = k'
  | TColon, TColon => True
  | TValue _ v, TValue _ v' => v = v'      (* the start index (only used in an error) may differ *)
  | _, _ => False
  end.

Definition simw {A} (Q : A -> A -> Prop) (m m' : wres A) : Prop :=
  match m with
  | (ts, Ok a) => exists ts' a', m' = (ts', Ok a') /\ Forall2 tokrel ts ts' /\ Q a a'
  | (_, Raise _) => True
  end.

Lemma simw_bind {A B} (Q : A -> A -> Prop) (Q2 : B -> B -> Prop) m m' (k k' : A -> wres B) :
  simw Q m m' -> (forall a a', Q a a' -> simw Q2 (k a) (k' a')) -> simw Q2 (bindw m k) (bindw m' k').
Proof.
  destruct m as [ts [a|e]]; cbn [simw]; [|intros _ _; exact I].
  intros (ts' & a' & -> & Hts & Hq) Hk. specialize (Hk a a' Hq). unfold bindw.
  destruct (k a) as [ts2 [b|e]]; cbn [simw] in *; [|exact I].
  destruct Hk as (ts2' & b' & -> & Hts2 & Hq2). exists (ts' ++ ts2'), b'. split; [reflexivity|].
  split; [apply Forall2_app; assumption | exact Hq2].
Qed.

Lemma simw_lift {A} (Q : A -> A -> Prop) r r' : sim Q r r' -> simw Q (liftw r) (liftw r').
Proof. destruct r as [a|e]; cbn [sim liftw simw]; [|auto]. intros (a' & -> & Hq). exists [], a'. auto. Qed.

Lemma simw_yield t t' : tokrel t t' -> simw (fun _ _ => True) (yield t) (yield t').
Proof. intros H. cbn. exists [t'], tt. auto. Qed.

Lemma simw_if_C {A} (Q : A -> A -> Prop) (t : N -> bool) c c' (a b a' b' : wres A) :
  C c c' -> t h = t 10 -> (t c = true -> simw Q a a') -> (t c = false -> simw Q b b') ->
  simw Q (if t c then a else b) (if t c' then a' else b').
Proof.
  intros Hc Ht Ha Hb. destruct (C_cases _ _ Hc) as [[-> ->]|[-> _]].
  - rewrite Ht. destruct (t 10); auto.
  - destruct (t c); auto.
Qed.

Definition Ros (o o' : option stream) : Prop :=
  match o, o' with Some a, Some a' => R a a' | None, None => True | _, _ => False end.

Lemma quotes c : mem_N c in_tokenize_0 = true \/ mem_N c in_tokenize_2 = true -> c = c_squote \/ c = c_dquote.
Proof.
  unfold in_tokenize_0, in_tokenize_2, mem_N. cbn [existsb]. rewrite !orb_false_r.
  intros [H|H]; apply orb_true_iff in H as [H|H]; apply N.eqb_eq in H; subst; auto.
Qed.

Lemma peek_of s c r : s_rest s = c :: r -> peek s 0 = Ok c.
Proof. intros E. unfold peek. rewrite E. reflexivity. Qed.

Lemma tok_iter_sim s s' : R s s' -> simw Ros (tok_iter s) (tok_iter s').
Proof.
  intros HR. unfold tok_iter.
  eapply simw_bind; [apply simw_lift, stnt_sim; exact HR|]. intros s1 s1' H1.
  eapply simw_bind; [apply simw_lift, peek0_sim; exact H1|]. intros c c' [Hc [r Er]].
  apply (simw_if_C Ros is_end); [exact Hc | hs | intros _; apply simw_lift, sim_ok; exact I | intros _].
  pose proof H1 as (_ & Hcol1 & _). rewrite Hcol1.
  destruct (negb (s_col s1 =? 0)); [exact I|].
  eapply simw_bind with (Q := R1).
  { apply simw_lift. apply (sim_if_C R1 (fun x => mem_N x in_tokenize_0)); [exact Hc | hs | |].
    - intros E0. pose proof (C_same _ _ (fun x => mem_N x in_tokenize_0) Hc eq_refl E0) as ->.
      apply scan_flow_scalar_sim; [exact H1 | eapply peek_of; exact Er | apply quotes; left; exact E0].
    - intros _. apply scan_plain_scalar_sim. exact H1. }
  intros [s2 k] [s2' k'] [H2 Ek]. cbn [fst snd] in *. subst k'.
  eapply simw_bind; [apply simw_yield; reflexivity|]. intros _ _ _.
  eapply simw_bind; [apply simw_lift, stnt_sim; exact H2|]. intros s3 s3' H3.
  eapply simw_bind; [apply simw_lift, peek0_sim; exact H3|]. intros c3 c3' [Hc3 [r3 Er3]].
  apply (simw_if_C Ros (fun x => negb (x =? c_colon))); [exact Hc3 | hs | intros _; exact I | intros E3].
  apply negb_false_iff, N.eqb_eq in E3. subst c3.
  eapply simw_bind; [apply simw_lift; eapply forward_one; [exact H3 | exact Er3 | discriminate]|]. intros s4 s4' H4.
  eapply simw_bind; [apply simw_yield; exact I|]. intros _ _ _.
  eapply simw_bind; [apply simw_lift, stnt_sim; exact H4|]. intros s5 s5' H5.
  eapply simw_bind; [apply simw_lift, peek0_sim; exact H5|]. intros c5 c5' [Hc5 [r5 Er5]].
  pose proof H5 as (_ & Hcol5 & _). rewrite Hcol5.
  destruct (s_col s5 =? 0); [apply simw_lift, sim_ok; exact H5|].
  eapply simw_bind with (Q := R1).
  { apply simw_lift. apply (sim_if_C R1 (fun x => mem_N x in_tokenize_1)); [exact Hc5 | hs | |].
    - intros E1. pose proof (C_same _ _ (fun x => mem_N x in_tokenize_1) Hc5 eq_refl E1) as ->.
      apply scan_block_scalar_sim; [exact H5 | eapply peek_of; exact Er5 |].
      exact (head_ne _ _ _ (fun x => mem_N x in_tokenize_1) Er5 eq_refl E1).
    - intros _. apply (sim_if_C R1 (fun x => mem_N x in_tokenize_2)); [exact Hc5 | hs | |].
      + intros E2. pose proof (C_same _ _ (fun x => mem_N x in_tokenize_2) Hc5 eq_refl E2) as ->.
        apply scan_flow_scalar_sim; [exact H5 | eapply peek_of; exact Er5 | apply quotes; right; exact E2].
      + intros _. apply scan_plain_scalar_sim. exact H5. }
  intros [s6 v] [s6' v'] [H6 Ev]. cbn [fst snd] in *. subst v'.
  eapply simw_bind; [apply simw_yield; reflexivity|]. intros _ _ _.
  apply simw_lift, sim_ok. exact H6.
Qed.

Lemma tokenize_f_sim : forall f1 f2 s s' toks, (f1 <= f2)%nat -> R s s' -> tokenize_f f1 s = (toks, None) ->
  exists toks', tokenize_f f2 s' = (toks', None) /\ Forall2 tokrel toks toks'.
Proof.
  induction f1 as [|f1 IH]; intros f2 s s' toks Hf HR H; [discriminate|]. destruct f2 as [|f2]; [lia|].
  cbn [tokenize_f] in *. pose proof (tok_iter_sim s s' HR) as Hs.
  destruct (tok_iter s) as [ts [[s1|]|e]]; cbn [simw] in Hs.
  - destruct Hs as (ts' & o' & -> & Hts & Ho). destruct o' as [s1'|]; [|contradiction]. cbn [Ros] in Ho.
    destruct (tokenize_f f1 s1) as [ts2 e2] eqn:E2. inversion H; subst.
    destruct (IH f2 s1 s1' ts2 ltac:(lia) Ho E2) as (ts2' & E2' & H2). rewrite E2'.
    eexists. split; [reflexivity | apply Forall2_app; assumption].
  - destruct Hs as (ts' & o' & -> & Hts & Ho). destruct o' as [s1'|]; [contradiction|].
    inversion H; subst. eexists. split; [reflexivity | exact Hts].
  - discriminate.
Qed.

Lemma to_items_rel toks toks' : Forall2 tokrel toks toks' -> forall key r,
  to_items toks None key = Ok r -> to_items toks' None key = Ok r.
Proof.
  induction 1 as [|t t' l l' Ht Hl IH]; intros key r H; [exact H|].
  destruct t as [k| |st v], t' as [k'| |st' v']; cbn [tokrel] in Ht; try contradiction; cbn [to_items] in *.
  - subst k'. destruct (to_items l None (Some k)) as [out|e] eqn:E; [|discriminate].
    rewrite (IH _ _ E). exact H.
  - apply IH. exact H.
  - subst v'. destruct key as [k0|]; [|discriminate].
    destruct (to_items l None None) as [out|e] eqn:E; [|discriminate]. rewrite (IH _ _ E). exact H.
Qed.

Lemma to_items_pending e : forall toks key, exists e', to_items toks (Some e) key = Raise e'.
Proof.
  induction toks as [|t toks IH]; intros key; [eexists; reflexivity|].
  destruct t as [k| |st v]; cbn [to_items].
  - destruct (IH (Some k)) as [e' ->]. eexists. reflexivity.
  - apply IH.
  - destruct key as [k0|]; [|eexists; reflexivity]. destruct (IH None) as [e' ->]. eexists. reflexivity.
Qed.

Lemma X_end T : X (T ++ CHARS_END) = X T ++ CHARS_END.
Proof. induction T as [|c T IH]; [reflexivity|]. cbn [app]. rewrite !X_cons, IH, app_assoc. reflexivity. Qed.

Theorem breaks_transparent T r : no_cr T = true ->
  options_to_items T = Ok r -> options_to_items (X T) = Ok r.
Proof.
  intros Hcr H. unfold options_to_items, tokenize in *.
  set (s := new_stream T) in *. set (s' := new_stream (X T)).
  assert (HR : R s s').
  { unfold R, s, s', new_stream. cbn [s_rest s_col s_idx]. split; [symmetry; apply X_end|].
    split; [reflexivity|]. split; [reflexivity|]. split.
    - apply Forall_app. split.
      + unfold no_cr in Hcr. rewrite forallb_forall in Hcr. apply Forall_forall. intros x Hx.
        specialize (Hcr x Hx). apply negb_true_iff, N.eqb_neq in Hcr. exact Hcr.
      + repeat constructor. discriminate.
    - intros pre E. change CHARS_END with [0] in E. apply app_inj_tail in E as [_ E]. discriminate. }
  destruct (tokenize_f (fuel_of s) s) as [toks pending] eqn:Et.
  destruct pending as [e|]; [destruct (to_items_pending e toks None) as [e' He]; rewrite He in H; discriminate|].
  destruct (tokenize_f_sim _ (fuel_of s') s s' toks (fuel_le _ _ HR) HR Et) as (toks' & Et' & Hrel).
  rewrite Et'. eapply to_items_rel; eassumption.
Qed.

End Brk.

(* the three instances *)
Theorem crlf_transparent T r : no_cr T = true -> options_to_items T = Ok r -> options_to_items (crlf T) = Ok r.
Proof. apply (breaks_transparent 13 [13; 10]); [left; reflexivity | left; split; reflexivity]. Qed.

Theorem cr_transparent T r : no_cr T = true -> options_to_items T = Ok r -> options_to_items (cr_only T) = Ok r.
Proof. apply (breaks_transparent 13 [13]); [left; reflexivity | right; reflexivity]. Qed.

Theorem nel_transparent T r : no_cr T = true -> options_to_items T = Ok r -> options_to_items (nel_only T) = Ok r.
Proof. apply (breaks_transparent 133 [133]); [right; reflexivity | right; reflexivity]. Qed.
