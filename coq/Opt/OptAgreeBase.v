(* Agreement of the tokenizer model with the YAML spec (Opt/YamlSpec.v): infrastructure.
   [after s a] is the stream after forwarding over the text [a]; every scanner lemma has the
   shape  s_rest s = X ++ t -> ... -> scan s = Ok (after s X, value). *)
From Coq Require Import List NArith Bool Lia ZifyBool Arith.
From MV Require Import Base.PyStr.
From MV Require Import Base.Res.
From MV Require Import Gen.OptConsts.
From MV Require Import Opt.OptModel.
From MV Require Import Opt.YamlSpec.
Import ListNotations.
Open Scope N_scope.

(* ------------------------------------------------------------------ positions *)

Definition step (s : stream) (ch : N) : stream :=
  if mem_N ch in_forward_0 then mkS (s_idx s + 1) (s_line s + 1) 0 (tl (s_rest s))
  else if negb (ch =? c_bom) then mkS (s_idx s + 1) (s_line s) (s_col s + 1) (tl (s_rest s))
  else mkS (s_idx s + 1) (s_line s) (s_col s) (tl (s_rest s)).

Definition after (s : stream) (a : str) : stream := fold_left step a s.

Lemma after_nil s : after s [] = s. Proof. reflexivity. Qed.
Lemma after_cons s c a : after s (c :: a) = after (step s c) a. Proof. reflexivity. Qed.
Lemma after_app s a b : after s (a ++ b) = after (after s a) b.
Proof. unfold after. apply fold_left_app. Qed.

Lemma rest_step s c : s_rest (step s c) = tl (s_rest s).
Proof. unfold step. destruct (mem_N c in_forward_0); [reflexivity|]. destruct (negb (c =? c_bom)); reflexivity. Qed.

Lemma rest_after : forall a s t, s_rest s = a ++ t -> s_rest (after s a) = t.
Proof.
  induction a as [|c a IH]; intros s t H; [exact H|].
  rewrite after_cons. apply IH. rewrite rest_step, H. reflexivity.
Qed.

Definition nocr (c : N) : Prop := c <> c_cr.

Lemma forward1_step s c r : s_rest s = c :: r -> c <> c_cr -> forward1 s = Ok (step s c).
Proof.
  intros Hr Hc. unfold forward1, step. rewrite Hr. cbn [tl].
  destruct (mem_N c in_forward_0); [reflexivity|].
  apply N.eqb_neq in Hc. rewrite Hc. destruct (negb (c =? c_bom)); reflexivity.
Qed.

Lemma forward_after : forall a s t, Forall nocr a -> s_rest s = a ++ t ->
  forward s (length a) = Ok (after s a).
Proof.
  induction a as [|c a IH]; intros s t HF Hr; [reflexivity|].
  inversion HF as [|? ? Hc HF']; subst. cbn [length forward].
  rewrite (forward1_step s c (a ++ t) Hr Hc). cbn [bind]. rewrite after_cons.
  apply (IH _ t HF'). rewrite rest_step, Hr. reflexivity.
Qed.

(* characters that advance the column by one *)
Definition colc (c : N) : Prop := mem_N c in_forward_0 = false /\ c <> c_bom.

Lemma col_step s c : colc c -> s_col (step s c) = s_col s + 1.
Proof.
  intros [H1 H2]. unfold step. rewrite H1. apply N.eqb_neq in H2. rewrite H2. reflexivity.
Qed.

Lemma col_after : forall a s, Forall colc a -> s_col (after s a) = s_col s + N.of_nat (length a).
Proof.
  induction a as [|c a IH]; intros s HF; [cbn; lia|].
  inversion HF as [|? ? Hc HF']; subst. rewrite after_cons, (IH _ HF'), (col_step _ _ Hc).
  cbn [length]. lia.
Qed.

Lemma F_lf_fwd : mem_N 10 in_forward_0 = true. Proof. reflexivity. Qed.

Lemma col_after_lf s a : s_col (after s (a ++ [10])) = 0.
Proof. rewrite after_app. cbn [after fold_left]. unfold step. rewrite F_lf_fwd. reflexivity. Qed.

Lemma col_after_lf_then s a b : Forall colc b ->
  s_col (after s (a ++ [10] ++ b)) = N.of_nat (length b).
Proof.
  intros HF. rewrite app_assoc, after_app, (col_after _ _ HF), col_after_lf. lia.
Qed.

Lemma nls_snoc k : nls (S k) = nls k ++ [10].
Proof. unfold nls. induction k as [|k IH]; [reflexivity|]. cbn [repeat app] in *. rewrite <- IH. reflexivity. Qed.

Lemma col_after_nls s a k b : Forall colc b ->
  s_col (after s (a ++ [10] ++ nls k ++ b)) = N.of_nat (length b).
Proof.
  intros HF. destruct k as [|k].
  - cbn [nls repeat app]. apply (col_after_lf_then s a b HF).
  - rewrite nls_snoc. replace (a ++ [10] ++ (nls k ++ [10]) ++ b) with ((a ++ [10] ++ nls k) ++ [10] ++ b)
      by (rewrite <- !app_assoc; reflexivity).
    apply col_after_lf_then. exact HF.
Qed.

Lemma bl_cons n ns : bl (n :: ns) = sp n ++ [10] ++ bl ns.
Proof. unfold bl. cbn [map concat]. rewrite <- app_assoc. reflexivity. Qed.

Lemma bl_app a b : bl (a ++ b) = bl a ++ bl b.
Proof. unfold bl. rewrite map_app, concat_app. reflexivity. Qed.

Lemma bl_ends ns : ns <> [] -> exists a, bl ns = a ++ [10].
Proof.
  intros H. destruct (exists_last H) as [ms [m ->]]. rewrite bl_app. unfold bl at 2. cbn [map concat].
  rewrite app_nil_r. eexists. rewrite app_assoc. reflexivity.
Qed.

Lemma bl_repeat k : bl (repeat O k) = nls k.
Proof. induction k as [|k IH]; [reflexivity|]. cbn [repeat]. rewrite bl_cons, IH. reflexivity. Qed.

Lemma bl_length ns : (length ns <= length (bl ns))%nat.
Proof.
  induction ns as [|n ns IH]; [cbn; lia|]. rewrite bl_cons, !app_length. cbn [length]. lia.
Qed.

Lemma col_after_bl s a ks b : Forall colc b ->
  s_col (after s (a ++ [10] ++ bl ks ++ b)) = N.of_nat (length b).
Proof.
  intros HF. destruct ks as [|k ks].
  - cbn [bl map concat app]. apply (col_after_lf_then s a b HF).
  - destruct (bl_ends (k :: ks)) as [x Hx]; [discriminate|]. rewrite Hx.
    replace (a ++ [10] ++ (x ++ [10]) ++ b) with ((a ++ [10] ++ x) ++ [10] ++ b)
      by (rewrite <- !app_assoc; reflexivity).
    apply col_after_lf_then. exact HF.
Qed.

(* ------------------------------------------------------------------ character classes of the spec *)

(* unfolds every table to a boolean formula over comparisons and lets lia decide *)
Ltac charfact :=
  unfold colc, nocr in *; unfold txtc in *;
  unfold okc, wsc, is_end, mem_N, is_lf,
    c_space, c_tab, c_hash, c_colon, c_squote, c_dquote, c_bslash, c_plus, c_gt, c_cr, c_lf, c_bom,
    CHARS_END, in_forward_0, in_scan_to_next_token_0, in_scan_plain_scalar_0, in_scan_plain_scalar_1,
    in_scan_plain_spaces_0, in_scan_plain_spaces_1, in_scan_line_break_0, in_scan_line_break_1,
    in_scan_flow_scalar_non_spaces_0, in_scan_flow_scalar_non_spaces_1, in_scan_flow_scalar_non_spaces_3,
    in_scan_flow_scalar_spaces_0, in_scan_flow_scalar_spaces_1, in_scan_flow_scalar_breaks_0,
    in_scan_flow_scalar_breaks_1, in_scan_block_scalar_0, in_scan_block_scalar_1, in_scan_block_scalar_2,
    in_scan_block_scalar_indicators_0, in_scan_block_scalar_indicators_1, in_scan_block_scalar_indicators_2,
    in_scan_block_scalar_indicators_3, in_scan_block_scalar_indicators_4,
    in_scan_block_scalar_ignored_line_0, in_scan_block_scalar_ignored_line_1,
    in_scan_block_scalar_indentation_0, in_scan_block_scalar_breaks_0,
    in_tokenize_0, in_tokenize_1, in_tokenize_2 in *;
  cbn [existsb str_eqb] in *; lia.

Lemma txtc_colc c : txtc c = true -> colc c. Proof. intros H. split; charfact. Qed.
Lemma txtc_nocr c : txtc c = true -> nocr c. Proof. intros H. charfact. Qed.
Lemma okc_txtc c : okc c = true -> txtc c = true. Proof. unfold txtc. intros ->. reflexivity. Qed.
Lemma space_colc : colc 32. Proof. split; charfact. Qed.
Lemma space_nocr : nocr 32. Proof. charfact. Qed.

Lemma Forall_txtc_colc a : forallb txtc a = true -> Forall colc a.
Proof. rewrite forallb_forall. intros H. apply Forall_forall. intros c Hc. apply txtc_colc. auto. Qed.
Lemma Forall_txtc_nocr a : forallb txtc a = true -> Forall nocr a.
Proof. rewrite forallb_forall. intros H. apply Forall_forall. intros c Hc. apply txtc_nocr. auto. Qed.
Lemma forallb_okc_txtc a : forallb okc a = true -> forallb txtc a = true.
Proof. rewrite !forallb_forall. intros H c Hc. apply okc_txtc. auto. Qed.

Lemma sp_colc n : Forall colc (sp n).
Proof. unfold sp. apply Forall_forall. intros c Hc. apply repeat_spec in Hc. subst. apply space_colc. Qed.
Lemma sp_nocr n : Forall nocr (sp n).
Proof. unfold sp. apply Forall_forall. intros c Hc. apply repeat_spec in Hc. subst. apply space_nocr. Qed.
Lemma sp_length n : length (sp n) = n. Proof. apply repeat_length. Qed.
Lemma nls_length n : length (nls n) = n. Proof. apply repeat_length. Qed.
Lemma lf_nocr : nocr 10. Proof. charfact. Qed.
Lemma nls_nocr n : Forall nocr (nls n).
Proof. unfold nls. apply Forall_forall. intros c Hc. apply repeat_spec in Hc. subst. apply lf_nocr. Qed.

Lemma bl_nocr ns : Forall nocr (bl ns).
Proof.
  induction ns as [|n ns IH]; [constructor|]. rewrite bl_cons. apply Forall_app. split; [apply sp_nocr|].
  constructor; [apply lf_nocr | exact IH].
Qed.

Lemma sp_S n : sp (S n) = 32 :: sp n. Proof. reflexivity. Qed.
Lemma nls_S n : nls (S n) = 10 :: nls n. Proof. reflexivity. Qed.

(* ------------------------------------------------------------------ peek / count / skip *)

Lemma peek0 s c r : s_rest s = c :: r -> peek s 0 = Ok c.
Proof. intros H. unfold peek. rewrite H. reflexivity. Qed.

Lemma peek_after s a c r : s_rest s = a ++ c :: r -> peek (after s a) 0 = Ok c.
Proof. intros H. eapply peek0. apply rest_after. exact H. Qed.

Lemma count_while_spec p : forall a x t, Forall (fun c => p c = true) a -> p x = false ->
  count_while p (a ++ x :: t) = Ok (length a).
Proof.
  induction a as [|c a IH]; intros x t HF Hx; cbn [app count_while length].
  - rewrite Hx. reflexivity.
  - inversion HF as [|? ? Hc HF']; subst. rewrite Hc, (IH _ _ HF' Hx). reflexivity.
Qed.

Lemma count_while_rest p s a x t : s_rest s = a ++ x :: t ->
  Forall (fun c => p c = true) a -> p x = false -> count_while p (s_rest s) = Ok (length a).
Proof. intros Hr HF Hx. rewrite Hr. apply count_while_spec; assumption. Qed.

Lemma prefix_app s a t : s_rest s = a ++ t -> prefix s (length a) = a.
Proof.
  intros H. unfold prefix. rewrite H, firstn_app, Nat.sub_diag, firstn_all. cbn. apply app_nil_r.
Qed.

Lemma skip_while_f_spec p : forall a fuel s x t,
  Forall (fun c => p c = true) a -> Forall nocr a -> p x = false ->
  s_rest s = a ++ x :: t -> (length a < fuel)%nat ->
  skip_while_f fuel p s = Ok (after s a).
Proof.
  induction a as [|c a IH]; intros fuel s x t HF HN Hx Hr Hf;
    (destruct fuel as [|f]; [cbn [length] in Hf; lia|]); cbn [skip_while_f].
  - rewrite (peek0 _ _ _ Hr). cbn [bind]. rewrite Hx. reflexivity.
  - cbn [app] in Hr. rewrite (peek0 _ _ _ Hr). cbn [bind].
    inversion HF as [|? ? Hc HF']; subst. inversion HN as [|? ? Hn HN']; subst. rewrite Hc.
    cbn [forward]. rewrite (forward1_step _ _ _ Hr Hn). cbn [bind]. rewrite after_cons.
    apply (IH f _ x t); auto.
    + rewrite rest_step, Hr. reflexivity.
    + cbn [length] in Hf. lia.
Qed.

Lemma skip_while_spec p a s x t :
  Forall (fun c => p c = true) a -> Forall nocr a -> p x = false ->
  s_rest s = a ++ x :: t -> skip_while p s = Ok (after s a).
Proof.
  intros. unfold skip_while. eapply skip_while_f_spec; eauto.
  unfold fuel_of. rewrite H2, app_length. lia.
Qed.

Lemma Forall_sp (P : N -> Prop) n : P 32 -> Forall P (sp n).
Proof. intros H. apply Forall_forall. intros c Hc. apply repeat_spec in Hc. subst. exact H. Qed.

Lemma Forall_nls (P : N -> Prop) n : P 10 -> Forall P (nls n).
Proof. intros H. apply Forall_forall. intros c Hc. apply repeat_spec in Hc. subst. exact H. Qed.

(* skipping the spaces before a non-space character *)
Lemma skip_spaces s n x t : x <> 32 -> s_rest s = sp n ++ x :: t ->
  skip_while (fun ch => ch =? c_space) s = Ok (after s (sp n)).
Proof.
  intros Hx Hr. eapply skip_while_spec; [| apply sp_nocr | | exact Hr].
  - apply Forall_sp. reflexivity.
  - cbn beta. unfold c_space. lia.
Qed.

(* ------------------------------------------------------------------ line breaks *)

Lemma scan_line_break_lf s t : s_rest s = 10 :: t -> scan_line_break s = Ok (after s [10], [10]).
Proof.
  intros Hr. unfold scan_line_break. rewrite (peek0 _ _ _ Hr). cbn [bind].
  replace (mem_N 10 in_scan_line_break_0) with true by reflexivity.
  assert (Hp : str_eqb (prefix s 2) [c_cr; c_lf] = false).
  { unfold prefix. rewrite Hr. destruct t; reflexivity. }
  rewrite Hp. cbn [forward]. rewrite (forward1_step _ _ _ Hr lf_nocr). reflexivity.
Qed.

Definition lbc (c : N) : bool := mem_N c in_scan_line_break_0 || mem_N c in_scan_line_break_1.

Lemma scan_line_break_none s c t : s_rest s = c :: t -> lbc c = false -> scan_line_break s = Ok (s, []).
Proof.
  intros Hr Hl. unfold scan_line_break. rewrite (peek0 _ _ _ Hr). cbn [bind].
  unfold lbc in Hl. apply orb_false_iff in Hl as [H0 H1]. rewrite H0, H1. reflexivity.
Qed.

(* ------------------------------------------------------------------ _scan_to_next_token *)

(* the tail of a line: spaces, an optional comment, a line feed *)
Definition ltail : Type := (nat * option str)%type.
Definition print_ltail (x : ltail) : str := sp (fst x) ++ print_comment (snd x) ++ [10].
Definition print_ltails (xs : list ltail) : str := concat (map print_ltail xs).
Definition wf_ltail (x : ltail) : bool :=
  match snd x with Some t => forallb txtc t | None => true end.

(* a character at which _scan_to_next_token stops *)
Definition stopc (c : N) : Prop := c <> 32 /\ c <> 35 /\ lbc c = false /\ c <> c_bom.

Lemma stnt_f_spec : forall xs fuel s k c t,
  forallb wf_ltail xs = true -> stopc c ->
  s_rest s = print_ltails xs ++ sp k ++ c :: t -> (length xs < fuel)%nat ->
  scan_to_next_token_f fuel s = Ok (after s (print_ltails xs ++ sp k)).
Proof.
  induction xs as [|[n cm] xs IH]; intros fuel s k c t Hwf Hc Hr Hf;
    (destruct fuel as [|f]; [cbn [length] in Hf; lia|]); cbn [scan_to_next_token_f].
  - cbn [print_ltails map concat app] in *. destruct Hc as (H1 & H2 & H3 & H4).
    rewrite (skip_spaces s k c t H1 Hr). cbn [bind].
    rewrite (peek_after _ _ _ _ Hr). cbn [bind].
    replace (c =? c_hash) with false by (unfold c_hash; lia). cbn [bind].
    rewrite (scan_line_break_none _ c t (rest_after _ _ _ Hr) H3). cbn [bind nonempty negb]. reflexivity.
  - cbn [forallb] in Hwf. apply andb_true_iff in Hwf as [Hw1 Hw2].
    unfold print_ltails in *. cbn [map concat] in *. unfold print_ltail at 1 in Hr. cbn [fst snd] in Hr.
    set (REST := concat (map print_ltail xs) ++ sp k ++ c :: t) in *.
    assert (Hr1 : s_rest s = sp n ++ (print_comment cm ++ [10]) ++ REST).
    { rewrite Hr. unfold REST. rewrite <- !app_assoc. reflexivity. }
    assert (Hstep : exists x t', (print_comment cm ++ [10]) ++ REST = x :: t' /\ x <> 32).
    { destruct cm as [tx|]; cbn [print_comment app]; eexists; eexists; (split; [reflexivity | lia]). }
    destruct Hstep as [x [t' [Hxt Hx]]]. rewrite Hxt in Hr1.
    rewrite (skip_spaces s n x t' Hx Hr1). cbn [bind].
    rewrite (peek_after _ _ _ _ Hr1). cbn [bind].
    set (s1 := after s (sp n)) in *.
    assert (Hrs1 : s_rest s1 = (print_comment cm ++ [10]) ++ REST).
    { unfold s1. rewrite (rest_after _ _ _ Hr1). symmetry. exact Hxt. }
    (* the comment, if any *)
    assert (Hcm : exists s2, (if x =? c_hash
                              then skip_while (fun ch => negb (mem_N ch in_scan_to_next_token_0)) s1
                              else Ok s1) = Ok s2 /\ s2 = after s1 (print_comment cm)).
    { destruct cm as [tx|]; cbn [print_comment app] in *.
      - inversion Hxt; subst x. replace (35 =? c_hash) with true by reflexivity.
        eexists. split; [|reflexivity].
        cbn [wf_ltail snd] in Hw1.
        eapply (skip_while_spec _ (35 :: tx) s1 10 REST).
        + constructor; [reflexivity|]. apply Forall_forall. intros ch Hch.
          rewrite forallb_forall in Hw1. specialize (Hw1 _ Hch). charfact.
        + constructor; [charfact | apply Forall_txtc_nocr; assumption].
        + reflexivity.
        + rewrite Hrs1. cbn [app]. rewrite <- app_assoc. reflexivity.
      - inversion Hxt; subst x. replace (10 =? c_hash) with false by reflexivity.
        eexists. split; reflexivity. }
    destruct Hcm as [s2 [Hcm ->]]. rewrite Hcm. cbn [bind].
    assert (Hrs2 : s_rest (after s1 (print_comment cm)) = 10 :: REST).
    { apply rest_after. rewrite Hrs1, <- app_assoc. reflexivity. }
    rewrite (scan_line_break_lf _ _ Hrs2). cbn [bind nonempty negb].
    rewrite (IH f _ k c t Hw2 Hc).
    + unfold s1. rewrite <- !after_app. f_equal. unfold print_ltail. cbn [fst snd].
      rewrite <- !app_assoc. reflexivity.
    + apply rest_after. rewrite Hrs2. reflexivity.
    + cbn [length] in Hf. lia.
Qed.

Lemma concat_length_ge {A} (f : A -> str) l :
  (forall x, In x l -> (1 <= length (f x))%nat) -> (length l <= length (concat (map f l)))%nat.
Proof.
  induction l as [|x l IH]; intros H; cbn [map concat length]; [lia|].
  rewrite app_length. specialize (H x (or_introl eq_refl)) as Hx.
  assert (length l <= length (concat (map f l)))%nat by (apply IH; intros; apply H; right; assumption).
  lia.
Qed.

Lemma print_ltails_length xs : (length xs <= length (print_ltails xs))%nat.
Proof.
  apply concat_length_ge. intros [n cm] _. unfold print_ltail. rewrite !app_length. cbn [length]. lia.
Qed.

Lemma stnt_spec xs s k c t :
  forallb wf_ltail xs = true -> stopc c ->
  s_rest s = print_ltails xs ++ sp k ++ c :: t ->
  scan_to_next_token s = Ok (after s (print_ltails xs ++ sp k)).
Proof.
  intros Hwf Hc Hr. unfold scan_to_next_token.
  assert (H0 : (if s_idx s =? 0 then do ch <- peek s 0; if ch =? c_bom then forward s 1 else Ok s else Ok s) = Ok s).
  { destruct (s_idx s =? 0); [|reflexivity].
    assert (Hh : exists x t', s_rest s = x :: t' /\ x <> c_bom).
    { rewrite Hr. destruct xs as [|[n cm] xs].
      - cbn [print_ltails map concat app]. destruct k; cbn [sp repeat app].
        + eexists; eexists; split; [reflexivity | apply Hc].
        + eexists; eexists; split; [reflexivity | unfold c_bom; lia].
      - unfold print_ltails. cbn [map concat]. unfold print_ltail at 1. cbn [fst snd].
        destruct n; cbn [sp repeat app].
        + destruct cm; cbn [print_comment app]; eexists; eexists; (split; [reflexivity | unfold c_bom; lia]).
        + eexists; eexists; split; [reflexivity | unfold c_bom; lia]. }
    destruct Hh as [x [t' [Hx Hb]]]. rewrite (peek0 _ _ _ Hx). cbn [bind].
    apply N.eqb_neq in Hb. rewrite Hb. reflexivity. }
  rewrite H0. cbn [bind]. eapply stnt_f_spec; eauto.
  unfold fuel_of. rewrite Hr, app_length. pose proof (print_ltails_length xs). lia.
Qed.

(* ------------------------------------------------------------------ the end of the text without a final line break *)

Definition comment_txt (cm : option str) : bool := match cm with Some t => forallb txtc t | None => true end.

(* line tails followed by an arbitrary ending E on which one round of the loop stops *)
Lemma stnt_f_gen (E EC : str) :
  (forall f s, s_rest s = E -> scan_to_next_token_f (S f) s = Ok (after s EC)) ->
  (exists x t', E = x :: t') ->
  forall xs fuel s, forallb wf_ltail xs = true ->
  s_rest s = print_ltails xs ++ E -> (length xs < fuel)%nat ->
  scan_to_next_token_f fuel s = Ok (after s (print_ltails xs ++ EC)).
Proof.
  intros HE HEne.
  induction xs as [|[n cm] xs IH]; intros fuel s Hwf Hr Hf;
    (destruct fuel as [|f]; [cbn [length] in Hf; lia|]).
  - cbn [print_ltails map concat app] in *. apply HE. exact Hr.
  - cbn [scan_to_next_token_f].
    cbn [forallb] in Hwf. apply andb_true_iff in Hwf as [Hw1 Hw2].
    unfold print_ltails in *. cbn [map concat] in *. unfold print_ltail at 1 in Hr. cbn [fst snd] in Hr.
    set (REST := concat (map print_ltail xs) ++ E) in *.
    assert (Hr1 : s_rest s = sp n ++ (print_comment cm ++ [10]) ++ REST).
    { rewrite Hr. unfold REST. rewrite <- !app_assoc. reflexivity. }
    assert (Hstep : exists x t', (print_comment cm ++ [10]) ++ REST = x :: t' /\ x <> 32).
    { destruct cm as [tx|]; cbn [print_comment app]; eexists; eexists; (split; [reflexivity | lia]). }
    destruct Hstep as [x [t' [Hxt Hx]]]. rewrite Hxt in Hr1.
    rewrite (skip_spaces s n x t' Hx Hr1). cbn [bind].
    rewrite (peek_after _ _ _ _ Hr1). cbn [bind].
    set (s1 := after s (sp n)) in *.
    assert (Hrs1 : s_rest s1 = (print_comment cm ++ [10]) ++ REST).
    { unfold s1. rewrite (rest_after _ _ _ Hr1). symmetry. exact Hxt. }
    assert (Hcm : exists s2, (if x =? c_hash
                              then skip_while (fun ch => negb (mem_N ch in_scan_to_next_token_0)) s1
                              else Ok s1) = Ok s2 /\ s2 = after s1 (print_comment cm)).
    { destruct cm as [tx|]; cbn [print_comment app] in *.
      - inversion Hxt; subst x. replace (35 =? c_hash) with true by reflexivity.
        eexists. split; [|reflexivity].
        cbn [wf_ltail snd] in Hw1.
        eapply (skip_while_spec _ (35 :: tx) s1 10 REST).
        + constructor; [reflexivity|]. apply Forall_forall. intros ch Hch.
          rewrite forallb_forall in Hw1. specialize (Hw1 _ Hch). charfact.
        + constructor; [charfact | apply Forall_txtc_nocr; assumption].
        + reflexivity.
        + rewrite Hrs1. cbn [app]. rewrite <- app_assoc. reflexivity.
      - inversion Hxt; subst x. replace (10 =? c_hash) with false by reflexivity.
        eexists. split; reflexivity. }
    destruct Hcm as [s2 [Hcm ->]]. rewrite Hcm. cbn [bind].
    assert (Hrs2 : s_rest (after s1 (print_comment cm)) = 10 :: REST).
    { apply rest_after. rewrite Hrs1, <- app_assoc. reflexivity. }
    rewrite (scan_line_break_lf _ _ Hrs2). cbn [bind nonempty negb].
    rewrite (IH f _ Hw2).
    + unfold s1. rewrite <- !after_app. f_equal. unfold print_ltail. cbn [fst snd].
      rewrite <- !app_assoc. reflexivity.
    + apply rest_after. rewrite Hrs2. reflexivity.
    + cbn [length] in Hf. lia.
Qed.

(* one round on spaces, an optional comment and the end of the text *)
Lemma stnt_f_end f s k cm : comment_txt cm = true ->
  s_rest s = sp k ++ print_comment cm ++ [0] ->
  scan_to_next_token_f (S f) s = Ok (after s (sp k ++ print_comment cm)).
Proof.
  intros Hcm Hr. cbn [scan_to_next_token_f].
  assert (Hx : exists x t', print_comment cm ++ [0] = x :: t' /\ x <> 32).
  { destruct cm; cbn [print_comment app]; eexists; eexists; (split; [reflexivity | lia]). }
  destruct Hx as (x & t' & Ex & Hx). rewrite Ex in Hr.
  rewrite (skip_spaces s k x t' Hx Hr). cbn [bind]. rewrite (peek_after _ _ _ _ Hr). cbn [bind].
  set (s1 := after s (sp k)) in *.
  assert (Hr1 : s_rest s1 = print_comment cm ++ [0]) by (unfold s1; rewrite (rest_after _ _ _ Hr); symmetry; exact Ex).
  assert (Hc : (if x =? c_hash
                then skip_while (fun ch => negb (mem_N ch in_scan_to_next_token_0)) s1
                else Ok s1) = Ok (after s1 (print_comment cm))).
  { destruct cm as [tx|]; cbn [print_comment app comment_txt] in *.
    - inversion Ex; subst x. replace (35 =? c_hash) with true by reflexivity.
      apply (skip_while_spec _ (35 :: tx) s1 0 []).
      + constructor; [reflexivity|]. apply Forall_forall. intros ch Hch.
        rewrite forallb_forall in Hcm. specialize (Hcm _ Hch). charfact.
      + constructor; [charfact | apply Forall_txtc_nocr; assumption].
      + reflexivity.
      + exact Hr1.
    - inversion Ex; subst x. reflexivity. }
  rewrite Hc. cbn [bind].
  assert (Hr2 : s_rest (after s1 (print_comment cm)) = [0]) by (apply rest_after; exact Hr1).
  rewrite (scan_line_break_none _ 0 [] Hr2 eq_refl). cbn [bind nonempty negb].
  unfold s1. rewrite <- after_app. reflexivity.
Qed.

Lemma stnt_spec_end xs s k cm : forallb wf_ltail xs = true -> comment_txt cm = true ->
  s_rest s = print_ltails xs ++ sp k ++ print_comment cm ++ [0] ->
  scan_to_next_token s = Ok (after s (print_ltails xs ++ sp k ++ print_comment cm)).
Proof.
  intros Hwf Hcm Hr. unfold scan_to_next_token.
  assert (H0 : (if s_idx s =? 0 then do ch <- peek s 0; if ch =? c_bom then forward s 1 else Ok s else Ok s) = Ok s).
  { destruct (s_idx s =? 0); [|reflexivity].
    assert (Hh : exists x t', s_rest s = x :: t' /\ x <> c_bom).
    { rewrite Hr. destruct xs as [|[n c] xs].
      - cbn [print_ltails map concat app]. destruct k; cbn [sp repeat app].
        + destruct cm; cbn [print_comment app]; eexists; eexists; (split; [reflexivity | unfold c_bom; lia]).
        + eexists; eexists; split; [reflexivity | unfold c_bom; lia].
      - unfold print_ltails. cbn [map concat]. unfold print_ltail at 1. cbn [fst snd].
        destruct n; cbn [sp repeat app].
        + destruct c; cbn [print_comment app]; eexists; eexists; (split; [reflexivity | unfold c_bom; lia]).
        + eexists; eexists; split; [reflexivity | unfold c_bom; lia]. }
    destruct Hh as [x [t' [Hx Hb]]]. rewrite (peek0 _ _ _ Hx). cbn [bind].
    apply N.eqb_neq in Hb. rewrite Hb. reflexivity. }
  rewrite H0. cbn [bind].
  apply (stnt_f_gen (sp k ++ print_comment cm ++ [0]) (sp k ++ print_comment cm)).
  - intros f s' Hs'. apply stnt_f_end; assumption.
  - destruct k; cbn [sp repeat app]; [destruct cm; cbn [print_comment app]|]; eauto.
  - exact Hwf.
  - exact Hr.
  - unfold fuel_of. rewrite Hr, app_length. pose proof (print_ltails_length xs). lia.
Qed.
