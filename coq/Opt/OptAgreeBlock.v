(* Agreement, block scalars: _scan_block_scalar and its helpers on the printed form of literal
   and folded scalars with every header form (chomping and indentation indicators in both
   orders, header comment), leading / inner / trailing blank lines. *)
From Coq Require Import List NArith Bool Lia ZifyBool Arith.
From MV Require Import Base.PyStr.
From MV Require Import Base.Res.
From MV Require Import Gen.OptConsts.
From MV Require Import Opt.OptModel.
From MV Require Import Opt.YamlSpec.
From MV Require Import Opt.OptAgreeBase.
From MV Require Import Opt.OptAgreePlain.
From MV Require Import Opt.OptAgree.
Import ListNotations.
Open Scope N_scope.

(* ------------------------------------------------------------------ header *)

Definition chomp_opt (c : chomp) : option bool :=
  match c with Clip => None | Strip => Some false | Keep => Some true end.

Definition print_inds (h : header) (indent : nat) : str :=
  let ind := if h_explicit h then [48 + N.of_nat indent] else [] in
  if h_chomp_first h then print_chomp (h_chomp h) ++ ind else ind ++ print_chomp (h_chomp h).

Lemma digit_facts i : (1 <= i <= 9)%nat ->
  let d := 48 + N.of_nat i in
  mem_N d in_scan_block_scalar_indicators_0 = false /\
  mem_N d in_scan_block_scalar_indicators_1 = true /\
  mem_N d in_scan_block_scalar_indicators_2 = true /\
  digit_val d = Ok (N.of_nat i) /\ (N.of_nat i =? 0) = false /\ d <> c_cr.
Proof.
  intros H. do 10 (destruct i as [|i]; [try lia; repeat split; discriminate|]). lia.
Qed.

Lemma scan_block_scalar_indicators_spec h indent s x t :
  (h_explicit h = true -> (1 <= indent <= 9)%nat) ->
  (x = 32 \/ x = 10) ->
  s_rest s = print_inds h indent ++ x :: t ->
  scan_block_scalar_indicators s =
  Ok (after s (print_inds h indent), chomp_opt (h_chomp h),
      if h_explicit h then Some (N.of_nat indent) else None).
Proof.
  intros Hind Hx Hr. unfold scan_block_scalar_indicators.
  assert (Hx4 : mem_N x in_scan_block_scalar_indicators_4 = true) by (destruct Hx; subst; reflexivity).
  assert (Hx0 : mem_N x in_scan_block_scalar_indicators_0 = false) by (destruct Hx; subst; reflexivity).
  assert (Hx1 : mem_N x in_scan_block_scalar_indicators_1 = false) by (destruct Hx; subst; reflexivity).
  assert (Hx2 : mem_N x in_scan_block_scalar_indicators_2 = false) by (destruct Hx; subst; reflexivity).
  assert (Hx3 : mem_N x in_scan_block_scalar_indicators_3 = false) by (destruct Hx; subst; reflexivity).
  unfold print_inds in *.
  destruct h as [ch expl cf hsp hcm]. cbn [h_explicit h_chomp h_chomp_first] in *.
  destruct expl.
  - destruct (digit_facts indent (Hind eq_refl)) as (D0 & D1 & D2 & Dv & Dz & Dcr). cbn zeta in *.
    set (d := 48 + N.of_nat indent) in *.
    assert (Fd : forall s' t', s_rest s' = d :: t' -> forward s' 1 = Ok (after s' [d])).
    { intros s' t' H. apply (forward_after [d] s' t'); [repeat constructor; exact Dcr | exact H]. }
    assert (Fc : forall c s' t', c = 45 \/ c = 43 -> s_rest s' = c :: t' -> forward s' 1 = Ok (after s' [c])).
    { intros c s' t' Hc H. apply (forward_after [c] s' t'); [repeat constructor; destruct Hc; subst; discriminate | exact H]. }
    destruct ch; cbn [print_chomp chomp_opt app] in *.
    + (* clip: only the digit, whatever the order flag *)
      assert (Hr' : s_rest s = d :: x :: t) by (destruct cf; cbn [app] in Hr; rewrite ?app_nil_r in Hr; exact Hr).
      rewrite (peek0 _ _ _ Hr'). cbn [bind]. rewrite D0, D2, Dv. cbn [bind]. rewrite Dz.
      rewrite (Fd _ _ Hr'). cbn [bind].
      assert (Hr1 : s_rest (after s [d]) = x :: t) by (apply (rest_after [d]); exact Hr').
      rewrite (peek0 _ _ _ Hr1). cbn [bind]. rewrite Hx3. cbn [bind]. rewrite (peek0 _ _ _ Hr1). cbn [bind].
      rewrite Hx4. cbn [negb]. destruct cf; cbn [app]; rewrite ?app_nil_r; reflexivity.
    + destruct cf; cbn [app] in Hr.
      * (* -d *)
        rewrite (peek0 _ _ _ Hr). cbn [bind]. replace (mem_N 45 in_scan_block_scalar_indicators_0) with true by reflexivity.
        rewrite (Fc 45 _ _ (or_introl eq_refl) Hr). cbn [bind].
        assert (Hr1 : s_rest (after s [45]) = d :: x :: t) by (apply (rest_after [45]); exact Hr).
        rewrite (peek0 _ _ _ Hr1). cbn [bind]. rewrite D1, Dv. cbn [bind]. rewrite Dz.
        rewrite (Fd _ _ Hr1). cbn [bind].
        assert (Hr2 : s_rest (after (after s [45]) [d]) = x :: t) by (apply (rest_after [d]); exact Hr1).
        rewrite (peek0 _ _ _ Hr2). cbn [bind]. rewrite Hx4. cbn [negb]. rewrite <- after_app. reflexivity.
      * (* d- *)
        rewrite (peek0 _ _ _ Hr). cbn [bind]. rewrite D0, D2, Dv. cbn [bind]. rewrite Dz.
        rewrite (Fd _ _ Hr). cbn [bind].
        assert (Hr1 : s_rest (after s [d]) = 45 :: x :: t) by (apply (rest_after [d]); exact Hr).
        rewrite (peek0 _ _ _ Hr1). cbn [bind]. replace (mem_N 45 in_scan_block_scalar_indicators_3) with true by reflexivity.
        rewrite (Fc 45 _ _ (or_introl eq_refl) Hr1). cbn [bind].
        assert (Hr2 : s_rest (after (after s [d]) [45]) = x :: t) by (apply (rest_after [45]); exact Hr1).
        rewrite (peek0 _ _ _ Hr2). cbn [bind]. rewrite Hx4. cbn [negb]. rewrite <- after_app. reflexivity.
    + destruct cf; cbn [app] in Hr.
      * (* +d *)
        rewrite (peek0 _ _ _ Hr). cbn [bind]. replace (mem_N 43 in_scan_block_scalar_indicators_0) with true by reflexivity.
        rewrite (Fc 43 _ _ (or_intror eq_refl) Hr). cbn [bind].
        assert (Hr1 : s_rest (after s [43]) = d :: x :: t) by (apply (rest_after [43]); exact Hr).
        rewrite (peek0 _ _ _ Hr1). cbn [bind]. rewrite D1, Dv. cbn [bind]. rewrite Dz.
        rewrite (Fd _ _ Hr1). cbn [bind].
        assert (Hr2 : s_rest (after (after s [43]) [d]) = x :: t) by (apply (rest_after [d]); exact Hr1).
        rewrite (peek0 _ _ _ Hr2). cbn [bind]. rewrite Hx4. cbn [negb]. rewrite <- after_app. reflexivity.
      * (* d+ *)
        rewrite (peek0 _ _ _ Hr). cbn [bind]. rewrite D0, D2, Dv. cbn [bind]. rewrite Dz.
        rewrite (Fd _ _ Hr). cbn [bind].
        assert (Hr1 : s_rest (after s [d]) = 43 :: x :: t) by (apply (rest_after [d]); exact Hr).
        rewrite (peek0 _ _ _ Hr1). cbn [bind]. replace (mem_N 43 in_scan_block_scalar_indicators_3) with true by reflexivity.
        rewrite (Fc 43 _ _ (or_intror eq_refl) Hr1). cbn [bind].
        assert (Hr2 : s_rest (after (after s [d]) [43]) = x :: t) by (apply (rest_after [43]); exact Hr1).
        rewrite (peek0 _ _ _ Hr2). cbn [bind]. rewrite Hx4. cbn [negb]. rewrite <- after_app. reflexivity.
  - (* no indentation indicator *)
    assert (Fc : forall c s' t', c = 45 \/ c = 43 -> s_rest s' = c :: t' -> forward s' 1 = Ok (after s' [c])).
    { intros c s' t' Hc H. apply (forward_after [c] s' t'); [repeat constructor; destruct Hc; subst; discriminate | exact H]. }
    destruct ch; cbn [print_chomp chomp_opt app] in *.
    + assert (Hr' : s_rest s = x :: t) by (destruct cf; exact Hr).
      rewrite (peek0 _ _ _ Hr'). cbn [bind]. rewrite Hx0, Hx2. cbn [bind]. rewrite (peek0 _ _ _ Hr'). cbn [bind].
      rewrite Hx4. cbn [negb]. destruct cf; reflexivity.
    + assert (Hr' : s_rest s = 45 :: x :: t) by (destruct cf; exact Hr).
      rewrite (peek0 _ _ _ Hr'). cbn [bind]. replace (mem_N 45 in_scan_block_scalar_indicators_0) with true by reflexivity.
      rewrite (Fc 45 _ _ (or_introl eq_refl) Hr'). cbn [bind].
      assert (Hr1 : s_rest (after s [45]) = x :: t) by (apply (rest_after [45]); exact Hr').
      rewrite (peek0 _ _ _ Hr1). cbn [bind]. rewrite Hx1. cbn [bind]. rewrite (peek0 _ _ _ Hr1). cbn [bind].
      rewrite Hx4. cbn [negb]. destruct cf; reflexivity.
    + assert (Hr' : s_rest s = 43 :: x :: t) by (destruct cf; exact Hr).
      rewrite (peek0 _ _ _ Hr'). cbn [bind]. replace (mem_N 43 in_scan_block_scalar_indicators_0) with true by reflexivity.
      rewrite (Fc 43 _ _ (or_intror eq_refl) Hr'). cbn [bind].
      assert (Hr1 : s_rest (after s [43]) = x :: t) by (apply (rest_after [43]); exact Hr').
      rewrite (peek0 _ _ _ Hr1). cbn [bind]. rewrite Hx1. cbn [bind]. rewrite (peek0 _ _ _ Hr1). cbn [bind].
      rewrite Hx4. cbn [negb]. destruct cf; reflexivity.
Qed.

(* the rest of the header line: spaces, optional comment, line feed *)
Lemma scan_block_scalar_ignored_line_spec s hsp hcm t :
  comment_ok hsp hcm = true ->
  s_rest s = sp hsp ++ print_comment hcm ++ 10 :: t ->
  scan_block_scalar_ignored_line s = Ok (after s (sp hsp ++ print_comment hcm ++ [10])).
Proof.
  intros Hcm Hr. unfold scan_block_scalar_ignored_line.
  assert (Hx : exists x t', print_comment hcm ++ 10 :: t = x :: t' /\ x <> 32).
  { destruct hcm; cbn [print_comment app]; eexists; eexists; (split; [reflexivity | lia]). }
  destruct Hx as (x & t' & Ex & Hx). rewrite Ex in Hr.
  rewrite (skip_spaces s hsp x t' Hx Hr). cbn [bind].
  rewrite (peek_after _ _ _ _ Hr). cbn [bind].
  set (s1 := after s (sp hsp)) in *.
  assert (Hr1 : s_rest s1 = print_comment hcm ++ 10 :: t).
  { unfold s1. rewrite (rest_after _ _ _ Hr). symmetry. exact Ex. }
  assert (Hc : (if x =? c_hash
                then skip_while (fun ch => negb (mem_N ch in_scan_block_scalar_ignored_line_0)) s1
                else Ok s1) = Ok (after s1 (print_comment hcm))).
  { destruct hcm as [tc|]; cbn [print_comment app comment_ok] in *.
    - inversion Ex; subst x. replace (35 =? c_hash) with true by reflexivity.
      apply andb_true_iff in Hcm as [_ Htc].
      apply (skip_while_spec _ (35 :: tc) s1 10 t).
      + constructor; [reflexivity|]. apply Forall_forall. intros ch Hch.
        rewrite forallb_forall in Htc. specialize (Htc _ Hch). charfact.
      + constructor; [charfact | apply Forall_txtc_nocr; assumption].
      + reflexivity.
      + exact Hr1.
    - inversion Ex; subst x. replace (10 =? c_hash) with false by reflexivity. reflexivity. }
  rewrite Hc. cbn [bind].
  assert (Hr2 : s_rest (after s1 (print_comment hcm)) = 10 :: t) by (apply rest_after; exact Hr1).
  rewrite (peek0 _ _ _ Hr2). cbn [bind].
  replace (mem_N 10 in_scan_block_scalar_ignored_line_1) with true by reflexivity. cbn [negb].
  rewrite (scan_line_break_lf _ _ Hr2). cbn [bind fst].
  unfold s1. rewrite <- !after_app. reflexivity.
Qed.

(* ------------------------------------------------------------------ indentation *)

Lemma forward_space s t : s_rest s = 32 :: t -> forward s 1 = Ok (after s [32]).
Proof. intros H. apply (forward_after [32] s t); [repeat constructor; apply space_nocr | exact H]. Qed.

Lemma col_after_space s : s_col (after s [32]) = s_col s + 1.
Proof. cbn [after fold_left]. apply col_step. apply space_colc. Qed.

(* auto-detection: blank lines (with at most as many spaces) and the spaces of the first
   non-empty line *)
Lemma block_indentation_peel : forall n f s chunks m X, s_rest s = sp n ++ X ->
  block_indentation_f (n + f) s chunks m =
  block_indentation_f f (after s (sp n)) chunks
    (match n with O => m | _ => N.max m (s_col s + N.of_nat n) end).
Proof.
  induction n as [|n IH]; intros f s chunks m X Hr; [reflexivity|].
  cbn [plus block_indentation_f]. rewrite sp_S in *. cbn [app] in Hr.
  rewrite (peek0 _ _ _ Hr). cbn [bind].
  replace (mem_N 32 in_scan_block_scalar_indentation_0) with true by reflexivity.
  replace (32 =? c_space) with true by reflexivity. cbn [negb].
  rewrite (forward_space _ _ Hr). cbn [bind]. rewrite col_after_space.
  rewrite (IH f (after s [32]) chunks _ X); [| apply (rest_after [32]); exact Hr].
  change (after s (32 :: sp n)) with (after (after s [32]) (sp n)). f_equal.
  pose proof (col_after_space s) as Hcs.
  destruct n; [|rewrite Hcs]; destruct (m <? s_col s + 1) eqn:E; lia.
Qed.

Lemma block_indentation_spec : forall lead fuel s chunks m j x t,
  mem_N x in_scan_block_scalar_indentation_0 = false -> s_col s = 0 ->
  m <= N.of_nat j -> Forall (fun n => (n <= j)%nat) lead ->
  s_rest s = bl lead ++ sp j ++ x :: t -> (length (bl lead) + j < fuel)%nat ->
  block_indentation_f fuel s chunks m =
  Ok (after s (bl lead ++ sp j), chunks ++ repeat [10] (length lead), N.of_nat j).
Proof.
  induction lead as [|n lead IH]; intros fuel s chunks m j x t Hx Hcol Hm Hle Hr Hf.
  - cbn [bl map concat app length repeat] in *. rewrite app_nil_r.
    replace fuel with (j + (fuel - j))%nat by lia.
    rewrite (block_indentation_peel j _ s chunks m _ Hr).
    destruct (fuel - j)%nat as [|f] eqn:E; [lia|]. cbn [block_indentation_f].
    rewrite (peek_after _ _ _ _ Hr). cbn [bind]. rewrite Hx. f_equal. f_equal.
    rewrite Hcol. destruct j; lia.
  - rewrite bl_cons in *. rewrite !app_length, sp_length in Hf. cbn [length] in Hf.
    inversion Hle as [|? ? Hn Hle']; subst.
    assert (Hr0 : s_rest s = sp n ++ 10 :: (bl lead ++ sp j ++ x :: t)) by (rewrite Hr, <- !app_assoc; reflexivity).
    replace fuel with (n + (fuel - n))%nat by lia.
    rewrite (block_indentation_peel n _ s chunks m _ Hr0).
    destruct (fuel - n)%nat as [|f] eqn:E; [lia|]. cbn [block_indentation_f].
    pose proof (rest_after _ _ _ Hr0) as Hr1.
    rewrite (peek0 _ _ _ Hr1). cbn [bind].
    replace (mem_N 10 in_scan_block_scalar_indentation_0) with true by reflexivity.
    replace (10 =? c_space) with false by reflexivity. cbn [negb].
    rewrite (scan_line_break_lf _ _ Hr1). cbn [bind].
    rewrite (IH f _ (chunks ++ [[10]]) _ j x t Hx); [| | | exact Hle' | apply (rest_after [10]); exact Hr1 | lia].
    + cbn [length repeat]. rewrite <- !after_app, <- !app_assoc. reflexivity.
    + pose proof (col_after_lf (after s (sp n)) []) as H. cbn [app] in H. exact H.
    + rewrite Hcol. destruct n; lia.
Qed.

(* `while stream.column < indent and stream.peek() == " "` *)
Lemma skip_indent_f_spec indent : forall j fuel s x t,
  s_rest s = sp j ++ x :: t ->
  (s_col s + N.of_nat j = indent \/ (s_col s + N.of_nat j < indent /\ x <> 32)) ->
  (j < fuel)%nat ->
  skip_indent_f fuel indent s = Ok (after s (sp j)).
Proof.
  induction j as [|j IH]; intros fuel s x t Hr Hc Hf; (destruct fuel as [|f]; [lia|]);
    cbn [skip_indent_f sp repeat app] in *.
  - destruct Hc as [Hc|[Hc Hx]].
    + replace (s_col s <? indent) with false by lia. reflexivity.
    + replace (s_col s <? indent) with true by lia. rewrite (peek0 _ _ _ Hr). cbn [bind].
      replace (x =? c_space) with false by (unfold c_space; lia). reflexivity.
  - replace (s_col s <? indent) with true by lia. rewrite (peek0 _ _ _ Hr). cbn [bind].
    replace (32 =? c_space) with true by reflexivity.
    rewrite (forward_space _ _ Hr). cbn [bind].
    rewrite (IH f (after s [32]) x t); [reflexivity | apply (rest_after [32]); exact Hr | | lia].
    rewrite col_after_space. lia.
Qed.

Lemma skip_indent_spec indent j s x t :
  s_rest s = sp j ++ x :: t ->
  (s_col s + N.of_nat j = indent \/ (s_col s + N.of_nat j < indent /\ x <> 32)) ->
  skip_indent indent s = Ok (after s (sp j)).
Proof.
  intros Hr Hc. unfold skip_indent. eapply skip_indent_f_spec; eauto.
  unfold fuel_of. rewrite Hr, app_length, sp_length. lia.
Qed.

Definition indent_ok (indent : N) (j : nat) (x : N) : Prop :=
  N.of_nat j = indent \/ (N.of_nat j < indent /\ x <> 32).

Definition ble (indent : N) (ns : list nat) : Prop := Forall (fun n => N.of_nat n <= indent) ns.

(* a line feed, more blank lines (with at most [indent] spaces), then the indentation of the next line *)
Lemma block_breaks_lines indent : forall ns fuel s chunks j x t,
  mem_N x in_scan_block_scalar_breaks_0 = false -> 0 < indent -> indent_ok indent j x -> ble indent ns ->
  s_rest s = 10 :: bl ns ++ sp j ++ x :: t -> (S (length ns) < fuel)%nat ->
  block_breaks_f fuel indent s chunks =
  Ok (after s ([10] ++ bl ns ++ sp j), chunks ++ repeat [10] (S (length ns))).
Proof.
  induction ns as [|n ns IH]; intros fuel s chunks j x t Hx Hi Hj Hle Hr Hf;
    (destruct fuel as [|f]; [lia|]); cbn [block_breaks_f];
    rewrite (peek0 _ _ _ Hr); cbn [bind];
    replace (mem_N 10 in_scan_block_scalar_breaks_0) with true by reflexivity;
    rewrite (scan_line_break_lf _ _ Hr); cbn [bind];
    pose proof (col_after_lf s []) as Hc0; cbn [app] in Hc0;
    pose proof (rest_after [10] s _ Hr) as Hr1.
  - cbn [bl map concat app] in Hr1.
    rewrite (skip_indent_spec indent j _ x t Hr1); [| rewrite Hc0; destruct Hj as [Hj|Hj]; [left|right]; lia].
    cbn [bind]. destruct f as [|f]; [cbn [length] in Hf; lia|]. cbn [block_breaks_f].
    rewrite (peek_after _ _ _ _ Hr1). cbn [bind]. rewrite Hx.
    cbn [bl map concat app length repeat]. rewrite <- after_app. reflexivity.
  - rewrite bl_cons in Hr1. inversion Hle as [|? ? Hn Hle']; subst.
    assert (Hr1' : s_rest (after s [10]) = sp n ++ 10 :: (bl ns ++ sp j ++ x :: t)) by (rewrite Hr1, <- !app_assoc; reflexivity).
    rewrite (skip_indent_spec indent n _ 10 _ Hr1'); [| rewrite Hc0; destruct (N.eq_dec (N.of_nat n) indent); [left | right; split; [|discriminate]]; lia].
    cbn [bind].
    rewrite (IH f _ (chunks ++ [[10]]) j x t Hx Hi Hj Hle'); [| apply rest_after; exact Hr1' | cbn [length] in Hf; lia].
    rewrite bl_cons. cbn [length repeat]. rewrite <- !after_app, <- !app_assoc. reflexivity.
Qed.

Lemma scan_block_scalar_breaks_spec indent ns s j x t :
  mem_N x in_scan_block_scalar_breaks_0 = false -> 0 < indent -> indent_ok indent j x -> ble indent ns ->
  s_col s = 0 ->
  s_rest s = bl ns ++ sp j ++ x :: t ->
  scan_block_scalar_breaks s indent = Ok (after s (bl ns ++ sp j), repeat [10] (length ns)).
Proof.
  intros Hx Hi Hj Hle Hcol Hr. unfold scan_block_scalar_breaks. destruct ns as [|n ns].
  - cbn [bl map concat app] in *.
    rewrite (skip_indent_spec indent j s x t Hr); [| rewrite Hcol; destruct Hj as [Hj|Hj]; [left|right]; lia].
    cbn [bind]. unfold fuel_of. cbn [block_breaks_f].
    rewrite (peek_after _ _ _ _ Hr). cbn [bind]. rewrite Hx. reflexivity.
  - rewrite bl_cons in *. inversion Hle as [|? ? Hn Hle']; subst.
    assert (Hr0 : s_rest s = sp n ++ 10 :: (bl ns ++ sp j ++ x :: t)) by (rewrite Hr, <- !app_assoc; reflexivity).
    rewrite (skip_indent_spec indent n s 10 _ Hr0); [| rewrite Hcol; destruct (N.eq_dec (N.of_nat n) indent); [left | right; split; [|discriminate]]; lia].
    cbn [bind].
    pose proof (rest_after _ _ _ Hr0) as Hr1.
    rewrite (block_breaks_lines indent ns _ _ [] j x t Hx Hi Hj Hle' Hr1).
    + cbn [app length]. rewrite <- !after_app, <- !app_assoc. reflexivity.
    + unfold fuel_of. rewrite Hr1. cbn [length]. rewrite app_length. pose proof (bl_length ns). lia.
Qed.

(* ------------------------------------------------------------------ the content lines *)

Definition body_text (ind : nat) (more : list (list nat * str)) : str :=
  concat (map (fun '(ks, t) => bl ks ++ sp ind ++ t ++ [10]) more).

Lemma bl_le_ble ind ns : bl_le ind ns = true -> ble (N.of_nat ind) ns.
Proof.
  unfold bl_le, ble. rewrite forallb_forall. intros H. apply Forall_forall. intros n Hn.
  specialize (H _ Hn). apply Nat.leb_le in H. lia.
Qed.

Lemma wsc_bs0 c : mem_N c in_scan_block_scalar_0 = wsc c.
Proof. unfold wsc, mem_N, in_scan_block_scalar_0. cbn [existsb]. rewrite orb_false_r. reflexivity. Qed.
Lemma wsc_bs2 c : mem_N c in_scan_block_scalar_2 = wsc c.
Proof. unfold wsc, mem_N, in_scan_block_scalar_2. cbn [existsb]. rewrite orb_false_r. reflexivity. Qed.

Lemma wf_btext_inv t : wf_btext t = true -> exists c r, t = c :: r /\ txtc c = true /\ forallb txtc t = true.
Proof.
  unfold wf_btext. destruct t as [|c r]; [discriminate|]. cbn [is_nil negb andb]. intros H.
  exists c, r. split; [reflexivity|]. split; [|exact H]. cbn [forallb] in H. apply andb_true_iff in H. tauto.
Qed.

Lemma line_count s t rest' : forallb txtc t = true -> s_rest s = t ++ 10 :: rest' ->
  count_while (fun c => negb (mem_N c in_scan_block_scalar_1)) (s_rest s) = Ok (length t).
Proof.
  intros Ht Hr. apply (count_while_rest _ s t 10 rest' Hr); [|reflexivity].
  apply Forall_forall. intros c Hc. rewrite forallb_forall in Ht. specialize (Ht _ Hc). charfact.
Qed.

Lemma item_start_facts c : item_start c ->
  mem_N c in_scan_block_scalar_breaks_0 = false /\ c <> 32.
Proof.
  intros [H|[H|[H|[H|[H1 H2]]]]]; subst; try (split; [reflexivity | discriminate]). split; charfact.
Qed.

Lemma concat_snoc {A} (l : list (list A)) x : concat (l ++ [x]) = concat l ++ x.
Proof. rewrite concat_app. cbn [concat]. rewrite app_nil_r. reflexivity. Qed.

(* normalise both sides of an equation between concatenations *)
Ltac ccat := repeat rewrite concat_app; cbn [concat app]; repeat rewrite app_nil_r;
             repeat rewrite <- app_assoc; cbn [app]; try reflexivity.

Lemma block_lines_spec folded ind trail j c0 t0 : (ind <> 0)%nat -> (j < ind)%nat ->
  mem_N c0 in_scan_block_scalar_breaks_0 = false -> c0 <> 32 ->
  ble (N.of_nat ind) trail ->
  forall more fuel s ch t r chunks breaks,
  t = ch :: r -> forallb txtc t = true ->
  forallb (fun '(ks, t) => bl_le ind ks && wf_btext t) more = true ->
  s_col s = N.of_nat ind ->
  s_rest s = t ++ [10] ++ body_text ind more ++ bl trail ++ sp j ++ c0 :: t0 ->
  (length more < fuel)%nat ->
  exists chunks',
    block_lines_f fuel folded (N.of_nat ind) s ch chunks breaks =
    Ok (after s (t ++ [10] ++ body_text ind more ++ bl trail ++ sp j), chunks', [10], repeat [10] (length trail)) /\
    concat chunks' = concat chunks ++ concat breaks ++ t ++ block_body folded t more.
Proof.
  intros Hind Hj Hc0n Hc032 Htr.
  induction more as [|[k t'] more IH]; intros fuel s ch t r chunks breaks Et Ht Hmore Hcol Hr Hf;
    (destruct fuel as [|f]; [cbn [length] in Hf; lia|]); cbn [block_lines_f].
  - cbn [body_text map concat app] in *.
    rewrite (line_count s t _ Ht Hr). cbn [bind]. rewrite (prefix_app s t _ Hr).
    rewrite (forward_after t s _ (Forall_txtc_nocr _ Ht) Hr). cbn [bind].
    pose proof (rest_after _ _ _ Hr) as Hr1.
    rewrite (scan_line_break_lf _ _ Hr1). cbn [bind].
    assert (Hr2 : s_rest (after (after s t) [10]) = bl trail ++ sp j ++ c0 :: t0)
      by (apply (rest_after [10]); exact Hr1).
    assert (Hbb : scan_block_scalar_breaks (after (after s t) [10]) (N.of_nat ind) =
                  Ok (after (after (after s t) [10]) (bl trail ++ sp j), repeat [10] (length trail))).
    { eapply scan_block_scalar_breaks_spec; [exact Hc0n | | | exact Htr | | exact Hr2].
      - lia.
      - right; split; [lia | exact Hc032].
      - pose proof (col_after_lf (after s t) []) as H. cbn [app] in H. exact H. }
    rewrite Hbb. cbn [bind].
    assert (Hcol3 : s_col (after (after (after s t) [10]) (bl trail ++ sp j)) = N.of_nat j).
    { rewrite <- !after_app. pose proof (col_after_bl s t trail (sp j) (sp_colc j)) as H.
      rewrite sp_length in H. exact H. }
    unfold at_content. rewrite Hcol3. replace (N.of_nat j =? N.of_nat ind) with false by lia. cbn [bind].
    eexists. split.
    + rewrite <- !after_app, <- !app_assoc. reflexivity.
    + cbn [block_body]. ccat.
  - cbn [forallb] in Hmore. apply andb_true_iff in Hmore as [Ht' Hmore].
    apply andb_true_iff in Ht' as [Hk Ht'].
    destruct (wf_btext_inv _ Ht') as (x' & r' & Et' & Hx' & Htt').
    assert (Hr0 : s_rest s = t ++ 10 :: (bl k ++ sp ind ++ x' :: (r' ++ [10] ++ body_text ind more ++ bl trail ++ sp j ++ c0 :: t0))).
    { rewrite Hr. unfold body_text. cbn [map concat]. rewrite Et'. rewrite <- !app_assoc. reflexivity. }
    rewrite (line_count s t _ Ht Hr0). cbn [bind]. rewrite (prefix_app s t _ Hr0).
    rewrite (forward_after t s _ (Forall_txtc_nocr _ Ht) Hr0). cbn [bind].
    pose proof (rest_after _ _ _ Hr0) as Hr1.
    rewrite (scan_line_break_lf _ _ Hr1). cbn [bind].
    pose proof (rest_after [10] _ _ Hr1) as Hr2.
    assert (Hbb : scan_block_scalar_breaks (after (after s t) [10]) (N.of_nat ind) =
                  Ok (after (after (after s t) [10]) (bl k ++ sp ind), repeat [10] (length k))).
    { eapply scan_block_scalar_breaks_spec; [| | | apply bl_le_ble; exact Hk | | exact Hr2].
      - charfact.
      - lia.
      - left; reflexivity.
      - pose proof (col_after_lf (after s t) []) as H. cbn [app] in H. exact H. }
    rewrite Hbb. cbn [bind].
    set (s3 := after (after (after s t) [10]) (bl k ++ sp ind)) in *.
    assert (Hcol3 : s_col s3 = N.of_nat ind).
    { unfold s3. rewrite <- !after_app.
      pose proof (col_after_bl s t k (sp ind) (sp_colc ind)) as H. rewrite sp_length in H.
      exact H. }
    assert (Hr3 : s_rest s3 = t' ++ [10] ++ body_text ind more ++ bl trail ++ sp j ++ c0 :: t0).
    { unfold s3. apply rest_after. rewrite Hr2, Et', <- !app_assoc. reflexivity. }
    unfold at_content. rewrite Hcol3, N.eqb_refl.
    assert (Hp3 : peek s3 0 = Ok x') by (eapply peek0; rewrite Hr3, Et'; reflexivity).
    rewrite Hp3. cbn [bind]. replace (is_end x') with false by charfact. cbn [negb bind].
    match goal with |- context [block_lines_f f folded (N.of_nat ind) s3 x' ?c3 ?b3] =>
      destruct (IH f s3 x' t' r' c3 b3 Et' Htt' Hmore Hcol3 Hr3) as (chunks' & Hrun & Hcat); [cbn [length] in Hf; lia|]
    end.
    exists chunks'. split.
    + rewrite Hrun. f_equal. f_equal. f_equal. f_equal. unfold s3. rewrite <- !after_app. f_equal.
      unfold body_text. cbn [map concat]. rewrite <- !app_assoc. reflexivity.
    + rewrite Hcat. cbn [block_body]. unfold block_sep, more_indented. rewrite Et, Et'.
      rewrite wsc_bs0, wsc_bs2. replace (is_lf [10]) with true by reflexivity. rewrite andb_true_r.
      rewrite concat_repeat_lf.
      destruct (folded && negb (wsc ch) && negb (wsc x')) eqn:E.
      * destruct k as [|k0 k]; cbn [repeat fold_sep nls length]; ccat.
      * ccat.
Qed.

Lemma body_text_length ind more : (length more <= length (body_text ind more))%nat.
Proof.
  apply concat_length_ge. intros [k t] _. rewrite !app_length. cbn [length]. lia.
Qed.

(* ------------------------------------------------------------------ the whole block scalar *)

Lemma body_ends ind first more trail :
  exists a, first ++ [10] ++ body_text ind more ++ bl trail = a ++ [10] ++ bl trail.
Proof.
  destruct more as [|[k t] more _] using rev_ind.
  - exists first. reflexivity.
  - exists (first ++ [10] ++ body_text ind more ++ bl k ++ sp ind ++ t).
    unfold body_text. rewrite map_app, concat_app. cbn [map concat]. rewrite app_nil_r.
    rewrite <- !app_assoc. reflexivity.
Qed.

Lemma block_scan_core vsp folded h lead indent first more trail j c0 :
  wf_value (VBlock vsp folded h lead indent first more) = true -> bl_le indent trail = true ->
  (j < indent)%nat -> mem_N c0 in_scan_block_scalar_breaks_0 = false -> c0 <> 32 ->
  forall s t0, s_col s <> 0 ->
    s_rest s = value_text (VBlock vsp folded h lead indent first more) trail ++ sp j ++ c0 :: t0 ->
    value_scan s (if folded then 62 else 124) =
    Ok (after s (value_text (VBlock vsp folded h lead indent first more) trail ++ sp j),
        value_meaning (VBlock vsp folded h lead indent first more) trail).
Proof.
  cbn [wf_value]. intros H Htrail Hj Hc0n Hc032.
  apply andb_true_iff in H as [H Hlead]. apply andb_true_iff in H as [H Hmore]. apply andb_true_iff in H as [H Hfirst].
  apply andb_true_iff in H as [H Hexpl]. apply andb_true_iff in H as [H Hind].
  apply andb_true_iff in H as [_ Hcm].
  apply negb_true_iff, Nat.eqb_neq in Hind.
  destruct (wf_btext_inv _ Hfirst) as (x & r & Ex & Hx & Htf).
  cbn [value_text value_meaning].
  set (c := if folded then 62 else 124).
  set (HDRREST := print_inds h indent ++ sp (h_sp h) ++ print_comment (h_comment h) ++ [10]).
  set (BODY := bl lead ++ sp indent ++ first ++ [10] ++ body_text indent more ++ bl trail).
  assert (Etext : print_header folded h indent ++ bl lead ++ sp indent ++ first ++ [10] ++
                  concat (map (fun '(ks, t) => bl ks ++ sp indent ++ t ++ [10]) more) ++ bl trail
                  = c :: HDRREST ++ BODY).
  { unfold print_header, HDRREST, BODY, print_inds, body_text, c. cbn [app]. rewrite <- ?app_assoc. reflexivity. }
  rewrite Etext.
  intros s t0 Hcol Hr.
  (* the scan *)
  unfold value_scan. replace (mem_N c in_tokenize_1) with true by (unfold c; destruct folded; reflexivity).
  unfold scan_block_scalar.
  cbn [app] in Hr.
  assert (Hf1 : forward s 1 = Ok (after s [c])).
  { eapply (forward_after [c] s); [repeat constructor; unfold c; destruct folded; discriminate | exact Hr]. }
  rewrite Hf1. cbn [bind].
  pose proof (rest_after [c] s _ Hr) as Hr1. set (s1 := after s [c]) in *.
  (* indicators *)
  assert (Hxh : exists xh th, sp (h_sp h) ++ print_comment (h_comment h) ++ [10] ++ BODY ++ sp j ++ c0 :: t0 = xh :: th /\ (xh = 32 \/ xh = 10)).
  { destruct (h_sp h) as [|n] eqn:Ehs.
    - destruct (h_comment h) as [tc|]; [cbn [comment_ok Nat.eqb negb andb] in Hcm; discriminate|].
      cbn [sp repeat print_comment app]. eexists; eexists; split; [reflexivity | right; reflexivity].
    - rewrite sp_S. cbn [app]. eexists; eexists; split; [reflexivity | left; reflexivity]. }
  destruct Hxh as (xh & th & Exh & Hxh).
  assert (Hr1' : s_rest s1 = print_inds h indent ++ xh :: th).
  { rewrite Hr1. unfold HDRREST. rewrite <- ?app_assoc. f_equal. rewrite <- Exh. rewrite <- ?app_assoc. reflexivity. }
  rewrite (scan_block_scalar_indicators_spec h indent s1 xh th); [| | exact Hxh | exact Hr1'].
  2:{ intros He. rewrite He in Hexpl. apply Nat.leb_le in Hexpl. lia. }
  cbn [bind].
  set (s2 := after s1 (print_inds h indent)) in *.
  assert (Hr2 : s_rest s2 = sp (h_sp h) ++ print_comment (h_comment h) ++ 10 :: (BODY ++ sp j ++ c0 :: t0)).
  { unfold s2. rewrite (rest_after _ _ _ Hr1'). rewrite <- Exh. reflexivity. }
  rewrite (scan_block_scalar_ignored_line_spec s2 _ _ _ Hcm Hr2). cbn [bind].
  set (s3 := after s2 (sp (h_sp h) ++ print_comment (h_comment h) ++ [10])) in *.
  assert (Hr3 : s_rest s3 = bl lead ++ sp indent ++ x :: (r ++ [10] ++ body_text indent more ++ bl trail ++ sp j ++ c0 :: t0)).
  { unfold s3. erewrite rest_after; [| rewrite Hr2, <- !app_assoc; reflexivity].
    unfold BODY. rewrite Ex. rewrite <- ?app_assoc. reflexivity. }
  assert (Hcol3 : s_col s3 = 0).
  { unfold s3. rewrite app_assoc. apply col_after_lf. }
  set (s4 := after s3 (bl lead ++ sp indent)).
  assert (Hind4 : (match (if h_explicit h then Some (N.of_nat indent) else None) with
            | None => do x0 <- scan_block_scalar_indentation s3;
                      let '(s4, breaks, max_indent) := x0 in Ok (s4, breaks, N.max 1 max_indent)
            | Some inc => do x0 <- scan_block_scalar_breaks s3 (1 + inc - 1);
                          let '(s4, breaks) := x0 in Ok (s4, breaks, 1 + inc - 1)
            end) = Ok (s4, repeat [10] (length lead), N.of_nat indent)).
  { destruct (h_explicit h) eqn:He.
    - replace (1 + N.of_nat indent - 1) with (N.of_nat indent) by lia.
      erewrite (scan_block_scalar_breaks_spec (N.of_nat indent) lead s3 indent x); [reflexivity | charfact | lia | left; reflexivity | apply bl_le_ble; exact Hlead | exact Hcol3 | exact Hr3].
    - unfold scan_block_scalar_indentation.
      assert (Hx32 : x <> 32).
      { rewrite Ex in Hexpl. cbn [first_is] in Hexpl. apply negb_true_iff in Hexpl. lia. }
      erewrite (block_indentation_spec lead _ s3 [] 0 indent x); [| charfact | exact Hcol3 | lia | | exact Hr3 |].
      3:{ unfold fuel_of. rewrite Hr3, !app_length, sp_length. cbn [length]. lia. }
      2:{ unfold bl_le in Hlead. rewrite forallb_forall in Hlead. apply Forall_forall. intros n0 Hn0.
          specialize (Hlead _ Hn0). apply Nat.leb_le in Hlead. exact Hlead. }
      cbn [bind app]. f_equal. f_equal. lia. }
  rewrite Hind4. cbn [bind].
  assert (Hr4 : s_rest s4 = first ++ [10] ++ body_text indent more ++ bl trail ++ sp j ++ c0 :: t0).
  { unfold s4. rewrite (rest_after _ _ _ (eq_trans Hr3 (app_assoc _ _ _))), Ex. reflexivity. }
  assert (Hcol4 : s_col s4 = N.of_nat indent).
  { unfold s4. destruct (exists_last (l := c :: HDRREST)) as (a & b & Eab); [discriminate|].
    unfold s3, s2, s1. rewrite <- !after_app.
    pose proof (col_after_bl s ([c] ++ print_inds h indent ++ sp (h_sp h) ++ print_comment (h_comment h)) lead (sp indent) (sp_colc indent)) as Hc.
    rewrite sp_length in Hc. rewrite <- Hc. f_equal. rewrite <- ?app_assoc. reflexivity. }
  unfold at_content. rewrite Hcol4, N.eqb_refl.
  assert (Hp4 : peek s4 0 = Ok x) by (eapply peek0; rewrite Hr4, Ex; reflexivity).
  rewrite Hp4. cbn [bind]. replace (is_end x) with false by charfact. cbn [negb bind].
  destruct (block_lines_spec (c =? c_gt) indent trail j c0 t0 Hind Hj Hc0n Hc032 (bl_le_ble _ _ Htrail) more (fuel_of s4) s4 x first r
              [] (repeat [10] (length lead)) Ex Htf Hmore Hcol4 Hr4) as (chunks' & Hrun & Hcat).
  { unfold fuel_of. rewrite Hr4, !app_length. pose proof (body_text_length indent more). lia. }
  rewrite Hrun. cbn [bind].
  assert (Hfold : (c =? c_gt) = folded) by (unfold c; destruct folded; reflexivity).
  rewrite Hfold in Hcat.
  f_equal. f_equal.
  - unfold s4, s3, s2, s1. rewrite <- !after_app. f_equal. cbn [app]. f_equal.
    unfold HDRREST, BODY. rewrite <- ?app_assoc. reflexivity.
  - cbn [concat app] in Hcat. rewrite concat_repeat_lf in Hcat.
    destruct (h_chomp h); cbn [chomp_opt chomp_tail].
    all: repeat rewrite concat_app; cbn [concat]; rewrite ?concat_repeat_lf, ?app_nil_r, Hcat; ccat.
Qed.

Lemma value_spec_block vsp folded h lead indent first more trail :
  wf_value (VBlock vsp folded h lead indent first more) = true -> bl_le indent trail = true ->
  value_spec (VBlock vsp folded h lead indent first more) trail.
Proof.
  intros Hwf Htrail.
  pose proof (block_scan_core vsp folded h lead indent first more trail 0) as HCORE.
  revert Hwf. cbn [wf_value]. intros H. pose proof H as Hwf.
  apply andb_true_iff in H as [H Hlead]. apply andb_true_iff in H as [H Hmore]. apply andb_true_iff in H as [H Hfirst].
  apply andb_true_iff in H as [H Hexpl]. apply andb_true_iff in H as [H Hind].
  apply andb_true_iff in H as [_ Hcm].
  apply negb_true_iff, Nat.eqb_neq in Hind.
  unfold value_spec. revert HCORE. cbn [value_text value_meaning]. intros HCORE.
  set (c := if folded then 62 else 124) in *.
  set (HDRREST := print_inds h indent ++ sp (h_sp h) ++ print_comment (h_comment h) ++ [10]).
  set (BODY := bl lead ++ sp indent ++ first ++ [10] ++ body_text indent more ++ bl trail).
  assert (Etext : print_header folded h indent ++ bl lead ++ sp indent ++ first ++ [10] ++
                  concat (map (fun '(ks, t) => bl ks ++ sp indent ++ t ++ [10]) more) ++ bl trail
                  = c :: HDRREST ++ BODY).
  { unfold print_header, HDRREST, BODY, print_inds, body_text, c. cbn [app]. rewrite <- ?app_assoc. reflexivity. }
  rewrite Etext in *.
  exists c, (HDRREST ++ BODY). split; [reflexivity|].
  split; [unfold stopc, lbc, c; destruct folded; repeat split; try discriminate; reflexivity|].
  intros s c0 t0 Hcol Hc0' Hr. pose proof (Hc0' eq_refl) as Hc0.
  exists (c :: HDRREST ++ BODY), []. split; [cbn [print_ltails map concat]; rewrite app_nil_r; reflexivity|].
  split; [reflexivity|].
  assert (Hends : exists a, c :: HDRREST ++ BODY = a ++ [10] ++ bl trail).
  { destruct (body_ends indent first more trail) as [a Ha].
    exists (c :: HDRREST ++ bl lead ++ sp indent ++ a). unfold BODY. rewrite Ha.
    change (c :: HDRREST ++ ?z) with ([c] ++ HDRREST ++ z).
    change (c :: HDRREST ++ ?z) with ([c] ++ HDRREST ++ z).
    rewrite <- ?app_assoc. reflexivity. }
  split.
  { intros _. destruct Hends as [a Ha]. rewrite Ha.
    pose proof (col_after_bl s a trail [] (Forall_nil _)) as Hc. rewrite !app_nil_r in Hc. exact Hc. }
  destruct (item_start_facts _ Hc0) as [Hc0n Hc032].
  specialize (HCORE c0 Hwf Htrail ltac:(lia) Hc0n Hc032 s t0 Hcol).
  cbn [sp repeat app] in HCORE. rewrite app_nil_r in HCORE. apply HCORE. exact Hr.
Qed.

(* the block scalar directly followed by a comment line that is indented less than the scalar *)
Lemma value_spec_ic_block vsp folded h lead indent first more trail :
  wf_value (VBlock vsp folded h lead indent first more) = true -> bl_le indent trail = true ->
  value_spec_ic (VBlock vsp folded h lead indent first more) trail.
Proof.
  intros Hwf Htrail m _ Hm c r Ec s t0 Hcol Hr.
  cbn [icomment_value_ok] in Hm. apply Nat.ltb_lt in Hm.
  assert (c = if folded then 62 else 124).
  { cbn [value_text] in Ec. unfold print_header in Ec. destruct folded; cbn [app] in Ec; inversion Ec; reflexivity. }
  subst c.
  apply (block_scan_core vsp folded h lead indent first more trail (S m) 35 Hwf Htrail Hm eq_refl ltac:(discriminate) s t0 Hcol Hr).
Qed.
