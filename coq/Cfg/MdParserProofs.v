(* Proofs about the regenerated create_md_parser (Gen/MdParserSrc.v) and its consistency with the
   regenerated validator table (Gen/Config.v). *)
From Coq Require Import List NArith ZArith Bool String.
From MV Require Import Base.PyStr Base.Res Cfg.StrOps Cfg.StrLit Cfg.Cfg Cfg.CfgSpec Cfg.CfgProofs.
From MV Require Import Gen.Config Cfg.CfgTableProofs Cfg.MdParserPrelude Gen.MdParserSrc.
Import ListNotations.
Open Scope N_scope.
Open Scope string_scope.
Open Scope list_scope.

(* (a) the two source sites agree on the extension names *)
Definition ext_consistent (known mdit other : list str) : bool :=
  forallb (fun n => mem_str n known) (mdit ++ other) &&
  forallb (fun n => mem_str n mdit || mem_str n other) known.

Definition default_cfg : config :=
  match mk_config (E_of (fun _ => ImpImportError)) fields [] with Ok c => c | Raise _ => [] end.

Definition ext_changes (hl : bool) (c : config) (n : str) : bool :=
  negb (str_eqb (fingerprint (create_md_parser_src hl (with_extensions [n] c)))
                (fingerprint (create_md_parser_src hl (with_extensions [] c)))).

Lemma fingerprint_neq a b : str_eqb (fingerprint a) (fingerprint b) = false -> a <> b.
Proof. intros H E. subst. rewrite str_eqb_refl in H. discriminate. Qed.

Theorem extensions_all_handled :
  (forall n, In n (mdit_tested_extensions ++ other_tested_extensions) -> In n known_extensions) /\
  (forall n, In n known_extensions -> In n mdit_tested_extensions \/ In n other_tested_extensions) /\
  (forall n hl, In n mdit_tested_extensions ->
     create_md_parser_src hl (with_extensions [n] default_cfg)
     <> create_md_parser_src hl (with_extensions [] default_cfg)).
Proof.
  assert (C : ext_consistent known_extensions mdit_tested_extensions other_tested_extensions = true)
    by (vm_compute; reflexivity).
  unfold ext_consistent in C. apply andb_true_iff in C as [C1 C2].
  rewrite forallb_forall in C1, C2. split; [|split].
  - intros n H. apply mem_str_In. apply C1. exact H.
  - intros n H. specialize (C2 n H). apply orb_true_iff in C2 as [M|M]; [left|right]; apply mem_str_In; exact M.
  - intros n hl H. apply fingerprint_neq.
    assert (T : forallb (ext_changes true default_cfg) mdit_tested_extensions = true) by (vm_compute; reflexivity).
    assert (F : forallb (ext_changes false default_cfg) mdit_tested_extensions = true) by (vm_compute; reflexivity).
    rewrite forallb_forall in T, F.
    destruct hl; [specialize (T n H); unfold ext_changes in T | specialize (F n H); unfold ext_changes in F];
      apply negb_true_iff; assumption.
Qed.

(* (b) equal validated values give equal configs, hence equal parser descriptions *)
Lemma mk_config_spelling E fs f v1 v2 :
  nodup_names (map f_name fs) = true -> In f fs -> coercing (f_val f) = true ->
  validate E (f_val f) v1 = validate E (f_val f) v2 ->
  mk_config E fs [(f_name f, v1)] = mk_config E fs [(f_name f, v2)].
Proof.
  intros ND Hin C V. unfold mk_config. simpl. rewrite (find_field_in _ _ ND Hin). simpl.
  unfold raw_of. apply vf_equiv. intros g Hg. unfold lookup_kw. simpl.
  destruct (str_eqb (f_name f) (f_name g)) eqn:E0; [|reflexivity].
  apply str_eqb_eq in E0. pose proof (same_name_same_field fs f g ND Hin Hg E0) as ->.
  unfold vres. rewrite V. destruct (validate E (f_val g) v2) as [co|e] eqn:V2; [|reflexivity].
  destruct (coercing_some _ _ _ _ C V2) as [x ->]. reflexivity.
Qed.

Theorem parser_same_for_spellings imp hl v1 v2 l1 l2 c1 c2 :
  seq3 v1 l1 -> seq3 v2 l2 -> (forall x, In x l1 <-> In x l2) ->
  mk_config (E_of imp) fields [(s_enable_extensions, v1)] = Ok c1 ->
  mk_config (E_of imp) fields [(s_enable_extensions, v2)] = Ok c2 ->
  c1 = c2 /\ create_md_parser_src hl c1 = create_md_parser_src hl c2.
Proof.
  intros S1 S2 H M1 M2.
  destruct (find_field s_enable_extensions fields) as [f|] eqn:F; [|vm_compute in F; discriminate].
  destruct (find_field_name _ _ _ F) as [Fn Hin].
  assert (Cf : coercing (f_val f) = true) by (vm_compute in F; inv F; reflexivity).
  assert (Vf : f_val f = VCustom n_check_extensions) by (vm_compute in F; inv F; reflexivity).
  assert (ND : nodup_names (map f_name fields) = true) by (vm_compute; reflexivity).
  assert (V : validate (E_of imp) (f_val f) v1 = validate (E_of imp) (f_val f) v2).
  { rewrite Vf. exact (check_extensions_spelling (E_of imp) v1 v2 l1 l2 S1 S2 H). }
  pose proof (mk_config_spelling (E_of imp) fields f v1 v2 ND Hin Cf V) as E0.
  rewrite Fn in E0. rewrite M1, M2 in E0. inv E0. split; reflexivity.
Qed.

(* (c) what the two "only" modes do, exactly *)
Theorem commonmark_only_parser hl c :
  cfg_flag (lit "commonmark_only") c = true ->
  create_md_parser_src hl c =
  {| pd_preset := lit "commonmark";
     pd_steps := [PUse (lit "wordcount_plugin") [(lit "per_minute", cfg_val (lit "words_per_minute") c)]];
     pd_options := [(lit "myst_config", JOpaque (lit "config"))] |}.
Proof.
  intro H. unfold create_md_parser_src. change (lit "commonmark_only") with
    [99;111;109;109;111;110;109;97;114;107;95;111;110;108;121] in H. rewrite H. reflexivity.
Qed.

Theorem gfm_only_parser hl c :
  cfg_flag (lit "commonmark_only") c = false -> cfg_flag (lit "gfm_only") c = true ->
  create_md_parser_src hl c =
  {| pd_preset := lit "commonmark";
     pd_steps := [PEnable (lit "strikethrough"); PEnable (lit "table");
                  PUse (lit "tasklists_plugin") [(lit "enabled", cfg_val (lit "enable_checkboxes") c)];
                  PEnable (lit "linkify");
                  PUse (lit "wordcount_plugin") [(lit "per_minute", cfg_val (lit "words_per_minute") c)]];
     pd_options := [(lit "linkify", JBool true); (lit "myst_config", JOpaque (lit "config"))] |}.
Proof.
  intros H1 H2. unfold create_md_parser_src.
  change (lit "commonmark_only") with [99;111;109;109;111;110;109;97;114;107;95;111;110;108;121] in H1.
  change (lit "gfm_only") with [103;102;109;95;111;110;108;121] in H2.
  rewrite H1, H2. reflexivity.
Qed.

(* hence, in those modes, enable_extensions and disable_syntax have no influence *)
Lemma cfg_get_set_other n m v c : str_eqb m n = false -> cfg_get n (cfg_set m v c) = cfg_get n c.
Proof.
  intro H. induction c as [|[k x] c IH]; [reflexivity|]. simpl.
  destruct (str_eqb k m) eqn:E; simpl.
  - apply str_eqb_eq in E. subst k. rewrite H. reflexivity.
  - rewrite IH. reflexivity.
Qed.

Theorem only_modes_ignore_extensions hl c names :
  cfg_flag (lit "commonmark_only") c = true \/ cfg_flag (lit "gfm_only") c = true ->
  create_md_parser_src hl (with_extensions names c) = create_md_parser_src hl c.
Proof.
  intro H.
  assert (G : forall n, str_eqb s_enable_extensions n = false ->
              cfg_flag n (with_extensions names c) = cfg_flag n c /\ cfg_val n (with_extensions names c) = cfg_val n c).
  { intros n Hn. unfold cfg_flag, cfg_val, with_extensions. rewrite (cfg_get_set_other _ _ _ _ Hn). split; reflexivity. }
  destruct (cfg_flag (lit "commonmark_only") c) eqn:Cm.
  - rewrite (commonmark_only_parser hl c Cm).
    assert (Cm' : cfg_flag (lit "commonmark_only") (with_extensions names c) = true)
      by (rewrite (proj1 (G (lit "commonmark_only") eq_refl)); exact Cm).
    rewrite (commonmark_only_parser hl _ Cm'). rewrite (proj2 (G (lit "words_per_minute") eq_refl)). reflexivity.
  - destruct H as [H|H]; [discriminate|].
    assert (Cm' : cfg_flag (lit "commonmark_only") (with_extensions names c) = false)
      by (rewrite (proj1 (G (lit "commonmark_only") eq_refl)); exact Cm).
    assert (H' : cfg_flag (lit "gfm_only") (with_extensions names c) = true)
      by (rewrite (proj1 (G (lit "gfm_only") eq_refl)); exact H).
    rewrite (gfm_only_parser hl c Cm H), (gfm_only_parser hl _ Cm' H').
    rewrite (proj2 (G (lit "words_per_minute") eq_refl)), (proj2 (G (lit "enable_checkboxes") eq_refl)). reflexivity.
Qed.
