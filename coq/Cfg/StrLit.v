(* Readable string literals for `str` (= list of code points): [lit "abc"] = [97; 98; 99].
   Only used for ASCII literals (identifiers, file names, tags); the translators fall back to
   numeric lists for anything else. *)
From Coq Require Import List NArith String Ascii.
From MV Require Import Base.PyStr.
Import ListNotations.

Fixpoint lit (s : string) : str :=
  match s with
  | EmptyString => []
  | String a s' => N_of_ascii a :: lit s'
  end.
