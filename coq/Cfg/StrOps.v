(* Python str operations used by the config model that are not in Base/PyStr.v. *)
From Coq Require Import List NArith ZArith Bool.
From MV Require Import Base.PyStr.
Import ListNotations.
Open Scope N_scope.

(* str.isspace() code points (CPython 3.12) *)
Definition py_isspace (c : N) : bool :=
  ((9 <=? c) && (c <=? 13)) || ((28 <=? c) && (c <=? 32)) || (c =? 133) || (c =? 160) ||
  (c =? 5760) || ((8192 <=? c) && (c <=? 8202)) || (c =? 8232) || (c =? 8233) ||
  (c =? 8239) || (c =? 8287) || (c =? 12288).

Fixpoint lstrip_by (p : N -> bool) (s : str) : str :=
  match s with
  | c :: s' => if p c then lstrip_by p s' else s
  | [] => []
  end.

Definition strip_by (p : N -> bool) (s : str) : str :=
  rev (lstrip_by p (rev (lstrip_by p s))).

(* s.strip() *)
Definition py_strip (s : str) : str := strip_by py_isspace s.

(* s.strip(chars) *)
Definition strip_chars (chars : str) (s : str) : str := strip_by (fun c => mem_N c chars) s.

(* s.lower() on ASCII letters (other code points unchanged: the harness stays within ASCII here) *)
Definition lower_ascii (s : str) : str :=
  map (fun c => if (65 <=? c) && (c <=? 90) then c + 32 else c) s.

(* s.split(sep) for a one-character separator *)
Fixpoint split_char_aux (sep : N) (s : str) (cur : str) : list str :=
  match s with
  | [] => [rev cur]
  | c :: s' => if c =? sep then rev cur :: split_char_aux sep s' [] else split_char_aux sep s' (c :: cur)
  end.

Definition split_char (sep : N) (s : str) : list str := split_char_aux sep s [].

(* lexicographic order on strings (code points) *)
Fixpoint str_ltb (a b : str) : bool :=
  match a, b with
  | [], [] => false
  | [], _ :: _ => true
  | _ :: _, [] => false
  | x :: a', y :: b' => (x <? y) || ((x =? y) && str_ltb a' b')
  end.

(* sorted, duplicate-free insertion: the canonical representation of a Python set of str *)
Fixpoint insert_str (s : str) (l : list str) : list str :=
  match l with
  | [] => [s]
  | x :: l' => if str_eqb s x then l
               else if str_ltb s x then s :: l
               else x :: insert_str s l'
  end.

Definition canon_strs (l : list str) : list str := fold_right insert_str [] l.

(* int(s): optional surrounding whitespace, optional sign, decimal digits with single underscores
   between digits.  None = ValueError. *)
Definition is_digit (c : N) : bool := (48 <=? c) && (c <=? 57).

Fixpoint digits_val (s : str) (acc : Z) (prev_digit : bool) : option Z :=
  match s with
  | [] => if prev_digit then Some acc else None
  | c :: s' =>
      if is_digit c then digits_val s' (acc * 10 + Z.of_N (c - 48))%Z true
      else if (c =? 95) && prev_digit then
             match s' with
             | d :: _ => if is_digit d then digits_val s' acc false else None
             | [] => None
             end
      else None
  end.

Definition py_int_of_str (s : str) : option Z :=
  match py_strip s with
  | [] => None
  | c :: r =>
      if c =? 45 then option_map Z.opp (digits_val r 0%Z false)
      else if c =? 43 then digits_val r 0%Z false
      else digits_val (c :: r) 0%Z false
  end.
