(* Domain mapping for the source translation of config/dc_validators.py and config/main.py
   (gen/c13_src.py): the Gallina meaning of the atomic Python expressions / simple statements of the
   translated functions.  Definitions only.  All helpers are total: an operation that Python would
   refuse on a value of the wrong class (len(5), x["k"] on a list) yields a neutral value; in the
   translated functions those operations sit behind an isinstance test of the same `or` / `and` chain,
   whose short circuit the Boolean translation does not need. *)
From Coq Require Import List NArith ZArith Bool.
From MV Require Import Base.PyStr Base.Res Cfg.StrOps Cfg.Cfg.
Import ListNotations.
Open Scope N_scope.

Definition jv_is_none (v : jv) : bool := match v with JNull => true | _ => false end.
Definition is_some {A} (o : option A) : bool := match o with Some _ => true | None => false end.

(* isinstance(value, T1 | T2 ...) / isinstance(value, type_) *)
Definition isinst (v : jv) (ts : list pyty) : bool := existsb (isinstance1 v) ts.

(* type_ is int   (type_ the argument of instance_of: a class, or a tuple of classes) *)
Definition is_single_int (ts : list pyty) (is_tuple : bool) : bool :=
  negb is_tuple && match ts with [PyInt] => true | _ => false end.

(* calling an optional validator (None = nothing to call) *)
Definition call_opt (f : option (jv -> res (option jv))) (v : jv) : res (option jv) :=
  match f with Some g => g v | None => Ok None end.

(* the members of a list / tuple / set (for generator expressions and for-loops behind an isinstance test) *)
Definition seq_of (v : jv) : list jv :=
  match v with JList l | JTuple l | JSet l => l | _ => [] end.

Definition dict_of (v : jv) : list (jv * jv) := match v with JDict d => d | _ => [] end.

(* len(value) *)
Definition jv_len (v : jv) : nat :=
  match v with
  | JList l | JTuple l | JSet l => List.length l
  | JStr s => List.length s
  | JDict d => List.length d
  | _ => O
  end.

(* value[i] for a list / tuple.  Total on purpose (JNull when out of range): in the translated code
   (check_inventories) val[0] / val[1] are only reached after `len(val) != 2` has raised, so the IndexError
   path of Python does not exist there; the refinement proof (inventory_entry_src) only uses it on
   two-element lists. *)
Definition seq_at (v : jv) (i : nat) : jv :=
  match nth_error (seq_of v) i with Some x => x | None => JNull end.

(* the str behind a value known to be a str *)
Definition jv_str (v : jv) : str := match v with JStr s => s | _ => [] end.

(* "k" in val / val["k"] for a dict with str keys *)
Definition dict_has (k : str) (v : jv) : bool := is_some (dict_get k (dict_of v)).
Definition dict_at (k : str) (v : jv) : jv :=
  match dict_get k (dict_of v) with Some x => x | None => JNull end.

Definition all_str (l : list jv) : bool := forallb is_str l.
Definition all_str_keys (v : jv) : bool := forallb (fun p => is_str (fst p)) (dict_of v).

(* set(value).difference([...known...]): TypeError for an unhashable member *)
Definition ext_diff (E : env) (v : jv) : res (list jv) :=
  if existsb unhashable (seq_of v) then Raise TypeError
  else Ok (filter (fun x => negb (match x with JStr s => mem_str s (e_known_ext E) | _ => false end)) (seq_of v)).

Definition is_nil {A} (l : list A) : bool := match l with [] => true | _ => false end.

(* set(value) for a collection of str *)
Definition set_of (v : jv) : jv := mk_str_set (seq_of v).

(* {v: None for v in value} *)
Definition names_to_dict (v : jv) : jv := JDict (dedup_keys (strs_of (seq_of v)) []).

(* value <= 0 *)
Definition jv_le0 (v : jv) : bool := match v with JInt z => (z <=? 0)%Z | _ => false end.

(* ---- merge_file_level ---- *)

(* topmatter.get("myst", {}) / "k" in topmatter / topmatter["k"] *)
Definition top_get_myst (top : list (jv * jv)) : jv :=
  match dict_get s_myst top with Some m => m | None => JDict [] end.
Definition top_has (k : str) (top : list (jv * jv)) : bool := is_some (dict_get k top).
Definition top_at (k : str) (top : list (jv * jv)) : jv :=
  match dict_get k top with Some x => x | None => JNull end.
Definition is_dict (v : jv) : bool := match v with JDict _ => true | _ => false end.

(* fields = {name: (value, field) for name, value, field in config.as_triple()} ; name not in fields ;
   old_value, field = fields[name] *)
Definition field_lookup (fs : list field) (c : config) (name : jv) : option (jv * field) :=
  match name with
  | JStr n => match find_field n fs, cfg_get n c with
              | Some f, Some old => Some (old, f)
              | _, _ => None
              end
  | _ => None
  end.

Definition dummy_field : field :=
  {| f_name := []; f_ann := AAny; f_val := VAny; f_merge := false; f_global_only := false;
     f_omit_docutils := false; f_omit_sphinx := false; f_default := JNull |}.

Definition field_lookup_total (fs : list field) (c : config) (name : jv) : jv * field :=
  match field_lookup fs c name with Some p => p | None => (JNull, dummy_field) end.

Definition name_str (name : jv) : str := match name with JStr n => n | _ => [] end.

(* setattr(new, name, x) / getattr(new, name) *)
Definition set_attr (name x : jv) (c : config) : config := cfg_set (name_str name) x c.
Definition get_attr (name : jv) (c : config) : jv :=
  match cfg_get (name_str name) c with Some x => x | None => JNull end.

(* what a validator's own setattr(inst, field.name, x) does to the instance it was given *)
Definition apply_coercion (name : jv) (co : option jv) (c : config) : config :=
  match co with Some x => set_attr name x c | None => c end.
