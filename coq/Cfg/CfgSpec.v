(* Specification side of C13: documented types of configuration values, what it means for a value to
   have such a type, the canonical validator tree of a type, and the documented type of a field as a
   function of its annotation.  Definitions only. *)
From Coq Require Import List NArith ZArith Bool.
From MV Require Import Base.PyStr Base.Res Cfg.StrOps Cfg.Cfg.
Import ListNotations.
Open Scope N_scope.

(* which sequence classes a sequence-typed option accepts *)
Inductive skind : Type := SkList | SkTuple | SkSet.

Definition pyty_of_skind (k : skind) : pyty :=
  match k with SkList => PyList | SkTuple => PyTuple | SkSet => PySet end.

(* documented types.  JSON/YAML typing: bool is not int, a float is not an int. *)
Inductive jty : Type :=
| TyAny
| TyBool
| TyInt
| TyStr
| TyOpt (t : jty)                         (* t | None *)
| TyIntIn (opts : list Z)                 (* an int among the listed ones *)
| TySeq (kinds : list skind) (t : jty)    (* list / tuple (/ set) of t *)
| TyMap (k v : jty)                       (* dict[k, v] *)
| TyExtSet                                (* collection of known extension names *)
| TyStrSet                                (* collection (list, tuple or set) of str *)
| TyUrlSchemes                            (* list[str] | dict[str, None | str | UrlSchemeType] *)
| TySubDelims                             (* two one-character strings *)
| TyInventories                           (* dict[str, (str, str | None)] *)
| TySlugFunc                              (* None | callable | import string of a callable *)
| TyPosInt.                               (* a positive int *)

Definition seq_items (kinds : list skind) (v : jv) : option (list jv) :=
  match v with
  | JList l => if existsb (fun k => match k with SkList => true | _ => false end) kinds then Some l else None
  | JTuple l => if existsb (fun k => match k with SkTuple => true | _ => false end) kinds then Some l else None
  | JSet l => if existsb (fun k => match k with SkSet => true | _ => false end) kinds then Some l else None
  | _ => None
  end.

Definition IsStr (x : jv) : Prop := exists s, x = JStr s.

(* a value of the inner dict of url_schemes (UrlSchemeType, total=False) *)
Definition url_val_ok (x : jv) : Prop :=
  x = JNull \/ IsStr x \/
  exists d, x = JDict d /\
    Forall (fun p => IsStr (fst p)) d /\
    (forall y, dict_get s_url d = Some y -> IsStr y) /\
    (forall y, dict_get s_title d = Some y -> IsStr y) /\
    (forall y, dict_get s_classes d = Some y -> exists cs, y = JList cs /\ Forall IsStr cs).

Definition inventory_val_ok (x : jv) : Prop :=
  exists a b, (x = JList [JStr a; b] \/ x = JTuple [JStr a; b]) /\ (b = JNull \/ IsStr b).

Fixpoint has_type (E : env) (v : jv) (t : jty) : Prop :=
  match t with
  | TyAny => True
  | TyBool => exists b, v = JBool b
  | TyInt => exists z, v = JInt z
  | TyStr => IsStr v
  | TyOpt t' => v = JNull \/ has_type E v t'
  | TyIntIn opts => exists z, v = JInt z /\ In z opts
  | TySeq kinds t' => exists l, seq_items kinds v = Some l /\ Forall (fun x => has_type E x t') l
  | TyMap k vt => exists kvs, v = JDict kvs /\
                    Forall (fun p => has_type E (fst p) k /\ has_type E (snd p) vt) kvs
  | TyExtSet => exists l, seq_items [SkList; SkTuple; SkSet] v = Some l /\
                    Forall (fun x => exists s, x = JStr s /\ In s (e_known_ext E)) l
  | TyStrSet => exists l, seq_items [SkList; SkTuple; SkSet] v = Some l /\ Forall IsStr l
  | TyUrlSchemes =>
      (exists l, seq_items [SkList; SkTuple] v = Some l /\ Forall IsStr l) \/
      (exists kvs, v = JDict kvs /\ Forall (fun p => IsStr (fst p) /\ url_val_ok (snd p)) kvs)
  | TySubDelims => exists a b, v = JList [JStr [a]; JStr [b]] \/ v = JTuple [JStr [a]; JStr [b]]
  | TyInventories => exists kvs, v = JDict kvs /\
                       Forall (fun p => IsStr (fst p) /\ inventory_val_ok (snd p)) kvs
  | TySlugFunc =>
      v = JNull \/ (exists n, v = JCallable n) \/
      (exists s n, v = JStr s /\ mem_N c_dot s = true /\ e_import E s = ImpOk (JCallable n))
  | TyPosInt => exists z, v = JInt z /\ (0 < z)%Z
  end.

(* the validator tree that implements a documented type *)
Fixpoint vexpr_of (t : jty) : vexpr :=
  match t with
  | TyAny => VAny
  | TyBool => VInstanceOf [PyBool] false
  | TyInt => VInstanceOf [PyInt] false
  | TyStr => VInstanceOf [PyStr] false
  | TyOpt t' => VOptional (vexpr_of t')
  | TyIntIn opts => VIn opts
  | TySeq kinds t' => VDeepIterable (vexpr_of t') (VInstanceOf (map pyty_of_skind kinds) true)
  | TyMap k v => VDeepMapping (vexpr_of k) (vexpr_of v) (VInstanceOf [PyDict] false)
  | TyExtSet => VCustom n_check_extensions
  | TyStrSet => VCustom n_check_fence_as_directive
  | TyUrlSchemes => VCustom n_check_url_schemes
  | TySubDelims => VCustom n_check_sub_delimiters
  | TyInventories => VCustom n_check_inventories
  | TySlugFunc => VCustom n_check_heading_slug_func
  | TyPosInt => VCustom n_check_positive_int
  end.

(* the documented type of a field, from its annotation.  Where the annotation alone does not fix the
   documented value set (int restricted to listed levels; set[str] of extension names vs of arbitrary
   names; the doc_type'd options), the kind of validator named in the metadata selects the refinement
   that the documentation describes. *)
Fixpoint ty_of_ann (a : ann) : option jty :=
  match a with
  | ABool => Some TyBool
  | AInt => Some TyInt
  | AStr => Some TyStr
  | AAny => Some TyAny
  | AIterable AStr | ASequence AStr => Some (TySeq [SkList; SkTuple] TyStr)
  | ADict k v => match ty_of_ann k, ty_of_ann v with
                 | Some tk, Some tv => Some (TyMap tk tv)
                 | _, _ => None
                 end
  | AOr a' ANone => option_map TyOpt (ty_of_ann a')
  | _ => None
  end.

Definition s_UrlSchemeType : str := [85;114;108;83;99;104;101;109;101;84;121;112;101].

Definition ann_eqb_url (a : ann) : bool :=
  match a with
  | ADict AStr (AOr (AName n) ANone) => str_eqb n s_UrlSchemeType
  | _ => false
  end.

Definition doc_ty (f : field) : option jty :=
  match f_val f with
  | VCustom n =>
      if str_eqb n n_check_extensions then
        match f_ann f with ASet AStr => Some TyExtSet | _ => None end
      else if str_eqb n n_check_fence_as_directive then
        match f_ann f with ASet AStr => Some TyStrSet | _ => None end
      else if str_eqb n n_check_url_schemes then
        if ann_eqb_url (f_ann f) then Some TyUrlSchemes else None
      else if str_eqb n n_check_sub_delimiters then
        match f_ann f with ATuple2 AStr AStr => Some TySubDelims | _ => None end
      else if str_eqb n n_check_inventories then
        match f_ann f with ADict AStr (ATuple2 AStr (AOr AStr ANone)) => Some TyInventories | _ => None end
      else if str_eqb n n_check_heading_slug_func then
        match f_ann f with AOr ACallable ANone => Some TySlugFunc | _ => None end
      else if str_eqb n n_check_positive_int then
        match f_ann f with AInt => Some TyPosInt | _ => None end
      else None
  | VIn opts => match f_ann f with AInt => Some (TyIntIn opts) | _ => None end
  | _ => ty_of_ann (f_ann f)
  end.

(* syntactic equality of validator trees *)
Fixpoint list_eqb {A} (eqb : A -> A -> bool) (a b : list A) : bool :=
  match a, b with
  | [], [] => true
  | x :: a', y :: b' => eqb x y && list_eqb eqb a' b'
  | _, _ => false
  end.

Fixpoint vexpr_eqb (a b : vexpr) : bool :=
  match a, b with
  | VAny, VAny => true
  | VInstanceOf t1 u1, VInstanceOf t2 u2 => list_eqb pyty_eqb t1 t2 && Bool.eqb u1 u2
  | VOptional x, VOptional y => vexpr_eqb x y
  | VIn o1, VIn o2 => list_eqb Z.eqb o1 o2
  | VDeepIterable m1 i1, VDeepIterable m2 i2 => vexpr_eqb m1 m2 && vexpr_eqb i1 i2
  | VDeepMapping k1 v1 m1, VDeepMapping k2 v2 m2 => vexpr_eqb k1 k2 && vexpr_eqb v1 v2 && vexpr_eqb m1 m2
  | VCustom n1, VCustom n2 => str_eqb n1 n2
  | _, _ => false
  end.

(* a row of the regenerated table is in order when its validator is the tree of its documented type *)
Definition field_ok (f : field) : bool :=
  match doc_ty f with
  | Some t => vexpr_eqb (f_val f) (vexpr_of t)
  | None => false
  end.

(* validators without a custom function never coerce *)
Fixpoint no_custom (e : vexpr) : bool :=
  match e with
  | VAny | VInstanceOf _ _ | VIn _ => true
  | VOptional e' => no_custom e'
  | VDeepIterable m i => no_custom m && no_custom i
  | VDeepMapping k v m => no_custom k && no_custom v && no_custom m
  | VCustom _ => false
  end.

Definition simple_validator (e : vexpr) : bool :=
  no_custom e || match e with VCustom _ => true | _ => false end.

(* "one canonical form": re-validating the stored value changes nothing *)
Definition stable (E : env) (e : vexpr) (c : jv) : Prop :=
  validate E e c = Ok None \/ validate E e c = Ok (Some c).

(* a well-formed, validated instance of the dataclass described by fs *)
Definition stable_cfg (E : env) (fs : list field) (c : config) : Prop :=
  Forall2 (fun f kv => fst kv = f_name f /\ stable E (f_val f) (snd kv)) fs c.

(* dict-valued options that merge: the validator is a per-item dict validator without coercion *)
Definition merge_closed (e : vexpr) : bool :=
  match e with
  | VDeepMapping k v (VInstanceOf [PyDict] false) => no_custom k && no_custom v
  | _ => false
  end.

Definition table_ok (fs : list field) : bool :=
  forallb (fun f => simple_validator (f_val f) && (negb (f_merge f) || merge_closed (f_val f))) fs.

Fixpoint nodup_names (l : list str) : bool :=
  match l with
  | [] => true
  | x :: r => negb (mem_str x r) && nodup_names r
  end.

(* front-matter keys that merge_file_level treats specially *)
Definition plain_name (n : str) : bool :=
  negb (str_eqb n s_html_meta) && negb (str_eqb n s_substitutions).

Definition top_of (n : str) (v : jv) : jv := JDict [(JStr s_myst, JDict [(JStr n, v)])].

(* does this front-matter entry produce a warning? *)
Definition bad_update (E : env) (fs : list field) (glob : config) (u : jv * jv) : bool :=
  match fst u with
  | JStr n => match find_field n fs, cfg_get n glob with
              | Some f, Some _ => negb (is_ok (validate E (f_val f) (snd u)))
              | _, _ => true
              end
  | _ => true
  end.

(* clean items of a comma separated option string *)
Definition clean_item (s : str) : bool :=
  negb (match s with [] => true | _ => false end) &&
  negb (mem_N c_comma s) &&
  match s with c :: _ => negb (mem_N c ws3) | [] => false end &&
  match rev s with c :: _ => negb (mem_N c ws3) | [] => false end.

(* ---------- which validator code the table reaches ---------- *)

Inductive ckind : Type :=
| CkAny | CkInstanceOf | CkOptional | CkIn | CkDeepIterable | CkDeepMapping | CkCustom (n : str).

Fixpoint uses (k : ckind) (e : vexpr) : bool :=
  match e with
  | VAny => match k with CkAny => true | _ => false end
  | VInstanceOf _ _ => match k with CkInstanceOf => true | _ => false end
  | VOptional e' => match k with CkOptional => true | _ => uses k e' end
  | VIn _ => match k with CkIn => true | _ => false end
  | VDeepIterable m i => match k with CkDeepIterable => true | _ => uses k m || uses k i end
  | VDeepMapping a b c => match k with CkDeepMapping => true | _ => uses k a || uses k b || uses k c end
  | VCustom n => match k with CkCustom n' => str_eqb n n' | _ => false end
  end.

(* everything of dc_validators.py and of the check_* functions that the model transcribes *)
Definition all_ckinds : list ckind :=
  [CkAny; CkInstanceOf; CkOptional; CkIn; CkDeepIterable; CkDeepMapping;
   CkCustom n_check_extensions; CkCustom n_check_url_schemes; CkCustom n_check_sub_delimiters;
   CkCustom n_check_inventories; CkCustom n_check_heading_slug_func; CkCustom n_check_fence_as_directive;
   CkCustom n_check_positive_int].

Definition combinator_used (fs : list field) (k : ckind) : bool := existsb (fun f => uses k (f_val f)) fs.

(* the rule of the option-string if-chain that decides a field (its position) *)
Fixpoint rule_index (rules : list (ocond * okind)) (f : field) : option nat :=
  match rules with
  | [] => None
  | (c, _) :: r => if eval_cond f c then Some O else option_map S (rule_index r f)
  end.

Definition rule_used (rules : list (ocond * okind)) (fs : list field) (i : nat) : bool :=
  existsb (fun f => negb (f_omit_docutils f) &&
                    match rule_index rules f with Some j => Nat.eqb i j | None => false end) fs.

Fixpoint ocond_eqb (a b : ocond) : bool :=
  match a, b with
  | CNameIs x, CNameIs y => str_eqb x y
  | CTypeIs x, CTypeIs y => ann_eqb x y
  | CTypeIn x, CTypeIn y => list_eqb ann_eqb x y
  | COr a1 b1, COr a2 b2 => ocond_eqb a1 a2 && ocond_eqb b1 b2
  | COriginDict, COriginDict | CLiteralStr, CLiteralStr => true
  | _, _ => false
  end.

(* branches of _attr_to_optparse_option that no docutils-visible field reaches today: Literal choices,
   tuple[str, str] (sub_delimiters is omitted from the docutils settings), int | None, Iterable[str] | None
   (ref_domains is omitted) *)
Definition known_unused_conds : list ocond :=
  [CLiteralStr; CTypeIs (ATuple2 AStr AStr); CTypeIs (AOr AInt ANone); CTypeIs (AOr (AIterable AStr) ANone)].

Definition rules_reached (rules : list (ocond * okind)) (fs : list field) : bool :=
  forallb (fun i => match nth_error rules i with
                    | Some (c, _) => rule_used rules fs i || existsb (ocond_eqb c) known_unused_conds
                    | None => true
                    end) (seq 0 (List.length rules)).

Definition unused_rule_indices (rules : list (ocond * okind)) (fs : list field) : list nat :=
  filter (fun i => negb (rule_used rules fs i)) (seq 0 (List.length rules)).

Definition every_field_decided (rules : list (ocond * okind)) (fs : list field) : bool :=
  forallb (fun f => f_omit_docutils f || is_ok (optparse_kind rules f)) fs.

(* validators that call setattr whenever they accept (so the stored object is always a new one) *)
Definition coercing (e : vexpr) : bool :=
  match e with
  | VCustom n => str_eqb n n_check_extensions || str_eqb n n_check_fence_as_directive
                 || str_eqb n n_check_url_schemes
  | _ => false
  end.

(* every field whose container is mutated in place at run time gets a fresh container on copy *)
Definition written_fields_coercing (fs : list field) (written : list str) : bool :=
  forallb (fun n => match find_field n fs with Some f => coercing (f_val f) | None => false end) written.

Definition erase_o (c : list (str * jv * origin)) : config := map (fun x => (fst (fst x), snd (fst x))) c.
