(* Domain mapping for the source translation of warnings_.py (gen/c14_src.py): the Gallina meaning of the
   atomic Python expressions that occur in _is_suppressed_warning and create_warning.  Definitions only. *)
From Coq Require Import List NArith Bool.
From MV Require Import Base.PyStr Cfg.WarnTypes Cfg.Warn.
Import ListNotations.
Open Scope N_scope.

(* x is None *)
Definition py_is_none {A} (o : option A) : bool := match o with None => true | Some _ => false end.

(* "." in s *)
Definition has_dot (s : str) : bool := mem_N c_dot s.

(* target, subtarget = s.split(".", 1)   (only evaluated when "." in s) *)
Definition split1 (s : str) : str * option str :=
  match split_dot s with Some (a, b) => (a, Some b) | None => (s, None) end.

(* target == type   (type: Optional[str]) *)
Definition str_eq_ostr (a : str) (b : option str) : bool :=
  match b with Some t => str_eqb a t | None => false end.

Definition ostr_eqb (a b : option str) : bool :=
  match a, b with
  | None, None => true
  | Some x, Some y => str_eqb x y
  | _, _ => false
  end.

(* x in (a, b, c) *)
Definition ostr_in (x : option str) (l : list (option str)) : bool := existsb (ostr_eqb x) l.

(* the subtype argument of create_warning: a str, or a MystWarnings member (its .value) *)
Inductive subarg : Type := SubStr (s : str) | SubEnum (value : str).

(* subtype if isinstance(subtype, str) else subtype.value *)
Definition subtype_str_of (a : subarg) : str := match a with SubStr s => s | SubEnum v => v end.

Definition mk_wout (ty sub msg : str) : wout := {| wo_msg := msg; wo_type := ty; wo_sub := sub |}.
