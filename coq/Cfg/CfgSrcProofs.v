(* The definitions regenerated from dc_validators.py / config/main.py (Gen/ConfigSrc.v) equal the
   hand-written model (Cfg/Cfg.v).  These are the proof obligations that an edit of the validators or
   of merge_file_level breaks. *)
From Coq Require Import List NArith ZArith Bool Lia.
From MV Require Import Base.PyStr Base.Res Cfg.StrOps Cfg.Cfg Cfg.CfgSpec Cfg.CfgProofs Cfg.CfgSrcPrelude Gen.ConfigSrc.
Import ListNotations.
Open Scope N_scope.

Lemma later_none c : later None c = c.
Proof. destruct c; reflexivity. Qed.

(* ---------- dc_validators.py ---------- *)

Theorem instance_of_src_eq E ts tup v : instance_of_src ts tup v = validate E (VInstanceOf ts tup) v.
Proof.
  unfold instance_of_src. cbn [validate]. unfold instance_of_ok, isinst, is_single_int.
  destruct (existsb (isinstance1 v) ts); cbn [negb orb andb]; [|reflexivity].
  destruct tup; cbn [negb andb]; [reflexivity|].
  destruct ts as [|[] [|? ?]]; cbn [andb negb]; try reflexivity.
  destruct (is_bool v); reflexivity.
Qed.

Theorem optional_src_eq E e f v :
  (forall x, f x = validate E e x) -> optional_src f v = validate E (VOptional e) v.
Proof.
  intro H. unfold optional_src. cbn [validate]. rewrite H.
  destruct v; cbn [jv_is_none]; try reflexivity;
    (destruct (validate E e _) as [c|x]; [rewrite later_none|]; reflexivity).
Qed.

Theorem in_src_eq E opts v : in_src opts v = validate E (VIn opts) v.
Proof. unfold in_src. cbn [validate]. destruct (in_ok opts v); reflexivity. Qed.

Lemma iter_loop_eq (f g : jv -> res (option jv)) :
  (forall x, f x = g x) ->
  forall l acc,
  (fix loop (l : list jv) (co : option jv) {struct l} : res (option jv) :=
     match l with
     | [] => Ok co
     | member :: r => match f member with
                      | Raise e => Raise e
                      | Ok c => let co := later co c in loop r co
                      end
     end) l acc = iter_all g l acc.
Proof.
  intros H l. induction l as [|x l IH]; intro acc; [reflexivity|].
  cbn [iter_all]. rewrite <- H. destruct (f x) as [c|e]; [|reflexivity]. cbn [bind]. apply IH.
Qed.

Theorem deep_iterable_src_eq E m it f g v :
  (forall x, f x = validate E m x) -> (forall x, g x = validate E it x) ->
  deep_iterable_src f (Some g) v = validate E (VDeepIterable m it) v.
Proof.
  intros Hf Hg. unfold deep_iterable_src. cbn [validate is_some call_opt]. rewrite Hg.
  destruct (validate E it v) as [c0|e]; [|reflexivity]. cbn [bind]. rewrite later_none.
  destruct (py_iter v) as [items|e]; [|reflexivity]. cbn [bind].
  apply (iter_loop_eq f (validate E m) Hf).
Qed.

Theorem deep_iterable_src_none_eq E m f v :
  (forall x, f x = validate E m x) ->
  deep_iterable_src f None v = validate E (VDeepIterable m VAny) v.
Proof.
  intros Hf. unfold deep_iterable_src. cbn [validate is_some bind].
  destruct (py_iter v) as [items|e]; [|reflexivity]. cbn [bind].
  apply (iter_loop_eq f (validate E m) Hf).
Qed.

Lemma pairs_loop_eq (fk gk fv gv : jv -> res (option jv)) :
  (forall x, fk x = gk x) -> (forall x, fv x = gv x) ->
  forall l acc,
  (fix loop (l : list (jv * jv)) (co : option jv) {struct l} : res (option jv) :=
     match l with
     | [] => Ok co
     | (key, item) :: r =>
         match fk key with
         | Raise e => Raise e
         | Ok c => let co := later co c in
                   match fv item with
                   | Raise e => Raise e
                   | Ok c => let co := later co c in loop r co
                   end
         end
     end) l acc = iter_pairs gk gv l acc.
Proof.
  intros Hk Hv l. induction l as [|[k x] l IH]; intro acc; [reflexivity|].
  cbn [iter_pairs]. rewrite <- Hk, <- Hv.
  destruct (fk k) as [c1|e]; [|reflexivity]. cbn [bind].
  destruct (fv x) as [c2|e]; [|reflexivity]. cbn [bind]. apply IH.
Qed.

Theorem deep_mapping_src_eq E k vv mm fk fv fm v :
  (forall x, fk x = validate E k x) -> (forall x, fv x = validate E vv x) ->
  (forall x, fm x = validate E mm x) ->
  deep_mapping_src fk fv (Some fm) v = validate E (VDeepMapping k vv mm) v.
Proof.
  intros Hk Hv Hm. unfold deep_mapping_src. cbn [validate is_some call_opt]. rewrite Hm.
  destruct (validate E mm v) as [c0|e]; [|reflexivity]. cbn [bind]. rewrite later_none.
  destruct (py_items v) as [items|e]; [|reflexivity]. cbn [bind].
  apply (pairs_loop_eq fk (validate E k) fv (validate E vv) Hk Hv).
Qed.

(* ---------- config/main.py: check_* ---------- *)

Lemma filter_nil_forallb {A} (p : A -> bool) l : is_nil (filter (fun x => negb (p x)) l) = forallb p l.
Proof.
  induction l as [|x l IH]; [reflexivity|]. simpl. destruct (p x); simpl; [exact IH|reflexivity].
Qed.

Theorem check_extensions_src_eq E v : check_extensions_src E v = check_extensions E v.
Proof.
  unfold check_extensions_src, check_extensions, ext_diff, isinst, set_of.
  destruct v; try reflexivity; cbn [existsb isinstance1 orb negb seq_of];
    (destruct (existsb unhashable l); [reflexivity|]);
    rewrite (filter_nil_forallb (fun x => match x with JStr s => mem_str s (e_known_ext E) | _ => false end));
    destruct (forallb _ l); reflexivity.
Qed.

Theorem check_positive_int_src_eq E v : check_positive_int_src v = custom E n_check_positive_int v.
Proof.
  change (custom E n_check_positive_int v) with (check_positive_int v).
  unfold check_positive_int_src. rewrite (instance_of_src_eq E).
  destruct v; try reflexivity. cbn. rewrite Z.leb_antisym. destruct (0 <? z)%Z; reflexivity.
Qed.

Lemma delim_ok a : orb (negb (is_str a)) (negb (Nat.eqb (jv_len a) 1)) = negb (str_len1 a).
Proof. destruct a; try reflexivity. destruct s as [|x [|y s]]; reflexivity. Qed.

Theorem check_sub_delimiters_src_eq v : check_sub_delimiters_src v = check_sub_delimiters v.
Proof.
  unfold check_sub_delimiters_src, check_sub_delimiters, isinst.
  destruct v; try reflexivity; cbn [existsb isinstance1 orb negb seq_of jv_len];
    (destruct l as [|a [|b [|c l]]]; try reflexivity);
    cbn [List.length Nat.eqb negb orb]; rewrite (delim_ok a), (delim_ok b);
    destruct (str_len1 a); destruct (str_len1 b); reflexivity.
Qed.

Lemma inventory_entry_src k x :
  (if negb (is_str k) then true
   else if orb (negb (isinst x [PyList; PyTuple])) (negb (Nat.eqb (jv_len x) 2)) then true
   else if negb (is_str (seq_at x 0)) then true
   else negb (orb (jv_is_none (seq_at x 1)) (is_str (seq_at x 1)))) = negb (inventory_entry_ok k x).
Proof.
  unfold inventory_entry_ok, isinst. destruct (is_str k); [|reflexivity]. cbn [negb andb].
  destruct x; try reflexivity; cbn [existsb isinstance1 orb negb jv_len];
    (destruct l as [|a [|b [|c l]]]; try reflexivity);
    cbn [List.length Nat.eqb negb orb seq_at seq_of nth_default nth_error];
    destruct (is_str a); cbn [negb andb]; try reflexivity; destruct b; reflexivity.
Qed.

Lemma inventories_loop kvs : forall co,
  (fix loop (l : list (jv * jv)) (co : option jv) {struct l} : res (option jv) :=
     match l with
     | [] => Ok co
     | (key, val) :: r =>
         if negb (is_str key) then Raise TypeError
         else if orb (negb (isinst val [PyList; PyTuple])) (negb (Nat.eqb (jv_len val) 2)) then Raise TypeError
         else if negb (is_str (seq_at val 0)) then Raise TypeError
         else if negb (orb (jv_is_none (seq_at val 1)) (is_str (seq_at val 1))) then Raise TypeError
         else loop r co
     end) kvs co =
  if forallb (fun p => inventory_entry_ok (fst p) (snd p)) kvs then Ok co else Raise TypeError.
Proof.
  induction kvs as [|[k x] kvs IH]; intro co; [reflexivity|].
  cbn [forallb fst snd]. pose proof (inventory_entry_src k x) as H.
  destruct (inventory_entry_ok k x); cbn [negb andb] in *.
  - destruct (negb (is_str k)); [discriminate|].
    destruct (orb _ _); [discriminate|]. destruct (negb (is_str (seq_at x 0))); [discriminate|].
    destruct (negb (orb _ _)); [discriminate|]. apply IH.
  - destruct (negb (is_str k)); [reflexivity|].
    destruct (orb _ _); [reflexivity|]. destruct (negb (is_str (seq_at x 0))); [reflexivity|].
    destruct (negb (orb _ _)); [reflexivity|discriminate].
Qed.

Theorem check_inventories_src_eq v : check_inventories_src v = check_inventories v.
Proof.
  unfold check_inventories_src, check_inventories. destruct v; try reflexivity.
  cbn [is_dict negb dict_of]. apply inventories_loop.
Qed.

Lemma iter_all_str E l : forall acc,
  iter_all (validate E (VInstanceOf [PyStr] false)) l acc = if forallb is_str l then Ok acc else Raise TypeError.
Proof.
  induction l as [|x l IH]; intro acc; [reflexivity|]. cbn [iter_all forallb].
  destruct x; try reflexivity. cbn. apply IH.
Qed.

Lemma deep_iterable_unfold E m it v :
  validate E (VDeepIterable m it) v =
  (do c0 <- validate E it v; do items <- py_iter v; iter_all (validate E m) items c0).
Proof. reflexivity. Qed.

Lemma seq3_validator E v :
  validate E (VInstanceOf [PyList; PyTuple; PySet] true) v =
  match v with JList _ | JTuple _ | JSet _ => Ok None | _ => Raise TypeError end.
Proof. destruct v; reflexivity. Qed.

Theorem check_fence_as_directive_src_eq (E : env) v : check_fence_as_directive_src v = check_fence_as_directive v.
Proof.
  unfold check_fence_as_directive_src.
  rewrite (deep_iterable_src_eq E (VInstanceOf [PyStr] false) (VInstanceOf [PyList; PyTuple; PySet] true))
    by (intro x; apply instance_of_src_eq).
  rewrite deep_iterable_unfold, seq3_validator. unfold check_fence_as_directive, set_of.
  destruct v; cbn [bind py_iter]; try reflexivity;
    rewrite iter_all_str; cbn [seq_of]; destruct (forallb is_str l); reflexivity.
Qed.

Theorem check_heading_slug_func_src_eq E v : check_heading_slug_func_src E v = check_heading_slug_func E v.
Proof.
  unfold check_heading_slug_func_src, check_heading_slug_func.
  destruct v; try reflexivity. cbn [jv_is_none is_str jv_str].
  destruct (mem_N c_dot s); cbn [negb]; [|reflexivity].
  destruct (e_import E s) as [obj| | |]; try reflexivity.
  destruct (is_callable obj); reflexivity.
Qed.

(* url_schemes *)
Lemma url_entry_src key val :
  (if negb (is_str key) then Raise TypeError
   else if jv_is_none val then Ok (key, val)
   else if is_str val then Ok (key, JDict [(JStr s_url, val)])
   else if is_dict val then
     (if negb (all_str_keys val) then Raise TypeError
      else if andb (dict_has s_url val) (negb (is_str (dict_at s_url val))) then Raise TypeError
      else if andb (dict_has s_title val) (negb (is_str (dict_at s_title val))) then Raise TypeError
      else if andb (dict_has s_classes val)
                   (orb (negb (isinst (dict_at s_classes val) [PyList]))
                        (negb (all_str (seq_of (dict_at s_classes val))))) then Raise TypeError
      else Ok (key, val))
   else Raise TypeError) = url_scheme_entry key val.
Proof.
  unfold url_scheme_entry. destruct key; try reflexivity. cbn [is_str negb].
  destruct val; try reflexivity.
  cbn [jv_is_none is_str is_dict]. unfold all_str_keys, dict_has, dict_at, isinst, all_str. cbn [dict_of].
  destruct (negb (forallb (fun p => is_str (fst p)) kvs)); [reflexivity|].
  destruct (dict_get s_url kvs) as [u|]; cbn [is_some andb].
  - destruct (negb (is_str u)); [reflexivity|].
    destruct (dict_get s_title kvs) as [t|]; cbn [is_some andb].
    + destruct (negb (is_str t)); [reflexivity|].
      destruct (dict_get s_classes kvs) as [c|]; cbn [is_some andb]; [|reflexivity].
      destruct c; reflexivity.
    + destruct (dict_get s_classes kvs) as [c|]; cbn [is_some andb]; [|reflexivity].
      destruct c; reflexivity.
  - destruct (dict_get s_title kvs) as [t|]; cbn [is_some andb].
    + destruct (negb (is_str t)); [reflexivity|].
      destruct (dict_get s_classes kvs) as [c|]; cbn [is_some andb]; [|reflexivity].
      destruct c; reflexivity.
    + destruct (dict_get s_classes kvs) as [c|]; cbn [is_some andb]; [|reflexivity].
      destruct c; reflexivity.
Qed.

Lemma url_loop kvs : forall acc co,
  (fix loop (l : list (jv * jv)) (new_dict : list (jv * jv)) (co : option jv) {struct l} : res (option jv) :=
     match l with
     | [] => let co := Some (JDict new_dict) in Ok co
     | (key, val) :: r =>
         if negb (is_str key) then Raise TypeError
         else if jv_is_none val then let new_dict := new_dict ++ [(key, val)] in loop r new_dict co
         else if is_str val then let new_dict := new_dict ++ [(key, JDict [(JStr s_url, val)])] in loop r new_dict co
         else if is_dict val then
           (if negb (all_str_keys val) then Raise TypeError
            else if andb (dict_has s_url val) (negb (is_str (dict_at s_url val))) then Raise TypeError
            else if andb (dict_has s_title val) (negb (is_str (dict_at s_title val))) then Raise TypeError
            else if andb (dict_has s_classes val)
                         (orb (negb (isinst (dict_at s_classes val) [PyList]))
                              (negb (all_str (seq_of (dict_at s_classes val))))) then Raise TypeError
            else let new_dict := new_dict ++ [(key, val)] in loop r new_dict co)
         else Raise TypeError
     end) kvs acc co =
  match url_scheme_entries kvs with
  | Ok r => Ok (Some (JDict (acc ++ r)))
  | Raise e => Raise e
  end.
Proof.
  induction kvs as [|[k x] kvs IH]; intros acc co.
  - simpl. rewrite app_nil_r. reflexivity.
  - cbn [url_scheme_entries]. rewrite <- (url_entry_src k x).
    destruct (negb (is_str k)); [reflexivity|].
    destruct (jv_is_none x).
    { cbn [bind]. rewrite IH. destruct (url_scheme_entries kvs); cbn [bind]; [rewrite <- app_assoc|]; reflexivity. }
    destruct (is_str x).
    { cbn [bind]. rewrite IH. destruct (url_scheme_entries kvs); cbn [bind]; [rewrite <- app_assoc|]; reflexivity. }
    destruct (is_dict x); [|reflexivity].
    destruct (negb (all_str_keys x)); [reflexivity|].
    destruct (andb (dict_has s_url x) _); [reflexivity|].
    destruct (andb (dict_has s_title x) _); [reflexivity|].
    destruct (andb (dict_has s_classes x) _); [reflexivity|].
    cbn [bind]. rewrite IH. destruct (url_scheme_entries kvs); cbn [bind]; [rewrite <- app_assoc|]; reflexivity.
Qed.

Theorem check_url_schemes_src_eq v : check_url_schemes_src v = check_url_schemes v.
Proof.
  unfold check_url_schemes_src, check_url_schemes, isinst, all_str, names_to_dict.
  destruct v; try reflexivity; cbn [existsb isinstance1 orb seq_of is_dict negb bind dict_of].
  - destruct (forallb is_str l); cbn [negb bind]; [|reflexivity].
    rewrite url_loop. destruct (url_scheme_entries _); reflexivity.
  - destruct (forallb is_str l); cbn [negb bind]; [|reflexivity].
    rewrite url_loop. destruct (url_scheme_entries _); reflexivity.
  - rewrite url_loop. destruct (url_scheme_entries kvs); reflexivity.
Qed.

(* ---------- merge_file_level ---------- *)

Lemma cfg_set_set n a b c : cfg_set n a (cfg_set n b c) = cfg_set n a c.
Proof.
  induction c as [|[k x] c IH]; [reflexivity|]. simpl.
  destruct (str_eqb k n) eqn:E; simpl; rewrite E; [reflexivity|]. rewrite IH. reflexivity.
Qed.

Lemma cfg_set_keys n v c : map fst (cfg_set n v c) = map fst c.
Proof.
  induction c as [|[k x] c IH]; [reflexivity|]. simpl. destruct (str_eqb k n); simpl; [reflexivity|].
  rewrite IH. reflexivity.
Qed.

Lemma cfg_get_set n v c : In n (map fst c) -> cfg_get n (cfg_set n v c) = Some v.
Proof.
  induction c as [|[k x] c IH]; [intros []|]. simpl. intro H.
  destruct (str_eqb k n) eqn:E; simpl; rewrite E; [reflexivity|].
  apply IH. destruct H as [H|H]; [|exact H]. subst. rewrite str_eqb_refl in E. discriminate.
Qed.

Lemma validate_fields_keys E fs : forall raw c,
  validate_fields E fs raw = Ok c -> map fst c = map fst raw.
Proof.
  induction fs as [|f fs IH]; intros raw c H; destruct raw as [|[n v] raw]; simpl in H; try discriminate.
  - inv H. reflexivity.
  - destruct (validate E (f_val f) v); simpl in H; [|discriminate].
    destruct (validate_fields E fs raw) as [rest|] eqn:R; simpl in H; [|discriminate].
    inv H. simpl. rewrite (IH raw rest R). reflexivity.
Qed.

Lemma raw_of_keys kw fs : map fst (raw_of kw fs) = map f_name fs.
Proof. unfold raw_of. rewrite map_map. reflexivity. Qed.

Lemma copy_keys E fs c kw new : copy E fs c kw = Ok new -> map fst new = map f_name fs.
Proof.
  unfold copy, mk_config. destruct (negb _); [discriminate|]. intro H.
  rewrite (validate_fields_keys _ _ _ _ H). apply raw_of_keys.
Qed.

Lemma find_field_key n fs f : find_field n fs = Some f -> In n (map f_name fs).
Proof. intro H. destruct (find_field_name _ _ _ H) as [E Hin]. subst. apply in_map. exact Hin. Qed.

Lemma merge_loop_src E fs c : forall ups new w,
  map fst new = map f_name fs ->
  (fix loop (l : list (jv * jv)) (new : Cfg.config) (w : list warning) {struct l}
     : res (Cfg.config * list warning) :=
     match l with
     | [] => Ok (new, w)
     | (name, value) :: r =>
         if negb (is_some (field_lookup fs c name)) then
           (let w := w ++ [WUnknownField name] in loop r new w)
         else
           (let '(old_value, field) := field_lookup_total fs c name in
            let new := set_attr name value new in
            match validate E (f_val field) value with
            | Raise _ => let new := set_attr name old_value new in
                         let w := w ++ [WInvalid (name_str name)] in loop r new w
            | Ok co => let new := apply_coercion name co new in
                       if f_merge field then
                         match dict_merge old_value (get_attr name new) with
                         | Raise e => Raise e
                         | Ok m => let new := set_attr name m new in loop r new w
                         end
                       else loop r new w
            end)
     end) ups new w =
  match merge_loop E false fs {| st_global := c; st_new := new; st_warn := w |} ups with
  | Ok st => Ok (st_new st, st_warn st)
  | Raise e => Raise e
  end.
Proof.
  induction ups as [|[name value] ups IH]; intros new w K; [reflexivity|].
  cbn [merge_loop]. unfold merge_step at 1. cbn [st_global st_new st_warn].
  destruct name; try (cbn [field_lookup is_some negb bind]; apply IH; exact K).
  unfold field_lookup, field_lookup_total. cbn [field_lookup].
  destruct (find_field s fs) as [f|] eqn:F; [|cbn [is_some negb bind]; apply IH; exact K].
  destruct (cfg_get s c) as [old|] eqn:G; [|cbn [is_some negb bind]; apply IH; exact K].
  cbn [is_some negb]. unfold set_attr, apply_coercion, get_attr, set_attr. cbn [name_str].
  assert (Kin : In s (map fst new)) by (rewrite K; eapply find_field_key; exact F).
  destruct (validate E (f_val f) value) as [co|e].
  - assert (N2 : match co with Some x => cfg_set s x (cfg_set s value new) | None => cfg_set s value new end
                 = cfg_set s (coerced co value) new).
    { destruct co; [apply cfg_set_set|reflexivity]. }
    rewrite N2. destruct (f_merge f).
    + rewrite (cfg_get_set s (coerced co value) new Kin).
      destruct (dict_merge old (coerced co value)) as [m|e]; cbn [bind]; [|reflexivity].
      rewrite cfg_set_set. apply IH. rewrite cfg_set_keys. exact K.
    + cbn [bind]. apply IH. rewrite cfg_set_keys. exact K.
  - cbn [bind]. rewrite cfg_set_set. apply IH. rewrite cfg_set_keys. exact K.
Qed.

Definition merge_result (r : res mstate) : res (Cfg.config * list warning) :=
  match r with Ok st => Ok (st_new st, st_warn st) | Raise e => Raise e end.

Theorem merge_file_level_src_eq E fs c top :
  merge_file_level_src E fs c top = merge_result (merge_file_level E fs c (JDict top)).
Proof.
  unfold merge_file_level_src, merge_file_level, merge_file_level_gen, top_get_myst, top_has, top_at.
  destruct (dict_get s_html_meta top) as [hm|]; destruct (dict_get s_substitutions top) as [sb|];
    cbn [is_some];
    destruct (match dict_get s_myst top with Some m => m | None => JDict [] end);
    cbn [is_dict negb dict_of app];
    (destruct (copy E fs c []) as [new|e] eqn:C; [|reflexivity]); cbn [bind]; unfold merge_result;
    first [ reflexivity
          | match goal with
            | |- ?f ?u new ?w = _ => exact (merge_loop_src E fs c u new w (copy_keys _ _ _ _ _ C))
            end ].
Qed.

(* ---------- the whole validator interpreter over the regenerated closures ---------- *)

Definition custom_src (E : env) (name : str) (v : jv) : res (option jv) :=
  if str_eqb name n_check_extensions then check_extensions_src E v
  else if str_eqb name n_check_url_schemes then check_url_schemes_src v
  else if str_eqb name n_check_sub_delimiters then check_sub_delimiters_src v
  else if str_eqb name n_check_inventories then check_inventories_src v
  else if str_eqb name n_check_heading_slug_func then check_heading_slug_func_src E v
  else if str_eqb name n_check_fence_as_directive then check_fence_as_directive_src v
  else if str_eqb name n_check_positive_int then check_positive_int_src v
  else Raise AttributeError.

Fixpoint validate_src (E : env) (e : vexpr) (v : jv) {struct e} : res (option jv) :=
  match e with
  | VAny => Ok None
  | VInstanceOf ts tup => instance_of_src ts tup v
  | VOptional e' => optional_src (validate_src E e') v
  | VIn opts => in_src opts v
  | VDeepIterable m it => deep_iterable_src (validate_src E m) (Some (validate_src E it)) v
  | VDeepMapping k vv mm =>
      deep_mapping_src (validate_src E k) (validate_src E vv) (Some (validate_src E mm)) v
  | VCustom name => custom_src E name v
  end.

Lemma custom_src_eq E n v : custom_src E n v = custom E n v.
Proof.
  unfold custom_src, custom.
  destruct (str_eqb n n_check_extensions); [apply check_extensions_src_eq|].
  destruct (str_eqb n n_check_url_schemes); [apply check_url_schemes_src_eq|].
  destruct (str_eqb n n_check_sub_delimiters); [apply check_sub_delimiters_src_eq|].
  destruct (str_eqb n n_check_inventories); [apply check_inventories_src_eq|].
  destruct (str_eqb n n_check_heading_slug_func); [apply check_heading_slug_func_src_eq|].
  destruct (str_eqb n n_check_fence_as_directive); [apply (check_fence_as_directive_src_eq E)|].
  destruct (str_eqb n n_check_positive_int); [apply (check_positive_int_src_eq E)|].
  reflexivity.
Qed.

Theorem validate_src_eq E e : forall v, validate_src E e v = validate E e v.
Proof.
  induction e as [|ts tup|e IH|opts|m IHm it IHit|k IHk vv IHv mm IHmm|n]; intro v; cbn [validate_src].
  - reflexivity.
  - apply instance_of_src_eq.
  - apply optional_src_eq. exact IH.
  - apply in_src_eq.
  - apply deep_iterable_src_eq; assumption.
  - apply deep_mapping_src_eq; assumption.
  - apply custom_src_eq.
Qed.

(* front matter on the regenerated merge_file_level *)
Definition top_list (n : str) (v : jv) : list (jv * jv) := [(JStr s_myst, JDict [(JStr n, v)])].

Theorem frontmatter_equals_global_src E fs c f v :
  nodup_names (map f_name fs) = true -> table_ok fs = true -> stable_cfg E fs c -> In f fs ->
  match validate_src E (f_val f) v with
  | Raise _ =>
      merge_file_level_src E fs c (top_list (f_name f) v) = Ok (c, [WInvalid (f_name f)])
      /\ is_ok (copy E fs c [(f_name f, v)]) = false
  | Ok _ =>
      exists new,
        merge_file_level_src E fs c (top_list (f_name f) v) = Ok (new, []) /\
        if f_merge f
        then exists old merged, cfg_get (f_name f) c = Some old /\ dict_merge old v = Ok merged /\
                                copy E fs c [(f_name f, merged)] = Ok new
        else copy E fs c [(f_name f, v)] = Ok new
  end.
Proof.
  intros ND TO S Hin. rewrite validate_src_eq, merge_file_level_src_eq.
  pose proof (frontmatter_equals_global E fs c f v ND TO S Hin) as H.
  change (JDict (top_list (f_name f) v)) with (top_of (f_name f) v).
  destruct (validate E (f_val f) v).
  - destruct H as [new [H1 H2]]. exists new. rewrite H1. split; [reflexivity|exact H2].
  - destruct H as [H1 H2]. rewrite H1. split; [reflexivity|exact H2].
Qed.
