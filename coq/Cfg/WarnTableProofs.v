(* Proofs of the finite-table theorems of C14.v (they need the regenerated Gen files).
   Moved out of Props so that Props holds statements and `exact` only. *)
From Coq Require Import List NArith Bool String.
From MV Require Import Base.PyStr Cfg.StrLit Cfg.WarnTypes Cfg.Warn Cfg.WarnProofs Gen.Warnings.
From MV Require Import Cfg.WarnSrcPrelude Gen.WarnSrc Cfg.WarnSrcProofs.
Import ListNotations.
Open Scope string_scope.
Open Scope list_scope.



Lemma C14_sites_typed_proof : forall s, In s sites -> site_ok catalogue s = true.
Proof. apply forallb_forall. vm_compute. reflexivity. Qed.

Lemma C14_untagged_sites_bounded_proof : untagged_sites_bounded sites = true.
Proof. vm_compute. reflexivity. Qed.

Lemma C14_site_tags_in_catalogue_proof : forall s, In s sites -> site_tags_allowed catalogue s = true.
Proof. apply forallb_forall. vm_compute. reflexivity. Qed.

Lemma C14_catalogue_emitted_proof :
  forall n, In n (map fst catalogue) -> In n known_dead \/ member_emitted sites n = true.
Proof.
  intros n H.
  assert (E : catalogue_emitted catalogue sites = true) by (vm_compute; reflexivity).
  unfold catalogue_emitted in E. rewrite forallb_forall in E. specialize (E n H).
  apply orb_true_iff in E as [E|E]; [left; apply mem_str_In; exact E | right; exact E].
Qed.

Lemma C14_result_use_benign_partial_proof : forall s, In s sites ->
  pair_in known_side_effect_sites (s_file s) (s_func s) = false -> use_benign s = true.
Proof.
  assert (E : forallb (fun s => pair_in known_side_effect_sites (s_file s) (s_func s) || use_benign s)
                      sites = true) by (vm_compute; reflexivity).
  intros s Hs Hk. rewrite forallb_forall in E. specialize (E s Hs). rewrite Hk in E. exact E.
Qed.

Lemma C14_result_use_benign_refuted_proof : exists s, In s sites /\ use_benign s = false.
Proof.
  assert (E : existsb (fun s => negb (use_benign s)) sites = true) by (vm_compute; reflexivity).
  apply existsb_exists in E as [s [Hs Hb]]. exists s. split; [exact Hs|].
  apply negb_true_iff. exact Hb.
Qed.

Lemma C14_source_refines_model_proof :
  (forall ty sub S, is_suppressed_src ty sub S = is_suppressed ty sub S) /\
  (forall fe S e has_node has_line,
     cw_src fe S e has_node has_line =
     (fst (create_warning fe S e), snd (create_warning fe S e),
      match snd (create_warning fe S e) with Some _ => we_placed e | None => false end)).
Proof. split; [exact is_suppressed_src_eq | exact create_warning_src_eq]. Qed.

Lemma C14_suppressed_src_meaning_proof : forall ty sub S, nodot ty = true ->
  (is_suppressed_src (Some ty) sub S = true <->
   exists w, In w S /\ (w = ty \/ w = ty ++ c_dot :: sub \/ w = ty ++ [c_dot; c_star])).
Proof.
  intros ty sub S H. rewrite (is_suppressed_src_spec ty sub S H). apply tag_matches_iff.
Qed.

Lemma C14_suppress_exact_src_proof : forall fe S items,
  forallb item_type_nodot items = true ->
  run_src fe S items = strip_coupled S (run_src fe [] items) /\
  (forallb xref_guard items = true -> run_src fe S items = strip S (run_src fe [] items)).
Proof.
  intros fe S items H. split; [apply run_src_suppress_coupled; exact H|].
  intro G. apply run_src_suppress_exact; assumption.
Qed.
