(* Proofs about Cfg/Warn.v *)
From Coq Require Import List NArith Bool Lia String.
From MV Require Import Base.PyStr Cfg.StrLit Cfg.WarnTypes Cfg.Warn.
Import ListNotations.
Open Scope N_scope.

(* ---------- split_dot ---------- *)

Lemma nodot_cons c s : nodot (c :: s) = negb (c_dot =? c) && nodot s.
Proof. unfold nodot, mem_N. simpl. rewrite negb_orb. reflexivity. Qed.

Lemma nodot_app a b : nodot (a ++ b) = nodot a && nodot b.
Proof.
  induction a as [|c a IH]; simpl.
  - reflexivity.
  - rewrite !nodot_cons, IH. rewrite andb_assoc. reflexivity.
Qed.

Lemma split_dot_none w : split_dot w = None <-> nodot w = true.
Proof.
  induction w as [|c w IH]; simpl.
  - split; reflexivity.
  - rewrite nodot_cons. rewrite (N.eqb_sym c_dot c).
    destruct (c =? c_dot) eqn:E; simpl.
    + split; discriminate.
    + destruct (split_dot w) as [[a b]|].
      * split; [discriminate|]. intro H. apply IH in H. discriminate.
      * split; [|reflexivity]. intros _. apply IH. reflexivity.
Qed.

Lemma split_dot_some w a b :
  split_dot w = Some (a, b) -> w = a ++ c_dot :: b /\ nodot a = true.
Proof.
  revert a b. induction w as [|c w IH]; simpl; intros a b H.
  - discriminate.
  - destruct (c =? c_dot) eqn:E.
    + inversion H; subst. apply N.eqb_eq in E. subst. split; reflexivity.
    + destruct (split_dot w) as [[a' b']|] eqn:S; [|discriminate].
      inversion H; subst. destruct (IH a' b eq_refl) as [Hw Hn]. subst w.
      split; [reflexivity|]. rewrite nodot_cons, Hn. rewrite N.eqb_sym, E. reflexivity.
Qed.

Lemma split_dot_app a b : nodot a = true -> split_dot (a ++ c_dot :: b) = Some (a, b).
Proof.
  induction a as [|c a IH]; simpl; intro H.
  - reflexivity.
  - rewrite nodot_cons in H. apply andb_true_iff in H as [H1 H2].
    rewrite N.eqb_sym in H1. apply negb_true_iff in H1. rewrite H1.
    rewrite (IH H2). reflexivity.
Qed.

(* a dot-free prefix followed by a dot determines the split *)
Lemma dot_split_unique a b a' b' :
  nodot a = true -> nodot a' = true ->
  a ++ c_dot :: b = a' ++ c_dot :: b' -> a = a' /\ b = b'.
Proof.
  intros Ha Ha' E.
  pose proof (split_dot_app a b Ha) as S1.
  pose proof (split_dot_app a' b' Ha') as S2.
  rewrite E in S1. rewrite S1 in S2. inversion S2. split; reflexivity.
Qed.

(* ---------- MyST's predicate = the specification, for dot-free types ---------- *)

Lemma str_eqb_false_of_nodot w ty rest :
  nodot w = true -> str_eqb w (ty ++ c_dot :: rest) = false.
Proof.
  intro H. apply str_eqb_neq. intro E. subst w.
  rewrite nodot_app, nodot_cons in H. simpl in H. rewrite andb_false_r in H. discriminate.
Qed.

Lemma entry_step ty sub w :
  nodot ty = true ->
  (let '(target, subtarget) :=
     match split_dot w with Some (a, b) => (a, Some b) | None => (w, None) end in
   str_eqb target ty &&
   match subtarget with None => true | Some st => str_eqb st sub || str_eqb st [c_star] end)
  = entry_matches ty sub w.
Proof.
  intro Hty. unfold entry_matches.
  destruct (split_dot w) as [[a b]|] eqn:S.
  - apply split_dot_some in S as [Hw Ha]. subst w.
    assert (E1 : str_eqb (a ++ c_dot :: b) ty = false).
    { apply str_eqb_neq. intro E. rewrite <- E in Hty.
      rewrite nodot_app, nodot_cons in Hty. simpl in Hty. rewrite andb_false_r in Hty. discriminate. }
    rewrite E1. simpl.
    destruct (str_eqb a ty) eqn:Ea.
    + apply str_eqb_eq in Ea. subst a. simpl.
      assert (F : forall x, str_eqb (ty ++ c_dot :: b) (ty ++ c_dot :: x) = str_eqb b x).
      { intro x. destruct (str_eqb b x) eqn:Eb.
        - apply str_eqb_eq in Eb. subst. apply str_eqb_refl.
        - apply str_eqb_neq. intro E. apply dot_split_unique in E as [_ E]; auto.
          apply str_eqb_neq in Eb. contradiction. }
      rewrite (F sub), (F [c_star]). reflexivity.
    + simpl. symmetry. apply orb_false_iff. split; apply str_eqb_neq; intro E;
        apply dot_split_unique in E as [E _]; auto; apply str_eqb_neq in Ea; contradiction.
  - apply split_dot_none in S. rewrite andb_true_r.
    rewrite (str_eqb_false_of_nodot w ty sub S), (str_eqb_false_of_nodot w ty [c_star] S).
    rewrite !orb_false_r. reflexivity.
Qed.

Lemma is_suppressed_loop_spec ty sub l :
  nodot ty = true -> is_suppressed_loop ty sub l = tag_matches l ty sub.
Proof.
  intro Hty. induction l as [|w l IH].
  - reflexivity.
  - cbn [is_suppressed_loop tag_matches existsb].
    pose proof (entry_step ty sub w Hty) as E.
    destruct (split_dot w) as [[a b]|]; cbn beta iota in E |- *; rewrite E;
      destruct (entry_matches ty sub w); simpl; auto.
Qed.

Lemma is_suppressed_spec ty sub l :
  nodot ty = true -> is_suppressed (Some ty) sub l = tag_matches l ty sub.
Proof. intro H. apply is_suppressed_loop_spec. exact H. Qed.

(* ---------- Sphinx's predicate = the specification (no premise) ---------- *)

Lemma mem_str_existsb s l : mem_str s l = existsb (fun w => str_eqb w s) l.
Proof.
  induction l as [|x l IH]; simpl; [reflexivity|].
  rewrite IH. f_equal.
  destruct (str_eqb s x) eqn:E.
  - apply str_eqb_eq in E. subst. symmetry. apply str_eqb_refl.
  - symmetry. apply str_eqb_neq. apply str_eqb_neq in E. congruence.
Qed.

Lemma existsb_orb {A} (f g : A -> bool) l :
  existsb (fun x => f x || g x) l = existsb f l || existsb g l.
Proof.
  induction l as [|x l IH]; simpl; [reflexivity|]. rewrite IH.
  destruct (f x), (g x), (existsb f l), (existsb g l); reflexivity.
Qed.

Lemma sphinx_is_suppressed_spec ty sub l :
  sphinx_is_suppressed (Some ty) sub l = tag_matches l ty sub.
Proof.
  unfold sphinx_is_suppressed, tag_matches.
  destruct l as [|w l]; [reflexivity|].
  rewrite !mem_str_existsb. unfold entry_matches.
  rewrite !existsb_orb.
  set (l' := w :: l).
  destruct (existsb (fun w0 => str_eqb w0 ty) l'),
           (existsb (fun w0 => str_eqb w0 (ty ++ c_dot :: sub)) l'),
           (existsb (fun w0 => str_eqb w0 (ty ++ [c_dot; c_star])) l'); reflexivity.
Qed.

Lemma mirror_agrees ty sub l :
  match ty with Some t => nodot t = true | None => True end ->
  is_suppressed ty sub l = sphinx_is_suppressed ty sub l.
Proof.
  destruct ty as [t|]; intro H.
  - rewrite is_suppressed_spec by exact H. rewrite sphinx_is_suppressed_spec. reflexivity.
  - reflexivity.
Qed.

Lemma mirror_dotted_refuted :
  exists ty sub l, is_suppressed (Some ty) sub l <> sphinx_is_suppressed (Some ty) sub l.
Proof.
  exists [97; 46; 98], [99], [[97; 46; 98]]. vm_compute. discriminate.
Qed.

(* the specification says what the property says *)
Lemma tag_matches_iff l ty sub :
  tag_matches l ty sub = true <->
  exists w, In w l /\ (w = ty \/ w = ty ++ c_dot :: sub \/ w = ty ++ [c_dot; c_star]).
Proof.
  unfold tag_matches. rewrite existsb_exists. split.
  - intros [w [Hin H]]. exists w. split; [exact Hin|].
    unfold entry_matches in H. apply orb_true_iff in H as [H|H].
    + apply orb_true_iff in H as [H|H]; apply str_eqb_eq in H; auto.
    + apply str_eqb_eq in H. auto.
  - intros [w [Hin H]]. exists w. split; [exact Hin|]. unfold entry_matches.
    destruct H as [H|[H|H]]; subst; rewrite str_eqb_refl; simpl; auto.
    + rewrite orb_true_r. reflexivity.
    + rewrite !orb_true_r. reflexivity.
Qed.

(* ---------- create_warning / run ---------- *)

Lemma tag_matches_nil ty sub : tag_matches [] ty sub = false.
Proof. reflexivity. Qed.

Lemma create_warning_spec fe S e :
  nodot (type_str e) = true ->
  create_warning fe S e =
  if tag_matches S (type_str e) (we_sub e) then ([], None) else ([mk_out e], Some (mk_out e)).
Proof.
  intro H. unfold create_warning.
  rewrite sphinx_is_suppressed_spec, (is_suppressed_spec _ _ _ H).
  destruct fe; destruct (tag_matches S (type_str e) (we_sub e)); reflexivity.
Qed.

Lemma out_matches_mk S e : out_matches S (mk_out e) = tag_matches S (type_str e) (we_sub e).
Proof. reflexivity. Qed.

Lemma run_suppress_exact fe S items :
  forallb item_type_nodot items = true ->
  forallb xref_guard items = true ->
  run fe S items = strip S (run fe [] items).
Proof.
  induction items as [|it items IH]; intros H G.
  - reflexivity.
  - simpl in H, G. apply andb_true_iff in H as [H1 H2]. apply andb_true_iff in G as [G1 G2].
    specialize (IH H2 G2). unfold strip in IH |- *.
    destruct it as [e|x|e text tgt]; cbn [run].
    + cbn [item_type_nodot] in H1.
      rewrite (create_warning_spec fe S e H1), (create_warning_spec fe [] e H1), tag_matches_nil.
      rewrite IH. destruct (run fe [] items) as [log tree]. cbn [fst snd].
      destruct (tag_matches S (type_str e) (we_sub e)) eqn:M.
      * cbn [app strip_log filter]. rewrite out_matches_mk, M. cbn [negb].
        destruct (we_placed e); [cbn [strip_tree]; rewrite out_matches_mk, M|]; reflexivity.
      * cbn [app strip_log filter]. rewrite out_matches_mk, M. cbn [negb].
        destruct (we_placed e); [cbn [strip_tree]; rewrite out_matches_mk, M|]; reflexivity.
    + rewrite IH. destruct (run fe [] items) as [log tree]. reflexivity.
    + cbn [item_type_nodot] in H1.
      destruct text as [t|]; [|discriminate G1].
      rewrite (create_warning_spec fe S e H1), (create_warning_spec fe [] e H1), tag_matches_nil.
      rewrite IH. destruct (run fe [] items) as [log tree]. cbn [fst snd].
      destruct (tag_matches S (type_str e) (we_sub e)) eqn:M;
        cbn [app strip_log filter strip_tree strip_opt]; rewrite out_matches_mk, M; reflexivity.
Qed.

(* the exact statement for ALL item sequences: suppression = strip, plus the fallback-text coupling *)
Lemma run_suppress_coupled fe S items :
  forallb item_type_nodot items = true ->
  run fe S items = strip_coupled S (run fe [] items).
Proof.
  induction items as [|it items IH]; intro H.
  - reflexivity.
  - simpl in H. apply andb_true_iff in H as [H1 H2]. specialize (IH H2). unfold strip_coupled in IH |- *.
    destruct it as [e|x|e text tgt]; cbn [run].
    + cbn [item_type_nodot] in H1.
      rewrite (create_warning_spec fe S e H1), (create_warning_spec fe [] e H1), tag_matches_nil.
      rewrite IH. destruct (run fe [] items) as [log tree]. cbn [fst snd].
      destruct (tag_matches S (type_str e) (we_sub e)) eqn:M.
      * cbn [app strip_log filter]. rewrite out_matches_mk, M. cbn [negb].
        destruct (we_placed e); [cbn [strip_tree_coupled]; rewrite out_matches_mk, M|]; reflexivity.
      * cbn [app strip_log filter]. rewrite out_matches_mk, M. cbn [negb].
        destruct (we_placed e); [cbn [strip_tree_coupled]; rewrite out_matches_mk, M|]; reflexivity.
    + rewrite IH. destruct (run fe [] items) as [log tree]. reflexivity.
    + cbn [item_type_nodot] in H1.
      rewrite (create_warning_spec fe S e H1), (create_warning_spec fe [] e H1), tag_matches_nil.
      rewrite IH. destruct (run fe [] items) as [log tree]. cbn [fst snd].
      destruct (tag_matches S (type_str e) (we_sub e)) eqn:M; destruct text;
        cbn [app strip_log filter strip_tree_coupled strip_ref]; rewrite out_matches_mk, M; reflexivity.
Qed.

(* the unguarded statement fails: a missing '#target' link without text gets its fallback text only
   when the warning is suppressed *)
Lemma run_suppress_exact_refuted :
  exists fe S items,
    forallb item_type_nodot items = true /\ run fe S items <> strip S (run fe [] items).
Proof.
  exists Docutils, [lit "myst.xref_missing"],
    [IXrefMissing {| we_wtype := None; we_sub := lit "xref_missing"; we_msg := lit "m";
                     we_placed := true |} None (lit "t")].
  split; [vm_compute; reflexivity | vm_compute; discriminate].
Qed.

(* with an empty suppress list nothing is removed: every warning is logged, and is in the tree
   when it was placed there *)
Fixpoint all_out (items : list item) : list wout * list tnode :=
  match items with
  | [] => ([], [])
  | IOther x :: rest => let '(log, tree) := all_out rest in (log, TOther x :: tree)
  | IWarn e :: rest =>
      let '(log, tree) := all_out rest in
      (mk_out e :: log, if we_placed e then TSys (mk_out e) :: tree else tree)
  | IXrefMissing e text tgt :: rest =>
      let '(log, tree) := all_out rest in
      (mk_out e :: log, TRef text (Some (mk_out e)) None tgt :: tree)
  end.

Lemma run_nil_all fe items :
  forallb item_type_nodot items = true -> run fe [] items = all_out items.
Proof.
  induction items as [|it items IH]; intro H.
  - reflexivity.
  - simpl in H. apply andb_true_iff in H as [H1 H2]. specialize (IH H2).
    destruct it as [e|x|e text tgt]; cbn [run all_out].
    + cbn [item_type_nodot] in H1.
      rewrite (create_warning_spec fe [] e H1), tag_matches_nil, IH.
      destruct (all_out items). reflexivity.
    + rewrite IH. reflexivity.
    + cbn [item_type_nodot] in H1.
      rewrite (create_warning_spec fe [] e H1), tag_matches_nil, IH.
      destruct (all_out items). destruct text; reflexivity.
Qed.

(* both front ends give the same log and tree (log filtered by Sphinx's predicate, tree by MyST's) *)
Lemma frontends_agree S items :
  forallb item_type_nodot items = true -> run Docutils S items = run Sphinx S items.
Proof.
  induction items as [|it items IH]; intro H.
  - reflexivity.
  - simpl in H. apply andb_true_iff in H as [H1 H2]. specialize (IH H2).
    destruct it as [e|x|e text tgt]; cbn [run]; cbn [item_type_nodot] in H1;
      try rewrite (create_warning_spec Docutils S e H1), (create_warning_spec Sphinx S e H1);
      rewrite IH; reflexivity.
Qed.
