(* Row type of the regenerated table coq/Gen/Warnings.v (every warning-related call site of the
   package).  Written by hand; the rows are produced by gen/c14_warnings.py. *)
From Coq Require Import List NArith Bool.
From MV Require Import Base.PyStr.
Import ListNotations.

(* how the call is made *)
Inductive skind : Type :=
| KCreate           (* create_warning(document, msg, SUB, wtype=T, ...)   of myst_parser.warnings_ *)
| KRenderer         (* self|renderer.create_warning(msg, SUB, wtype=T, ...)  DocutilsRenderer wrapper *)
| KResolver         (* self.log_warning(target, msg, SUB, ...)            MystReferenceResolver wrapper *)
| KCallback         (* warning(SUB, msg)                                  callback of merge_file_level *)
| KRecord           (* ParseWarnings(msg, lineno, SUB)                    emitted later via _warning.type *)
| KSphinxLog        (* LOG.warning(msg, type=T, subtype=SUB)              LOG a sphinx.util.logging logger *)
| KSphinxOther      (* LOG.error / LOG.info / ...                         not a warning *)
| KReporterWarning  (* <..>reporter.warning(...)                          untagged docutils system message *)
| KReporterOther    (* <..>reporter.error|info|severe|system_message(...) other levels *)
| KSuppressTest     (* [logging.]is_suppressed_warning(T, SUB, ..)        explicit suppression test *)
| KNodeCtor.        (* nodes.system_message(...)                          direct node construction *)

(* the warning-type expression at the site *)
Inductive texpr : Type :=
| TAbsent                 (* omitted or None: create_warning defaults to "myst"; a logger call is untyped *)
| TLit (s : str)          (* string literal *)
| TParam (p : str)        (* parameter of the enclosing wrapper, passed through *)
| TCore (v : str).        (* local of warnings_.create_warning (modelled by hand in Cfg/Warn.v) *)

(* the subtype expression at the site *)
Inductive sexpr : Type :=
| SAbsent
| SLit (s : str)                          (* string literal *)
| SMember (name : str)                    (* MystWarnings.NAME *)
| SMemberValue (name : str)               (* MystWarnings.NAME.value *)
| SParam (p : str) (enum_annot : bool)    (* parameter passed through; annotated with MystWarnings? *)
| SParamValue (p : str) (enum_annot : bool) (* <parameter>.value, parameter annotated MystWarnings *)
| SRecord (cls : str)                     (* <loop var over .warnings>.type : field of a ParseWarnings record *)
| SCore (v : str).                        (* local of warnings_.create_warning *)

(* what happens to the value returned by create_warning *)
Inductive ruse : Type :=
| UNA            (* not a create_warning call *)
| UDiscard       (* expression statement *)
| UReturn        (* returned unchanged by a wrapper / forwarding lambda *)
| UInclOmit      (* bound to a name used only as  [x] if x else []  *)
| UAppendInspected (* result unused, but the node given as append_to is inspected afterwards
                      (.children / len() / truth test) in the same function *)
| UOther.        (* anything else *)

Record site : Type := {
  s_file : str; s_line : N; s_func : str;
  s_kind : skind; s_type : texpr; s_sub : sexpr; s_use : ruse }.
