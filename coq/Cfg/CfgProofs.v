(* Proofs about Cfg/Cfg.v against Cfg/CfgSpec.v: validators accept exactly the documented types. *)
From Coq Require Import List NArith ZArith Bool Lia.
From MV Require Import Base.PyStr Base.Res Cfg.StrOps Cfg.Cfg Cfg.CfgSpec.
Import ListNotations.
Open Scope N_scope.

Ltac inv H := inversion H; subst; clear H.

(* ---------- small facts ---------- *)

Lemma is_str_IsStr x : is_str x = true <-> IsStr x.
Proof.
  split.
  - destruct x; try discriminate. intros _. eexists; reflexivity.
  - intros [s ->]. reflexivity.
Qed.

Lemma forallb_Forall {A} (p : A -> bool) (P : A -> Prop) l :
  (forall x, p x = true <-> P x) -> (forallb p l = true <-> Forall P l).
Proof.
  intro H. induction l as [|x l IH]; simpl.
  - split; auto.
  - rewrite andb_true_iff, IH, H. split.
    + intros [A1 A2]. constructor; auto.
    + intro F. inv F. auto.
Qed.

Lemma forallb_is_str l : forallb is_str l = true <-> Forall IsStr l.
Proof. apply forallb_Forall. apply is_str_IsStr. Qed.

Lemma bind_ok {A B} (r : res A) (f : A -> res B) :
  is_ok (bind r f) = true <-> exists a, r = Ok a /\ is_ok (f a) = true.
Proof.
  destruct r as [a|e]; simpl.
  - split; [intro H; exists a; auto | intros [a' [E H]]; inv E; exact H].
  - split; [discriminate | intros [a' [E _]]; discriminate].
Qed.

(* ---------- iterators ---------- *)

Lemma iter_all_ok f l acc :
  is_ok (iter_all f l acc) = true <-> Forall (fun x => is_ok (f x) = true) l.
Proof.
  revert acc. induction l as [|x l IH]; intro acc; simpl.
  - split; auto.
  - destruct (f x) as [c|e] eqn:Fx; simpl.
    + rewrite IH. split.
      * intro H. constructor; [rewrite Fx; reflexivity | exact H].
      * intro H. inv H. assumption.
    + split; [discriminate|]. intro H. inv H. rewrite Fx in H2. discriminate.
Qed.

Lemma iter_pairs_ok fk fv l acc :
  is_ok (iter_pairs fk fv l acc) = true <->
  Forall (fun p => is_ok (fk (fst p)) = true /\ is_ok (fv (snd p)) = true) l.
Proof.
  revert acc. induction l as [|[k x] l IH]; intro acc; simpl.
  - split; auto.
  - destruct (fk k) as [c1|e1] eqn:Fk; simpl.
    + destruct (fv x) as [c2|e2] eqn:Fv; simpl.
      * rewrite IH. split.
        -- intro H. constructor; [simpl; rewrite Fk, Fv; auto | exact H].
        -- intro H. inv H. assumption.
      * split; [discriminate|]. intro H. inv H. simpl in H2. rewrite Fv in H2. destruct H2; discriminate.
    + split; [discriminate|]. intro H. inv H. simpl in H2. rewrite Fk in H2. destruct H2; discriminate.
Qed.

(* ---------- instance_of on sequence kinds ---------- *)

Lemma existsb_map {A B} (f : A -> B) (p : B -> bool) l :
  existsb p (map f l) = existsb (fun x => p (f x)) l.
Proof. induction l as [|x l IH]; simpl; [reflexivity|]. rewrite IH. reflexivity. Qed.

Lemma existsb_ext {A} (p q : A -> bool) l : (forall x, p x = q x) -> existsb p l = existsb q l.
Proof. intro H. induction l as [|x l IH]; simpl; [reflexivity|]. rewrite H, IH. reflexivity. Qed.

Lemma existsb_false {A} (p : A -> bool) l : (forall x, p x = false) -> existsb p l = false.
Proof. intro H. induction l as [|x l IH]; simpl; [reflexivity|]. rewrite H, IH. reflexivity. Qed.

Lemma instance_of_seq kinds v :
  instance_of_ok (map pyty_of_skind kinds) true v = true <-> exists l, seq_items kinds v = Some l.
Proof.
  unfold instance_of_ok. simpl. rewrite andb_true_r. rewrite existsb_map.
  destruct v;
    try (rewrite existsb_false by (intros []; reflexivity); simpl;
         split; [discriminate | intros [l0 H]; discriminate]).
  - (* list *) simpl.
    rewrite (existsb_ext _ (fun k => match k with SkList => true | _ => false end)) by (intros []; reflexivity).
    destruct (existsb _ kinds); split; try discriminate; eauto. intros [l0 H]. discriminate.
  - (* tuple *) simpl.
    rewrite (existsb_ext _ (fun k => match k with SkTuple => true | _ => false end)) by (intros []; reflexivity).
    destruct (existsb _ kinds); split; try discriminate; eauto. intros [l0 H]. discriminate.
  - (* set *) simpl.
    rewrite (existsb_ext _ (fun k => match k with SkSet => true | _ => false end)) by (intros []; reflexivity).
    destruct (existsb _ kinds); split; try discriminate; eauto. intros [l0 H]. discriminate.
Qed.

Lemma seq_items_iter kinds v l : seq_items kinds v = Some l -> py_iter v = Ok l.
Proof.
  destruct v; simpl; try discriminate;
    match goal with |- (if ?c then _ else _) = _ -> _ => destruct c end; intro H; inv H; reflexivity.
Qed.

(* ---------- custom validators ---------- *)

Lemma custom_ext E v : custom E n_check_extensions v = check_extensions E v.
Proof. reflexivity. Qed.
Lemma custom_url E v : custom E n_check_url_schemes v = check_url_schemes v.
Proof. reflexivity. Qed.
Lemma custom_sub E v : custom E n_check_sub_delimiters v = check_sub_delimiters v.
Proof. reflexivity. Qed.
Lemma custom_inv E v : custom E n_check_inventories v = check_inventories v.
Proof. reflexivity. Qed.
Lemma custom_slug E v : custom E n_check_heading_slug_func v = check_heading_slug_func E v.
Proof. reflexivity. Qed.
Lemma custom_fence E v : custom E n_check_fence_as_directive v = check_fence_as_directive v.
Proof. reflexivity. Qed.

Lemma seq3_cases v l :
  seq_items [SkList; SkTuple; SkSet] v = Some l <-> (v = JList l \/ v = JTuple l \/ v = JSet l).
Proof.
  split.
  - destruct v; simpl; try discriminate; intro H; inv H; auto.
  - intros [H|[H|H]]; subst; reflexivity.
Qed.

Lemma seq2_cases v l :
  seq_items [SkList; SkTuple] v = Some l <-> (v = JList l \/ v = JTuple l).
Proof.
  split.
  - destruct v; simpl; try discriminate; intro H; inv H; auto.
  - intros [H|H]; subst; reflexivity.
Qed.

Lemma strs_not_unhashable l : Forall IsStr l -> existsb unhashable l = false.
Proof.
  induction 1 as [|x l Hx _ IH]; simpl; auto.
  destruct Hx as [s Hs]. subst x. simpl. exact IH.
Qed.

Definition ext_item (E : env) (x : jv) : bool :=
  match x with JStr s => mem_str s (e_known_ext E) | _ => false end.

Lemma ext_item_spec E x : ext_item E x = true <-> exists s, x = JStr s /\ In s (e_known_ext E).
Proof.
  split.
  - destruct x; simpl; try discriminate. intro H. eexists. split; [reflexivity|]. apply mem_str_In. exact H.
  - intros [s [-> H]]. simpl. apply mem_str_In. exact H.
Qed.

Lemma check_extensions_seq E l :
  is_ok (if existsb unhashable l then Raise TypeError
         else if forallb (ext_item E) l then Ok (Some (mk_str_set l)) else Raise ValueError) = true
  <-> Forall (fun x => exists s, x = JStr s /\ In s (e_known_ext E)) l.
Proof.
  rewrite <- (forallb_Forall (ext_item E) _ l (ext_item_spec E)).
  destruct (forallb (ext_item E) l) eqn:F.
  - assert (U : existsb unhashable l = false).
    { apply strs_not_unhashable. apply (forallb_Forall (ext_item E) _ l (ext_item_spec E)) in F.
      eapply Forall_impl; [|exact F]. intros x [s [-> _]]. eexists; reflexivity. }
    rewrite U. simpl. split; auto.
  - destruct (existsb unhashable l); simpl; split; discriminate.
Qed.

Lemma accepts_ext E v : accepts E (VCustom n_check_extensions) v = true <-> has_type E v TyExtSet.
Proof.
  unfold accepts. cbn [validate]. rewrite custom_ext. cbn [has_type].
  split.
  - intro H. destruct v; try discriminate H; exists l; (split; [reflexivity|]);
      apply check_extensions_seq; exact H.
  - intros [l [S F]]. apply seq3_cases in S as [-> | [-> | ->]]; apply check_extensions_seq; exact F.
Qed.

Lemma accepts_fence E v : accepts E (VCustom n_check_fence_as_directive) v = true <-> has_type E v TyStrSet.
Proof.
  unfold accepts. cbn [validate]. rewrite custom_fence. cbn [has_type].
  split.
  - intro H. destruct v; try discriminate H; exists l; (split; [reflexivity|]);
      apply forallb_is_str; simpl in H; (destruct (forallb is_str l); [reflexivity|discriminate]).
  - intros [l [S F]]. apply forallb_is_str in F.
    apply seq3_cases in S as [-> | [-> | ->]]; simpl; rewrite F; reflexivity.
Qed.

Lemma accepts_sub E v : accepts E (VCustom n_check_sub_delimiters) v = true <-> has_type E v TySubDelims.
Proof.
  unfold accepts. cbn [validate]. rewrite custom_sub. cbn [has_type]. split.
  - intro H. destruct v; try discriminate H;
      destruct l as [|a [|b [|c l]]]; try discriminate H; simpl in H;
      destruct a as [| | | |sa| | | | | |]; try discriminate H;
      destruct sa as [|ca [|? ?]]; try discriminate H;
      destruct b as [| | | |sb| | | | | |]; try discriminate H;
      destruct sb as [|cb [|? ?]]; try discriminate H; exists ca, cb; auto.
  - intros [a [b [-> | ->]]]; reflexivity.
Qed.

Lemma inventory_entry_spec k x :
  inventory_entry_ok k x = true <-> IsStr k /\ inventory_val_ok x.
Proof.
  unfold inventory_entry_ok, inventory_val_ok. rewrite andb_true_iff, is_str_IsStr. split.
  - intros [Hk H]. split; [exact Hk|].
    destruct x; try discriminate H; destruct l as [|a [|b [|c l]]]; try discriminate H;
      apply andb_true_iff in H as [Ha Hb]; apply is_str_IsStr in Ha as [sa ->];
      exists sa, b; (split; [auto|]); destruct b; try discriminate Hb; auto;
      right; eexists; reflexivity.
  - intros [Hk [a [b [[-> | ->] Hb]]]]; (split; [exact Hk|]); simpl;
      destruct Hb as [-> | [s ->]]; reflexivity.
Qed.

Lemma accepts_inv E v : accepts E (VCustom n_check_inventories) v = true <-> has_type E v TyInventories.
Proof.
  unfold accepts. cbn [validate]. rewrite custom_inv. cbn [has_type]. split.
  - intro H. destruct v; try discriminate H. exists kvs. split; [reflexivity|].
    simpl in H. destruct (forallb _ kvs) eqn:F; [|discriminate].
    eapply forallb_Forall; [|exact F]. intros [k x]. apply inventory_entry_spec.
  - intros [kvs [-> F]]. simpl.
    assert (F' : forallb (fun p => inventory_entry_ok (fst p) (snd p)) kvs = true).
    { eapply forallb_Forall; [|exact F]. intros [k x]. apply inventory_entry_spec. }
    rewrite F'. reflexivity.
Qed.

Lemma accepts_slug E v : accepts E (VCustom n_check_heading_slug_func) v = true <-> has_type E v TySlugFunc.
Proof.
  unfold accepts. cbn [validate]. rewrite custom_slug. cbn [has_type]. split.
  - intro H. destruct v; try discriminate H; auto.
    + simpl in H. destruct (mem_N c_dot s) eqn:D; [|discriminate H]. simpl in H.
      destruct (e_import E s) as [obj| | |] eqn:I; try discriminate H.
      destruct obj; try discriminate H. right. right. exists s, name. auto.
    + right. left. eexists; reflexivity.
  - intros [-> | [[n ->] | [s [n [-> [D I]]]]]]; try reflexivity.
    simpl. rewrite D, I. reflexivity.
Qed.

Lemma accepts_pos E v : accepts E (VCustom n_check_positive_int) v = true <-> has_type E v TyPosInt.
Proof.
  unfold accepts. cbn [validate]. cbn [has_type]. split.
  - intro H. destruct v; try discriminate H. exists z. split; [reflexivity|].
    change (custom E n_check_positive_int (JInt z)) with (check_positive_int (JInt z)) in H.
    simpl in H. destruct (0 <? z)%Z eqn:L; [|discriminate]. apply Z.ltb_lt. exact L.
  - intros [z [-> L]]. change (custom E n_check_positive_int (JInt z)) with (check_positive_int (JInt z)).
    simpl. apply Z.ltb_lt in L. rewrite L. reflexivity.
Qed.

(* url_schemes *)

Lemma opt_check_str (o : option jv) :
  match o with Some x => negb (is_str x) | None => false end = false <->
  (forall y, o = Some y -> IsStr y).
Proof.
  destruct o as [x|]; split.
  - intros H y E. inv E. apply is_str_IsStr. apply negb_false_iff. exact H.
  - intro H. apply negb_false_iff. apply is_str_IsStr. apply H. reflexivity.
  - intros _ y E. discriminate.
  - reflexivity.
Qed.

Lemma opt_check_classes (o : option jv) :
  match o with
  | Some (JList cs) => negb (forallb is_str cs)
  | Some _ => true
  | None => false
  end = false <->
  (forall y, o = Some y -> exists cs, y = JList cs /\ Forall IsStr cs).
Proof.
  destruct o as [x|]; split.
  - intros H y E. inv E. destruct y; try discriminate H. exists l. split; [reflexivity|].
    apply forallb_is_str. apply negb_false_iff. exact H.
  - intro H. destruct (H x eq_refl) as [cs [-> F]]. apply negb_false_iff. apply forallb_is_str. exact F.
  - intros _ y E. discriminate.
  - reflexivity.
Qed.

Lemma url_scheme_entry_ok k x :
  is_ok (url_scheme_entry k x) = true <-> IsStr k /\ url_val_ok x.
Proof.
  unfold url_scheme_entry, url_val_ok. split.
  - intro H. destruct k; try discriminate H. split; [eexists; reflexivity|].
    destruct x; try discriminate H; auto.
    + right. left. eexists; reflexivity.
    + right. right. exists kvs. split; [reflexivity|].
      destruct (forallb (fun p => is_str (fst p)) kvs) eqn:K; [|discriminate H]. simpl in H.
      destruct (match dict_get s_url kvs with Some x => negb (is_str x) | None => false end) eqn:U;
        [discriminate H|].
      destruct (match dict_get s_title kvs with Some x => negb (is_str x) | None => false end) eqn:T;
        [discriminate H|].
      destruct (match dict_get s_classes kvs with
                | Some (JList cs) => negb (forallb is_str cs) | Some _ => true | None => false end) eqn:C;
        [discriminate H|].
      repeat split.
      * eapply forallb_Forall; [|exact K]. intro p. apply is_str_IsStr.
      * apply opt_check_str. exact U.
      * apply opt_check_str. exact T.
      * apply opt_check_classes. exact C.
  - intros [[s ->] H]. destruct H as [-> | [[u ->] | [d [-> [K [U [T C]]]]]]]; try reflexivity.
    assert (K' : forallb (fun p => is_str (fst p)) d = true).
    { eapply forallb_Forall; [|exact K]. intro p. apply is_str_IsStr. }
    rewrite K'. simpl.
    apply opt_check_str in U. apply opt_check_str in T. apply opt_check_classes in C.
    rewrite U, T, C. reflexivity.
Qed.

Lemma url_scheme_entries_ok kvs :
  is_ok (url_scheme_entries kvs) = true <->
  Forall (fun p => IsStr (fst p) /\ url_val_ok (snd p)) kvs.
Proof.
  induction kvs as [|[k x] kvs IH]; simpl.
  - split; auto.
  - destruct (url_scheme_entry k x) as [e|e] eqn:En; simpl.
    + destruct (url_scheme_entries kvs) as [r|e'] eqn:R; simpl.
      * split; [|reflexivity]. intros _. constructor.
        -- simpl. apply url_scheme_entry_ok. rewrite En. reflexivity.
        -- apply IH. reflexivity.
      * split; [discriminate|]. intro H. inv H. apply IH in H3. discriminate.
    + split; [discriminate|]. intro H. inv H. simpl in H2. apply url_scheme_entry_ok in H2.
      rewrite En in H2. discriminate.
Qed.

Lemma dedup_keys_entries l seen :
  is_ok (url_scheme_entries (dedup_keys l seen)) = true.
Proof.
  revert seen. induction l as [|s l IH]; intro seen; simpl.
  - reflexivity.
  - destruct (mem_str s seen); [apply IH|]. simpl.
    specialize (IH (s :: seen)). destruct (url_scheme_entries (dedup_keys l (s :: seen))); [reflexivity|discriminate].
Qed.

Lemma check_url_list l :
  is_ok (do value <- (if forallb is_str l then Ok (JDict (dedup_keys (strs_of l) [])) else Raise TypeError);
         match value with
         | JDict kvs => do new_dict <- url_scheme_entries kvs; Ok (Some (JDict new_dict))
         | _ => Raise TypeError
         end) = true <-> Forall IsStr l.
Proof.
  rewrite <- forallb_is_str. destruct (forallb is_str l); simpl.
  - split; [reflexivity|]. intros _.
    pose proof (dedup_keys_entries (strs_of l) []) as H.
    destruct (url_scheme_entries (dedup_keys (strs_of l) [])); [reflexivity|discriminate].
  - split; discriminate.
Qed.

Lemma accepts_url E v : accepts E (VCustom n_check_url_schemes) v = true <-> has_type E v TyUrlSchemes.
Proof.
  unfold accepts. cbn [validate]. rewrite custom_url. cbn [has_type]. unfold check_url_schemes. split.
  - intro H. destruct v; try discriminate H.
    + left. exists l. split; [reflexivity|]. apply check_url_list. exact H.
    + left. exists l. split; [reflexivity|]. apply check_url_list. exact H.
    + right. exists kvs. split; [reflexivity|]. apply url_scheme_entries_ok.
      simpl in H. destruct (url_scheme_entries kvs); [reflexivity|discriminate].
  - intros [[l [S F]]|[kvs [-> F]]].
    + apply seq2_cases in S as [-> | ->]; apply check_url_list; exact F.
    + apply url_scheme_entries_ok in F. simpl. destruct (url_scheme_entries kvs); [reflexivity|discriminate].
Qed.

(* ---------- C13_combinators_sound_complete ---------- *)

Theorem combinators_sound_complete E t :
  forall v, accepts E (vexpr_of t) v = true <-> has_type E v t.
Proof.
  induction t as [| | | |t IH|opts|kinds t IH|k IHk vt IHv| | | | | | |]; intro v.
  - (* Any *) simpl. split; auto.
  - (* Bool *) unfold accepts. simpl. destruct v; simpl; split; try discriminate;
      try (intros [b E0]; discriminate); eauto.
  - (* Int *) unfold accepts. simpl. destruct v; simpl; split; try discriminate;
      try (intros [z0 E0]; discriminate); eauto.
  - (* Str *) unfold accepts. simpl. destruct v; simpl; split; try discriminate;
      try (intros [s0 E0]; discriminate); eauto. intros _. eexists; reflexivity.
  - (* Opt *) unfold accepts. cbn [vexpr_of validate has_type].
    destruct v; try (rewrite <- IH; unfold accepts; split; [intro H; right; exact H | intros [H|H]; [discriminate H|exact H]]).
    split; auto.
  - (* IntIn *) unfold accepts. simpl. destruct v; simpl; split; try discriminate;
      try (intros [z0 [E0 _]]; discriminate).
    + intro H. destruct (existsb (Z.eqb z) opts) eqn:X; [|discriminate].
      apply existsb_exists in X as [y [Hy E0]]. apply Z.eqb_eq in E0. subst. exists y. auto.
    + intros [z0 [E0 Hin]]. inv E0.
      assert (X : existsb (Z.eqb z0) opts = true).
      { apply existsb_exists. exists z0. split; [exact Hin|apply Z.eqb_refl]. }
      rewrite X. reflexivity.
  - (* Seq *) unfold accepts. cbn [vexpr_of validate has_type].
    destruct (instance_of_ok (map pyty_of_skind kinds) true v) eqn:I.
    + apply instance_of_seq in I as [l S]. rewrite (seq_items_iter _ _ _ S). cbn [bind].
      rewrite iter_all_ok. split.
      * intro F. exists l. split; [exact S|]. eapply Forall_impl; [|exact F]. intros x Hx. apply IH. exact Hx.
      * intros [l' [S' F]]. rewrite S in S'. inv S'.
        eapply Forall_impl; [|exact F]. intros x Hx. apply IH. exact Hx.
    + cbn [bind is_ok]. split; [discriminate|]. intros [l [S _]].
      assert (X : instance_of_ok (map pyty_of_skind kinds) true v = true) by (apply instance_of_seq; eauto).
      rewrite X in I. discriminate.
  - (* Map *) unfold accepts. cbn [vexpr_of validate has_type].
    destruct v; try (simpl; split; [discriminate | intros [kvs0 [E0 _]]; discriminate]).
    cbn. rewrite iter_pairs_ok. split.
    + intro F. exists kvs. split; [reflexivity|]. eapply Forall_impl; [|exact F].
      intros p [H1 H2]. split; [apply IHk; exact H1 | apply IHv; exact H2].
    + intros [kvs0 [E0 F]]. inv E0. eapply Forall_impl; [|exact F].
      intros p [H1 H2]. split; [apply IHk; exact H1 | apply IHv; exact H2].
  - apply accepts_ext.
  - apply accepts_fence.
  - apply accepts_url.
  - apply accepts_sub.
  - apply accepts_inv.
  - apply accepts_slug.
  - apply accepts_pos.
Qed.

(* ---------- vexpr_eqb is equality ---------- *)

Lemma list_eqb_eq {A} (eqb : A -> A -> bool) (a b : list A) :
  (forall x y, eqb x y = true -> x = y) -> list_eqb eqb a b = true -> a = b.
Proof.
  intro H. revert b. induction a as [|x a IH]; intros [|y b] E; simpl in E; try discriminate; auto.
  apply andb_true_iff in E as [E1 E2]. f_equal; auto.
Qed.

Lemma pyty_eqb_eq x y : pyty_eqb x y = true -> x = y.
Proof. destruct x, y; simpl; intro H; try discriminate; reflexivity. Qed.

Lemma vexpr_eqb_eq a : forall b, vexpr_eqb a b = true -> a = b.
Proof.
  induction a; intros [] H; simpl in H; try discriminate.
  - reflexivity.
  - apply andb_true_iff in H as [H1 H2]. apply (list_eqb_eq _ _ _ pyty_eqb_eq) in H1.
    apply Bool.eqb_prop in H2. subst. reflexivity.
  - f_equal. auto.
  - f_equal. apply (list_eqb_eq Z.eqb); [|exact H]. intros x y E. apply Z.eqb_eq. exact E.
  - apply andb_true_iff in H as [H1 H2]. f_equal; auto.
  - apply andb_true_iff in H as [H12 H3]. apply andb_true_iff in H12 as [H1 H2]. f_equal; auto.
  - f_equal. apply str_eqb_eq. exact H.
Qed.

(* every row that passes field_ok accepts exactly its documented type *)
Theorem field_ok_sound E f :
  field_ok f = true ->
  exists t, doc_ty f = Some t /\ forall v, accepts E (f_val f) v = true <-> has_type E v t.
Proof.
  unfold field_ok. destruct (doc_ty f) as [t|]; [|discriminate]. intro H.
  exists t. split; [reflexivity|]. apply vexpr_eqb_eq in H. rewrite H. apply combinators_sound_complete.
Qed.

(* ====================================================================== *)
(* Normal form                                                            *)
(* ====================================================================== *)

(* ---------- validators without custom functions never coerce ---------- *)

Lemma iter_all_none f l :
  (forall x c, f x = Ok c -> c = None) ->
  forall acc r, iter_all f l acc = Ok r -> r = acc.
Proof.
  intro Hf. induction l as [|x l IH]; intros acc r H; simpl in H.
  - inv H. reflexivity.
  - destruct (f x) as [c|e] eqn:Fx; simpl in H; [|discriminate].
    apply Hf in Fx. subst c. simpl in H. apply IH in H. destruct acc; exact H.
Qed.

Lemma iter_pairs_none fk fv l :
  (forall x c, fk x = Ok c -> c = None) -> (forall x c, fv x = Ok c -> c = None) ->
  forall acc r, iter_pairs fk fv l acc = Ok r -> r = acc.
Proof.
  intros Hk Hv. induction l as [|[k x] l IH]; intros acc r H; simpl in H.
  - inv H. reflexivity.
  - destruct (fk k) as [c1|e] eqn:Fk; simpl in H; [|discriminate].
    destruct (fv x) as [c2|e] eqn:Fv; simpl in H; [|discriminate].
    apply Hk in Fk. apply Hv in Fv. subst. simpl in H. apply IH in H. destruct acc; exact H.
Qed.

Lemma no_custom_none E e :
  no_custom e = true -> forall v c, validate E e v = Ok c -> c = None.
Proof.
  induction e as [|ts tup|e IH|opts|m IHm it IHit|k IHk vv IHv mm IHmm|n]; intros NC v c H; simpl in *.
  - inv H. reflexivity.
  - destruct (instance_of_ok ts tup v); inv H. reflexivity.
  - destruct v; try (eapply IH; eassumption). inv H. reflexivity.
  - destruct (in_ok opts v); inv H. reflexivity.
  - apply andb_true_iff in NC as [N1 N2].
    destruct (validate E it v) as [c0|e0] eqn:V0; simpl in H; [|discriminate].
    apply (IHit N2) in V0. subst c0.
    destruct (py_iter v) as [items|e1]; simpl in H; [|discriminate].
    eapply iter_all_none in H; [exact H|]. intros x c1. apply IHm. exact N1.
  - apply andb_true_iff in NC as [N12 N3]. apply andb_true_iff in N12 as [N1 N2].
    destruct (validate E mm v) as [c0|e0] eqn:V0; simpl in H; [|discriminate].
    apply (IHmm N3) in V0. subst c0.
    destruct (py_items v) as [pairs|e1]; simpl in H; [|discriminate].
    eapply iter_pairs_none in H; [exact H| |]; intros x c1; [apply IHk|apply IHv]; assumption.
  - discriminate.
Qed.

(* ---------- the canonical representation of a set of str ---------- *)

Lemma str_ltb_irrefl a : str_ltb a a = false.
Proof.
  induction a as [|x a IH]; simpl; [reflexivity|].
  rewrite N.ltb_irrefl, N.eqb_refl, IH. reflexivity.
Qed.

Lemma str_ltb_trans a : forall b c, str_ltb a b = true -> str_ltb b c = true -> str_ltb a c = true.
Proof.
  induction a as [|x a IH]; intros [|y b] [|z c] H1 H2; simpl in *; try discriminate; auto.
  apply orb_true_iff in H1. apply orb_true_iff in H2. apply orb_true_iff.
  destruct H1 as [H1|H1], H2 as [H2|H2].
  - left. apply N.ltb_lt in H1, H2. apply N.ltb_lt. lia.
  - apply andb_true_iff in H2 as [E _]. apply N.eqb_eq in E. subst. left. exact H1.
  - apply andb_true_iff in H1 as [E _]. apply N.eqb_eq in E. subst. left. exact H2.
  - apply andb_true_iff in H1 as [E1 L1]. apply andb_true_iff in H2 as [E2 L2].
    apply N.eqb_eq in E1, E2. subst. right. rewrite N.eqb_refl. simpl. eapply IH; eassumption.
Qed.

Lemma str_total a : forall b, str_eqb a b = false -> str_ltb a b = false -> str_ltb b a = true.
Proof.
  induction a as [|x a IH]; intros [|y b] E L; simpl in *; try discriminate; auto.
  apply orb_false_iff in L as [L1 L2].
  apply N.ltb_ge in L1.
  destruct (y =? x) eqn:Eyx.
  - apply N.eqb_eq in Eyx. subst. rewrite N.eqb_refl in *. simpl in *.
    rewrite N.ltb_irrefl. simpl. apply IH; assumption.
  - apply N.eqb_neq in Eyx. apply orb_true_iff. left. apply N.ltb_lt. lia.
Qed.

Lemma str_ltb_neq a b : str_ltb a b = true -> str_eqb a b = false.
Proof.
  intro H. apply str_eqb_neq. intro E. subst. rewrite str_ltb_irrefl in H. discriminate.
Qed.

Fixpoint ssorted (l : list str) : Prop :=
  match l with
  | [] => True
  | x :: r => match r with [] => True | y :: _ => str_ltb x y = true end /\ ssorted r
  end.

Lemma insert_in s l x : In x (insert_str s l) <-> x = s \/ In x l.
Proof.
  induction l as [|y l IH]; simpl.
  - split; [intros [H|[]]; auto | intros [H|[]]; auto].
  - destruct (str_eqb s y) eqn:E.
    + apply str_eqb_eq in E. subst. simpl. split; [auto|]. intros [H|H]; auto.
    + destruct (str_ltb s y); simpl.
      * split; intros [H|H]; auto.
      * rewrite IH. split; [intros [H|[H|H]]|intros [H|[H|H]]]; auto.
Qed.

Lemma insert_head s l :
  match insert_str s l with
  | [] => False
  | h :: _ => h = s \/ match l with y :: _ => h = y | [] => False end
  end.
Proof.
  destruct l as [|y l]; simpl; [auto|].
  destruct (str_eqb s y); [auto|]. destruct (str_ltb s y); auto.
Qed.

Lemma insert_sorted s l : ssorted l -> ssorted (insert_str s l).
Proof.
  induction l as [|y l IH]; intro S; simpl.
  - auto.
  - destruct (str_eqb s y) eqn:E; [exact S|].
    destruct (str_ltb s y) eqn:L.
    + simpl. auto.
    + destruct S as [S1 S2]. specialize (IH S2).
      pose proof (str_total s y E L) as Lys.
      pose proof (insert_head s l) as Hh.
      simpl. split; [|exact IH].
      destruct (insert_str s l) as [|h r]; [auto|].
      destruct Hh as [->|Hh]; [exact Lys|].
      destruct l as [|z l']; [destruct Hh|]. subst h. exact S1.
Qed.

Lemma canon_in l x : In x (canon_strs l) <-> In x l.
Proof.
  induction l as [|s l IH]; simpl; [tauto|].
  rewrite insert_in, IH. split; intros [H|H]; auto.
Qed.

Lemma canon_sorted l : ssorted (canon_strs l).
Proof. induction l as [|s l IH]; simpl; [auto|]. apply insert_sorted. exact IH. Qed.

Lemma sorted_lt_all x l : ssorted (x :: l) -> forall y, In y l -> str_ltb x y = true.
Proof.
  revert x. induction l as [|z l IH]; intros x S y Hin; [destruct Hin|].
  destruct S as [S1 S2]. destruct Hin as [->|Hin]; [exact S1|].
  eapply str_ltb_trans; [exact S1|]. apply IH; assumption.
Qed.

Lemma sorted_unique l1 : forall l2,
  ssorted l1 -> ssorted l2 -> (forall x, In x l1 <-> In x l2) -> l1 = l2.
Proof.
  induction l1 as [|a l1 IH]; intros [|b l2] S1 S2 H.
  - reflexivity.
  - exfalso. apply (proj2 (H b)). left. reflexivity.
  - exfalso. apply (proj1 (H a)). left. reflexivity.
  - assert (Eab : a = b).
    { destruct (proj1 (H a) (or_introl eq_refl)) as [E|Hin]; [auto|].
      destruct (proj2 (H b) (or_introl eq_refl)) as [E|Hin2]; [auto|].
      pose proof (sorted_lt_all _ _ S2 _ Hin) as L1.
      pose proof (sorted_lt_all _ _ S1 _ Hin2) as L2.
      pose proof (str_ltb_trans _ _ _ L1 L2) as L. rewrite str_ltb_irrefl in L. discriminate. }
    subst b. f_equal. apply IH.
    + destruct S1; assumption.
    + destruct S2; assumption.
    + intro x. split; intro Hx.
      * destruct (proj1 (H x) (or_intror Hx)) as [E|Hin]; [|exact Hin].
        subst x. pose proof (sorted_lt_all _ _ S1 _ Hx) as L. rewrite str_ltb_irrefl in L. discriminate.
      * destruct (proj2 (H x) (or_intror Hx)) as [E|Hin]; [|exact Hin].
        subst x. pose proof (sorted_lt_all _ _ S2 _ Hx) as L. rewrite str_ltb_irrefl in L. discriminate.
Qed.

Lemma canon_same l1 l2 : (forall x, In x l1 <-> In x l2) -> canon_strs l1 = canon_strs l2.
Proof.
  intro H. apply sorted_unique; try apply canon_sorted.
  intro x. rewrite !canon_in. apply H.
Qed.

Lemma canon_idem l : canon_strs (canon_strs l) = canon_strs l.
Proof.
  apply sorted_unique; try apply canon_sorted. intro x. rewrite canon_in. tauto.
Qed.

Lemma strs_of_map l : strs_of (map JStr l) = l.
Proof. induction l as [|s l IH]; simpl; [reflexivity|]. rewrite IH. reflexivity. Qed.

Lemma strs_of_in l s : In s (strs_of l) <-> In (JStr s) l.
Proof.
  induction l as [|x l IH]; simpl; [tauto|].
  rewrite in_app_iff, IH. destruct x; simpl; split; intros [H|H]; auto; try discriminate; try tauto.
  - destruct H as [H|[]]. subst. auto.
  - inv H. auto.
Qed.

Lemma mk_str_set_idem l : mk_str_set (map JStr (canon_strs (strs_of l))) = mk_str_set l.
Proof. unfold mk_str_set. rewrite strs_of_map, canon_idem. reflexivity. Qed.

Lemma all_str_map l : forallb is_str (map JStr l) = true.
Proof. induction l; simpl; auto. Qed.

Lemma unhashable_map l : existsb unhashable (map JStr l) = false.
Proof. induction l; simpl; auto. Qed.

(* same members, whatever the spelling (list / tuple / set, order, repetitions) *)
Lemma existsb_same {A} (p : A -> bool) l1 l2 :
  (forall x, In x l1 <-> In x l2) -> existsb p l1 = existsb p l2.
Proof.
  intro H. destruct (existsb p l1) eqn:E1; symmetry.
  - apply existsb_exists in E1 as [x [Hx Px]]. apply existsb_exists. exists x. split; [apply H; exact Hx|exact Px].
  - destruct (existsb p l2) eqn:E2; [|reflexivity].
    apply existsb_exists in E2 as [x [Hx Px]].
    assert (X : existsb p l1 = true) by (apply existsb_exists; exists x; split; [apply H; exact Hx|exact Px]).
    rewrite X in E1. discriminate.
Qed.

Lemma forallb_same {A} (p : A -> bool) l1 l2 :
  (forall x, In x l1 <-> In x l2) -> forallb p l1 = forallb p l2.
Proof.
  intro H. destruct (forallb p l1) eqn:E1; symmetry.
  - rewrite forallb_forall in *. intros x Hx. apply E1. apply H. exact Hx.
  - destruct (forallb p l2) eqn:E2; [|reflexivity].
    assert (X : forallb p l1 = true).
    { rewrite forallb_forall in *. intros x Hx. apply E2. apply H. exact Hx. }
    rewrite X in E1. discriminate.
Qed.

Lemma mk_str_set_same l1 l2 : (forall x, In x l1 <-> In x l2) -> mk_str_set l1 = mk_str_set l2.
Proof.
  intro H. unfold mk_str_set. f_equal. f_equal. apply canon_same.
  intro s. rewrite !strs_of_in. apply H.
Qed.

Definition seq3 (v : jv) (l : list jv) : Prop := v = JList l \/ v = JTuple l \/ v = JSet l.

Lemma check_extensions_spelling E v1 v2 l1 l2 :
  seq3 v1 l1 -> seq3 v2 l2 -> (forall x, In x l1 <-> In x l2) ->
  check_extensions E v1 = check_extensions E v2.
Proof.
  intros S1 S2 H.
  assert (G : forall v l, seq3 v l -> check_extensions E v =
            if existsb unhashable l then Raise TypeError
            else if forallb (ext_item E) l then Ok (Some (mk_str_set l)) else Raise ValueError).
  { intros v l [-> | [-> | ->]]; reflexivity. }
  rewrite (G _ _ S1), (G _ _ S2).
  rewrite (existsb_same unhashable l1 l2 H), (forallb_same (ext_item E) l1 l2 H), (mk_str_set_same l1 l2 H).
  reflexivity.
Qed.

Lemma check_fence_spelling v1 v2 l1 l2 :
  seq3 v1 l1 -> seq3 v2 l2 -> (forall x, In x l1 <-> In x l2) ->
  check_fence_as_directive v1 = check_fence_as_directive v2.
Proof.
  intros S1 S2 H.
  assert (G : forall v l, seq3 v l -> check_fence_as_directive v =
            if forallb is_str l then Ok (Some (mk_str_set l)) else Raise TypeError).
  { intros v l [-> | [-> | ->]]; reflexivity. }
  rewrite (G _ _ S1), (G _ _ S2), (forallb_same is_str l1 l2 H), (mk_str_set_same l1 l2 H). reflexivity.
Qed.

(* url_schemes: a list of names is the dict {name: None}; a str value is the dict {"url": value} *)
Lemma dedup_keys_nodup l seen :
  NoDup l -> (forall s, In s l -> ~ In s seen) ->
  dedup_keys l seen = map (fun s => (JStr s, JNull)) l.
Proof.
  revert seen. induction l as [|s l IH]; intros seen ND Hs; simpl; [reflexivity|].
  inv ND.
  assert (M : mem_str s seen = false).
  { destruct (mem_str s seen) eqn:M; [|reflexivity]. apply mem_str_In in M. exfalso. apply (Hs s); simpl; auto. }
  rewrite M. f_equal. apply IH; [assumption|].
  intros x Hx [E|Hin]; [subst; contradiction|]. apply (Hs x); simpl; auto.
Qed.

Lemma url_list_is_dict l :
  NoDup l ->
  check_url_schemes (JList (map JStr l)) = check_url_schemes (JDict (map (fun s => (JStr s, JNull)) l))
  /\ check_url_schemes (JTuple (map JStr l)) = check_url_schemes (JDict (map (fun s => (JStr s, JNull)) l)).
Proof.
  intro ND. unfold check_url_schemes. rewrite all_str_map, strs_of_map.
  rewrite (dedup_keys_nodup l [] ND) by (intros s _ []). simpl. split; reflexivity.
Qed.

Lemma url_str_is_dict k u :
  check_url_schemes (JDict [(JStr k, JStr u)]) =
  check_url_schemes (JDict [(JStr k, JDict [(JStr s_url, JStr u)])]).
Proof. reflexivity. Qed.

(* ---------- the stored value is a fixed point of its validator ---------- *)

Lemma url_entry_stable k x k' x' :
  url_scheme_entry k x = Ok (k', x') -> url_scheme_entry k' x' = Ok (k', x').
Proof.
  unfold url_scheme_entry. destruct k; try discriminate.
  destruct x; try discriminate.
  - intro H. inv H. reflexivity.
  - intro H. inv H. reflexivity.
  - destruct (negb (forallb (fun p => is_str (fst p)) kvs)) eqn:A; [discriminate|].
    destruct (match dict_get s_url kvs with Some x => negb (is_str x) | None => false end) eqn:B; [discriminate|].
    destruct (match dict_get s_title kvs with Some x => negb (is_str x) | None => false end) eqn:C; [discriminate|].
    destruct (match dict_get s_classes kvs with
              | Some (JList cs) => negb (forallb is_str cs) | Some _ => true | None => false end) eqn:D;
      [discriminate|].
    intro H. inv H. rewrite A, B, C, D. reflexivity.
Qed.

Lemma url_entries_stable kvs r :
  url_scheme_entries kvs = Ok r -> url_scheme_entries r = Ok r.
Proof.
  revert r. induction kvs as [|[k x] kvs IH]; intros r H; simpl in H.
  - inv H. reflexivity.
  - destruct (url_scheme_entry k x) as [[k' x']|e] eqn:En; simpl in H; [|discriminate].
    destruct (url_scheme_entries kvs) as [r'|e] eqn:R; simpl in H; [|discriminate].
    inv H. simpl. rewrite (url_entry_stable _ _ _ _ En). simpl. rewrite (IH r' eq_refl). reflexivity.
Qed.

Lemma check_url_stable v c : check_url_schemes v = Ok (Some c) -> check_url_schemes c = Ok (Some c).
Proof.
  unfold check_url_schemes. intro H.
  assert (G : exists kvs r, url_scheme_entries kvs = Ok r /\ c = JDict r).
  { destruct v; simpl in H; try discriminate H.
    - destruct (forallb is_str l); simpl in H; [|discriminate].
      destruct (url_scheme_entries _) as [r|] eqn:R; simpl in H; [|discriminate]. inv H. eauto.
    - destruct (forallb is_str l); simpl in H; [|discriminate].
      destruct (url_scheme_entries _) as [r|] eqn:R; simpl in H; [|discriminate]. inv H. eauto.
    - destruct (url_scheme_entries kvs) as [r|] eqn:R; simpl in H; [|discriminate]. inv H. eauto. }
  destruct G as [kvs [r [R ->]]]. simpl. rewrite (url_entries_stable _ _ R). reflexivity.
Qed.

Lemma check_ext_stable E v c : check_extensions E v = Ok (Some c) -> check_extensions E c = Ok (Some c).
Proof.
  intro H.
  assert (G : exists l, existsb unhashable l = false /\ forallb (ext_item E) l = true /\ c = mk_str_set l).
  { destruct v; simpl in H; try discriminate H;
      (destruct (existsb unhashable l) eqn:U; [discriminate|]);
      (destruct (forallb _ l) eqn:F; [|discriminate]); inv H; exists l; auto. }
  destruct G as [l [U [F ->]]]. unfold mk_str_set. simpl.
  rewrite unhashable_map.
  assert (F2 : forallb (fun x => match x with JStr s => mem_str s (e_known_ext E) | _ => false end)
                       (map JStr (canon_strs (strs_of l))) = true).
  { apply forallb_forall. intros x Hx. apply in_map_iff in Hx as [s [<- Hs]].
    apply (proj1 (canon_in _ _)) in Hs. apply (proj1 (strs_of_in _ _)) in Hs.
    rewrite forallb_forall in F. apply (F _ Hs). }
  rewrite F2. f_equal. f_equal. unfold mk_str_set. rewrite strs_of_map, canon_idem. reflexivity.
Qed.

Lemma check_fence_stable v c :
  check_fence_as_directive v = Ok (Some c) -> check_fence_as_directive c = Ok (Some c).
Proof.
  intro H.
  assert (G : exists l, c = mk_str_set l).
  { destruct v; simpl in H; try discriminate H; (destruct (forallb is_str l); [|discriminate]); inv H; eauto. }
  destruct G as [l ->]. unfold mk_str_set. simpl. rewrite all_str_map.
  unfold mk_str_set. rewrite strs_of_map, canon_idem. reflexivity.
Qed.

Lemma str_eqb_sym a b : str_eqb a b = str_eqb b a.
Proof.
  destruct (str_eqb a b) eqn:E.
  - apply str_eqb_eq in E. subst. symmetry. apply str_eqb_refl.
  - symmetry. apply str_eqb_neq. apply str_eqb_neq in E. congruence.
Qed.

Lemma custom_stable E n v c : custom E n v = Ok (Some c) -> stable E (VCustom n) c.
Proof.
  unfold stable. cbn [validate]. unfold custom.
  destruct (str_eqb n n_check_extensions); [intro H; right; apply (check_ext_stable _ _ _ H)|].
  destruct (str_eqb n n_check_url_schemes); [intro H; right; apply (check_url_stable _ _ H)|].
  destruct (str_eqb n n_check_sub_delimiters).
  { intro H. exfalso. unfold check_sub_delimiters in H.
    destruct v; try discriminate H; destruct l as [|a [|b [|? ?]]]; try discriminate H;
      destruct (str_len1 a && str_len1 b); discriminate H. }
  destruct (str_eqb n n_check_inventories).
  { intro H. exfalso. unfold check_inventories in H. destruct v; try discriminate H.
    destruct (forallb _ kvs); discriminate H. }
  destruct (str_eqb n n_check_heading_slug_func).
  { intro H. left. unfold check_heading_slug_func in H.
    destruct v; try discriminate H.
    - destruct (negb (mem_N c_dot s)); [discriminate|].
      destruct (e_import E s) as [obj| | |]; try discriminate H.
      destruct obj; try discriminate H. inv H. reflexivity. }
  destruct (str_eqb n n_check_fence_as_directive); [intro H; right; apply (check_fence_stable _ _ H)|].
  destruct (str_eqb n n_check_positive_int).
  { intro H. exfalso. unfold check_positive_int in H. destruct v; try discriminate H.
    destruct (0 <? z)%Z; discriminate H. }
  discriminate.
Qed.

(* every simple validator leaves a value that re-validates to itself *)
Theorem validated_is_stable E e v co :
  simple_validator e = true -> validate E e v = Ok co -> stable E e (coerced co v).
Proof.
  unfold simple_validator. intros S H.
  destruct (no_custom e) eqn:NC.
  - pose proof (no_custom_none E e NC v co H) as ->. simpl. left. exact H.
  - destruct e; try discriminate S. cbn [validate] in H.
    destruct co as [c|]; simpl.
    + apply (custom_stable E name v c H).
    + left. exact H.
Qed.

(* ====================================================================== *)
(* The dataclass: constructor, copy, merge_file_level                     *)
(* ====================================================================== *)

Definition shape (fs : list field) (c : config) : Prop :=
  Forall2 (fun f kv => fst kv = f_name f) fs c.

Lemma stable_cfg_shape E fs c : stable_cfg E fs c -> shape fs c.
Proof. intro H. induction H as [|f kv fs c [A _] _ IH]; constructor; assumption. Qed.

Lemma nodup_cons n l : nodup_names (n :: l) = true -> ~ In n l /\ nodup_names l = true.
Proof.
  simpl. intro H. apply andb_true_iff in H as [H1 H2]. split; [|exact H2].
  intro Hin. apply mem_str_In in Hin. rewrite Hin in H1. discriminate.
Qed.

Lemma find_field_in fs f :
  nodup_names (map f_name fs) = true -> In f fs -> find_field (f_name f) fs = Some f.
Proof.
  induction fs as [|g fs IH]; intros ND Hin; [destruct Hin|].
  simpl in ND. apply nodup_cons in ND as [Hn ND]. simpl.
  destruct Hin as [->|Hin].
  - rewrite str_eqb_refl. reflexivity.
  - destruct (str_eqb (f_name g) (f_name f)) eqn:E.
    + apply str_eqb_eq in E. exfalso. apply Hn. rewrite E. apply in_map. exact Hin.
    + apply IH; assumption.
Qed.

Lemma find_field_name n fs f : find_field n fs = Some f -> f_name f = n /\ In f fs.
Proof.
  induction fs as [|g fs IH]; simpl; [discriminate|].
  destruct (str_eqb (f_name g) n) eqn:E.
  - intro H. inv H. apply str_eqb_eq in E. auto.
  - intro H. destruct (IH H). auto.
Qed.

Lemma find_field_some fs n : In n (map f_name fs) -> exists f, find_field n fs = Some f.
Proof.
  induction fs as [|g fs IH]; simpl; [intros []|].
  intros [E|Hin].
  - subst. rewrite str_eqb_refl. eauto.
  - destruct (str_eqb (f_name g) n); eauto.
Qed.

Lemma cfg_get_notin n c : ~ In n (map fst c) -> cfg_get n c = None.
Proof.
  induction c as [|[k x] c IH]; simpl; intro H; [reflexivity|].
  destruct (str_eqb k n) eqn:E.
  - apply str_eqb_eq in E. exfalso. apply H. auto.
  - apply IH. intro Hin. apply H. auto.
Qed.

Lemma shape_names fs c : shape fs c -> map fst c = map f_name fs.
Proof. induction 1 as [|f kv fs c H _ IH]; simpl; [reflexivity|]. rewrite H, IH. reflexivity. Qed.

Lemma raw_of_ext kw1 kw2 fs :
  (forall g, In g fs -> cfg_get (f_name g) kw1 = cfg_get (f_name g) kw2) ->
  raw_of kw1 fs = raw_of kw2 fs.
Proof.
  intro H. unfold raw_of. apply map_ext_in. intros g Hg. unfold lookup_kw. rewrite (H g Hg). reflexivity.
Qed.

Lemma raw_of_self fs c :
  nodup_names (map f_name fs) = true -> shape fs c -> raw_of c fs = c.
Proof.
  intros ND S. induction S as [|f [n v] fs c Hn S IH]; [reflexivity|].
  simpl in Hn. subst n. simpl in ND. apply nodup_cons in ND as [Hnot ND].
  unfold raw_of. simpl. unfold lookup_kw at 1. simpl. rewrite str_eqb_refl. f_equal.
  fold (raw_of ((f_name f, v) :: c) fs).
  rewrite (raw_of_ext _ c).
  - apply IH. exact ND.
  - intros g Hg. simpl. destruct (str_eqb (f_name f) (f_name g)) eqn:E; [|reflexivity].
    apply str_eqb_eq in E. exfalso. apply Hnot. rewrite E. apply in_map. exact Hg.
Qed.

Lemma raw_of_set fs c m w :
  nodup_names (map f_name fs) = true -> shape fs c ->
  raw_of ((m, w) :: c) fs = cfg_set m w c.
Proof.
  intros ND S. induction S as [|f [n v] fs c Hn S IH]; [reflexivity|].
  simpl in Hn. subst n. pose proof ND as ND0. simpl in ND. apply nodup_cons in ND as [Hnot ND].
  unfold raw_of. simpl. unfold lookup_kw at 1. simpl.
  rewrite (str_eqb_sym m (f_name f)).
  destruct (str_eqb (f_name f) m) eqn:E.
  - apply str_eqb_eq in E. subst m. f_equal.
    fold (raw_of ((f_name f, w) :: (f_name f, v) :: c) fs).
    rewrite (raw_of_ext _ c); [apply raw_of_self; assumption|].
    intros g Hg. simpl. destruct (str_eqb (f_name f) (f_name g)) eqn:E2; [|reflexivity].
    apply str_eqb_eq in E2. exfalso. apply Hnot. rewrite E2. apply in_map. exact Hg.
  - rewrite str_eqb_refl. f_equal.
    fold (raw_of ((m, w) :: (f_name f, v) :: c) fs).
    rewrite (raw_of_ext _ ((m, w) :: c)); [apply IH; exact ND|].
    intros g Hg. simpl. destruct (str_eqb m (f_name g)); [reflexivity|].
    destruct (str_eqb (f_name f) (f_name g)) eqn:E2; [|reflexivity].
    apply str_eqb_eq in E2. exfalso. apply Hnot. rewrite E2. apply in_map. exact Hg.
Qed.

Lemma validate_fields_stable E fs c : stable_cfg E fs c -> validate_fields E fs c = Ok c.
Proof.
  induction 1 as [|f [n v] fs c [Hn Hs] _ IH]; [reflexivity|].
  simpl in *. destruct Hs as [Hs|Hs]; rewrite Hs; simpl; rewrite IH; reflexivity.
Qed.

Lemma cfg_set_notin n v c : ~ In n (map fst c) -> cfg_set n v c = c.
Proof.
  induction c as [|[k x] c IH]; simpl; intro H; [reflexivity|].
  destruct (str_eqb k n) eqn:E.
  - apply str_eqb_eq in E. exfalso. apply H. auto.
  - f_equal. apply IH. intro Hin. apply H. auto.
Qed.

Lemma validate_fields_set E fs c f v :
  nodup_names (map f_name fs) = true -> stable_cfg E fs c -> In f fs ->
  validate_fields E fs (cfg_set (f_name f) v c) =
  match validate E (f_val f) v with
  | Ok co => Ok (cfg_set (f_name f) (coerced co v) c)
  | Raise e => Raise e
  end.
Proof.
  intros ND S. revert ND. induction S as [|g [n x] fs c [Hn Hs] S IH]; intros ND Hin; [destruct Hin|].
  simpl in Hn. subst n. simpl in ND. apply nodup_cons in ND as [Hnot ND].
  pose proof (shape_names _ _ (stable_cfg_shape _ _ _ S)) as Names.
  destruct Hin as [->|Hin].
  - simpl. rewrite str_eqb_refl. simpl.
    destruct (validate E (f_val f) v) as [co|e]; simpl; [|reflexivity].
    rewrite (validate_fields_stable _ _ _ S). reflexivity.
  - assert (E0 : str_eqb (f_name g) (f_name f) = false).
    { apply str_eqb_neq. intro E0. apply Hnot. rewrite E0. apply in_map. exact Hin. }
    simpl. rewrite E0. simpl.
    assert (Vg : exists co, validate E (f_val g) x = Ok co /\ coerced co x = x).
    { simpl in Hs. destruct Hs as [Hs|Hs]; eexists; split; try exact Hs; reflexivity. }
    destruct Vg as [cog [Vg Cg]]. rewrite Vg. simpl. rewrite Cg.
    rewrite (IH ND Hin). destruct (validate E (f_val f) v); reflexivity.
Qed.

Lemma kw_known fs c : shape fs c ->
  forallb (fun kv => match find_field (fst kv) fs with Some _ => true | None => false end) c = true.
Proof.
  intro S. pose proof (shape_names _ _ S) as Names.
  apply forallb_forall. intros [n v] Hin.
  assert (Hn : In n (map f_name fs)) by (rewrite <- Names; apply (in_map fst _ _ Hin)).
  destruct (find_field_some _ _ Hn) as [f Hf]. simpl. rewrite Hf. reflexivity.
Qed.

Lemma copy_nil E fs c :
  nodup_names (map f_name fs) = true -> stable_cfg E fs c -> copy E fs c [] = Ok c.
Proof.
  intros ND S. unfold copy, mk_config. simpl.
  rewrite (kw_known _ _ (stable_cfg_shape _ _ _ S)). simpl.
  rewrite (raw_of_self _ _ ND (stable_cfg_shape _ _ _ S)).
  apply validate_fields_stable. exact S.
Qed.

Lemma copy_one E fs c f v :
  nodup_names (map f_name fs) = true -> stable_cfg E fs c -> In f fs ->
  copy E fs c [(f_name f, v)] =
  match validate E (f_val f) v with
  | Ok co => Ok (cfg_set (f_name f) (coerced co v) c)
  | Raise e => Raise e
  end.
Proof.
  intros ND S Hin. unfold copy, mk_config. simpl.
  rewrite (find_field_in _ _ ND Hin). simpl.
  rewrite (kw_known _ _ (stable_cfg_shape _ _ _ S)). simpl.
  rewrite (raw_of_set _ _ _ _ ND (stable_cfg_shape _ _ _ S)).
  apply validate_fields_set; assumption.
Qed.

(* the constructor produces a stable instance *)
Lemma validate_fields_gives_stable E fs : forall raw c,
  forallb (fun f => simple_validator (f_val f)) fs = true ->
  shape fs raw -> validate_fields E fs raw = Ok c -> stable_cfg E fs c.
Proof.
  induction fs as [|f fs IH]; intros raw c SV S H.
  - inv S. simpl in H. inv H. constructor.
  - inv S. destruct y as [n v]. simpl in *. subst n.
    apply andb_true_iff in SV as [SV1 SV2].
    destruct (validate E (f_val f) v) as [co|e] eqn:V; simpl in H; [|discriminate].
    destruct (validate_fields E fs l') as [rest|e] eqn:R; simpl in H; [|discriminate].
    inv H. constructor.
    + simpl. split; [reflexivity|]. eapply validated_is_stable; eassumption.
    + eapply IH; eassumption.
Qed.

Lemma raw_of_shape kw fs : shape fs (raw_of kw fs).
Proof. induction fs as [|f fs IH]; simpl; constructor; auto. Qed.

Theorem mk_config_stable E fs kw c :
  forallb (fun f => simple_validator (f_val f)) fs = true ->
  mk_config E fs kw = Ok c -> stable_cfg E fs c.
Proof.
  intros SV H. unfold mk_config in H.
  destruct (negb _); [discriminate|].
  eapply validate_fields_gives_stable; [exact SV| |exact H]. apply raw_of_shape.
Qed.

(* ---------- merge_file_level ---------- *)

Lemma cfg_get_in fs c f : shape fs c -> In f fs -> exists v, cfg_get (f_name f) c = Some v.
Proof.
  intros S Hin. destruct (cfg_get (f_name f) c) eqn:G; [eauto|]. exfalso.
  assert (Hn : In (f_name f) (map fst c)).
  { rewrite (shape_names _ _ S). apply in_map. exact Hin. }
  clear - G Hn. induction c as [|[k x] c IH]; simpl in *; [destruct Hn|].
  destruct (str_eqb k (f_name f)) eqn:E; [discriminate|].
  destruct Hn as [Hn|Hn]; [subst; rewrite str_eqb_refl in E; discriminate|auto].
Qed.

Lemma cfg_set_same n v c : cfg_get n c = Some v -> cfg_set n v c = c.
Proof.
  induction c as [|[k x] c IH]; simpl; [discriminate|].
  destruct (str_eqb k n); intro H; [inv H; reflexivity|]. f_equal. auto.
Qed.

Lemma merge_one E kr fs c f v :
  nodup_names (map f_name fs) = true -> stable_cfg E fs c -> In f fs ->
  merge_file_level_gen E kr fs c (top_of (f_name f) v) =
  match cfg_get (f_name f) c with
  | None => Raise AssertionError
  | Some old =>
      match validate E (f_val f) v with
      | Raise _ => Ok {| st_global := c; st_new := c; st_warn := [WInvalid (f_name f)] |}
      | Ok co =>
          let stored := if kr then v else coerced co v in
          match (if f_merge f then dict_merge old stored else Ok stored) with
          | Ok final => Ok {| st_global := c; st_new := cfg_set (f_name f) final c; st_warn := [] |}
          | Raise e => Raise e
          end
      end
  end.
Proof.
  intros ND S Hin.
  destruct (cfg_get_in _ _ _ (stable_cfg_shape _ _ _ S) Hin) as [old G]. rewrite G.
  unfold merge_file_level_gen, top_of.
  change (dict_get s_myst [(JStr s_myst, JDict [(JStr (f_name f), v)])])
    with (Some (JDict [(JStr (f_name f), v)])).
  change (dict_get s_html_meta [(JStr s_myst, JDict [(JStr (f_name f), v)])]) with (@None jv).
  change (dict_get s_substitutions [(JStr s_myst, JDict [(JStr (f_name f), v)])]) with (@None jv).
  cbn beta iota. rewrite (copy_nil _ _ _ ND S). cbn [bind merge_loop].
  unfold merge_step. cbn [st_global st_new st_warn].
  rewrite (find_field_in _ _ ND Hin), G.
  destruct (validate E (f_val f) v) as [co|e].
  - destruct (if f_merge f then dict_merge old (if kr then v else coerced co v)
              else Ok (if kr then v else coerced co v)) as [final|e]; reflexivity.
  - cbn. destruct kr; [reflexivity|]. rewrite (cfg_set_same _ _ _ G). reflexivity.
Qed.

(* merging dict-valued options *)
Lemma dict_set_key_Forall (Pk Pv : jv -> Prop) key x kvs :
  Forall (fun p => Pk (fst p) /\ Pv (snd p)) kvs -> Pk key -> Pv x ->
  Forall (fun p => Pk (fst p) /\ Pv (snd p)) (dict_set_key key x kvs).
Proof.
  intros F Hk Hv. induction kvs as [|[k y] kvs IH]; simpl.
  - constructor; auto.
  - inv F. destruct (key_eqb k key).
    + constructor; [simpl in *; tauto|assumption].
    + constructor; auto.
Qed.

Lemma dict_merge_Forall (Pk Pv : jv -> Prop) n : forall o,
  Forall (fun p => Pk (fst p) /\ Pv (snd p)) o ->
  Forall (fun p => Pk (fst p) /\ Pv (snd p)) n ->
  Forall (fun p => Pk (fst p) /\ Pv (snd p))
         (fold_left (fun acc p => dict_set_key (fst p) (snd p) acc) n o).
Proof.
  induction n as [|[k x] n IH]; intros o Fo Fn; simpl; [exact Fo|].
  inv Fn. apply IH; [|assumption]. apply dict_set_key_Forall; simpl in *; tauto.
Qed.

Lemma deep_mapping_accepts E k vv v :
  is_ok (validate E (VDeepMapping k vv (VInstanceOf [PyDict] false)) v) = true <->
  exists kvs, v = JDict kvs /\
    Forall (fun p => is_ok (validate E k (fst p)) = true /\ is_ok (validate E vv (snd p)) = true) kvs.
Proof.
  cbn [validate]. split.
  - intro H. destruct v; try discriminate H. exists kvs. split; [reflexivity|].
    cbn in H. apply iter_pairs_ok in H. exact H.
  - intros [kvs [-> F]]. cbn. apply iter_pairs_ok. exact F.
Qed.

Lemma merge_closed_merge E e old v :
  merge_closed e = true ->
  is_ok (validate E e old) = true -> is_ok (validate E e v) = true ->
  exists m, dict_merge old v = Ok m /\ validate E e m = Ok None.
Proof.
  intros MC Ho Hv. destruct e; try discriminate MC.
  destruct e3; try discriminate MC. destruct ts as [|[] [|? ?]]; try discriminate MC.
  destruct is_tuple; [discriminate MC|].
  simpl in MC. apply andb_true_iff in MC as [N1 N2].
  apply deep_mapping_accepts in Ho as [o [-> Fo]]. apply deep_mapping_accepts in Hv as [n [-> Fn]].
  eexists. split; [reflexivity|].
  set (m := fold_left (fun acc p => dict_set_key (fst p) (snd p) acc) n o).
  assert (Fm : is_ok (validate E (VDeepMapping e1 e2 (VInstanceOf [PyDict] false)) (JDict m)) = true).
  { apply deep_mapping_accepts. exists m. split; [reflexivity|].
    apply (dict_merge_Forall (fun x => is_ok (validate E e1 x) = true) (fun x => is_ok (validate E e2 x) = true));
      assumption. }
  destruct (validate E (VDeepMapping e1 e2 (VInstanceOf [PyDict] false)) (JDict m)) as [co|] eqn:V; [|discriminate].
  assert (NC : no_custom (VDeepMapping e1 e2 (VInstanceOf [PyDict] false)) = true).
  { simpl. rewrite N1, N2. reflexivity. }
  rewrite (no_custom_none E _ NC _ _ V). reflexivity.
Qed.

Lemma merge_closed_no_custom e : merge_closed e = true -> no_custom e = true.
Proof.
  destruct e as [| | | | |k vv mm|]; try discriminate.
  destruct mm as [|ts tup| | | | |]; try discriminate.
  destruct ts as [|[] [|? ?]]; try discriminate. destruct tup; [discriminate|].
  simpl. intro H. rewrite H. reflexivity.
Qed.

Lemma stable_is_ok E e c : stable E e c -> is_ok (validate E e c) = true.
Proof. intros [H|H]; rewrite H; reflexivity. Qed.

Lemma stable_cfg_get E fs c f old :
  nodup_names (map f_name fs) = true -> stable_cfg E fs c -> In f fs ->
  cfg_get (f_name f) c = Some old -> stable E (f_val f) old.
Proof.
  intros ND S. revert ND. induction S as [|g [n x] fs c [Hn Hs] S IH]; intros ND Hin G; [destruct Hin|].
  simpl in Hn. subst n. simpl in ND. apply nodup_cons in ND as [Hnot ND]. simpl in G.
  destruct Hin as [->|Hin].
  - rewrite str_eqb_refl in G. inv G. exact Hs.
  - destruct (str_eqb (f_name g) (f_name f)) eqn:E0.
    + apply str_eqb_eq in E0. exfalso. apply Hnot. rewrite E0. apply in_map. exact Hin.
    + apply IH; assumption.
Qed.

(* front matter = global *)
Theorem frontmatter_equals_global E fs c f v :
  nodup_names (map f_name fs) = true -> table_ok fs = true -> stable_cfg E fs c -> In f fs ->
  match validate E (f_val f) v with
  | Raise _ =>
      (* invalid: ignored, one warning, and the global setting would be rejected too *)
      merge_file_level E fs c (top_of (f_name f) v)
        = Ok {| st_global := c; st_new := c; st_warn := [WInvalid (f_name f)] |}
      /\ is_ok (copy E fs c [(f_name f, v)]) = false
  | Ok _ =>
      exists new,
        merge_file_level E fs c (top_of (f_name f) v)
          = Ok {| st_global := c; st_new := new; st_warn := [] |} /\
        if f_merge f
        then exists old merged, cfg_get (f_name f) c = Some old /\ dict_merge old v = Ok merged /\
                                copy E fs c [(f_name f, merged)] = Ok new
        else copy E fs c [(f_name f, v)] = Ok new
  end.
Proof.
  intros ND TO S Hin. unfold merge_file_level.
  rewrite (merge_one E false fs c f v ND S Hin).
  destruct (cfg_get_in _ _ _ (stable_cfg_shape _ _ _ S) Hin) as [old G]. rewrite G.
  unfold table_ok in TO. rewrite forallb_forall in TO. specialize (TO f Hin).
  apply andb_true_iff in TO as [SV MC].
  destruct (validate E (f_val f) v) as [co|e] eqn:V.
  - cbn zeta. destruct (f_merge f) eqn:M.
    + simpl in MC.
      pose proof (stable_is_ok _ _ _ (stable_cfg_get _ _ _ _ _ ND S Hin G)) as Ho.
      assert (Hv : is_ok (validate E (f_val f) v) = true) by (rewrite V; reflexivity).
      destruct (merge_closed_merge E _ old v MC Ho Hv) as [m [Dm Vm]].
      pose proof (merge_closed_no_custom _ MC) as NC.
      pose proof (no_custom_none E _ NC _ _ V) as ->. simpl. rewrite Dm.
      eexists. split; [reflexivity|]. exists old, m. repeat split; auto.
      rewrite (copy_one _ _ _ _ _ ND S Hin), Vm. reflexivity.
    + eexists. split; [reflexivity|]. rewrite (copy_one _ _ _ _ _ ND S Hin), V. reflexivity.
  - split; [reflexivity|]. rewrite (copy_one _ _ _ _ _ ND S Hin), V. reflexivity.
Qed.

(* the global config object is never written *)
Lemma merge_loop_global E kr fs ups : forall st st',
  merge_loop E kr fs st ups = Ok st' -> st_global st' = st_global st.
Proof.
  induction ups as [|u ups IH]; intros st st' H; simpl in H.
  - inv H. reflexivity.
  - destruct (merge_step E kr fs st u) as [st1|e] eqn:M; simpl in H; [|discriminate].
    rewrite (IH _ _ H). clear - M. unfold merge_step in M. destruct u as [name value].
    destruct name; try (inv M; reflexivity).
    destruct (find_field s fs) as [f|]; [|inv M; reflexivity].
    destruct (cfg_get s (st_global st)) as [old|]; [|inv M; reflexivity].
    destruct (validate E (f_val f) value) as [co|e]; [|inv M; reflexivity].
    destruct (if f_merge f then _ else _) as [final|e]; simpl in M; inv M. reflexivity.
Qed.

Theorem global_untouched E kr fs c top st :
  merge_file_level_gen E kr fs c top = Ok st -> st_global st = c.
Proof.
  unfold merge_file_level_gen. destruct top; try discriminate.
  destruct (match dict_get s_myst kvs with Some m => m | None => JDict [] end) as [| | | | | | | |u| |];
    cbn zeta beta iota;
    destruct (dict_get s_html_meta kvs); destruct (dict_get s_substitutions kvs); cbn zeta beta iota;
    (destruct (copy E fs c []) as [new|e]; [|discriminate]); cbn [bind];
    intro H; apply merge_loop_global in H; exact H.
Qed.

(* exactly one warning per unknown or invalid entry *)
Lemma merge_loop_warnings E fs ups : forall st st',
  merge_loop E false fs st ups = Ok st' ->
  length (st_warn st') = (length (st_warn st) + length (filter (bad_update E fs (st_global st)) ups))%nat.
Proof.
  induction ups as [|u ups IH]; intros st st' H; simpl in H.
  - inv H. simpl. lia.
  - destruct (merge_step E false fs st u) as [st1|e] eqn:M; simpl in H; [|discriminate].
    pose proof (IH _ _ H) as L.
    assert (G : st_global st1 = st_global st /\
                length (st_warn st1) = (length (st_warn st) + if bad_update E fs (st_global st) u then 1 else 0)%nat).
    { clear - M. unfold merge_step in M. unfold bad_update. destruct u as [name value]. simpl.
      destruct name; try (inv M; simpl; rewrite app_length; simpl; split; [reflexivity|lia]).
      destruct (find_field s fs) as [f|]; [|inv M; simpl; rewrite app_length; simpl; split; [reflexivity|lia]].
      destruct (cfg_get s (st_global st)) as [old|]; [|inv M; simpl; rewrite app_length; simpl; split; [reflexivity|lia]].
      destruct (validate E (f_val f) value) as [co|e]; [|inv M; simpl; rewrite app_length; simpl; split; [reflexivity|lia]].
      destruct (if f_merge f then _ else _) as [final|e]; simpl in M; inv M. simpl. split; [reflexivity|lia]. }
    destruct G as [G1 G2]. rewrite G1 in L. simpl.
    destruct (bad_update E fs (st_global st) u); simpl; lia.
Qed.

(* ---------- docutils option strings ---------- *)

Lemma docutils_one E rules fs f s y :
  nodup_names (map f_name fs) = true -> In f fs -> f_omit_docutils f = false ->
  docutils_config E rules fs [(f_name f, s, y)] =
  (do k <- optparse_kind rules f; do v <- decode k s y; mk_config E fs [(f_name f, v)]).
Proof.
  intros ND Hin Om. unfold docutils_config. simpl.
  rewrite (find_field_in _ _ ND Hin), Om.
  destruct (optparse_kind rules f) as [k|e]; simpl; [|reflexivity].
  destruct (decode k s y) as [v|e]; reflexivity.
Qed.

(* a comma separated string of clean items decodes to those items *)
Lemma split_aux_nocomma p : forall s cur,
  mem_N c_comma p = false ->
  split_char_aux c_comma (p ++ s) cur = split_char_aux c_comma s (rev p ++ cur).
Proof.
  induction p as [|c p IH]; intros s cur H; [reflexivity|].
  unfold mem_N in H. cbn [existsb] in H. apply orb_false_iff in H as [H1 H2].
  rewrite N.eqb_sym in H1. cbn [split_char_aux app]. rewrite H1.
  rewrite (IH s (c :: cur) H2). cbn [rev]. rewrite <- app_assoc. reflexivity.
Qed.

Lemma split_join items :
  items <> [] -> Forall (fun p => mem_N c_comma p = false) items ->
  split_char c_comma (join [c_comma] items) = items.
Proof.
  intros NE F. unfold split_char. induction items as [|p items IH]; [congruence|].
  inv F. destruct items as [|q items].
  - simpl. rewrite <- (app_nil_r p) at 1. rewrite (split_aux_nocomma p [] [] H1). simpl.
    rewrite app_nil_r, rev_involutive. reflexivity.
  - change (join [c_comma] (p :: q :: items)) with (p ++ c_comma :: join [c_comma] (q :: items)).
    rewrite (split_aux_nocomma p _ [] H1). cbn [split_char_aux]. rewrite N.eqb_refl, app_nil_r, rev_involutive.
    f_equal. apply IH; [discriminate|assumption].
Qed.

Lemma lstrip_head p c s : p c = false -> lstrip_by p (c :: s) = c :: s.
Proof. intro H. simpl. rewrite H. reflexivity. Qed.

Lemma strip_clean s : clean_item s = true -> strip_chars ws3 s = s.
Proof.
  unfold clean_item, strip_chars, strip_by. intro H.
  apply andb_true_iff in H as [H123 H4]. apply andb_true_iff in H123 as [H12 H3].
  destruct s as [|c s]; [discriminate|].
  apply negb_true_iff in H3. rewrite (lstrip_head _ c s H3).
  destruct (rev (c :: s)) as [|d r] eqn:R; [discriminate|].
  apply negb_true_iff in H4. rewrite (lstrip_head _ d r H4). rewrite <- R. apply rev_involutive.
Qed.

Lemma comma_list_join items :
  Forall (fun p => clean_item p = true) items -> comma_list (join [c_comma] items) = items.
Proof.
  intro F. unfold comma_list. destruct items as [|p items]; [reflexivity|].
  rewrite split_join.
  - induction F as [|x l Hx _ IH]; [reflexivity|]. simpl. rewrite (strip_clean x Hx).
    unfold clean_item in Hx. destruct x; [discriminate|]. simpl. f_equal. exact IH.
  - discriminate.
  - eapply Forall_impl; [|exact F]. intros x Hx. unfold clean_item in Hx.
    apply andb_true_iff in Hx as [H123 _]. apply andb_true_iff in H123 as [H12 _].
    apply andb_true_iff in H12 as [_ H2]. apply negb_true_iff. exact H2.
Qed.

(* ---------- Sphinx conf values ---------- *)

Definition vres (E : env) (f : field) (x : jv) : res jv :=
  match validate E (f_val f) x with Ok co => Ok (coerced co x) | Raise e => Raise e end.

Lemma vf_equiv E (g1 g2 : field -> jv) fs :
  (forall f, In f fs -> vres E f (g1 f) = vres E f (g2 f)) ->
  validate_fields E fs (map (fun f => (f_name f, g1 f)) fs) =
  validate_fields E fs (map (fun f => (f_name f, g2 f)) fs).
Proof.
  induction fs as [|f fs IH]; intro H; [reflexivity|]. simpl.
  pose proof (H f (or_introl eq_refl)) as Hf. unfold vres in Hf.
  rewrite IH by (intros g Hg; apply H; right; exact Hg).
  destruct (validate E (f_val f) (g1 f)) as [c1|e1], (validate E (f_val f) (g2 f)) as [c2|e2];
    simpl; try discriminate Hf.
  - inv Hf. rewrite H1. reflexivity.
  - inv Hf. reflexivity.
Qed.

Lemma vf_entries E (g : field -> jv) fs : forall d,
  nodup_names (map f_name fs) = true ->
  validate_fields E fs (map (fun f => (f_name f, g f)) fs) = Ok d ->
  forall f, In f fs -> exists co, validate E (f_val f) (g f) = Ok co /\
                                  cfg_get (f_name f) d = Some (coerced co (g f)).
Proof.
  induction fs as [|h fs IH]; intros d ND H f Hin; [destruct Hin|].
  simpl in ND. apply nodup_cons in ND as [Hnot ND]. simpl in H.
  destruct (validate E (f_val h) (g h)) as [co|e] eqn:V; simpl in H; [|discriminate].
  destruct (validate_fields E fs _) as [rest|e] eqn:R; simpl in H; [|discriminate].
  inv H. destruct Hin as [->|Hin].
  - exists co. split; [exact V|]. simpl. rewrite str_eqb_refl. reflexivity.
  - destruct (IH rest ND eq_refl f Hin) as [co' [V' G']]. exists co'. split; [exact V'|].
    simpl. destruct (str_eqb (f_name h) (f_name f)) eqn:E0; [|exact G'].
    apply str_eqb_eq in E0. exfalso. apply Hnot. rewrite E0. apply in_map. exact Hin.
Qed.

Lemma cfg_get_app n a b :
  cfg_get n (a ++ b) = match cfg_get n a with Some v => Some v | None => cfg_get n b end.
Proof.
  induction a as [|[k x] a IH]; simpl; [reflexivity|]. destruct (str_eqb k n); [reflexivity|exact IH].
Qed.

Definition sphinx_entry (conf d : config) (f : field) : list (str * jv) :=
  if f_omit_sphinx f then []
  else match cfg_get (f_name f) conf, cfg_get (f_name f) d with
       | Some v, _ => [(f_name f, v)]
       | None, Some x => [(f_name f, x)]
       | None, None => []
       end.

Lemma sphinx_entry_names conf d f n : In n (map fst (sphinx_entry conf d f)) -> n = f_name f.
Proof.
  unfold sphinx_entry. destruct (f_omit_sphinx f); [intros []|].
  destruct (cfg_get (f_name f) conf); [intros [H|[]]; auto|].
  destruct (cfg_get (f_name f) d); [intros [H|[]]; auto|intros []].
Qed.

Lemma sphinx_kw_names conf d fs n :
  In n (map fst (flat_map (sphinx_entry conf d) fs)) -> In n (map f_name fs).
Proof.
  induction fs as [|f fs IH]; simpl; [intros []|].
  rewrite map_app, in_app_iff. intros [H|H].
  - left. symmetry. eapply sphinx_entry_names. exact H.
  - right. apply IH. exact H.
Qed.

Lemma sphinx_kw_get conf d fs f :
  nodup_names (map f_name fs) = true -> In f fs ->
  cfg_get (f_name f) (flat_map (sphinx_entry conf d) fs) =
  if f_omit_sphinx f then None
  else match cfg_get (f_name f) conf, cfg_get (f_name f) d with
       | Some v, _ => Some v
       | None, Some x => Some x
       | None, None => None
       end.
Proof.
  induction fs as [|h fs IH]; intros ND Hin; [destruct Hin|].
  simpl in ND. apply nodup_cons in ND as [Hnot ND]. simpl. rewrite cfg_get_app.
  destruct Hin as [->|Hin].
  - assert (T : cfg_get (f_name f) (flat_map (sphinx_entry conf d) fs) = None).
    { apply cfg_get_notin. intro H. apply Hnot. eapply sphinx_kw_names. exact H. }
    unfold sphinx_entry at 1. destruct (f_omit_sphinx f); [exact T|].
    destruct (cfg_get (f_name f) conf); [simpl; rewrite str_eqb_refl; reflexivity|].
    destruct (cfg_get (f_name f) d); [simpl; rewrite str_eqb_refl; reflexivity|exact T].
  - assert (Hd : cfg_get (f_name f) (sphinx_entry conf d h) = None).
    { apply cfg_get_notin. intro H. apply sphinx_entry_names in H. apply Hnot. rewrite <- H. apply in_map. exact Hin. }
    rewrite Hd. apply IH; assumption.
Qed.

(* every conf key names a field that the Sphinx extension registers *)
Definition conf_ok (fs : list field) (conf : config) : Prop :=
  forall n v, In (n, v) conf -> exists f, In f fs /\ f_name f = n /\ f_omit_sphinx f = false.

Lemma cfg_get_In n c v : cfg_get n c = Some v -> In (n, v) c.
Proof.
  induction c as [|[k x] c IH]; simpl; [discriminate|].
  destruct (str_eqb k n) eqn:E; intro H.
  - inv H. apply str_eqb_eq in E. subst. auto.
  - right. auto.
Qed.

Lemma same_name_same_field fs f g :
  nodup_names (map f_name fs) = true -> In f fs -> In g fs -> f_name f = f_name g -> f = g.
Proof.
  intros ND Hf Hg E. pose proof (find_field_in _ _ ND Hf) as A. pose proof (find_field_in _ _ ND Hg) as B.
  rewrite E in A. rewrite A in B. inv B. reflexivity.
Qed.

Theorem sphinx_conf_equal E fs conf d :
  nodup_names (map f_name fs) = true ->
  forallb (fun f => simple_validator (f_val f)) fs = true ->
  mk_config E fs [] = Ok d -> conf_ok fs conf ->
  sphinx_config E fs conf = mk_config E fs conf.
Proof.
  intros ND SV D CO. unfold sphinx_config. rewrite D. cbn [bind].
  fold (sphinx_entry conf d). unfold mk_config.
  (* both keyword checks pass *)
  assert (K1 : forallb (fun kv => match find_field (fst kv) fs with Some _ => true | None => false end)
                       (flat_map (sphinx_entry conf d) fs) = true).
  { apply forallb_forall. intros [n v] Hin.
    assert (Hn : In n (map f_name fs)) by (eapply sphinx_kw_names; apply (in_map fst _ _ Hin)).
    destruct (find_field_some _ _ Hn) as [f Hf]. simpl. rewrite Hf. reflexivity. }
  assert (K2 : forallb (fun kv => match find_field (fst kv) fs with Some _ => true | None => false end) conf = true).
  { apply forallb_forall. intros [n v] Hin. destruct (CO n v Hin) as [f [Hf [Hn _]]].
    simpl. rewrite <- Hn, (find_field_in _ _ ND Hf). reflexivity. }
  rewrite K1, K2. cbn [negb]. unfold raw_of.
  apply vf_equiv. intros f Hf. unfold lookup_kw.
  rewrite (sphinx_kw_get conf d fs f ND Hf).
  (* the entries of the default instance *)
  unfold mk_config in D. simpl in D. unfold raw_of in D.
  assert (D' : validate_fields E fs (map (fun f0 => (f_name f0, f_default f0)) fs) = Ok d).
  { erewrite map_ext; [exact D|]. intro a. unfold lookup_kw. simpl. reflexivity. }
  destruct (vf_entries E f_default fs d ND D' f Hf) as [co [V G]].
  destruct (f_omit_sphinx f) eqn:Om.
  - (* not registered: conf has no entry for it *)
    destruct (cfg_get (f_name f) conf) as [v|] eqn:C; [|reflexivity].
    exfalso. apply cfg_get_In in C. destruct (CO _ _ C) as [g [Hg [Hn Og]]].
    rewrite (same_name_same_field fs g f ND Hg Hf Hn) in Og. congruence.
  - destruct (cfg_get (f_name f) conf) as [v|]; [reflexivity|]. rewrite G.
    (* default: the registered value is the validated default *)
    unfold vres. rewrite V.
    assert (S : stable E (f_val f) (coerced co (f_default f))).
    { apply validated_is_stable; [|exact V]. rewrite forallb_forall in SV. apply SV. exact Hf. }
    destruct S as [S|S]; rewrite S; reflexivity.
Qed.

(* ---------- int and bool option strings ---------- *)

Lemma digit_ok d : d < 10 -> is_digit (digit d) = true /\ digit d - 48 = d.
Proof.
  intro H. unfold is_digit, digit. split.
  - apply andb_true_iff. split; apply N.leb_le; lia.
  - lia.
Qed.

Lemma show_fuel_digits f : forall n acc, n < 2 ^ N.of_nat (S f) ->
  exists m, forall v pd,
    digits_val (show_fuel (S f) n acc) v pd = digits_val acc (v * m + Z.of_N n)%Z true.
Proof.
  induction f as [|f IH]; intros n acc Hn.
  - (* fuel 1: n < 2 *)
    assert (n / 10 = 0) as D by (apply N.div_small; simpl in Hn; lia).
    exists 10%Z. intros v pd. cbn [show_fuel]. rewrite D. cbn [N.eqb].
    assert (M : n mod 10 = n) by (apply N.mod_small; simpl in Hn; lia).
    rewrite M. destruct (digit_ok n) as [A B]; [simpl in Hn; lia|].
    cbn [digits_val]. rewrite A, B. reflexivity.
  - cbn [show_fuel]. destruct (n / 10 =? 0) eqn:D.
    + apply N.eqb_eq in D. exists 10%Z. intros v pd.
      assert (n < 10) by (destruct (N.lt_ge_cases n 10) as [L|G]; [exact L|];
                          assert (1 <= n / 10) by (apply N.div_le_lower_bound; lia); lia).
      rewrite (N.mod_small n 10) by assumption.
      destruct (digit_ok n H) as [A B]. cbn [digits_val]. rewrite A, B. reflexivity.
    + apply N.eqb_neq in D.
      assert (Hd : n / 10 < 2 ^ N.of_nat (S f)).
      { rewrite Nat2N.inj_succ in Hn. rewrite N.pow_succ_r' in Hn.
        apply N.div_lt_upper_bound; [lia|].
        assert (2 * 2 ^ N.of_nat (S f) <= 10 * 2 ^ N.of_nat (S f)) by (apply N.mul_le_mono_r; lia). lia. }
      destruct (IH (n / 10) (digit (n mod 10) :: acc) Hd) as [m' Hm].
      exists (m' * 10)%Z. intros v pd. rewrite Hm.
      assert (L : n mod 10 < 10) by (apply N.mod_lt; lia).
      destruct (digit_ok _ L) as [A B]. cbn [digits_val]. rewrite A, B. f_equal.
      rewrite (N.div_mod n 10) at 3 by lia. rewrite N2Z.inj_add, N2Z.inj_mul. simpl Z.of_N. lia.
Qed.

Lemma show_digits n : digits_val (show n) 0%Z false = Some (Z.of_N n).
Proof.
  unfold show.
  assert (Hn : n < 2 ^ N.of_nat (S (N.to_nat (N.log2 n)))).
  { rewrite Nat2N.inj_succ, N2Nat.id. destruct n as [|p]; [simpl; lia|].
    apply N.log2_spec. lia. }
  destruct (show_fuel_digits _ n [] Hn) as [m Hm]. rewrite Hm. simpl. reflexivity.
Qed.

Lemma show_fuel_all_digits f : forall n acc,
  Forall (fun c => is_digit c = true) acc -> Forall (fun c => is_digit c = true) (show_fuel f n acc).
Proof.
  induction f as [|f IH]; intros n acc F; [exact F|]. cbn [show_fuel].
  assert (L : n mod 10 < 10) by (apply N.mod_lt; lia).
  destruct (digit_ok _ L) as [A _].
  destruct (n / 10 =? 0); [constructor; assumption|]. apply IH. constructor; assumption.
Qed.

Lemma digit_not_space c : is_digit c = true -> py_isspace c = false.
Proof.
  unfold is_digit. intro H. apply andb_true_iff in H as [H1 H2].
  apply N.leb_le in H1, H2.
  assert (E : c = 48 \/ c = 49 \/ c = 50 \/ c = 51 \/ c = 52 \/ c = 53 \/ c = 54 \/ c = 55 \/ c = 56 \/ c = 57) by lia.
  destruct E as [->|[->|[->|[->|[->|[->|[->|[->|[->| ->]]]]]]]]]; reflexivity.
Qed.

Lemma strip_by_id (p : N -> bool) s c r d r' :
  s = c :: r -> rev s = d :: r' -> p c = false -> p d = false -> strip_by p s = s.
Proof.
  intros -> R Pc Pd. unfold strip_by. rewrite (lstrip_head _ c r Pc), R, (lstrip_head _ d r' Pd), <- R.
  apply rev_involutive.
Qed.

Lemma Forall_rev_head {A} (P : A -> Prop) l d r : Forall P l -> rev l = d :: r -> P d.
Proof.
  intros F R. assert (In d l) by (apply in_rev; rewrite R; left; reflexivity).
  rewrite Forall_forall in F. auto.
Qed.

(* int(str(n)) = n and int("-" + str(n)) = -n : the decimal spelling of an int option *)
Theorem int_roundtrip n :
  py_int_of_str (show n) = Some (Z.of_N n) /\ py_int_of_str (45 :: show n) = Some (- Z.of_N n)%Z.
Proof.
  pose proof (show_digits n) as D.
  assert (F : Forall (fun c => is_digit c = true) (show n)) by (apply show_fuel_all_digits; constructor).
  destruct (show n) as [|c r] eqn:S; [simpl in D; discriminate|].
  destruct (rev (c :: r)) as [|d r'] eqn:R; [apply (f_equal (@List.length N)) in R; rewrite rev_length in R; discriminate|].
  assert (Pc : py_isspace c = false) by (apply digit_not_space; inv F; assumption).
  assert (Pd : py_isspace d = false) by (apply digit_not_space; apply (Forall_rev_head _ _ _ _ F R)).
  split.
  - unfold py_int_of_str, py_strip. rewrite (strip_by_id _ _ c r d r' eq_refl R Pc Pd).
    assert (Dc : is_digit c = true) by (inv F; assumption).
    assert (N1 : c =? 45 = false).
    { apply N.eqb_neq. intro E. subst. discriminate Dc. }
    assert (N2 : c =? 43 = false).
    { apply N.eqb_neq. intro E. subst. discriminate Dc. }
    rewrite N1, N2. exact D.
  - unfold py_int_of_str, py_strip.
    assert (R2 : rev (45 :: c :: r) = d :: (r' ++ [45])).
    { change (rev (45 :: c :: r)) with (rev (c :: r) ++ [45]). rewrite R. reflexivity. }
    rewrite (strip_by_id _ _ 45 (c :: r) d (r' ++ [45]) eq_refl R2 eq_refl Pd).
    cbn [N.eqb]. rewrite D. reflexivity.
Qed.

Theorem bool_spellings y :
  forallb (fun sb => match decode KBool (fst sb) y with
                     | Ok (JBool b) => Bool.eqb b (snd sb)
                     | _ => false
                     end) bool_table = true.
Proof. vm_compute. reflexivity. Qed.

Lemma bool_decode_insensitive s1 s2 y :
  lower_ascii (py_strip s1) = lower_ascii (py_strip s2) -> decode KBool s1 y = decode KBool s2 y.
Proof. intro H. unfold decode. rewrite H. reflexivity. Qed.

(* ====================================================================== *)
(* Sharing of container objects between the global config and its copies  *)
(* ====================================================================== *)

Lemma coercing_some E e v co : coercing e = true -> validate E e v = Ok co -> exists x, co = Some x.
Proof.
  destruct e; try discriminate. cbn [coercing validate]. intros C H.
  apply orb_true_iff in C as [C|C]; [apply orb_true_iff in C as [C|C]|]; apply str_eqb_eq in C; subst name.
  - rewrite custom_ext in H. unfold check_extensions in H. destruct v; try discriminate H;
      (destruct (existsb unhashable l); [discriminate|]); (destruct (forallb _ l); [|discriminate]); inv H; eauto.
  - rewrite custom_fence in H. unfold check_fence_as_directive in H. destruct v; try discriminate H;
      (destruct (forallb is_str l); [|discriminate]); inv H; eauto.
  - rewrite custom_url in H. unfold check_url_schemes in H.
    destruct v; simpl in H; try discriminate H;
      try (destruct (forallb is_str l); simpl in H; [|discriminate]);
      (destruct (url_scheme_entries _); simpl in H; [|discriminate]); inv H; eauto.
Qed.

(* the tagged run is the plain run with tags *)
Lemma validate_fields_o_erase E fs : forall c r,
  validate_fields_o E fs c = Ok r -> validate_fields E fs (erase_o c) = Ok (erase_o r).
Proof.
  induction fs as [|f fs IH]; intros c r H; destruct c as [|[[n v] o] c]; simpl in H; try discriminate.
  - inv H. reflexivity.
  - simpl. destruct (validate E (f_val f) v) as [co|]; simpl in *; [|discriminate].
    destruct (validate_fields_o E fs c) as [rest|] eqn:R; simpl in H; [|discriminate].
    inv H. rewrite (IH c rest R). reflexivity.
Qed.

Lemma validate_fields_o_fresh E fs : forall c r f,
  validate_fields_o E fs c = Ok r -> map (fun x => fst (fst x)) c = map f_name fs ->
  nodup_names (map f_name fs) = true -> In f fs -> coercing (f_val f) = true ->
  shares_field (f_name f) r = false.
Proof.
  induction fs as [|g fs IH]; intros c r f H K ND Hin C; [destruct Hin|].
  destruct c as [|[[n v] o] c]; simpl in H; try discriminate.
  destruct (validate E (f_val g) v) as [co|] eqn:V; simpl in H; [|discriminate].
  destruct (validate_fields_o E fs c) as [rest|] eqn:R; simpl in H; [|discriminate].
  inv H. simpl in K. injection K as K1 K2. simpl in ND. apply nodup_cons in ND as [Hnot ND].
  simpl. destruct Hin as [->|Hin].
  - rewrite K1, str_eqb_refl. destruct (coercing_some _ _ _ _ C V) as [x ->]. reflexivity.
  - destruct (str_eqb n (f_name f)) eqn:E0.
    + apply str_eqb_eq in E0. exfalso. apply Hnot. rewrite <- K1, E0. apply in_map. exact Hin.
    + eapply IH; eassumption.
Qed.

(* copy: a field with a coercing validator never shares its container with the copied config *)
Theorem copy_shares_nothing_coercing E fs c changes r f :
  nodup_names (map f_name fs) = true -> In f fs -> coercing (f_val f) = true ->
  copy_o E fs c changes = Ok r -> shares_field (f_name f) r = false.
Proof.
  intros ND Hin C H. unfold copy_o in H. destruct (negb _); [discriminate|].
  eapply validate_fields_o_fresh; try eassumption.
  rewrite map_map. reflexivity.
Qed.

Theorem copy_o_is_copy E fs c changes r :
  copy_o E fs c changes = Ok r -> copy E fs c changes = Ok (erase_o r).
Proof.
  unfold copy_o, copy, mk_config. destruct (negb _); [discriminate|]. intro H.
  apply validate_fields_o_erase in H. unfold erase_o in H at 1. rewrite map_map in H. exact H.
Qed.
