(* Proofs about Cfg/Cfg.v against Cfg/CfgSpec.v: validators accept exactly the documented types. *)
From Coq Require Import List NArith ZArith Bool Lia.
From MV Require Import Base.PyStr Base.Res Cfg.StrOps Cfg.Cfg Cfg.CfgSpec.
Import ListNotations.
Open Scope N_scope.

Ltac inv H := inversion H; subst; clear H.

(* ---------- small facts ---------- *)

Lemma is_str_IsStr x : is_str x = true <-> IsStr x.
Proof.
  split.
  - destruct x; try discriminate. intros _. eexists; reflexivity.
  - intros [s ->]. reflexivity.
Qed.

Lemma forallb_Forall {A} (p : A -> bool) (P : A -> Prop) l :
  (forall x, p x = true <-> P x) -> (forallb p l = true <-> Forall P l).
Proof.
  intro H. induction l as [|x l IH]; simpl.
  - split; auto.
  - rewrite andb_true_iff, IH, H. split.
    + intros [A1 A2]. constructor; auto.
    + intro F. inv F. auto.
Qed.

Lemma forallb_is_str l : forallb is_str l = true <-> Forall IsStr l.
Proof. apply forallb_Forall. apply is_str_IsStr. Qed.

Lemma bind_ok {A B} (r : res A) (f : A -> res B) :
  is_ok (bind r f) = true <-> exists a, r = Ok a /\ is_ok (f a) = true.
Proof.
  destruct r as [a|e]; simpl.
  - split; [intro H; exists a; auto | intros [a' [E H]]; inv E; exact H].
  - split; [discriminate | intros [a' [E _]]; discriminate].
Qed.

(* ---------- iterators ---------- *)

Lemma iter_all_ok f l acc :
  is_ok (iter_all f l acc) = true <-> Forall (fun x => is_ok (f x) = true) l.
Proof.
  revert acc. induction l as [|x l IH]; intro acc; simpl.
  - split; auto.
  - destruct (f x) as [c|e] eqn:Fx; simpl.
    + rewrite IH. split.
      * intro H. constructor; [rewrite Fx; reflexivity | exact H].
      * intro H. inv H. assumption.
    + split; [discriminate|]. intro H. inv H. rewrite Fx in H2. discriminate.
Qed.

Lemma iter_pairs_ok fk fv l acc :
  is_ok (iter_pairs fk fv l acc) = true <->
  Forall (fun p => is_ok (fk (fst p)) = true /\ is_ok (fv (snd p)) = true) l.
Proof.
  revert acc. induction l as [|[k x] l IH]; intro acc; simpl.
  - split; auto.
  - destruct (fk k) as [c1|e1] eqn:Fk; simpl.
    + destruct (fv x) as [c2|e2] eqn:Fv; simpl.
      * rewrite IH. split.
        -- intro H. constructor; [simpl; rewrite Fk, Fv; auto | exact H].
        -- intro H. inv H. assumption.
      * split; [discriminate|]. intro H. inv H. simpl in H2. rewrite Fv in H2. destruct H2; discriminate.
    + split; [discriminate|]. intro H. inv H. simpl in H2. rewrite Fk in H2. destruct H2; discriminate.
Qed.

(* ---------- instance_of on sequence kinds ---------- *)

Lemma existsb_map {A B} (f : A -> B) (p : B -> bool) l :
  existsb p (map f l) = existsb (fun x => p (f x)) l.
Proof. induction l as [|x l IH]; simpl; [reflexivity|]. rewrite IH. reflexivity. Qed.

Lemma existsb_ext {A} (p q : A -> bool) l : (forall x, p x = q x) -> existsb p l = existsb q l.
Proof. intro H. induction l as [|x l IH]; simpl; [reflexivity|]. rewrite H, IH. reflexivity. Qed.

Lemma existsb_false {A} (p : A -> bool) l : (forall x, p x = false) -> existsb p l = false.
Proof. intro H. induction l as [|x l IH]; simpl; [reflexivity|]. rewrite H, IH. reflexivity. Qed.

Lemma instance_of_seq kinds v :
  instance_of_ok (map pyty_of_skind kinds) true v = true <-> exists l, seq_items kinds v = Some l.
Proof.
  unfold instance_of_ok. simpl. rewrite andb_true_r. rewrite existsb_map.
  destruct v;
    try (rewrite existsb_false by (intros []; reflexivity); simpl;
         split; [discriminate | intros [l0 H]; discriminate]).
  - (* list *) simpl.
    rewrite (existsb_ext _ (fun k => match k with SkList => true | _ => false end)) by (intros []; reflexivity).
    destruct (existsb _ kinds); split; try discriminate; eauto. intros [l0 H]. discriminate.
  - (* tuple *) simpl.
    rewrite (existsb_ext _ (fun k => match k with SkTuple => true | _ => false end)) by (intros []; reflexivity).
    destruct (existsb _ kinds); split; try discriminate; eauto. intros [l0 H]. discriminate.
  - (* set *) simpl.
    rewrite (existsb_ext _ (fun k => match k with SkSet => true | _ => false end)) by (intros []; reflexivity).
    destruct (existsb _ kinds); split; try discriminate; eauto. intros [l0 H]. discriminate.
Qed.

Lemma seq_items_iter kinds v l : seq_items kinds v = Some l -> py_iter v = Ok l.
Proof.
  destruct v; simpl; try discriminate;
    match goal with |- (if ?c then _ else _) = _ -> _ => destruct c end; intro H; inv H; reflexivity.
Qed.

(* ---------- custom validators ---------- *)

Lemma custom_ext E v : custom E n_check_extensions v = check_extensions E v.
Proof. reflexivity. Qed.
Lemma custom_url E v : custom E n_check_url_schemes v = check_url_schemes v.
Proof. reflexivity. Qed.
Lemma custom_sub E v : custom E n_check_sub_delimiters v = check_sub_delimiters v.
Proof. reflexivity. Qed.
Lemma custom_inv E v : custom E n_check_inventories v = check_inventories v.
Proof. reflexivity. Qed.
Lemma custom_slug E v : custom E n_check_heading_slug_func v = check_heading_slug_func E v.
Proof. reflexivity. Qed.
Lemma custom_fence E v : custom E n_check_fence_as_directive v = check_fence_as_directive v.
Proof. reflexivity. Qed.

Lemma seq3_cases v l :
  seq_items [SkList; SkTuple; SkSet] v = Some l <-> (v = JList l \/ v = JTuple l \/ v = JSet l).
Proof.
  split.
  - destruct v; simpl; try discriminate; intro H; inv H; auto.
  - intros [H|[H|H]]; subst; reflexivity.
Qed.

Lemma seq2_cases v l :
  seq_items [SkList; SkTuple] v = Some l <-> (v = JList l \/ v = JTuple l).
Proof.
  split.
  - destruct v; simpl; try discriminate; intro H; inv H; auto.
  - intros [H|H]; subst; reflexivity.
Qed.

Lemma strs_not_unhashable l : Forall IsStr l -> existsb unhashable l = false.
Proof.
  induction 1 as [|x l Hx _ IH]; simpl; auto.
  destruct Hx as [s Hs]. subst x. simpl. exact IH.
Qed.

Definition ext_item (E : env) (x : jv) : bool :=
  match x with JStr s => mem_str s (e_known_ext E) | _ => false end.

Lemma ext_item_spec E x : ext_item E x = true <-> exists s, x = JStr s /\ In s (e_known_ext E).
Proof.
  split.
  - destruct x; simpl; try discriminate. intro H. eexists. split; [reflexivity|]. apply mem_str_In. exact H.
  - intros [s [-> H]]. simpl. apply mem_str_In. exact H.
Qed.

Lemma check_extensions_seq E l :
  is_ok (if existsb unhashable l then Raise TypeError
         else if forallb (ext_item E) l then Ok (Some (mk_str_set l)) else Raise ValueError) = true
  <-> Forall (fun x => exists s, x = JStr s /\ In s (e_known_ext E)) l.
Proof.
  rewrite <- (forallb_Forall (ext_item E) _ l (ext_item_spec E)).
  destruct (forallb (ext_item E) l) eqn:F.
  - assert (U : existsb unhashable l = false).
    { apply strs_not_unhashable. apply (forallb_Forall (ext_item E) _ l (ext_item_spec E)) in F.
      eapply Forall_impl; [|exact F]. intros x [s [-> _]]. eexists; reflexivity. }
    rewrite U. simpl. split; auto.
  - destruct (existsb unhashable l); simpl; split; discriminate.
Qed.

Lemma accepts_ext E v : accepts E (VCustom n_check_extensions) v = true <-> has_type E v TyExtSet.
Proof.
  unfold accepts. cbn [validate]. rewrite custom_ext. cbn [has_type].
  split.
  - intro H. destruct v; try discriminate H; exists l; (split; [reflexivity|]);
      apply check_extensions_seq; exact H.
  - intros [l [S F]]. apply seq3_cases in S as [-> | [-> | ->]]; apply check_extensions_seq; exact F.
Qed.

Lemma accepts_fence E v : accepts E (VCustom n_check_fence_as_directive) v = true <-> has_type E v TyStrSet.
Proof.
  unfold accepts. cbn [validate]. rewrite custom_fence. cbn [has_type].
  split.
  - intro H. destruct v; try discriminate H; exists l; (split; [reflexivity|]);
      apply forallb_is_str; simpl in H; destruct (forallb is_str l); [reflexivity|discriminate].
  - intros [l [S F]]. apply forallb_is_str in F.
    apply seq3_cases in S as [-> | [-> | ->]]; simpl; rewrite F; reflexivity.
Qed.

Lemma accepts_sub E v : accepts E (VCustom n_check_sub_delimiters) v = true <-> has_type E v TySubDelims.
Proof.
  unfold accepts. cbn [validate]. rewrite custom_sub. cbn [has_type]. split.
  - intro H. destruct v; try discriminate H;
      destruct l as [|a [|b [|c l]]]; try discriminate H; simpl in H;
      destruct a as [| | | |sa| | | | | |]; try discriminate H;
      destruct sa as [|ca [|? ?]]; try discriminate H;
      destruct b as [| | | |sb| | | | | |]; try discriminate H;
      destruct sb as [|cb [|? ?]]; try discriminate H; exists ca, cb; auto.
  - intros [a [b [-> | ->]]]; reflexivity.
Qed.

Lemma inventory_entry_spec k x :
  inventory_entry_ok k x = true <-> IsStr k /\ inventory_val_ok x.
Proof.
  unfold inventory_entry_ok, inventory_val_ok. rewrite andb_true_iff, is_str_IsStr. split.
  - intros [Hk H]. split; [exact Hk|].
    destruct x; try discriminate H; destruct l as [|a [|b [|c l]]]; try discriminate H;
      apply andb_true_iff in H as [Ha Hb]; apply is_str_IsStr in Ha as [sa ->];
      exists sa, b; (split; [auto|]); destruct b; try discriminate Hb; auto;
      right; eexists; reflexivity.
  - intros [Hk [a [b [[-> | ->] Hb]]]]; (split; [exact Hk|]); simpl;
      destruct Hb as [-> | [s ->]]; reflexivity.
Qed.

Lemma accepts_inv E v : accepts E (VCustom n_check_inventories) v = true <-> has_type E v TyInventories.
Proof.
  unfold accepts. cbn [validate]. rewrite custom_inv. cbn [has_type]. split.
  - intro H. destruct v; try discriminate H. exists kvs. split; [reflexivity|].
    simpl in H. destruct (forallb _ kvs) eqn:F; [|discriminate].
    eapply forallb_Forall; [|exact F]. intros [k x]. apply inventory_entry_spec.
  - intros [kvs [-> F]]. simpl.
    assert (F' : forallb (fun p => inventory_entry_ok (fst p) (snd p)) kvs = true).
    { eapply forallb_Forall; [|exact F]. intros [k x]. apply inventory_entry_spec. }
    rewrite F'. reflexivity.
Qed.

Lemma accepts_slug E v : accepts E (VCustom n_check_heading_slug_func) v = true <-> has_type E v TySlugFunc.
Proof.
  unfold accepts. cbn [validate]. rewrite custom_slug. cbn [has_type]. split.
  - intro H. destruct v; try discriminate H; auto.
    + simpl in H. destruct (mem_N c_dot s) eqn:D; [|discriminate H]. simpl in H.
      destruct (e_import E s) as [obj| | |] eqn:I; try discriminate H.
      destruct obj; try discriminate H. right. right. exists s, name. auto.
    + right. left. eexists; reflexivity.
  - intros [-> | [[n ->] | [s [n [-> [D I]]]]]]; try reflexivity.
    simpl. rewrite D, I. reflexivity.
Qed.

(* url_schemes *)

Lemma opt_check_str (o : option jv) :
  match o with Some x => negb (is_str x) | None => false end = false <->
  (forall y, o = Some y -> IsStr y).
Proof.
  destruct o as [x|]; split.
  - intros H y E. inv E. apply is_str_IsStr. apply negb_false_iff. exact H.
  - intro H. apply negb_false_iff. apply is_str_IsStr. apply H. reflexivity.
  - intros _ y E. discriminate.
  - reflexivity.
Qed.

Lemma opt_check_classes (o : option jv) :
  match o with
  | Some (JList cs) => negb (forallb is_str cs)
  | Some _ => true
  | None => false
  end = false <->
  (forall y, o = Some y -> exists cs, y = JList cs /\ Forall IsStr cs).
Proof.
  destruct o as [x|]; split.
  - intros H y E. inv E. destruct y; try discriminate H. exists l. split; [reflexivity|].
    apply forallb_is_str. apply negb_false_iff. exact H.
  - intro H. destruct (H x eq_refl) as [cs [-> F]]. apply negb_false_iff. apply forallb_is_str. exact F.
  - intros _ y E. discriminate.
  - reflexivity.
Qed.

Lemma url_scheme_entry_ok k x :
  is_ok (url_scheme_entry k x) = true <-> IsStr k /\ url_val_ok x.
Proof.
  unfold url_scheme_entry, url_val_ok. split.
  - intro H. destruct k; try discriminate H. split; [eexists; reflexivity|].
    destruct x; try discriminate H; auto.
    + right. left. eexists; reflexivity.
    + right. right. exists kvs. split; [reflexivity|].
      destruct (forallb (fun p => is_str (fst p)) kvs) eqn:K; [|discriminate H]. simpl in H.
      destruct (match dict_get s_url kvs with Some x => negb (is_str x) | None => false end) eqn:U;
        [discriminate H|].
      destruct (match dict_get s_title kvs with Some x => negb (is_str x) | None => false end) eqn:T;
        [discriminate H|].
      destruct (match dict_get s_classes kvs with
                | Some (JList cs) => negb (forallb is_str cs) | Some _ => true | None => false end) eqn:C;
        [discriminate H|].
      repeat split.
      * eapply forallb_Forall; [|exact K]. intro p. apply is_str_IsStr.
      * apply opt_check_str. exact U.
      * apply opt_check_str. exact T.
      * apply opt_check_classes. exact C.
  - intros [[s ->] H]. destruct H as [-> | [[u ->] | [d [-> [K [U [T C]]]]]]]; try reflexivity.
    assert (K' : forallb (fun p => is_str (fst p)) d = true).
    { eapply forallb_Forall; [|exact K]. intro p. apply is_str_IsStr. }
    rewrite K'. simpl.
    apply opt_check_str in U. apply opt_check_str in T. apply opt_check_classes in C.
    rewrite U, T, C. reflexivity.
Qed.

Lemma url_scheme_entries_ok kvs :
  is_ok (url_scheme_entries kvs) = true <->
  Forall (fun p => IsStr (fst p) /\ url_val_ok (snd p)) kvs.
Proof.
  induction kvs as [|[k x] kvs IH]; simpl.
  - split; auto.
  - destruct (url_scheme_entry k x) as [e|e] eqn:En; simpl.
    + destruct (url_scheme_entries kvs) as [r|e'] eqn:R; simpl.
      * split; [|reflexivity]. intros _. constructor.
        -- simpl. apply url_scheme_entry_ok. rewrite En. reflexivity.
        -- apply IH. reflexivity.
      * split; [discriminate|]. intro H. inv H. apply IH in H3. discriminate.
    + split; [discriminate|]. intro H. inv H. simpl in H2. apply url_scheme_entry_ok in H2.
      rewrite En in H2. discriminate.
Qed.

Lemma dedup_keys_entries l seen :
  is_ok (url_scheme_entries (dedup_keys l seen)) = true.
Proof.
  revert seen. induction l as [|s l IH]; intro seen; simpl.
  - reflexivity.
  - destruct (mem_str s seen); [apply IH|]. simpl.
    specialize (IH (s :: seen)). destruct (url_scheme_entries (dedup_keys l (s :: seen))); [reflexivity|discriminate].
Qed.

Lemma check_url_list l :
  is_ok (do value <- (if forallb is_str l then Ok (JDict (dedup_keys (strs_of l) [])) else Raise TypeError);
         match value with
         | JDict kvs => do new_dict <- url_scheme_entries kvs; Ok (Some (JDict new_dict))
         | _ => Raise TypeError
         end) = true <-> Forall IsStr l.
Proof.
  rewrite <- forallb_is_str. destruct (forallb is_str l); simpl.
  - split; [reflexivity|]. intros _.
    pose proof (dedup_keys_entries (strs_of l) []) as H.
    destruct (url_scheme_entries (dedup_keys (strs_of l) [])); [reflexivity|discriminate].
  - split; discriminate.
Qed.

Lemma accepts_url E v : accepts E (VCustom n_check_url_schemes) v = true <-> has_type E v TyUrlSchemes.
Proof.
  unfold accepts. cbn [validate]. rewrite custom_url. cbn [has_type]. unfold check_url_schemes. split.
  - intro H. destruct v; try discriminate H.
    + left. exists l. split; [reflexivity|]. apply check_url_list. exact H.
    + left. exists l. split; [reflexivity|]. apply check_url_list. exact H.
    + right. exists kvs. split; [reflexivity|]. apply url_scheme_entries_ok.
      simpl in H. destruct (url_scheme_entries kvs); [reflexivity|discriminate].
  - intros [[l [S F]]|[kvs [-> F]]].
    + apply seq2_cases in S as [-> | ->]; apply check_url_list; exact F.
    + apply url_scheme_entries_ok in F. simpl. destruct (url_scheme_entries kvs); [reflexivity|discriminate].
Qed.

(* ---------- C13_combinators_sound_complete ---------- *)

Theorem combinators_sound_complete E t :
  forall v, accepts E (vexpr_of t) v = true <-> has_type E v t.
Proof.
  induction t as [| | | |t IH|opts|kinds t IH|k IHk vt IHv| | | | | |]; intro v.
  - (* Any *) simpl. split; auto.
  - (* Bool *) unfold accepts. simpl. destruct v; simpl; split; try discriminate;
      try (intros [b E0]; discriminate); eauto.
  - (* Int *) unfold accepts. simpl. destruct v; simpl; split; try discriminate;
      try (intros [z0 E0]; discriminate); eauto.
  - (* Str *) unfold accepts. simpl. destruct v; simpl; split; try discriminate;
      try (intros [s0 E0]; discriminate); eauto. intros _. eexists; reflexivity.
  - (* Opt *) unfold accepts. cbn [vexpr_of validate has_type].
    destruct v; try (rewrite <- IH; unfold accepts; split; [intro H; right; exact H | intros [H|H]; [discriminate H|exact H]]).
    split; auto.
  - (* IntIn *) unfold accepts. simpl. destruct v; simpl; split; try discriminate;
      try (intros [z0 [E0 _]]; discriminate).
    + intro H. destruct (existsb (Z.eqb z) opts) eqn:X; [|discriminate].
      apply existsb_exists in X as [y [Hy E0]]. apply Z.eqb_eq in E0. subst. exists y. auto.
    + intros [z0 [E0 Hin]]. inv E0.
      assert (X : existsb (Z.eqb z0) opts = true).
      { apply existsb_exists. exists z0. split; [exact Hin|apply Z.eqb_refl]. }
      rewrite X. reflexivity.
  - (* Seq *) unfold accepts. cbn [vexpr_of validate has_type].
    destruct (instance_of_ok (map pyty_of_skind kinds) true v) eqn:I.
    + apply instance_of_seq in I as [l S]. rewrite (seq_items_iter _ _ _ S). cbn [bind].
      rewrite iter_all_ok. split.
      * intro F. exists l. split; [exact S|]. eapply Forall_impl; [|exact F]. intros x Hx. apply IH. exact Hx.
      * intros [l' [S' F]]. rewrite S in S'. inv S'.
        eapply Forall_impl; [|exact F]. intros x Hx. apply IH. exact Hx.
    + cbn [bind is_ok]. split; [discriminate|]. intros [l [S _]].
      assert (X : instance_of_ok (map pyty_of_skind kinds) true v = true) by (apply instance_of_seq; eauto).
      rewrite X in I. discriminate.
  - (* Map *) unfold accepts. cbn [vexpr_of validate has_type].
    destruct v; try (simpl; split; [discriminate | intros [kvs0 [E0 _]]; discriminate]).
    cbn. rewrite iter_pairs_ok. split.
    + intro F. exists kvs. split; [reflexivity|]. eapply Forall_impl; [|exact F].
      intros p [H1 H2]. split; [apply IHk; exact H1 | apply IHv; exact H2].
    + intros [kvs0 [E0 F]]. inv E0. eapply Forall_impl; [|exact F].
      intros p [H1 H2]. split; [apply IHk; exact H1 | apply IHv; exact H2].
  - apply accepts_ext.
  - apply accepts_fence.
  - apply accepts_url.
  - apply accepts_sub.
  - apply accepts_inv.
  - apply accepts_slug.
Qed.

(* ---------- vexpr_eqb is equality ---------- *)

Lemma list_eqb_eq {A} (eqb : A -> A -> bool) (a b : list A) :
  (forall x y, eqb x y = true -> x = y) -> list_eqb eqb a b = true -> a = b.
Proof.
  intro H. revert b. induction a as [|x a IH]; intros [|y b] E; simpl in E; try discriminate; auto.
  apply andb_true_iff in E as [E1 E2]. f_equal; auto.
Qed.

Lemma pyty_eqb_eq x y : pyty_eqb x y = true -> x = y.
Proof. destruct x, y; simpl; intro H; try discriminate; reflexivity. Qed.

Lemma vexpr_eqb_eq a : forall b, vexpr_eqb a b = true -> a = b.
Proof.
  induction a; intros [] H; simpl in H; try discriminate.
  - reflexivity.
  - apply andb_true_iff in H as [H1 H2]. apply (list_eqb_eq _ _ _ pyty_eqb_eq) in H1.
    apply Bool.eqb_prop in H2. subst. reflexivity.
  - f_equal. auto.
  - f_equal. apply (list_eqb_eq Z.eqb); [|exact H]. intros x y E. apply Z.eqb_eq. exact E.
  - apply andb_true_iff in H as [H1 H2]. f_equal; auto.
  - apply andb_true_iff in H as [H12 H3]. apply andb_true_iff in H12 as [H1 H2]. f_equal; auto.
  - f_equal. apply str_eqb_eq. exact H.
Qed.

(* every row that passes field_ok accepts exactly its documented type *)
Theorem field_ok_sound E f :
  field_ok f = true ->
  exists t, doc_ty f = Some t /\ forall v, accepts E (f_val f) v = true <-> has_type E v t.
Proof.
  unfold field_ok. destruct (doc_ty f) as [t|]; [|discriminate]. intro H.
  exists t. split; [reflexivity|]. apply vexpr_eqb_eq in H. rewrite H. apply combinators_sound_complete.
Qed.
