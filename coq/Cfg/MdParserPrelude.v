(* Abstract description of the Markdown parser that create_md_parser (parsers/mdit.py) builds from a
   validated configuration, and the meaning of the atoms of its source translation (gen/c13_mdit.py).
   Definitions only. *)
From Coq Require Import List NArith ZArith Bool.
From MV Require Import Base.PyStr Base.Res Cfg.StrOps Cfg.Cfg.
Import ListNotations.
Open Scope N_scope.

Inductive pstep : Type :=
| PEnable (rule : str)                           (* md.enable("rule") *)
| PDisable (rule : jv)                           (* md.disable(name, True) *)
| PUse (plugin : str) (opts : list (str * jv))   (* md.use(plugin, k=v, ...); "*" = positional star-args *)
| PLinkifySet (opts : list (str * jv)).          (* md.linkify.set({...}) *)

Record pdesc : Type := {
  pd_preset : str;                    (* MarkdownIt("<preset>", ...) *)
  pd_steps : list pstep;              (* in call order *)
  pd_options : list (str * jv)        (* md.options.update({...}); the config object itself is JOpaque "config" *)
}.

Definition mk_md (preset : str) (steps : list pstep) : pdesc :=
  {| pd_preset := preset; pd_steps := steps; pd_options := [] |}.

Definition md_step (md : pdesc) (s : pstep) : pdesc :=
  {| pd_preset := pd_preset md; pd_steps := pd_steps md ++ [s]; pd_options := pd_options md |}.

Definition md_options (md : pdesc) (o : list (str * jv)) : pdesc :=
  {| pd_preset := pd_preset md; pd_steps := pd_steps md; pd_options := pd_options md ++ o |}.

(* config.<field> *)
Definition cfg_val (n : str) (c : config) : jv := match cfg_get n c with Some v => v | None => JNull end.

(* if config.<bool field>: *)
Definition cfg_flag (n : str) (c : config) : bool :=
  match cfg_get n c with Some (JBool true) => true | _ => false end.

Definition s_enable_extensions : str :=
  [101;110;97;98;108;101;95;101;120;116;101;110;115;105;111;110;115].

(* "name" in config.enable_extensions *)
Definition ext_in (n : str) (c : config) : bool :=
  match cfg_get s_enable_extensions c with
  | Some (JSet l) | Some (JList l) | Some (JTuple l) =>
      existsb (fun x => match x with JStr s => str_eqb s n | _ => false end) l
  | _ => false
  end.

(* for name in config.disable_syntax *)
Definition cfg_items (n : str) (c : config) : list jv :=
  match cfg_get n c with Some (JList l) | Some (JTuple l) | Some (JSet l) => l | _ => [] end.

(* a flat fingerprint of a description: two descriptions with different fingerprints are different *)
Fixpoint jv_show (v : jv) : list N :=
  match v with
  | JNull => [0]
  | JBool b => [1; if b then 1 else 0]
  | JInt z => [2; Z.to_N (Z.abs z); if (z <? 0)%Z then 1 else 0]
  | JFloat z f => [3; Z.to_N (Z.abs z); if f then 1 else 0]
  | JStr s => 4 :: N.of_nat (List.length s) :: s
  | JList l => 5 :: N.of_nat (List.length l) :: flat_map jv_show l
  | JTuple l => 6 :: N.of_nat (List.length l) :: flat_map jv_show l
  | JSet l => 7 :: N.of_nat (List.length l) :: flat_map jv_show l
  | JDict d => 8 :: N.of_nat (List.length d) :: flat_map (fun p => jv_show (fst p) ++ jv_show (snd p)) d
  | JCallable s => 9 :: N.of_nat (List.length s) :: s
  | JOpaque s => 10 :: N.of_nat (List.length s) :: s
  end.

Definition opts_show (o : list (str * jv)) : list N :=
  N.of_nat (List.length o) :: flat_map (fun p => N.of_nat (List.length (fst p)) :: fst p ++ jv_show (snd p)) o.

Definition step_show (s : pstep) : list N :=
  match s with
  | PEnable r => 1 :: N.of_nat (List.length r) :: r
  | PDisable r => 2 :: jv_show r
  | PUse p o => 3 :: N.of_nat (List.length p) :: p ++ opts_show o
  | PLinkifySet o => 4 :: opts_show o
  end.

Definition fingerprint (d : pdesc) : list N :=
  N.of_nat (List.length (pd_preset d)) :: pd_preset d ++ flat_map step_show (pd_steps d) ++ opts_show (pd_options d).

(* the same config with enable_extensions := the given names / nothing *)
Definition with_extensions (names : list str) (c : config) : config :=
  cfg_set s_enable_extensions (JSet (map JStr names)) c.
