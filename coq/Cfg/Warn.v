(* Model of myst_parser/warnings_.py: the suppression predicate, its Sphinx counterpart
   (sphinx/util/logging.py 8.2.3, modelled external) and create_warning for both front ends;
   plus the static checks evaluated on the regenerated call-site table (Gen/Warnings.v).
   Executable definitions only; proofs are in WarnProofs.v. *)
From Coq Require Import List NArith Bool String.
From MV Require Import Base.PyStr Cfg.StrLit Cfg.WarnTypes.
Import ListNotations.
Open Scope N_scope.

Definition c_dot : N := 46.    (* '.' *)
Definition c_star : N := 42.   (* '*' *)

(* w.split(".", 1) when "." in w ; None when there is no "." *)
Fixpoint split_dot (w : str) : option (str * str) :=
  match w with
  | [] => None
  | c :: w' =>
      if c =? c_dot then Some ([], w')
      else match split_dot w' with
           | Some (a, b) => Some (c :: a, b)
           | None => None
           end
  end.

(* the for-loop of _is_suppressed_warning *)
Fixpoint is_suppressed_loop (ty sub : str) (suppress : list str) : bool :=
  match suppress with
  | [] => false
  | w :: rest =>
      let '(target, subtarget) :=
        match split_dot w with
        | Some (a, b) => (a, Some b)      (* if "." in warning_type: target, subtarget = split(".", 1) *)
        | None => (w, None)               (* else: target, subtarget = warning_type, None *)
        end in
      if str_eqb target ty &&
         match subtarget with              (* subtarget in (None, subtype, "*") *)
         | None => true
         | Some st => str_eqb st sub || str_eqb st [c_star]
         end
      then true
      else is_suppressed_loop ty sub rest
  end.

(* _is_suppressed_warning(type, subtype, suppress_warnings) *)
Definition is_suppressed (ty : option str) (sub : str) (suppress : list str) : bool :=
  match ty with
  | None => false                          (* if type is None: return False *)
  | Some t => is_suppressed_loop t sub suppress
  end.

(* sphinx.util.logging.is_suppressed_warning (Sphinx 8.2.3): frozenset membership tests *)
Definition sphinx_is_suppressed (ty : option str) (sub : str) (suppress : list str) : bool :=
  match ty with
  | None => false
  | Some t =>
      match suppress with
      | [] => false                        (* len(suppress_warnings) == 0 *)
      | _ => mem_str t suppress
             || mem_str (t ++ [c_dot; c_star]) suppress
             || mem_str (t ++ c_dot :: sub) suppress
      end
  end.

(* ---------------- create_warning ---------------- *)

Inductive frontend : Type := Docutils | Sphinx.

(* one call of create_warning *)
Record wevent : Type := {
  we_wtype : option str;   (* the wtype argument *)
  we_sub : str;            (* subtype (the enum member's value, or the literal) *)
  we_msg : str;
  we_placed : bool         (* append_to is given, or the caller puts the returned node into the tree *)
}.

Definition s_myst : str := [109; 121; 115; 116].   (* "myst" (numeric: this part is extracted) *)

Definition type_str (e : wevent) : str :=
  match we_wtype e with Some t => t | None => s_myst end.

(* a log line / a system_message node: the message with its "[type.subtype]" tag *)
Record wout : Type := { wo_msg : str; wo_type : str; wo_sub : str }.

Definition mk_out (e : wevent) : wout :=
  {| wo_msg := we_msg e; wo_type := type_str e; wo_sub := we_sub e |}.

Definition tag_of (o : wout) : str := wo_type o ++ c_dot :: wo_sub o.

(* returns (log lines, node returned to the caller).
   Sphinx: logger.warning(..., type=, subtype=) is always called; Sphinx's WarningSuppressor filter
   (sphinx_is_suppressed) decides about the log line, MyST's mirror decides about the node.
   docutils: the mirror is asked first; reporter.warning both logs and returns the node.
   Premise of the whole model: docutils halt_level is above WARNING (default), so reporter.warning
   does not raise. *)
Definition create_warning (fe : frontend) (suppress : list str) (e : wevent)
  : list wout * option wout :=
  match fe with
  | Sphinx =>
      let log := if sphinx_is_suppressed (Some (type_str e)) (we_sub e) suppress
                 then [] else [mk_out e] in
      if is_suppressed (Some (type_str e)) (we_sub e) suppress
      then (log, None) else (log, Some (mk_out e))
  | Docutils =>
      if is_suppressed (Some (type_str e)) (we_sub e) suppress
      then ([], None) else ([mk_out e], Some (mk_out e))
  end.

(* what a parse does, as far as this property is concerned: a sequence of warning calls
   interleaved with everything else it outputs.  One call site is modelled individually because the
   code around it looks at the node the warning was appended to
   (transforms.py ResolveAnchorIds, missing '#target' in the docutils front end):
       create_warning(..., XREF_MISSING, append_to=refnode)
       if not refnode.children: refnode += inline("#" + target)                                   *)
Inductive item : Type :=
| IWarn (e : wevent)
| IOther (x : str)                                        (* any other node / text put into the doctree *)
| IXrefMissing (e : wevent) (text : option str) (target : str).   (* text = explicit link text, if any *)

Inductive tnode : Type :=
| TSys (o : wout)            (* system_message *)
| TOther (x : str)
| TRef (text : option str) (msg : option wout) (fallback : option str) (target : str).
                             (* <reference refid=target> and its children: explicit text, the appended
                                system_message, the fallback text "#target" *)

Definition c_hash : N := 35.

Fixpoint run (fe : frontend) (suppress : list str) (items : list item) : list wout * list tnode :=
  match items with
  | [] => ([], [])
  | IOther x :: rest =>
      let '(log, tree) := run fe suppress rest in (log, TOther x :: tree)
  | IWarn e :: rest =>
      let '(l1, node) := create_warning fe suppress e in
      let '(log, tree) := run fe suppress rest in
      (l1 ++ log,
       match node with
       | Some o => if we_placed e then TSys o :: tree else tree
       | None => tree
       end)
  | IXrefMissing e text target :: rest =>
      let '(l1, node) := create_warning fe suppress e in         (* append_to=refnode *)
      let fallback := match text, node with                      (* if not refnode.children *)
                      | None, None => Some (c_hash :: target)
                      | _, _ => None
                      end in
      let '(log, tree) := run fe suppress rest in
      (l1 ++ log, TRef text node fallback target :: tree)
  end.

(* ---------------- specification ---------------- *)

(* a suppress entry w matches (type, subtype) iff w = type, w = type.subtype or w = type.*  *)
Definition entry_matches (ty sub w : str) : bool :=
  str_eqb w ty || str_eqb w (ty ++ c_dot :: sub) || str_eqb w (ty ++ [c_dot; c_star]).

Definition tag_matches (suppress : list str) (ty sub : str) : bool :=
  existsb (entry_matches ty sub) suppress.

Definition out_matches (suppress : list str) (o : wout) : bool :=
  tag_matches suppress (wo_type o) (wo_sub o).

(* "removes exactly the warnings with that tag from the log and from the doctree, and changes
   nothing else": the output under the empty list, with the matching lines and system_message nodes
   taken out *)
Definition strip_log (suppress : list str) (log : list wout) : list wout :=
  filter (fun o => negb (out_matches suppress o)) log.

Definition strip_opt (suppress : list str) (m : option wout) : option wout :=
  match m with
  | Some o => if out_matches suppress o then None else Some o
  | None => None
  end.

Fixpoint strip_tree (suppress : list str) (tree : list tnode) : list tnode :=
  match tree with
  | [] => []
  | TSys o :: rest =>
      if out_matches suppress o then strip_tree suppress rest else TSys o :: strip_tree suppress rest
  | TOther x :: rest => TOther x :: strip_tree suppress rest
  | TRef text msg fb tgt :: rest => TRef text (strip_opt suppress msg) fb tgt :: strip_tree suppress rest
  end.

Definition strip (suppress : list str) (out : list wout * list tnode) : list wout * list tnode :=
  (strip_log suppress (fst out), strip_tree suppress (snd out)).

(* The exact effect of suppression including the one coupling in the code (open finding): taking the
   system_message out of a reference that has no explicit text makes the fallback text "#target" appear,
   because ResolveAnchorIds decides about the fallback after appending the warning. *)
Definition strip_ref (suppress : list str) (text : option str) (msg : option wout) (fb : option str)
           (tgt : str) : tnode :=
  match msg with
  | Some o =>
      if out_matches suppress o
      then TRef text None (match text with None => Some (c_hash :: tgt) | Some _ => fb end) tgt
      else TRef text msg fb tgt
  | None => TRef text msg fb tgt
  end.

Fixpoint strip_tree_coupled (suppress : list str) (tree : list tnode) : list tnode :=
  match tree with
  | [] => []
  | TSys o :: rest =>
      if out_matches suppress o then strip_tree_coupled suppress rest
      else TSys o :: strip_tree_coupled suppress rest
  | TOther x :: rest => TOther x :: strip_tree_coupled suppress rest
  | TRef text msg fb tgt :: rest => strip_ref suppress text msg fb tgt :: strip_tree_coupled suppress rest
  end.

Definition strip_coupled (suppress : list str) (out : list wout * list tnode) : list wout * list tnode :=
  (strip_log suppress (fst out), strip_tree_coupled suppress (snd out)).

Definition nodot (s : str) : bool := negb (mem_N c_dot s).

Definition item_type_nodot (it : item) : bool :=
  match it with
  | IWarn e | IXrefMissing e _ _ => nodot (type_str e)
  | IOther _ => true
  end.

(* guard of the partial theorem: every missing-'#target' link has an explicit text *)
Definition xref_guard (it : item) : bool :=
  match it with IXrefMissing _ None _ => false | _ => true end.

(* ---------------- static checks on the regenerated site table ---------------- *)

(* non-myst tags MyST emits on purpose (same tag as Sphinx's own footnote warnings) *)
Definition documented_nonmyst : list (str * str) := [(lit "ref", lit "footnote")].

(* catalogue members that are allowed to have no emission site (reported as dead entries) *)
Definition known_dead : list str := [lit "DIRECTIVE_BODY"].

(* modules that are not part of the parser / extension: documentation helpers *)
Definition exempt_files : list str := [lit "_docs.py"].

(* the implementation of the warning machinery itself (modelled above) *)
Definition core_file : str := lit "warnings_.py".

(* untagged docutils-level messages that replicate docutils' own wording (code-block lexer
   error, raw disabled): (file, enclosing function) *)
Definition docutils_level_sites : list (str * str) :=
  [(lit "mdit_to_docutils/base.py", lit "DocutilsRenderer.create_highlighted_code_block");
   (lit "parsers/docutils_.py", lit "Parser.parse")].

Definition is_member (cat : list (str * str)) (name : str) : bool :=
  existsb (fun nv => str_eqb (fst nv) name) cat.

Definition is_value (cat : list (str * str)) (v : str) : bool :=
  existsb (fun nv => str_eqb (snd nv) v) cat.

Definition pair_in (l : list (str * str)) (a b : str) : bool :=
  existsb (fun p => str_eqb (fst p) a && str_eqb (snd p) b) l.

Definition texpr_nodot (t : texpr) : bool :=
  match t with TLit s => nodot s | _ => true end.

(* does the call at this site carry a catalogue tag (or a documented non-myst tag)? *)
Definition site_ok (cat : list (str * str)) (s : site) : bool :=
  texpr_nodot (s_type s) &&
  match s_kind s with
  | KCreate | KRenderer =>
      match s_type s, s_sub s with
      | TAbsent, SMember m => is_member cat m                 (* myst.<member> *)
      | TLit t, SLit x => pair_in documented_nonmyst t x       (* explicit documented non-myst tag *)
      | TAbsent, SParam _ true => true                         (* wrapper: passes a MystWarnings parameter on *)
      | TParam _, SParam _ true => true                        (* wrapper: passes wtype and subtype on *)
      | TAbsent, SRecord _ => true                             (* ParseWarnings.type: see the KRecord rows *)
      | _, _ => false
      end
  | KResolver | KCallback | KRecord =>
      match s_sub s with SMember m => is_member cat m | _ => false end
  | KSphinxLog =>
      mem_str (s_file s) exempt_files ||
      match s_type s, s_sub s with
      | TLit t, SMemberValue m => str_eqb t (lit "myst") && is_member cat m
      | TLit t, SParamValue _ true => str_eqb t (lit "myst")
      | TCore _, SCore _ => str_eqb (s_file s) core_file
      | _, _ => false                                          (* untyped log call *)
      end
  | KSphinxOther | KReporterOther => true                      (* not warnings *)
  | KReporterWarning =>
      str_eqb (s_file s) core_file || pair_in docutils_level_sites (s_file s) (s_func s)
  | KSuppressTest =>
      match s_type s, s_sub s with
      | TCore _, SCore _ => str_eqb (s_file s) core_file
      | TLit t, SLit x => (str_eqb t (lit "myst") && is_value cat x) || pair_in documented_nonmyst t x
      | _, _ => false
      end
  | KNodeCtor => str_eqb (s_file s) core_file
  end.

(* a site that names a catalogue member at an emitting call *)
Definition emits (name : str) (s : site) : bool :=
  match s_kind s with
  | KCreate | KRenderer | KResolver | KCallback | KRecord | KSphinxLog =>
      match s_sub s with
      | SMember m | SMemberValue m => str_eqb m name
      | _ => false
      end
  | _ => false
  end.

Definition member_emitted (sites : list site) (name : str) : bool := existsb (emits name) sites.

Definition dead_entries (cat : list (str * str)) (sites : list site) : list str :=
  filter (fun n => negb (member_emitted sites n)) (map fst cat).

Definition catalogue_emitted (cat : list (str * str)) (sites : list site) : bool :=
  forallb (fun n => mem_str n known_dead || member_emitted sites n) (map fst cat).

(* open finding: call sites whose surrounding code is known to look at the append_to node *)
Definition known_side_effect_sites : list (str * str) :=
  [(lit "mdit_to_docutils/transforms.py", lit "ResolveAnchorIds.apply")].

Definition use_benign (s : site) : bool :=
  match s_kind s with
  | KCreate | KRenderer =>
      match s_use s with UDiscard | UReturn | UInclOmit => true | _ => false end
  | _ => true
  end.

(* the tags a correctly typed site can emit *)
Definition value_of (cat : list (str * str)) (name : str) : option str :=
  match find (fun nv => str_eqb (fst nv) name) cat with Some nv => Some (snd nv) | None => None end.

Definition site_tags (cat : list (str * str)) (s : site) : list str :=
  match s_type s, s_sub s with
  | (TAbsent | TLit _), (SMember m | SMemberValue m) =>
      match value_of cat m with Some v => [lit "myst" ++ c_dot :: v] | None => [] end
  | TLit t, SLit x => [t ++ c_dot :: x]
  | _, _ => []
  end.

Definition allowed_tags (cat : list (str * str)) : list str :=
  map (fun nv => lit "myst" ++ c_dot :: snd nv) cat ++
  map (fun p => fst p ++ c_dot :: snd p) documented_nonmyst.

Definition site_tags_allowed (cat : list (str * str)) (s : site) : bool :=
  mem_str (s_file s) exempt_files ||
  forallb (fun t => mem_str t (allowed_tags cat)) (site_tags cat s).

(* the allow list names call sites, not whole functions: each listed (file, function) holds at most
   one untagged reporter.warning call *)
Definition untagged_in (sites : list site) (p : str * str) : nat :=
  List.length (filter (fun s => match s_kind s with
                           | KReporterWarning => str_eqb (s_file s) (fst p) && str_eqb (s_func s) (snd p)
                           | _ => false
                           end) sites).

Definition untagged_sites_bounded (sites : list site) : bool :=
  forallb (fun p => Nat.leb (untagged_in sites p) 1) docutils_level_sites.
