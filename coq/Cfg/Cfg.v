(* Model of myst_parser/config: dc_validators.py (validator combinators), the custom validators of
   config/main.py, MdParserConfig.__post_init__/copy, merge_file_level, and the docutils
   option-string decoding of parsers/docutils_.py.  Executable definitions only; proofs are in
   CfgProofs.v.  The per-field table (names, annotations, validator expression trees, metadata
   flags, defaults, the known extension names) is regenerated from the source into Gen/Config.v. *)
From Coq Require Import List NArith ZArith Bool.
From MV Require Import Base.PyStr Base.Res Cfg.StrOps.
Import ListNotations.
Open Scope N_scope.

(* ------------------------------------------------------------------ values *)

(* a configuration value: every JSON/YAML type plus the Python-only spellings *)
Inductive jv : Type :=
| JNull
| JBool (b : bool)
| JInt (z : Z)
| JFloat (z : Z) (frac : bool)   (* abstraction of a float: integral part, "has a fractional part" *)
| JStr (s : str)
| JList (l : list jv)
| JTuple (l : list jv)
| JSet (l : list jv)
| JDict (kvs : list (jv * jv))
| JCallable (name : str)         (* a callable object, by qualified name *)
| JOpaque (name : str).          (* any other object, e.g. a module *)

(* the classes named in instance_of(...) *)
Inductive pyty : Type := PyBool | PyInt | PyFloat | PyStr | PyList | PyTuple | PySet | PyDict.

Definition pyty_eqb (a b : pyty) : bool :=
  match a, b with
  | PyBool, PyBool | PyInt, PyInt | PyFloat, PyFloat | PyStr, PyStr
  | PyList, PyList | PyTuple, PyTuple | PySet, PySet | PyDict, PyDict => true
  | _, _ => false
  end.

(* isinstance(v, t): Python's bool is a subclass of int *)
Definition isinstance1 (v : jv) (t : pyty) : bool :=
  match t, v with
  | PyBool, JBool _ => true
  | PyInt, JInt _ => true
  | PyInt, JBool _ => true
  | PyFloat, JFloat _ _ => true
  | PyStr, JStr _ => true
  | PyList, JList _ => true
  | PyTuple, JTuple _ => true
  | PySet, JSet _ => true
  | PyDict, JDict _ => true
  | _, _ => false
  end.

Definition is_bool (v : jv) : bool := match v with JBool _ => true | _ => false end.
Definition is_str (v : jv) : bool := match v with JStr _ => true | _ => false end.
Definition is_callable (v : jv) : bool := match v with JCallable _ => true | _ => false end.

(* validator expression trees (metadata["validator"]).  An omitted iterable/mapping validator
   (None) is written VAny: both validate nothing. *)
Inductive vexpr : Type :=
| VAny
| VInstanceOf (ts : list pyty) (is_tuple : bool)   (* instance_of(T) / instance_of((T1, T2)) *)
| VOptional (e : vexpr)
| VIn (opts : list Z)                              (* in_([..int constants..]) *)
| VDeepIterable (member iter : vexpr)
| VDeepMapping (k v m : vexpr)
| VCustom (name : str).

(* external facts the validators depend on *)
Inductive import_result : Type :=
| ImpOk (obj : jv)        (* import_module + getattr succeeded *)
| ImpImportError          (* ImportError / ModuleNotFoundError *)
| ImpAttributeError       (* module has no such attribute *)
| ImpValueError.          (* e.g. empty module name *)

Record env : Type := {
  e_known_ext : list str;               (* the list literal in check_extensions (regenerated) *)
  e_import : str -> import_result       (* importlib, oracle *)
}.

(* ------------------------------------------------------------------ dc_validators.py *)

(* instance_of: not isinstance(value, type_) or (type_ is int and isinstance(value, bool)) -> TypeError *)
Definition instance_of_ok (ts : list pyty) (is_tuple : bool) (v : jv) : bool :=
  existsb (isinstance1 v) ts &&
  negb (negb is_tuple && match ts with [PyInt] => is_bool v | _ => false end).

(* in_: any(value == option and type(value) is type(option) for option in options), options ints *)
Definition in_ok (opts : list Z) (v : jv) : bool :=
  match v with
  | JInt z => existsb (Z.eqb z) opts
  | _ => false
  end.

(* iterating a value: for member in value *)
Definition py_iter (v : jv) : res (list jv) :=
  match v with
  | JList l | JTuple l | JSet l => Ok l
  | JStr s => Ok (map (fun c => JStr [c]) s)
  | JDict kvs => Ok (map fst kvs)
  | _ => Raise TypeError
  end.

(* for key in value: ... value[key]   (dicts only: the translator requires instance_of(dict) as the
   mapping validator; Python dict keys are unique, so value[key] is the paired value) *)
Definition py_items (v : jv) : res (list (jv * jv)) :=
  match v with
  | JDict kvs => Ok kvs
  | _ => Raise TypeError
  end.

(* a validator may call setattr(inst, field.name, x): the result carries the last such x *)
Definition later (a b : option jv) : option jv :=
  match b with Some _ => b | None => a end.

Definition unhashable1 (v : jv) : bool :=
  match v with JList _ | JSet _ | JDict _ => true | _ => false end.

(* set(value) raises TypeError for unhashable members (a tuple is hashable iff its items are) *)
Fixpoint unhashable (v : jv) : bool :=
  match v with
  | JList _ | JSet _ | JDict _ => true
  | JTuple l => (fix any (l : list jv) : bool :=
                   match l with [] => false | x :: l' => unhashable x || any l' end) l
  | _ => false
  end.

Definition strs_of (l : list jv) : list str :=
  flat_map (fun x => match x with JStr s => [s] | _ => [] end) l.

(* set(value) for a collection of str: canonical (sorted, duplicate-free) representation *)
Definition mk_str_set (l : list jv) : jv := JSet (map JStr (canon_strs (strs_of l))).

Definition s_url : str := [117; 114; 108].                          (* "url" *)
Definition s_title : str := [116; 105; 116; 108; 101].              (* "title" *)
Definition s_classes : str := [99; 108; 97; 115; 115; 101; 115].    (* "classes" *)

(* d[key] / key in d, for a str key *)
Fixpoint dict_get (key : str) (kvs : list (jv * jv)) : option jv :=
  match kvs with
  | [] => None
  | (JStr k, x) :: r => if str_eqb k key then Some x else dict_get key r
  | _ :: r => dict_get key r
  end.

(* check_extensions *)
Definition check_extensions (E : env) (v : jv) : res (option jv) :=
  match v with
  | JList l | JTuple l | JSet l =>
      if existsb unhashable l then Raise TypeError                    (* set(value) *)
      else if forallb (fun x => match x with JStr s => mem_str s (e_known_ext E) | _ => false end) l
           then Ok (Some (mk_str_set l))                                (* setattr(inst, name, set(value)) *)
           else Raise ValueError                                        (* items not recognised *)
  | _ => Raise TypeError                                              (* not a list, tuple or set *)
  end.

(* {v: None for v in value}: first occurrence keeps its position *)
Fixpoint dedup_keys (l : list str) (seen : list str) : list (jv * jv) :=
  match l with
  | [] => []
  | s :: l' => if mem_str s seen then dedup_keys l' seen
               else (JStr s, JNull) :: dedup_keys l' (s :: seen)
  end.

(* one (key, val) of the url_schemes dict *)
Definition url_scheme_entry (key val : jv) : res (jv * jv) :=
  match key with
  | JStr _ =>
      match val with
      | JNull => Ok (key, val)
      | JStr u => Ok (key, JDict [(JStr s_url, JStr u)])
      | JDict d =>
          if negb (forallb (fun p => is_str (fst p)) d) then Raise TypeError
          else if match dict_get s_url d with Some x => negb (is_str x) | None => false end then Raise TypeError
          else if match dict_get s_title d with Some x => negb (is_str x) | None => false end then Raise TypeError
          else if match dict_get s_classes d with
                  | Some (JList cs) => negb (forallb is_str cs)
                  | Some _ => true
                  | None => false
                  end then Raise TypeError
          else Ok (key, val)
      | _ => Raise TypeError
      end
  | _ => Raise TypeError
  end.

Fixpoint url_scheme_entries (kvs : list (jv * jv)) : res (list (jv * jv)) :=
  match kvs with
  | [] => Ok []
  | (k, x) :: r =>
      do e <- url_scheme_entry k x;
      do r' <- url_scheme_entries r;
      Ok (e :: r')
  end.

(* check_url_schemes *)
Definition check_url_schemes (v : jv) : res (option jv) :=
  do value <- match v with
              | JList l | JTuple l =>
                  if forallb is_str l then Ok (JDict (dedup_keys (strs_of l) [])) else Raise TypeError
              | _ => Ok v
              end;
  match value with
  | JDict kvs => do new_dict <- url_scheme_entries kvs; Ok (Some (JDict new_dict))
  | _ => Raise TypeError
  end.

(* check_positive_int: instance_of(int)(..); value <= 0 -> ValueError *)
Definition check_positive_int (v : jv) : res (option jv) :=
  match v with
  | JInt z => if (0 <? z)%Z then Ok None else Raise ValueError
  | _ => Raise TypeError
  end.

Definition str_len1 (v : jv) : bool := match v with JStr [_] => true | _ => false end.

(* check_sub_delimiters *)
Definition check_sub_delimiters (v : jv) : res (option jv) :=
  match v with
  | JList [a; b] | JTuple [a; b] =>
      if str_len1 a && str_len1 b then Ok None else Raise TypeError
  | _ => Raise TypeError
  end.

Definition inventory_entry_ok (key val : jv) : bool :=
  is_str key &&
  match val with
  | JList [a; b] | JTuple [a; b] =>
      is_str a && match b with JNull | JStr _ => true | _ => false end
  | _ => false
  end.

(* check_inventories *)
Definition check_inventories (v : jv) : res (option jv) :=
  match v with
  | JDict kvs => if forallb (fun p => inventory_entry_ok (fst p) (snd p)) kvs then Ok None else Raise TypeError
  | _ => Raise TypeError
  end.

Definition c_dot : N := 46.

(* check_heading_slug_func *)
Definition check_heading_slug_func (E : env) (v : jv) : res (option jv) :=
  match v with
  | JNull => Ok None
  | JStr s =>
      if negb (mem_N c_dot s) then Raise ValueError          (* module_path, function_name = value.rsplit(".", 1) *)
      else match e_import E s with
           | ImpImportError | ImpAttributeError => Raise TypeError
           | ImpValueError => Raise ValueError
           | ImpOk obj => if is_callable obj then Ok (Some obj) else Raise TypeError
           end
  | _ => if is_callable v then Ok None else Raise TypeError
  end.

(* check_fence_as_directive:
   deep_iterable(instance_of(str), instance_of((list, tuple, set)))(inst, field, value); setattr(.., set(value)) *)
Definition check_fence_as_directive (v : jv) : res (option jv) :=
  match v with
  | JList l | JTuple l | JSet l =>
      if forallb is_str l then Ok (Some (mk_str_set l)) else Raise TypeError
  | _ => Raise TypeError
  end.

Definition n_check_extensions : str :=
  [99;104;101;99;107;95;101;120;116;101;110;115;105;111;110;115].
Definition n_check_url_schemes : str :=
  [99;104;101;99;107;95;117;114;108;95;115;99;104;101;109;101;115].
Definition n_check_sub_delimiters : str :=
  [99;104;101;99;107;95;115;117;98;95;100;101;108;105;109;105;116;101;114;115].
Definition n_check_inventories : str :=
  [99;104;101;99;107;95;105;110;118;101;110;116;111;114;105;101;115].
Definition n_check_heading_slug_func : str :=
  [99;104;101;99;107;95;104;101;97;100;105;110;103;95;115;108;117;103;95;102;117;110;99].
Definition n_check_fence_as_directive : str :=
  [99;104;101;99;107;95;102;101;110;99;101;95;97;115;95;100;105;114;101;99;116;105;118;101].

Definition n_check_positive_int : str :=
  [99;104;101;99;107;95;112;111;115;105;116;105;118;101;95;105;110;116].

Definition custom (E : env) (name : str) (v : jv) : res (option jv) :=
  if str_eqb name n_check_extensions then check_extensions E v
  else if str_eqb name n_check_url_schemes then check_url_schemes v
  else if str_eqb name n_check_sub_delimiters then check_sub_delimiters v
  else if str_eqb name n_check_inventories then check_inventories v
  else if str_eqb name n_check_heading_slug_func then check_heading_slug_func E v
  else if str_eqb name n_check_fence_as_directive then check_fence_as_directive v
  else if str_eqb name n_check_positive_int then check_positive_int v
  else Raise AttributeError.     (* a validator the model does not know: never accepted *)

(* for idx, member in enumerate(value): member_validator(inst, field, member) *)
Fixpoint iter_all (f : jv -> res (option jv)) (l : list jv) (acc : option jv) : res (option jv) :=
  match l with
  | [] => Ok acc
  | x :: l' => do c <- f x; iter_all f l' (later acc c)
  end.

(* for key in value: key_validator(.., key); value_validator(.., value[key]) *)
Fixpoint iter_pairs (fk fv : jv -> res (option jv)) (l : list (jv * jv)) (acc : option jv)
  : res (option jv) :=
  match l with
  | [] => Ok acc
  | (key, x) :: l' =>
      do c1 <- fk key;
      do c2 <- fv x;
      iter_pairs fk fv l' (later (later acc c1) c2)
  end.

(* the combinators *)
Fixpoint validate (E : env) (e : vexpr) (v : jv) {struct e} : res (option jv) :=
  match e with
  | VAny => Ok None
  | VInstanceOf ts tup => if instance_of_ok ts tup v then Ok None else Raise TypeError
  | VOptional e' => match v with JNull => Ok None | _ => validate E e' v end
  | VIn opts => if in_ok opts v then Ok None else Raise ValueError
  | VDeepIterable m it =>
      do c0 <- validate E it v;
      do items <- py_iter v;
      iter_all (validate E m) items c0
  | VDeepMapping k vv mm =>
      do c0 <- validate E mm v;
      do pairs <- py_items v;
      iter_pairs (validate E k) (validate E vv) pairs c0
  | VCustom name => custom E name v
  end.

Definition accepts (E : env) (e : vexpr) (v : jv) : bool := is_ok (validate E e v).

(* the value stored after a successful validation *)
Definition coerced (c : option jv) (v : jv) : jv := match c with Some x => x | None => v end.

(* ------------------------------------------------------------------ the dataclass *)

(* type annotations, as written in the source *)
Inductive ann : Type :=
| ABool | AInt | AStr | AAny | ANone | ACallable
| AName (n : str)                 (* a class name, e.g. UrlSchemeType *)
| ASet (a : ann) | AIterable (a : ann) | ASequence (a : ann)
| ADict (k v : ann)
| ATuple2 (a b : ann)
| AOr (a b : ann).                (* a | b *)

Record field : Type := {
  f_name : str;
  f_ann : ann;
  f_val : vexpr;
  f_merge : bool;          (* metadata["merge_topmatter"] *)
  f_global_only : bool;    (* metadata["global_only"] *)
  f_omit_docutils : bool;  (* "docutils" in metadata["omit"] *)
  f_omit_sphinx : bool;    (* "sphinx" in metadata["omit"] *)
  f_default : jv           (* default / default_factory() before validation *)
}.

(* an instance: field values in field order (as_dict()) *)
Definition config : Type := list (str * jv).

Fixpoint cfg_get (n : str) (c : config) : option jv :=
  match c with
  | [] => None
  | (k, x) :: r => if str_eqb k n then Some x else cfg_get n r
  end.

Fixpoint cfg_set (n : str) (v : jv) (c : config) : config :=
  match c with
  | [] => []
  | (k, x) :: r => if str_eqb k n then (k, v) :: r else (k, x) :: cfg_set n v r
  end.

Fixpoint find_field (n : str) (fs : list field) : option field :=
  match fs with
  | [] => None
  | f :: r => if str_eqb (f_name f) n then Some f else find_field n r
  end.

(* validate_fields(self): for field in dc.fields(inst): validate_field(inst, field, getattr(..)) *)
Fixpoint validate_fields (E : env) (fs : list field) (c : config) : res config :=
  match fs, c with
  | [], [] => Ok []
  | f :: fs', (n, v) :: c' =>
      do co <- validate E (f_val f) v;
      do rest <- validate_fields E fs' c';
      Ok ((n, coerced co v) :: rest)
  | _, _ => Raise AssertionError
  end.

(* the value a field gets from the keyword arguments, else its default *)
Definition lookup_kw (kw : list (str * jv)) (f : field) : jv :=
  match cfg_get (f_name f) kw with Some v => v | None => f_default f end.

Definition raw_of (kw : list (str * jv)) (fs : list field) : config :=
  map (fun f => (f_name f, lookup_kw kw f)) fs.

(* MdParserConfig( **kwargs): an unknown keyword is a TypeError; then __post_init__ *)
Definition mk_config (E : env) (fs : list field) (kwargs : list (str * jv)) : res config :=
  if negb (forallb (fun kv => match find_field (fst kv) fs with Some _ => true | None => false end) kwargs)
  then Raise TypeError
  else validate_fields E fs (raw_of kwargs fs).

(* copy( **kwargs) = dc.replace(self, **kwargs): every field not named is taken from self *)
Definition copy (E : env) (fs : list field) (c : config) (changes : list (str * jv)) : res config :=
  mk_config E fs (changes ++ c).

(* ------------------------------------------------------------------ which container objects are shared

   dc.replace hands the very objects held by the old instance to __init__, and validate_field only
   replaces an object when the validator calls setattr.  To make the freshness of containers explicit,
   every field value of a new instance is tagged with where the object comes from. *)
Inductive origin : Type :=
| OGlobal      (* the very object held by the config that was copied (the global one) *)
| OFresh       (* created during this call: set(value), a new dict, dc.asdict's deep copy, {**a, **b} *)
| OArg.        (* the object supplied by the caller / by the front matter *)

Definition origin_after (co : option jv) (o : origin) : origin :=
  match co with Some _ => OFresh | None => o end.

Definition origin_eqb (a b : origin) : bool :=
  match a, b with OGlobal, OGlobal | OFresh, OFresh | OArg, OArg => true | _, _ => false end.

(* a value whose object can be mutated in place *)
Definition is_mutable (v : jv) : bool :=
  match v with JList _ | JSet _ | JDict _ => true | _ => false end.

(* __init__ + __post_init__ with the origin of every argument object *)
Fixpoint validate_fields_o (E : env) (fs : list field) (c : list (str * jv * origin))
  : res (list (str * jv * origin)) :=
  match fs, c with
  | [], [] => Ok []
  | f :: fs', (n, v, o) :: c' =>
      do co <- validate E (f_val f) v;
      do rest <- validate_fields_o E fs' c';
      Ok ((n, coerced co v, origin_after co o) :: rest)
  | _, _ => Raise AssertionError
  end.

(* copy( **changes): unchanged fields are passed the old instance's own objects *)
Definition copy_o (E : env) (fs : list field) (c : config) (changes : list (str * jv))
  : res (list (str * jv * origin)) :=
  if negb (forallb (fun kv => match find_field (fst kv) fs with Some _ => true | None => false end) (changes ++ c))
  then Raise TypeError
  else validate_fields_o E fs
         (map (fun f => (f_name f, lookup_kw (changes ++ c) f,
                         match cfg_get (f_name f) changes with Some _ => OArg | None => OGlobal end)) fs).

(* does the new instance hold, in field n, a mutable object that the global config also holds? *)
Fixpoint shares_field (n : str) (c : list (str * jv * origin)) : bool :=
  match c with
  | [] => false
  | (k, v, o) :: r => if str_eqb k n then origin_eqb o OGlobal && is_mutable v else shares_field n r
  end.

(* ------------------------------------------------------------------ merge_file_level *)

Inductive warning : Type :=      (* all are MystWarnings.MD_TOPMATTER *)
| WNotDict                       (* 'myst' key not a dict *)
| WDeprecatedHtmlMeta
| WDeprecatedSubstitutions
| WUnknownField (key : jv)
| WInvalid (name : str).         (* str(exc) of the validator *)

Definition s_myst : str := [109; 121; 115; 116].
Definition s_html_meta : str := [104; 116; 109; 108; 95; 109; 101; 116; 97].
Definition s_substitutions : str := [115; 117; 98; 115; 116; 105; 116; 117; 116; 105; 111; 110; 115].

(* updates[key] = x *)
Fixpoint dict_set (key : str) (x : jv) (kvs : list (jv * jv)) : list (jv * jv) :=
  match kvs with
  | [] => [(JStr key, x)]
  | (JStr k, y) :: r => if str_eqb k key then (JStr k, x) :: r else (JStr k, y) :: dict_set key x r
  | p :: r => p :: dict_set key x r
  end.

(* equality of dict keys, for the keys that occur in JSON/YAML documents (scalars) *)
Definition key_eqb (a b : jv) : bool :=
  match a, b with
  | JStr s, JStr t => str_eqb s t
  | JNull, JNull => true
  | JBool x, JBool y => Bool.eqb x y
  | JInt x, JInt y => Z.eqb x y
  | JBool x, JInt y | JInt y, JBool x => Z.eqb y (if x then 1 else 0)
  | JFloat x false, JInt y | JInt y, JFloat x false => Z.eqb x y
  | JFloat x fx, JFloat y fy => Z.eqb x y && Bool.eqb fx fy
  | _, _ => false
  end.

Fixpoint dict_set_key (key x : jv) (kvs : list (jv * jv)) : list (jv * jv) :=
  match kvs with
  | [] => [(key, x)]
  | (k, y) :: r => if key_eqb k key then (k, x) :: r else (k, y) :: dict_set_key key x r
  end.

(* {**old, **new} *)
Definition dict_merge (old new : jv) : res jv :=
  match old, new with
  | JDict o, JDict n => Ok (JDict (fold_left (fun acc p => dict_set_key (fst p) (snd p) acc) n o))
  | _, _ => Raise TypeError
  end.

(* The two objects merge_file_level works with: the global config (never written) and its copy.
   [keep_raw] = true is the code before the repair (setattr(new, name, value) with the raw value after
   the validators ran); false is the repaired code. *)
Record mstate : Type := { st_global : config; st_new : config; st_warn : list warning }.

Definition merge_step (E : env) (keep_raw : bool) (fs : list field) (st : mstate) (upd : jv * jv)
  : res mstate :=
  let '(name, value) := upd in
  match name with
  | JStr n =>
      match find_field n fs, cfg_get n (st_global st) with
      | Some f, Some old_value =>              (* old_value, field = fields[name] (from config.as_triple()) *)
          match validate E (f_val f) value with
          | Raise _ =>                           (* except Exception: restore, warn, continue *)
              Ok {| st_global := st_global st;
                    st_new := if keep_raw then st_new st else cfg_set n old_value (st_new st);
                    st_warn := st_warn st ++ [WInvalid n] |}
          | Ok co =>
              let stored := if keep_raw then value else coerced co value in
              do final <- (if f_merge f then dict_merge old_value stored else Ok stored);
              Ok {| st_global := st_global st;
                    st_new := cfg_set n final (st_new st);
                    st_warn := st_warn st |}
          end
      | _, _ =>                                  (* name not in fields *)
          Ok {| st_global := st_global st; st_new := st_new st;
                st_warn := st_warn st ++ [WUnknownField name] |}
      end
  | _ => Ok {| st_global := st_global st; st_new := st_new st;
               st_warn := st_warn st ++ [WUnknownField name] |}
  end.

Fixpoint merge_loop (E : env) (keep_raw : bool) (fs : list field) (st : mstate) (updates : list (jv * jv))
  : res mstate :=
  match updates with
  | [] => Ok st
  | u :: r => do st' <- merge_step E keep_raw fs st u; merge_loop E keep_raw fs st' r
  end.

Definition merge_file_level_gen (E : env) (keep_raw : bool) (fs : list field) (c : config) (topmatter : jv)
  : res mstate :=
  match topmatter with
  | JDict top =>
      let myst := match dict_get s_myst top with Some m => m | None => JDict [] end in
      let '(updates, w1) := match myst with
                            | JDict u => (u, [])
                            | _ => ([], [WNotDict])
                            end in
      let '(updates, w2) := match dict_get s_html_meta top with
                            | Some x => (dict_set s_html_meta x updates, w1 ++ [WDeprecatedHtmlMeta])
                            | None => (updates, w1)
                            end in
      let '(updates, w3) := match dict_get s_substitutions top with
                            | Some x => (dict_set s_substitutions x updates, w2 ++ [WDeprecatedSubstitutions])
                            | None => (updates, w2)
                            end in
      do new <- copy E fs c [];                         (* new = config.copy() *)
      merge_loop E keep_raw fs {| st_global := c; st_new := new; st_warn := w3 |} updates
  | _ => Raise AttributeError                           (* topmatter.get *)
  end.

(* the repaired code *)
Definition merge_file_level (E : env) := merge_file_level_gen E false.

(* ------------------------------------------------------------------ docutils option strings *)

Definition s_url_schemes : str := [117;114;108;95;115;99;104;101;109;101;115].

(* what the option validator chosen by _attr_to_optparse_option does with the string *)
Inductive okind : Type :=
| KUrlSchemes         (* _validate_url_schemes *)
| KInt                (* _validate_int *)
| KBool               (* frontend.validate_boolean *)
| KStrRaw             (* no validator: the string itself *)
| KCommaList          (* frontend.validate_comma_separated_list *)
| KCommaSet           (* _validate_comma_separated_set *)
| KTuple (n : nat)    (* _create_validate_tuple(n) *)
| KYamlDict           (* _create_validate_yaml(field) *)
| KChoice.            (* optparse "choice" (Literal types) - not modelled, no field has such a type *)

(* the tests of the if-chain of _attr_to_optparse_option (regenerated into Gen/Config.v) *)
Inductive ocond : Type :=
| CNameIs (n : str)            (* at.name == "..." *)
| CTypeIs (a : ann)            (* at.type is T  /  at.type == T *)
| CTypeIn (l : list ann)       (* at.type in (T1, T2) *)
| COr (a b : ocond)
| COriginDict                  (* get_origin(at.type) is dict *)
| CLiteralStr.                 (* get_origin(at.type) is Literal and all args are str *)

Fixpoint ann_eqb (a b : ann) : bool :=
  match a, b with
  | ABool, ABool | AInt, AInt | AStr, AStr | AAny, AAny | ANone, ANone | ACallable, ACallable => true
  | AName x, AName y => str_eqb x y
  | ASet x, ASet y | AIterable x, AIterable y | ASequence x, ASequence y => ann_eqb x y
  | ADict k1 v1, ADict k2 v2 => ann_eqb k1 k2 && ann_eqb v1 v2
  | ATuple2 x1 y1, ATuple2 x2 y2 => ann_eqb x1 x2 && ann_eqb y1 y2
  | AOr x1 y1, AOr x2 y2 => ann_eqb x1 x2 && ann_eqb y1 y2
  | _, _ => false
  end.

Fixpoint eval_cond (f : field) (c : ocond) : bool :=
  match c with
  | CNameIs n => str_eqb (f_name f) n
  | CTypeIs a => ann_eqb (f_ann f) a
  | CTypeIn l => existsb (ann_eqb (f_ann f)) l
  | COr a b => eval_cond f a || eval_cond f b
  | COriginDict => match f_ann f with ADict _ _ => true | _ => false end
  | CLiteralStr => false        (* the annotation grammar has no Literal *)
  end.

(* _attr_to_optparse_option: the first test that holds decides; none: AssertionError *)
Fixpoint optparse_kind (rules : list (ocond * okind)) (f : field) : res okind :=
  match rules with
  | [] => Raise AssertionError
  | (c, k) :: r => if eval_cond f c then Ok k else optparse_kind r f
  end.

(* docutils.frontend.validate_boolean *)
Definition s_of (l : list N) : str := l.
Definition bool_table : list (str * bool) :=
  [([49], true); ([111;110], true); ([121;101;115], true); ([116;114;117;101], true);
   ([48], false); ([111;102;102], false); ([110;111], false); ([102;97;108;115;101], false); ([], false)].

Fixpoint assoc_str {A} (k : str) (l : list (str * A)) : option A :=
  match l with
  | [] => None
  | (x, a) :: r => if str_eqb x k then Some a else assoc_str k r
  end.

Definition c_comma : N := 44.
Definition ws3 : str := [32; 9; 10].          (* ' \t\n' *)

(* frontend.validate_comma_separated_list on one option string *)
Definition comma_list (s : str) : list str :=
  filter (fun i => negb (match i with [] => true | _ => false end))
         (map (strip_chars ws3) (split_char c_comma s)).

(* a decoding failure makes the option parser exit with an error *)
Definition decode (k : okind) (s : str) (yaml : res jv) : res jv :=
  match k with
  | KBool => match assoc_str (lower_ascii (py_strip s)) bool_table with
             | Some b => Ok (JBool b)
             | None => Raise KeyError
             end
  | KInt => match py_int_of_str s with Some z => Ok (JInt z) | None => Raise ValueError end
  | KStrRaw => Ok (JStr s)
  | KCommaList => Ok (JList (map JStr (comma_list s)))
  | KCommaSet => Ok (mk_str_set (map JStr (comma_list s)))
  | KTuple n => let l := comma_list s in
                if Nat.eqb (List.length l) n then Ok (JTuple (map JStr l)) else Raise ValueError
  | KChoice => Raise AssertionError
  | KYamlDict => match yaml with
                 | Ok (JDict d) => Ok (JDict d)
                 | _ => Raise ValueError
                 end
  | KUrlSchemes =>
      match yaml with
      | Ok (JStr o) =>       (* {k.strip(): None for k in output.split(",") if k.strip()} *)
          Ok (JDict (dedup_keys (filter (fun i => negb (match i with [] => true | _ => false end))
                                        (map py_strip (split_char c_comma o))) []))
      | Ok (JDict d) => Ok (JDict d)
      | _ => Raise ValueError
      end
  end.

(* option parser + create_myst_config(settings): one --myst-<name>=<string> per entry; [yaml] is
   yaml.safe_load of the string (oracle).  An option for a field omitted from the docutils settings
   does not exist. *)
Fixpoint decode_options (rules : list (ocond * okind)) (fs : list field) (opts : list (str * str * res jv))
  : res (list (str * jv)) :=
  match opts with
  | [] => Ok []
  | (n, s, y) :: r =>
      match find_field n fs with
      | Some f =>
          if f_omit_docutils f then Raise KeyError
          else do k <- optparse_kind rules f;
               do v <- decode k s y;
               do r' <- decode_options rules fs r;
               Ok ((n, v) :: r')
      | None => Raise KeyError
      end
  end.

Definition docutils_config (E : env) (rules : list (ocond * okind)) (fs : list field)
           (opts : list (str * str * res jv)) : res config :=
  do values <- decode_options rules fs opts;
  mk_config E fs values.

(* sphinx_ext.main.create_myst_config: every non-omitted field is passed explicitly, taken from conf.py
   or from the registered default (the value of that field on MdParserConfig()) *)
Definition sphinx_config (E : env) (fs : list field) (conf : list (str * jv)) : res config :=
  do defaults <- mk_config E fs [];
  mk_config E fs
    (flat_map (fun f => if f_omit_sphinx f then []
                        else match cfg_get (f_name f) conf, cfg_get (f_name f) defaults with
                             | Some v, _ => [(f_name f, v)]
                             | None, Some d => [(f_name f, d)]
                             | None, None => []
                             end) fs).
