(* Proofs of the finite-table theorems of C13.v (they need the regenerated Gen files).
   Moved out of Props so that Props holds statements and `exact` only. *)
From Coq Require Import List NArith ZArith Bool.
From MV Require Import Base.PyStr Base.Res Cfg.StrOps Cfg.Cfg Cfg.CfgSpec Cfg.CfgProofs Gen.Config.
From MV Require Import Cfg.CfgSrcPrelude Gen.ConfigSrc Cfg.CfgSrcProofs.
Import ListNotations.
Open Scope N_scope.


Definition E_of (imp : str -> import_result) : env :=
  {| e_known_ext := known_extensions; e_import := imp |}.

Lemma C13_fields_match_types_proof : forall imp f, In f fields ->
  exists t, doc_ty f = Some t /\
            forall v, accepts (E_of imp) (f_val f) v = true <-> has_type (E_of imp) v t.
Proof.
  intros imp f Hin. apply field_ok_sound.
  assert (E : forallb field_ok fields = true) by (vm_compute; reflexivity).
  rewrite forallb_forall in E. apply E. exact Hin.
Qed.

Lemma C13_normal_form_proof : forall imp f v co, In f fields ->
  validate (E_of imp) (f_val f) v = Ok co -> stable (E_of imp) (f_val f) (coerced co v).
Proof.
  intros imp f v co Hin H. apply validated_is_stable; [|exact H].
  assert (E : table_ok fields = true) by (vm_compute; reflexivity).
  unfold table_ok in E. rewrite forallb_forall in E. specialize (E f Hin).
  apply andb_true_iff in E as [E _]. exact E.
Qed.

Lemma C13_normal_form_set_spellings_proof : forall E v1 v2 l1 l2,
  seq3 v1 l1 -> seq3 v2 l2 -> (forall x, In x l1 <-> In x l2) ->
  validate E (VCustom n_check_extensions) v1 = validate E (VCustom n_check_extensions) v2 /\
  validate E (VCustom n_check_fence_as_directive) v1 = validate E (VCustom n_check_fence_as_directive) v2.
Proof.
  intros E v1 v2 l1 l2 S1 S2 H. split.
  - exact (check_extensions_spelling E v1 v2 l1 l2 S1 S2 H).
  - exact (check_fence_spelling v1 v2 l1 l2 S1 S2 H).
Qed.

Lemma C13_normal_form_url_spellings_proof : forall E l k u, NoDup l ->
  validate E (VCustom n_check_url_schemes) (JList (map JStr l))
    = validate E (VCustom n_check_url_schemes) (JDict (map (fun s => (JStr s, JNull)) l)) /\
  validate E (VCustom n_check_url_schemes) (JTuple (map JStr l))
    = validate E (VCustom n_check_url_schemes) (JDict (map (fun s => (JStr s, JNull)) l)) /\
  validate E (VCustom n_check_url_schemes) (JDict [(JStr k, JStr u)])
    = validate E (VCustom n_check_url_schemes) (JDict [(JStr k, JDict [(JStr s_url, JStr u)])]).
Proof.
  intros E l k u ND. destruct (url_list_is_dict l ND) as [A B].
  split; [exact A|]. split; [exact B|]. exact (url_str_is_dict k u).
Qed.

Lemma C13_constructor_gives_stable_proof : forall imp kw c,
  mk_config (E_of imp) fields kw = Ok c -> stable_cfg (E_of imp) fields c.
Proof.
  intros imp kw c. apply mk_config_stable. vm_compute. reflexivity.
Qed.

Lemma C13_frontmatter_equals_global_proof : forall imp c f v,
  stable_cfg (E_of imp) fields c -> In f fields ->
  match validate (E_of imp) (f_val f) v with
  | Raise _ =>
      merge_file_level (E_of imp) fields c (top_of (f_name f) v)
        = Ok {| st_global := c; st_new := c; st_warn := [WInvalid (f_name f)] |}
      /\ is_ok (copy (E_of imp) fields c [(f_name f, v)]) = false
  | Ok _ =>
      exists new,
        merge_file_level (E_of imp) fields c (top_of (f_name f) v)
          = Ok {| st_global := c; st_new := new; st_warn := [] |} /\
        if f_merge f
        then exists old merged, cfg_get (f_name f) c = Some old /\ dict_merge old v = Ok merged /\
                                copy (E_of imp) fields c [(f_name f, merged)] = Ok new
        else copy (E_of imp) fields c [(f_name f, v)] = Ok new
  end.
Proof.
  intros imp c f v S Hin. apply frontmatter_equals_global; try assumption; vm_compute; reflexivity.
Qed.

Lemma C13_invalid_ignored_once_proof : forall E fs st st' ups,
  merge_loop E false fs st ups = Ok st' ->
  length (st_warn st') =
  (length (st_warn st) + length (filter (bad_update E fs (st_global st)) ups))%nat.
Proof. intros E fs st st' ups. apply merge_loop_warnings. Qed.

Lemma C13_docutils_strings_equal_proof : forall imp f s y, In f fields -> f_omit_docutils f = false ->
  docutils_config (E_of imp) optparse_rules fields [(f_name f, s, y)] =
  (do k <- optparse_kind optparse_rules f; do v <- decode k s y;
   mk_config (E_of imp) fields [(f_name f, v)]).
Proof.
  intros imp f s y Hin Om. apply docutils_one; try assumption. vm_compute. reflexivity.
Qed.

Lemma C13_docutils_int_roundtrip_proof : forall n y,
  decode KInt (show n) y = Ok (JInt (Z.of_N n)) /\
  decode KInt (45 :: show n) y = Ok (JInt (- Z.of_N n)).
Proof.
  intros n y. destruct (int_roundtrip n) as [A B]. unfold decode. rewrite A, B. split; reflexivity.
Qed.

Lemma C13_docutils_bool_spellings_proof : forall y,
  (forall s b, In (s, b) bool_table -> decode KBool s y = Ok (JBool b)) /\
  (forall s1 s2, lower_ascii (py_strip s1) = lower_ascii (py_strip s2) -> decode KBool s1 y = decode KBool s2 y).
Proof.
  intro y. split.
  - intros s b Hin. pose proof (bool_spellings y) as H. rewrite forallb_forall in H.
    specialize (H (s, b) Hin). cbn [fst snd] in H.
    destruct (decode KBool s y) as [[]|]; try discriminate H. apply Bool.eqb_prop in H. subst. reflexivity.
  - intros s1 s2. apply bool_decode_insensitive.
Qed.

Lemma C13_validator_code_reached_proof :
  (forall k, In k all_ckinds -> combinator_used fields k = true) /\
  every_field_decided optparse_rules fields = true /\
  rules_reached optparse_rules fields = true.
Proof.
  split; [|split]; [|vm_compute; reflexivity|vm_compute; reflexivity].
  apply forallb_forall. vm_compute. reflexivity.
Qed.

Lemma C13_docutils_comma_list_proof : forall items y,
  Forall (fun p => clean_item p = true) items ->
  decode KCommaList (join [c_comma] items) y = Ok (JList (map JStr items)) /\
  decode KCommaSet (join [c_comma] items) y = Ok (mk_str_set (map JStr items)).
Proof.
  intros items y F. unfold decode. rewrite (comma_list_join items F). split; reflexivity.
Qed.

Lemma C13_sphinx_conf_equal_proof : forall imp conf, conf_ok fields conf ->
  sphinx_config (E_of imp) fields conf = mk_config (E_of imp) fields conf.
Proof.
  intros imp conf CO.
  destruct (mk_config (E_of imp) fields []) as [d|e] eqn:D; [|vm_compute in D; discriminate].
  apply (sphinx_conf_equal (E_of imp) fields conf d); try assumption; vm_compute; reflexivity.
Qed.

Lemma C13_source_refines_model_proof :
  (forall E e v, validate_src E e v = validate E e v) /\
  (forall E fs c top,
     merge_file_level_src E fs c top =
     match merge_file_level E fs c (JDict top) with
     | Ok st => Ok (st_new st, st_warn st)
     | Raise e => Raise e
     end).
Proof. split; [exact validate_src_eq | exact merge_file_level_src_eq]. Qed.

Lemma C13_fields_match_types_src_proof : forall imp f, In f fields ->
  exists t, doc_ty f = Some t /\
            forall v, is_ok (validate_src (E_of imp) (f_val f) v) = true <-> has_type (E_of imp) v t.
Proof.
  intros imp f Hin. destruct (C13_fields_match_types_proof imp f Hin) as [t [D H]].
  exists t. split; [exact D|]. intro v. rewrite validate_src_eq. apply H.
Qed.

Lemma C13_frontmatter_equals_global_src_proof : forall imp c f v,
  stable_cfg (E_of imp) fields c -> In f fields ->
  match validate_src (E_of imp) (f_val f) v with
  | Raise _ =>
      merge_file_level_src (E_of imp) fields c (top_list (f_name f) v) = Ok (c, [WInvalid (f_name f)])
      /\ is_ok (copy (E_of imp) fields c [(f_name f, v)]) = false
  | Ok _ =>
      exists new,
        merge_file_level_src (E_of imp) fields c (top_list (f_name f) v) = Ok (new, []) /\
        if f_merge f
        then exists old merged, cfg_get (f_name f) c = Some old /\ dict_merge old v = Ok merged /\
                                copy (E_of imp) fields c [(f_name f, merged)] = Ok new
        else copy (E_of imp) fields c [(f_name f, v)] = Ok new
  end.
Proof.
  intros imp c f v S Hin. apply frontmatter_equals_global_src; try assumption; vm_compute; reflexivity.
Qed.

Lemma C13_copy_shares_nothing_partial_proof : forall imp c changes r f,
  In f fields -> coercing (f_val f) = true ->
  copy_o (E_of imp) fields c changes = Ok r -> shares_field (f_name f) r = false.
Proof.
  intros imp c changes r f Hin C H.
  apply (copy_shares_nothing_coercing (E_of imp) fields c changes r f); try assumption.
  vm_compute. reflexivity.
Qed.

Lemma C13_copy_shares_refuted_proof :
  exists c r f,
    let E := E_of (fun _ => ImpImportError) in
    In f fields /\ copy_o E fields c [] = Ok r /\ shares_field (f_name f) r = true.
Proof.
  pose (E := E_of (fun _ => ImpImportError)).
  destruct (mk_config E fields [(s_html_meta, JDict [(JStr [97], JStr [98])])]) as [c|] eqn:C;
    [|vm_compute in C; discriminate].
  destruct (find_field s_html_meta fields) as [f|] eqn:F; [|vm_compute in F; discriminate].
  destruct (copy_o E fields c []) as [r|] eqn:R.
  2:{ vm_compute in C. inv C. vm_compute in R. discriminate. }
  exists c, r, f. split; [|split].
  - apply find_field_name in F. tauto.
  - exact R.
  - vm_compute in C. inv C. vm_compute in F. inv F. vm_compute in R. inv R. vm_compute. reflexivity.
Qed.

Lemma C13_inplace_written_fields_fresh_proof : forall n, In n inplace_written_fields ->
  exists f, find_field n fields = Some f /\ coercing (f_val f) = true /\
            forall imp c changes r, copy_o (E_of imp) fields c changes = Ok r -> shares_field n r = false.
Proof.
  intros n Hn.
  assert (W : written_fields_coercing fields inplace_written_fields = true) by (vm_compute; reflexivity).
  unfold written_fields_coercing in W. rewrite forallb_forall in W. specialize (W n Hn).
  destruct (find_field n fields) as [f|] eqn:F; [|discriminate].
  exists f. split; [reflexivity|]. split; [exact W|].
  intros imp c changes r H. destruct (find_field_name _ _ _ F) as [E0 Hin]. subst n.
  apply (C13_copy_shares_nothing_partial_proof imp c changes r f Hin W H).
Qed.

Lemma C13_frontmatter_raw_assignment_refuted_proof :
  exists c f v new,
    let E := E_of (fun _ => ImpImportError) in
    mk_config E fields [] = Ok c /\ In f fields /\ f_global_only f = false /\
    merge_file_level_gen E true fields c (top_of (f_name f) v)
      = Ok {| st_global := c; st_new := new; st_warn := [] |} /\
    copy E fields c [(f_name f, v)] <> Ok new.
Proof.
  pose (E := E_of (fun _ => ImpImportError)).
  destruct (mk_config E fields []) as [c|] eqn:C; [|vm_compute in C; discriminate].
  destruct (find_field s_url_schemes fields) as [f|] eqn:F; [|vm_compute in F; discriminate].
  exists c, f, (JList [JStr [104;116;116;112]]).
  destruct (merge_file_level_gen E true fields c (top_of (f_name f) (JList [JStr [104;116;116;112]])))
    as [st|] eqn:M.
  2:{ vm_compute in C. inv C. vm_compute in F. inv F. vm_compute in M. discriminate. }
  vm_compute in C. inv C. vm_compute in F. inv F. vm_compute in M. inv M.
  eexists. repeat split.
  - vm_compute. tauto.
  - vm_compute. discriminate.
Qed.
