(* The definitions regenerated from warnings_.py (Gen/WarnSrc.v) equal the hand-written model
   (Cfg/Warn.v).  These are the proof obligations that an edit of _is_suppressed_warning / create_warning
   breaks. *)
From Coq Require Import List NArith Bool.
From MV Require Import Base.PyStr Cfg.WarnTypes Cfg.Warn Cfg.WarnProofs Cfg.WarnSrcPrelude Gen.WarnSrc.
Import ListNotations.
Open Scope N_scope.

Lemma has_dot_split w : has_dot w = true -> exists a b, split_dot w = Some (a, b).
Proof.
  unfold has_dot. intro H. destruct (split_dot w) as [[a b]|] eqn:S; [eauto|].
  apply split_dot_none in S. unfold nodot in S. rewrite H in S. discriminate.
Qed.

Lemma no_dot_split w : has_dot w = false -> split_dot w = None.
Proof. unfold has_dot. intro H. apply split_dot_none. unfold nodot. rewrite H. reflexivity. Qed.

Lemma ostr_in_some b sub :
  ostr_in (Some b) [None; Some sub; Some [c_star]] = str_eqb b sub || str_eqb b [c_star].
Proof. unfold ostr_in. cbn [existsb ostr_eqb]. rewrite orb_false_r. reflexivity. Qed.

Lemma ostr_in_none sub : ostr_in None [None; Some sub; Some [c_star]] = true.
Proof. reflexivity. Qed.

Lemma split1_some w a b : split_dot w = Some (a, b) -> split1 w = (a, Some b).
Proof. unfold split1. intro H. rewrite H. reflexivity. Qed.

Theorem is_suppressed_src_eq ty sub l : is_suppressed_src ty sub l = is_suppressed ty sub l.
Proof.
  unfold is_suppressed_src, is_suppressed. destruct ty as [t|]; [|reflexivity]. cbn [py_is_none].
  induction l as [|w l IH]; [reflexivity|].
  cbn [is_suppressed_loop]. destruct (has_dot w) eqn:D.
  - destruct (has_dot_split w D) as [a [b S]]. rewrite (split1_some w a b S), S.
    rewrite ostr_in_some. cbn [str_eq_ostr].
    destruct (str_eqb a t && (str_eqb b sub || str_eqb b [c_star])); [reflexivity|exact IH].
  - rewrite (no_dot_split w D). rewrite ostr_in_none. cbn [str_eq_ostr]. rewrite andb_true_r.
    destruct (str_eqb w t); [reflexivity|exact IH].
Qed.

Definition is_sphinx_fe (fe : frontend) : bool := match fe with Sphinx => true | Docutils => false end.

(* create_warning as the source has it, on the arguments of a model event *)
Definition cw_src (fe : frontend) (S : list str) (e : wevent) (has_node has_line : bool) :=
  create_warning_src (is_sphinx_fe fe) S (we_wtype e) (SubStr (we_sub e)) (we_msg e) has_node has_line (we_placed e).

Theorem create_warning_src_eq fe S e hn hl :
  cw_src fe S e hn hl =
  (fst (create_warning fe S e), snd (create_warning fe S e),
   match snd (create_warning fe S e) with Some _ => we_placed e | None => false end).
Proof.
  unfold cw_src, create_warning_src, create_warning. rewrite !is_suppressed_src_eq.
  change (match we_wtype e with Some t => t | None => s_myst end) with (type_str e).
  cbn [subtype_str_of]. unfold mk_out, mk_wout.
  destruct fe; cbn [is_sphinx_fe];
    destruct (is_suppressed (Some (type_str e)) (we_sub e) S);
    try destruct (sphinx_is_suppressed (Some (type_str e)) (we_sub e) S);
    destruct hn; destruct hl; destruct (we_placed e); reflexivity.
Qed.

(* a parse as far as warnings are concerned, with the source's create_warning *)
Fixpoint run_src (fe : frontend) (suppress : list str) (items : list item) : list wout * list tnode :=
  match items with
  | [] => ([], [])
  | IOther x :: rest =>
      let '(log, tree) := run_src fe suppress rest in (log, TOther x :: tree)
  | IWarn e :: rest =>
      let '(l1, node, appended) := cw_src fe suppress e false true in
      let '(log, tree) := run_src fe suppress rest in
      (l1 ++ log, match node with Some o => if appended then TSys o :: tree else tree | None => tree end)
  | IXrefMissing e text target :: rest =>
      let '(l1, node, _) := cw_src fe suppress e false true in
      let fallback := match text, node with None, None => Some (c_hash :: target) | _, _ => None end in
      let '(log, tree) := run_src fe suppress rest in
      (l1 ++ log, TRef text node fallback target :: tree)
  end.

Lemma run_src_eq fe S items : run_src fe S items = run fe S items.
Proof.
  induction items as [|it items IH]; [reflexivity|].
  destruct it as [e|x|e text tgt]; cbn [run_src run]; rewrite ?create_warning_src_eq, IH.
  - destruct (create_warning fe S e) as [l1 node]. cbn [fst snd].
    destruct (run fe S items) as [log tree]. destruct node; [destruct (we_placed e)|]; reflexivity.
  - reflexivity.
  - destruct (create_warning fe S e) as [l1 node]. cbn [fst snd]. reflexivity.
Qed.

Theorem is_suppressed_src_spec ty sub l :
  nodot ty = true -> is_suppressed_src (Some ty) sub l = tag_matches l ty sub.
Proof. intro H. rewrite is_suppressed_src_eq. apply is_suppressed_spec. exact H. Qed.

Theorem mirror_agrees_src ty sub l :
  match ty with Some t => nodot t = true | None => True end ->
  is_suppressed_src ty sub l = sphinx_is_suppressed ty sub l.
Proof. intro H. rewrite is_suppressed_src_eq. apply mirror_agrees. exact H. Qed.

Theorem run_src_suppress_coupled fe S items :
  forallb item_type_nodot items = true ->
  run_src fe S items = strip_coupled S (run_src fe [] items).
Proof. intro H. rewrite !run_src_eq. apply run_suppress_coupled. exact H. Qed.

Theorem run_src_suppress_exact fe S items :
  forallb item_type_nodot items = true -> forallb xref_guard items = true ->
  run_src fe S items = strip S (run_src fe [] items).
Proof. intros H G. rewrite !run_src_eq. apply run_suppress_exact; assumption. Qed.
