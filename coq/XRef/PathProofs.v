(* Lemmas about the path functions of XRef/Path.v. *)
From Coq Require Import List NArith Bool Lia PeanoNat.
From MV Require Import Base.PyStr.
From MV Require Import XRef.Path.
Import ListNotations.
Open Scope N_scope.

(* ---------- well-formed path segments ---------- *)

(* a directory or file name: not empty, not "." or "..", without '/' *)
Definition seg_ok (s : str) : Prop :=
  s <> [] /\ s <> s_dot /\ s <> s_dotdot /\ ~ In c_slash s.

Definition segs_ok (l : list str) : Prop := Forall seg_ok l.

Lemma seg_ok_eqb s : seg_ok s ->
  str_eqb s [] = false /\ str_eqb s s_dot = false /\ str_eqb s s_dotdot = false.
Proof.
  intros (H1 & H2 & H3 & _). repeat split; apply str_eqb_neq; assumption.
Qed.

Lemma segs_ok_app a b : segs_ok (a ++ b) <-> segs_ok a /\ segs_ok b.
Proof. unfold segs_ok. apply Forall_app. Qed.

Lemma segs_ok_rev a : segs_ok a -> segs_ok (rev a).
Proof. unfold segs_ok. apply Forall_rev. Qed.

Lemma segs_ok_removelast a : segs_ok a -> segs_ok (removelast a).
Proof.
  unfold segs_ok. induction a as [|x a IH]; intro H; [constructor|].
  inversion H; subst. destruct a as [|y a]; [constructor|].
  cbn [removelast]. constructor; auto.
Qed.

(* ---------- split / join ---------- *)

Lemma split_on_nonempty c s : split_on c s <> [].
Proof.
  induction s as [|x s IH]; cbn [split_on]; [discriminate|].
  destruct (x =? c); [discriminate|]. destruct (split_on c s); discriminate.
Qed.

Lemma split_on_nosep c p : ~ In c p -> split_on c p = [p].
Proof.
  induction p as [|x p IH]; intro H; [reflexivity|].
  cbn [split_on]. destruct (x =? c) eqn:E.
  - apply N.eqb_eq in E. subst. exfalso. apply H. left. reflexivity.
  - rewrite IH; [reflexivity|]. intro H1. apply H. right. exact H1.
Qed.

Lemma split_on_app c p r : ~ In c p -> split_on c (p ++ c :: r) = p :: split_on c r.
Proof.
  induction p as [|x p IH]; intro H.
  - cbn [app split_on]. rewrite N.eqb_refl. reflexivity.
  - cbn [app split_on]. destruct (x =? c) eqn:E.
    + apply N.eqb_eq in E. subst. exfalso. apply H. left. reflexivity.
    + rewrite IH; [reflexivity|]. intro H1. apply H. right. exact H1.
Qed.

Lemma join_cons sep p q rest : join sep (p :: q :: rest) = p ++ sep ++ join sep (q :: rest).
Proof. reflexivity. Qed.

Lemma split_join c segs : segs <> [] -> Forall (fun s => ~ In c s) segs ->
  split_on c (join [c] segs) = segs.
Proof.
  induction segs as [|p segs IH]; intros Hne Hall; [congruence|].
  inversion Hall as [|? ? Hp Hrest]; subst.
  destruct segs as [|q segs].
  - cbn [join]. apply split_on_nosep. exact Hp.
  - rewrite join_cons. cbn [app]. rewrite split_on_app by exact Hp.
    f_equal. apply IH; [discriminate|exact Hrest].
Qed.

Lemma join_app_single sep l s : l <> [] -> join sep (l ++ [s]) = join sep l ++ sep ++ s.
Proof.
  induction l as [|p l IH]; intro H; [congruence|].
  destruct l as [|q l].
  - reflexivity.
  - change ((p :: q :: l) ++ [s]) with (p :: (q :: l) ++ [s]).
    change ((q :: l) ++ [s]) with (q :: (l ++ [s])) at 1.
    rewrite join_cons. change (q :: l ++ [s]) with ((q :: l) ++ [s]).
    rewrite IH by discriminate. rewrite join_cons. rewrite <- !app_assoc. reflexivity.
Qed.

Lemma join_app sep a b : a <> [] -> b <> [] ->
  join sep (a ++ b) = join sep a ++ sep ++ join sep b.
Proof.
  intros Ha Hb. induction a as [|p a IH]; [congruence|].
  destruct a as [|q a].
  - destruct b as [|r b]; [congruence|]. reflexivity.
  - change ((p :: q :: a) ++ b) with (p :: q :: (a ++ b)).
    rewrite join_cons. change (q :: a ++ b) with ((q :: a) ++ b).
    rewrite IH by discriminate. rewrite join_cons. rewrite <- !app_assoc. reflexivity.
Qed.

Lemma in_join c sep segs : In c (join sep segs) -> In c sep \/ exists s, In s segs /\ In c s.
Proof.
  induction segs as [|p segs IH]; intro H; [destruct H|].
  destruct segs as [|q segs].
  - right. exists p. split; [left; reflexivity|exact H].
  - rewrite join_cons in H. apply in_app_or in H as [H|H].
    + right. exists p. split; [left; reflexivity|exact H].
    + apply in_app_or in H as [H|H]; [left; exact H|].
      destruct (IH H) as [H1|[s [Hs Hc]]]; [left; exact H1|].
      right. exists s. split; [right; exact Hs|exact Hc].
Qed.

Lemma before_nosep c s : ~ In c s -> before c s = s.
Proof.
  induction s as [|x s IH]; intro H; [reflexivity|].
  cbn [before]. destruct (x =? c) eqn:E.
  - apply N.eqb_eq in E. subst. exfalso. apply H. left. reflexivity.
  - rewrite IH; [reflexivity|]. intro H1. apply H. right. exact H1.
Qed.

Lemma before_app c p r : ~ In c p -> before c (p ++ c :: r) = p.
Proof.
  induction p as [|x p IH]; intro H.
  - cbn [app before]. rewrite N.eqb_refl. reflexivity.
  - cbn [app before]. destruct (x =? c) eqn:E.
    + apply N.eqb_eq in E. subst. exfalso. apply H. left. reflexivity.
    + rewrite IH; [reflexivity|]. intro H1. apply H. right. exact H1.
Qed.

Lemma after_app c p r : ~ In c p -> after c (p ++ c :: r) = Some r.
Proof.
  induction p as [|x p IH]; intro H.
  - cbn [app after]. rewrite N.eqb_refl. reflexivity.
  - cbn [app after]. destruct (x =? c) eqn:E.
    + apply N.eqb_eq in E. subst. exfalso. apply H. left. reflexivity.
    + apply IH. intro H1. apply H. right. exact H1.
Qed.

Lemma after_nosep c s : ~ In c s -> after c s = None.
Proof.
  induction s as [|x s IH]; intro H; [reflexivity|].
  cbn [after]. destruct (x =? c) eqn:E.
  - apply N.eqb_eq in E. subst. exfalso. apply H. left. reflexivity.
  - apply IH. intro H1. apply H. right. exact H1.
Qed.

Lemma list_str_eqb_eq a b : list_str_eqb a b = true <-> a = b.
Proof.
  revert b; induction a as [|x a IH]; intros [|y b]; cbn [list_str_eqb]; split; intro H;
    try congruence; try discriminate; auto.
  - apply andb_true_iff in H as [H1 H2]. apply str_eqb_eq in H1. apply IH in H2. congruence.
  - inversion H; subst. rewrite str_eqb_refl. cbn. apply IH. reflexivity.
Qed.

Lemma list_str_eqb_refl a : list_str_eqb a a = true.
Proof. apply list_str_eqb_eq. reflexivity. Qed.

(* ---------- the normalisation loop ---------- *)

Lemma norm_skip_empty abs r acc : norm_loop abs ([] :: r) acc = norm_loop abs r acc.
Proof. reflexivity. Qed.

Lemma norm_skip_dot abs r acc : norm_loop abs (s_dot :: r) acc = norm_loop abs r acc.
Proof. reflexivity. Qed.

Lemma norm_push abs c r acc : seg_ok c ->
  norm_loop abs (c :: r) acc = norm_loop abs r (c :: acc).
Proof.
  intro H. destruct (seg_ok_eqb c H) as (E1 & E2 & E3).
  cbn [norm_loop]. rewrite E1, E2, E3. reflexivity.
Qed.

Lemma norm_push_list abs n : forall r acc, segs_ok n ->
  norm_loop abs (n ++ r) acc = norm_loop abs r (rev n ++ acc).
Proof.
  induction n as [|c n IH]; intros r acc H; [reflexivity|].
  inversion H; subst. cbn [app]. rewrite norm_push by assumption.
  rewrite IH by assumption. cbn [rev]. rewrite <- app_assoc. reflexivity.
Qed.

Lemma norm_pop abs x r acc : seg_ok x ->
  norm_loop abs (s_dotdot :: r) (x :: acc) = norm_loop abs r acc.
Proof.
  intro H. destruct (seg_ok_eqb x H) as (_ & _ & E3).
  cbn [norm_loop]. change (str_eqb s_dotdot []) with false. change (str_eqb s_dotdot s_dot) with false.
  change (str_eqb s_dotdot s_dotdot) with true. rewrite E3.
  cbn [orb negb is_nil andb]. rewrite andb_false_r. reflexivity.
Qed.

Lemma norm_pops abs st : forall r acc, segs_ok st ->
  norm_loop abs (repeat s_dotdot (length st) ++ r) (st ++ acc) = norm_loop abs r acc.
Proof.
  induction st as [|x st IH]; intros r acc H; [reflexivity|].
  inversion H; subst. cbn [length repeat app]. rewrite norm_pop by assumption. apply IH. assumption.
Qed.

Lemma norm_dots abs k : forall r acc,
  norm_loop abs (repeat s_dot k ++ r) acc = norm_loop abs r acc.
Proof. induction k as [|k IH]; intros r acc; [reflexivity|]. cbn [repeat app]. rewrite norm_skip_dot. apply IH. Qed.

Lemma norm_ok abs l : segs_ok l -> norm_loop abs l [] = l.
Proof.
  intro H. replace (norm_loop abs l []) with (norm_loop abs (l ++ []) []) by (rewrite app_nil_r; reflexivity).
  rewrite norm_push_list by assumption. cbn [norm_loop]. rewrite app_nil_r. apply rev_involutive.
Qed.

Lemma norm_push_end abs n acc : segs_ok n -> norm_loop abs n acc = rev acc ++ n.
Proof.
  intro H. replace (norm_loop abs n acc) with (norm_loop abs (n ++ []) acc) by (rewrite app_nil_r; reflexivity).
  rewrite norm_push_list by assumption. cbn [norm_loop]. rewrite rev_app_distr, rev_involutive. reflexivity.
Qed.

(* up [r] levels from [pre ++ r], then down [t]; any number of "." in front *)
Lemma norm_up_down abs pre r t k acc : segs_ok pre -> segs_ok r -> segs_ok t ->
  norm_loop abs (pre ++ r ++ repeat s_dot k ++ repeat s_dotdot (length r) ++ t) acc
  = rev acc ++ pre ++ t.
Proof.
  intros Hp Hr Ht.
  rewrite norm_push_list by assumption.
  rewrite norm_push_list by assumption.
  rewrite norm_dots.
  rewrite <- (rev_length r).
  rewrite norm_pops by (apply segs_ok_rev; assumption).
  rewrite <- (app_nil_r t) at 1. rewrite norm_push_list by assumption.
  cbn [norm_loop]. rewrite !rev_app_distr, !rev_involutive. rewrite <- app_assoc. reflexivity.
Qed.

(* ---------- relative_uri: round trip ---------- *)

Lemma strip_common_spec : forall b t, b <> [] -> t <> [] ->
  exists cm, b = cm ++ fst (strip_common b t) /\ t = cm ++ snd (strip_common b t)
             /\ fst (strip_common b t) <> [] /\ snd (strip_common b t) <> [].
Proof.
  induction b as [|x b IH]; intros t Hb Ht; [congruence|].
  destruct t as [|y t]; [congruence|].
  destruct b as [|x2 b].
  - exists []. cbn. repeat split; discriminate.
  - destruct t as [|y2 t].
    + exists []. cbn. repeat split; discriminate.
    + cbn [strip_common]. destruct (str_eqb x y) eqn:E.
      * apply str_eqb_eq in E. subst y.
        destruct (IH (y2 :: t)) as (cm & H1 & H2 & H3 & H4); try discriminate.
        exists (x :: cm). cbn [app]. split; [f_equal; exact H1|]. split; [f_equal; exact H2|]. split; assumption.
      * exists []. cbn. repeat split; discriminate.
Qed.

Lemma split_ups n s : split_on c_slash (ups n ++ s) = repeat s_dotdot n ++ split_on c_slash s.
Proof.
  induction n as [|n IH]; [reflexivity|].
  cbn [ups repeat]. change s_up with (s_dotdot ++ [c_slash]). rewrite <- !app_assoc.
  cbn [app]. change (c_dot :: c_dot :: c_slash :: ups n ++ s) with (s_dotdot ++ c_slash :: (ups n ++ s)).
  rewrite split_on_app.
  - rewrite IH. reflexivity.
  - cbn. intros [H|[H|[]]]; discriminate.
Qed.

(* segments of a URI path additionally carry no '#' *)
Definition useg_ok (s : str) : Prop := seg_ok s /\ ~ In c_hash s.

Lemma useg_segs l : Forall useg_ok l -> segs_ok l.
Proof. intro H. eapply Forall_impl; [|exact H]. intros a [Ha _]. exact Ha. Qed.

Lemma useg_noslash l : Forall useg_ok l -> Forall (fun s => ~ In c_slash s) l.
Proof. intro H. eapply Forall_impl; [|exact H]. intros a [(_ & _ & _ & Ha) _]. exact Ha. Qed.

Lemma join_no_hash l : Forall useg_ok l -> ~ In c_hash (join s_slash l).
Proof.
  intros H Hin. apply in_join in Hin as [Hin|[s [Hs Hc]]].
  - cbn in Hin. destruct Hin as [Hin|[]]. discriminate.
  - rewrite Forall_forall in H. destruct (H s Hs) as [_ Hn]. contradiction.
Qed.

Lemma join_first_char l x s rest : l = (x :: s) :: rest -> exists tl0, join s_slash l = x :: tl0.
Proof.
  intro E. subst. destruct rest as [|q rest].
  - exists s. reflexivity.
  - rewrite join_cons. exists (s ++ s_slash ++ join s_slash (q :: rest)). reflexivity.
Qed.

Lemma seg_first_char s : seg_ok s -> exists x s', s = x :: s' /\ x <> c_slash.
Proof.
  intros (H1 & _ & _ & H4). destruct s as [|x s]; [congruence|].
  exists x, s. split; [reflexivity|]. intro E. apply H4. left. exact E.
Qed.

Lemma join_not_abs l : l <> [] -> segs_ok l -> startswith (join s_slash l) s_slash = false.
Proof.
  intros Hne Hok. destruct l as [|p l]; [congruence|].
  inversion Hok; subst. destruct (seg_first_char p) as (x & s' & E & Hx); [assumption|].
  destruct (join_first_char (p :: l) x s' l) as [tl0 Ej]; [rewrite E; reflexivity|].
  rewrite Ej. cbn [startswith s_slash]. apply N.eqb_neq in Hx. rewrite N.eqb_sym, Hx. reflexivity.
Qed.

Lemma split_last_cons x y r :
  split_last (x :: y :: r) =
  match split_last (y :: r) with Some (i, z) => Some (x :: i, z) | None => None end.
Proof. reflexivity. Qed.

Lemma split_last_app l x : split_last (l ++ [x]) = Some (l, x).
Proof.
  induction l as [|y l IH]; [reflexivity|].
  destruct l as [|y2 l]; [reflexivity|].
  change ((y :: y2 :: l) ++ [x]) with (y :: y2 :: (l ++ [x])).
  rewrite split_last_cons. change (y2 :: l ++ [x]) with ((y2 :: l) ++ [x]). rewrite IH. reflexivity.
Qed.


(* The path of a page URI: directory segments, then a last segment that is a file name
   (html builder: "one.html") or empty (dirhtml builder: "a/one/", "" for the root index). *)
Definition uri_ok (l : list str) : Prop :=
  exists d z, l = d ++ [z] /\ Forall useg_ok d /\ (z = [] \/ useg_ok z).

Lemma uri_ok_noslash l : uri_ok l -> Forall (fun s => ~ In c_slash s) l.
Proof.
  intros (d & z & E & Hd & Hz). subst. apply Forall_app. split; [apply useg_noslash; assumption|].
  constructor; [|constructor]. destruct Hz as [Hz|[(_ & _ & _ & Hz) _]]; [subst; intros []|exact Hz].
Qed.

Lemma uri_ok_nohash l : uri_ok l -> ~ In c_hash (join s_slash l).
Proof.
  intros (d & z & E & Hd & Hz) Hin. subst. apply in_join in Hin as [Hin|[s [Hs Hc]]].
  - cbn in Hin. destruct Hin as [Hin|[]]. discriminate.
  - apply in_app_or in Hs as [Hs|[Hs|[]]].
    + rewrite Forall_forall in Hd. destruct (Hd s Hs) as [_ Hn]. contradiction.
    + subst s. destruct Hz as [Hz|[_ Hz]]; [subst; destruct Hc|contradiction].
Qed.

Lemma uri_ok_not_abs l : uri_ok l -> startswith (join s_slash l) s_slash = false.
Proof.
  intros (d & z & E & Hd & Hz). subst. destruct d as [|p d].
  - cbn [app join]. destruct Hz as [Hz|[Hz _]]; [subst; reflexivity|].
    destruct (seg_first_char z Hz) as (x & s' & E & Hx). subst z. cbn [startswith s_slash].
    apply N.eqb_neq in Hx. rewrite N.eqb_sym, Hx. reflexivity.
  - inversion Hd as [|? ? [Hp _] _]; subst. destruct (seg_first_char p Hp) as (x & s' & E & Hx).
    destruct (join_first_char ((p :: d) ++ [z]) x s' (d ++ [z])) as [tl0 Ej]; [rewrite E; reflexivity|].
    rewrite Ej. cbn [startswith s_slash]. apply N.eqb_neq in Hx. rewrite N.eqb_sym, Hx. reflexivity.
Qed.

Lemma suffix_of_uri cm t d (z : str) : t <> [] -> cm ++ t = d ++ [z] ->
  exists t', t = t' ++ [z] /\ d = cm ++ t'.
Proof.
  intros Hne E. destruct (exists_last Hne) as (t' & z' & Et). subst t.
  rewrite app_assoc in E. apply app_inj_tail in E as [E1 E2]. subst. exists t'. split; reflexivity.
Qed.

Lemma ends_in_dir_last l z : ends_in_dir (l ++ [z]) = is_nil z || str_eqb z s_dot || str_eqb z s_dotdot.
Proof. unfold ends_in_dir. rewrite split_last_app. reflexivity. Qed.

(* up from [pre ++ mid], down [t'], then the last segment of a URI *)
Lemma norm_uri_tail pre mid t' z : segs_ok pre -> segs_ok mid -> segs_ok t' -> (z = [] \/ seg_ok z) ->
  let segs := pre ++ mid ++ repeat s_dotdot (length mid) ++ t' ++ [z] in
  (if ends_in_dir segs then norm_loop true segs [] ++ [[]] else norm_loop true segs []) = pre ++ t' ++ [z].
Proof.
  intros Hp Hm Ht Hz segs.
  assert (E : norm_loop true segs [] = pre ++ t' ++ (if is_nil z then [] else [z])).
  { unfold segs. rewrite norm_push_list by assumption. rewrite norm_push_list by assumption.
    rewrite <- (rev_length mid). rewrite norm_pops by (apply segs_ok_rev; assumption).
    rewrite app_nil_r.
    destruct Hz as [Hz|Hz].
    - subst z. rewrite norm_push_list by assumption. rewrite norm_skip_empty. cbn [norm_loop is_nil].
      rewrite rev_app_distr, !rev_involutive, app_nil_r. reflexivity.
    - rewrite norm_push_end by (apply segs_ok_app; split; [assumption|constructor; [assumption|constructor]]).
      rewrite rev_involutive. destruct z as [|c z]; [destruct Hz as [Hz _]; congruence|]. reflexivity. }
  replace segs with ((pre ++ mid ++ repeat s_dotdot (length mid) ++ t') ++ [z]) by (unfold segs; rewrite <- !app_assoc; reflexivity).
  rewrite ends_in_dir_last.
  replace ((pre ++ mid ++ repeat s_dotdot (length mid) ++ t') ++ [z]) with segs by (unfold segs; rewrite <- !app_assoc; reflexivity).
  rewrite E. destruct Hz as [Hz|Hz].
  - subst z. cbn [is_nil orb]. rewrite <- !app_assoc. rewrite app_nil_l. reflexivity.
  - destruct (seg_ok_eqb z Hz) as (E1 & E2 & E3). rewrite E2, E3.
    destruct z as [|c z]; [destruct Hz as [Hz _]; congruence|]. cbn [is_nil orb]. reflexivity.
Qed.

Theorem relative_uri_roundtrip : forall from to : list str,
  uri_ok from -> uri_ok to ->
  resolve_ref (join s_slash from) (relative_uri (join s_slash from) (join s_slash to))
  = join s_slash to.
Proof.
  intros from to Hfo Hto.
  assert (Hf : from <> []) by (destruct Hfo as (d & z & E & _); subst; destruct d; discriminate).
  assert (Ht : to <> []) by (destruct Hto as (d & z & E & _); subst; destruct d; discriminate).
  pose proof (uri_ok_noslash from Hfo) as Hns_from.
  pose proof (uri_ok_noslash to Hto) as Hns_to.
  unfold relative_uri.
  rewrite uri_ok_not_abs by assumption.
  rewrite !before_nosep by (apply uri_ok_nohash; assumption).
  change s_slash with [c_slash].
  rewrite !split_join by assumption.
  destruct (strip_common_spec from to Hf Ht) as (cm & E1 & E2 & Hb & Htt).
  destruct (strip_common from to) as [b t] eqn:ES. cbn [fst snd] in *.
  destruct Hfo as (d1 & z1 & Ef & Hd1 & Hz1). destruct Hto as (d2 & z2 & Et & Hd2 & Hz2).
  rewrite Ef in E1. rewrite Et in E2. symmetry in E1, E2.
  destruct (suffix_of_uri cm b d1 z1 Hb E1) as (b' & Eb & Ed1).
  destruct (suffix_of_uri cm t d2 z2 Htt E2) as (t' & Ett & Ed2).
  assert (Hcm : segs_ok cm). { apply useg_segs. rewrite Ed1 in Hd1. apply Forall_app in Hd1. tauto. }
  assert (Hb' : segs_ok b'). { apply useg_segs. rewrite Ed1 in Hd1. apply Forall_app in Hd1. tauto. }
  assert (Ht' : segs_ok t'). { apply useg_segs. rewrite Ed2 in Hd2. apply Forall_app in Hd2. tauto. }
  assert (Hz2' : z2 = [] \/ seg_ok z2) by (destruct Hz2 as [H|[H _]]; auto).
  assert (Efrom : from = cm ++ b' ++ [z1]) by (rewrite Ef, Ed1, <- app_assoc; reflexivity).
  assert (Eto : to = cm ++ t' ++ [z2]) by (rewrite Et, Ed2, <- app_assoc; reflexivity).
  assert (Hsplit_from : removelast from = cm ++ b').
  { rewrite Efrom. rewrite app_assoc. apply removelast_last. }
  destruct (list_str_eqb b t) eqn:EQ.
  - apply list_str_eqb_eq in EQ. cbn [resolve_ref]. rewrite Efrom, Eto.
    rewrite Eb, Ett in EQ. apply app_inj_tail in EQ as [EQ1 EQ2]. subst. reflexivity.
  - destruct (Nat.eqb (length b) 1 && list_str_eqb t [[]]) eqn:EDOT.
    + (* the target is the directory of the page: "./" *)
      apply andb_true_iff in EDOT as [EL E3]. apply list_str_eqb_eq in E3.
      rewrite Ett in E3. destruct t' as [|x t']; [|destruct t'; discriminate].
      cbn [app] in E3. inversion E3; subst z2.
      rewrite Eb in EL. rewrite app_length in EL. cbn [length] in EL. destruct b' as [|y b']; [|apply Nat.eqb_eq in EL; cbn [length] in EL; lia].
      cbn [resolve_ref]. rewrite split_join by assumption.
      rewrite Hsplit_from.
      change (split_on c_slash [c_dot; c_slash]) with [s_dot; []].
      rewrite app_nil_r.
      replace (cm ++ [s_dot; []]) with ((cm ++ [s_dot]) ++ [[]]) by (rewrite <- app_assoc; reflexivity).
      rewrite ends_in_dir_last. cbn [is_nil orb].
      rewrite <- app_assoc. rewrite norm_push_list by assumption.
      cbn [app]. rewrite norm_skip_dot, norm_skip_empty. cbn [norm_loop]. rewrite app_nil_r, rev_involutive.
      rewrite Eto. reflexivity.
    + (* the general case *)
      assert (Hnoslash_t : Forall (fun s => ~ In c_slash s) t).
      { rewrite Ett. apply Forall_app. split.
        - eapply Forall_impl; [|exact Ht']. intros a (_ & _ & _ & Ha). exact Ha.
        - constructor; [|constructor]. destruct Hz2' as [H|(_ & _ & _ & H)]; [subst; intros []|exact H]. }
      assert (Hrel : exists y r1, ups (length b - 1) ++ join [c_slash] t = y :: r1).
      { destruct (length b - 1)%nat eqn:EN; cbn [ups]; [|cbn; eauto]. cbn [app].
        rewrite Ett. destruct t' as [|p t'].
        - cbn [app join]. destruct z2 as [|c z2]; [|eauto].
          exfalso. rewrite Ett in EDOT. cbn [app] in EDOT. change (list_str_eqb [[]] [[]]) with true in EDOT.
          rewrite andb_true_r in EDOT. apply Nat.eqb_neq in EDOT. destruct b as [|q b]; [congruence|].
          cbn [length] in *. lia.
        - inversion Ht' as [|? ? Hp _]; subst. destruct (seg_first_char p Hp) as (x & s' & E & _).
          destruct (join_first_char ((p :: t') ++ [z2]) x s' (t' ++ [z2])) as [tl0 Ej]; [rewrite E; reflexivity|].
          change s_slash with [c_slash] in Ej. rewrite Ej. eauto. }
      destruct Hrel as (y & r1 & Erel).
      unfold resolve_ref. change s_slash with [c_slash]. rewrite Erel. rewrite <- Erel.
      rewrite split_join by assumption.
      rewrite split_ups. rewrite split_join by assumption.
      rewrite Hsplit_from.
      replace (length b - 1)%nat with (length b') by (rewrite Eb, app_length; cbn; lia).
      rewrite Ett. rewrite <- !app_assoc.
      pose proof (norm_uri_tail cm b' t' z2 Hcm Hb' Ht' Hz2') as N0. cbn zeta in N0.
      rewrite Eto. f_equal. exact N0.
Qed.

(* ---------- relfn2path on the spellings of a path ---------- *)

(* a spelling relative to the directory [cm ++ r] of a file [cm ++ t]:
   k times "./", then one "../" per element of r, then t *)
Definition rel_spelling (k : nat) (r t : list str) : str :=
  join s_slash (repeat s_dot k ++ repeat s_dotdot (length r) ++ t).

(* the spelling with a leading '/' : relative to the source directory *)
Definition abs_spelling (tp : list str) : str := c_slash :: join s_slash tp.

(* names that can be written in a link destination as they are *)
Definition name_ok (s : str) : Prop :=
  seg_ok s /\ s <> s_bslash /\ ~ In c_hash s /\ ~ In c_colon s /\ ~ In 0 s.

Lemma name_seg l : Forall name_ok l -> segs_ok l.
Proof. intro H. eapply Forall_impl; [|exact H]. intros a [Ha _]. exact Ha. Qed.

Lemma strip_prefix_app pre l : strip_prefix pre (pre ++ l) = Some l.
Proof. induction pre as [|p pre IH]; [reflexivity|]. cbn [app strip_prefix]. rewrite str_eqb_refl. exact IH. Qed.

Lemma locate_inside srcdir rel : locate srcdir (srcdir ++ rel) = Inside rel.
Proof. unfold locate. rewrite strip_prefix_app. reflexivity. Qed.

Lemma filter_parts_ok l : segs_ok l ->
  filter (fun x => negb (str_eqb x [] || str_eqb x s_dot)) l = l.
Proof.
  induction l as [|x l IH]; intro H; [reflexivity|]. inversion H; subst.
  cbn [filter]. destruct (seg_ok_eqb x) as (E1 & E2 & _); [assumption|].
  rewrite E1, E2. cbn. rewrite IH by assumption. reflexivity.
Qed.

Lemma filter_parts_nil l :
  filter (fun x => negb (str_eqb x [] || str_eqb x s_dot)) ([] :: l)
  = filter (fun x => negb (str_eqb x [] || str_eqb x s_dot)) l.
Proof. reflexivity. Qed.

Lemma filter_parts_dots k l :
  filter (fun x => negb (str_eqb x [] || str_eqb x s_dot)) (repeat s_dot k ++ l)
  = filter (fun x => negb (str_eqb x [] || str_eqb x s_dot)) l.
Proof. induction k as [|k IH]; [reflexivity|]. cbn [repeat app filter]. exact IH. Qed.

Lemma filter_parts_ups n l :
  filter (fun x => negb (str_eqb x [] || str_eqb x s_dot)) (repeat s_dotdot n ++ l)
  = repeat s_dotdot n ++ filter (fun x => negb (str_eqb x [] || str_eqb x s_dot)) l.
Proof. induction n as [|n IH]; [reflexivity|]. cbn [repeat app filter]. cbn. rewrite IH. reflexivity. Qed.

Lemma noslash_spelling k n t : segs_ok t ->
  Forall (fun s => ~ In c_slash s) (repeat s_dot k ++ repeat s_dotdot n ++ t).
Proof.
  intro H. apply Forall_app. split; [|apply Forall_app; split].
  - apply Forall_forall. intros x Hx. apply repeat_spec in Hx. subst. cbn. intros [E|[]]. discriminate.
  - apply Forall_forall. intros x Hx. apply repeat_spec in Hx. subst. cbn. intros [E|[E|[]]]; discriminate.
  - eapply Forall_impl; [|exact H]. intros a (_ & _ & _ & Ha). exact Ha.
Qed.

Lemma rel_spelling_first k r t : t <> [] -> segs_ok t ->
  exists x tl0, rel_spelling k r t = x :: tl0 /\ x <> c_slash.
Proof.
  intros Hne Hok. unfold rel_spelling.
  destruct k as [|k].
  - destruct (length r) as [|n].
    + cbn [repeat app]. destruct t as [|p t]; [congruence|]. inversion Hok; subst.
      destruct (seg_first_char p) as (x & s' & E & Hx); [assumption|].
      destruct (join_first_char (p :: t) x s' t) as [tl0 Ej]; [rewrite E; reflexivity|].
      exists x, tl0. split; assumption.
    + cbn [repeat app].
      destruct (join_first_char (s_dotdot :: repeat s_dotdot n ++ t) c_dot [c_dot] (repeat s_dotdot n ++ t)) as [tl0 Ej];
        [reflexivity|]. exists c_dot, tl0. split; [exact Ej|discriminate].
  - cbn [repeat app].
    destruct (join_first_char (s_dot :: repeat s_dot k ++ repeat s_dotdot (length r) ++ t) c_dot []
                (repeat s_dot k ++ repeat s_dotdot (length r) ++ t)) as [tl0 Ej]; [reflexivity|].
    exists c_dot, tl0. split; [exact Ej|discriminate].
Qed.

Lemma path_root_noroot x s : x <> c_slash -> path_root (x :: s) = NoRoot.
Proof.
  intro H. apply N.eqb_neq in H. unfold path_root. cbn [startswith s_slash]. rewrite N.eqb_sym in H.
  rewrite H. reflexivity.
Qed.

Theorem relfn2path_rel_spelling : forall srcdir cm r t k,
  segs_ok srcdir -> segs_ok cm -> segs_ok r -> Forall name_ok t -> t <> [] ->
  relfn2path srcdir (cm ++ r) (rel_spelling k r t) = Inside (cm ++ t).
Proof.
  intros srcdir cm r t k Hs Hc Hr Ht Hne.
  pose proof (name_seg t Ht) as Hts.
  destruct (rel_spelling_first k r t Hne Hts) as (x & tl0 & E & Hx).
  unfold relfn2path. rewrite E at 1. rewrite (path_root_noroot x tl0 Hx).
  unfold path_parts, rel_spelling. change s_slash with [c_slash].
  rewrite split_join.
  2:{ destruct k; [destruct (length r); [cbn; destruct t; [congruence|discriminate]|discriminate]|discriminate]. }
  2:{ apply noslash_spelling. assumption. }
  rewrite filter_parts_dots, filter_parts_ups, filter_parts_ok by assumption.
  assert (Hnorm : norm_loop true (srcdir ++ (cm ++ r) ++ repeat s_dotdot (length r) ++ t) [] = srcdir ++ cm ++ t).
  { pose proof (norm_up_down true (srcdir ++ cm) r t 0 []) as N0. cbn [repeat app rev] in N0.
    rewrite <- !app_assoc in N0. rewrite <- app_assoc. apply N0; try assumption.
    apply segs_ok_app. split; assumption. }
  destruct (repeat s_dotdot (length r) ++ t) as [|p rest] eqn:EP.
  - exfalso. destruct (length r); cbn in EP; [congruence|discriminate].
  - assert (Hp : str_eqb p s_bslash = false).
    { destruct r as [|r0 r]; cbn [length repeat app] in EP.
      - destruct t as [|t0 t]; [congruence|]. inversion EP; subst. inversion Ht as [|? ? (_ & Hb & _) _]; subst.
        apply str_eqb_neq. assumption.
      - inversion EP; subst. reflexivity. }
    rewrite Hp. rewrite Hnorm. apply locate_inside.
Qed.

Theorem relfn2path_abs_spelling : forall srcdir docdir tp,
  segs_ok srcdir -> segs_ok tp -> tp <> [] ->
  relfn2path srcdir docdir (abs_spelling tp) = Inside tp.
Proof.
  intros srcdir docdir tp Hs Ht Hne.
  destruct tp as [|p tp]; [congruence|]. inversion Ht; subst.
  destruct (seg_first_char p) as (x & s' & E & Hx); [assumption|].
  destruct (join_first_char (p :: tp) x s' tp) as [tl0 Ej]; [rewrite E; reflexivity|].
  unfold relfn2path, abs_spelling.
  assert (Hroot : path_root (c_slash :: join s_slash (p :: tp)) = Root1).
  { rewrite Ej. unfold path_root. cbn [startswith s_slash]. rewrite N.eqb_refl.
    apply N.eqb_neq in Hx. rewrite N.eqb_sym in Hx. rewrite Hx. cbn. reflexivity. }
  rewrite Hroot. unfold path_parts.
  change (c_slash :: join s_slash (p :: tp)) with ([] ++ c_slash :: join s_slash (p :: tp)).
  rewrite split_on_app by (intros []). change s_slash with [c_slash].
  rewrite split_join; [|discriminate|].
  2:{ eapply Forall_impl; [|exact Ht]. intros a (_ & _ & _ & Ha). exact Ha. }
  rewrite filter_parts_nil. rewrite filter_parts_ok by assumption.
  rewrite norm_ok by (apply segs_ok_app; split; assumption).
  apply locate_inside.
Qed.

(* ---------- path2doc ---------- *)

Theorem path2doc_inside : forall sufs dir name stem,
  first_suffix name sufs = Some stem ->
  path2doc sufs (Inside (dir ++ [name])) = Some (join s_slash (dir ++ [stem])).
Proof.
  intros sufs dir name stem H. unfold path2doc. rewrite split_last_app. rewrite H. reflexivity.
Qed.

(* ---------- docname_join on the spellings of a docname ---------- *)

Lemma startswith_nil s : startswith s [] = true.
Proof. destruct s; reflexivity. Qed.

Lemma endswith_last p x c : endswith (p ++ [x]) [c] = (c =? x).
Proof.
  unfold endswith. rewrite rev_app_distr. cbn [rev app startswith]. rewrite startswith_nil. apply andb_true_r.
Qed.

Lemma endswith_slash_last p x : endswith (p ++ [x]) s_slash = (c_slash =? x).
Proof. apply endswith_last. Qed.

Lemma join_last_char l s x : exists q, join s_slash (l ++ [s ++ [x]]) = q ++ [x].
Proof.
  induction l as [|p l IH].
  - exists s. reflexivity.
  - destruct IH as [q Hq]. destruct l as [|p2 l].
    + cbn [app] in *. rewrite join_cons. cbn [join] in Hq. exists (p ++ s_slash ++ s).
      cbn [join]. rewrite <- !app_assoc. reflexivity.
    + change ((p :: p2 :: l) ++ [s ++ [x]]) with (p :: (p2 :: l) ++ [s ++ [x]]).
      change ((p2 :: l) ++ [s ++ [x]]) with (p2 :: (l ++ [s ++ [x]])) at 1.
      rewrite join_cons. change (p2 :: l ++ [s ++ [x]]) with ((p2 :: l) ++ [s ++ [x]]).
      rewrite Hq. exists (p ++ s_slash ++ q). rewrite <- !app_assoc. reflexivity.
Qed.

Lemma seg_last_char s : seg_ok s -> exists s' x, s = s' ++ [x] /\ x <> c_slash.
Proof.
  intros (H1 & _ & _ & H4). destruct (exists_last H1) as (s' & x & E).
  exists s', x. split; [exact E|]. intro Ex. apply H4. rewrite E. apply in_or_app. right. left. exact Ex.
Qed.

Lemma normpath_abs_segs segs : segs <> [] ->
  Forall (fun s => ~ In c_slash s) segs ->
  (exists x s' rest, segs = (x :: s') :: rest /\ x <> c_slash) ->
  normpath (c_slash :: join s_slash segs) = c_slash :: join s_slash (norm_loop true segs []) \/
  norm_loop true segs [] = [].
Proof.
  intros Hne Hns (x & s' & rest & E & Hx).
  destruct (norm_loop true segs []) as [|n0 ns] eqn:EN; [right; reflexivity|left].
  destruct (join_first_char segs x s' rest E) as [tl0 Ej].
  unfold normpath.
  assert (Hi : initial_slashes (c_slash :: join s_slash segs) = 1%nat).
  { unfold initial_slashes. rewrite Ej. cbn [startswith s_slash]. rewrite N.eqb_refl.
    apply N.eqb_neq in Hx. rewrite N.eqb_sym in Hx. rewrite Hx. cbn. reflexivity. }
  rewrite Hi. cbn [Nat.eqb negb repeat app].
  change (c_slash :: join s_slash segs) with ([] ++ c_slash :: join s_slash segs) at 1.
  rewrite split_on_app by (intros []). change s_slash with [c_slash] at 1.
  rewrite split_join by assumption. rewrite norm_skip_empty. rewrite EN. reflexivity.
Qed.

Theorem docname_join_rel_spelling : forall cm r t bn k,
  segs_ok cm -> segs_ok r -> segs_ok t -> seg_ok bn -> t <> [] ->
  docname_join (join s_slash (cm ++ r ++ [bn])) (rel_spelling k r t) = join s_slash (cm ++ t).
Proof.
  intros cm r t bn k Hc Hr Ht Hb Hne.
  destruct (rel_spelling_first k r t Hne Ht) as (x & tl0 & E & Hx).
  destruct (seg_last_char bn Hb) as (bn' & xl & Ebn & Hxl).
  unfold docname_join. cbn [pjoin].
  change (startswith s_dotdot s_slash) with false. cbn [is_nil orb].
  assert (Hbase : exists q, c_slash :: join s_slash (cm ++ r ++ [bn]) = q ++ [xl]).
  { rewrite Ebn. destruct (join_last_char (cm ++ r) bn' xl) as [q Hq]. exists (c_slash :: q).
    cbn [app]. f_equal. etransitivity; [|exact Hq]. f_equal. apply app_assoc. }
  destruct Hbase as [q Hq].
  assert (Hend0 : endswith (c_slash :: join s_slash (cm ++ r ++ [bn])) s_slash = false).
  { rewrite Hq. rewrite endswith_slash_last.
    apply N.eqb_neq. intro Ec. apply Hxl. symmetry. exact Ec. }
  rewrite Hend0.
  assert (Hrel : startswith (rel_spelling k r t) s_slash = false).
  { rewrite E. cbn [startswith s_slash]. apply N.eqb_neq in Hx. rewrite N.eqb_sym in Hx. rewrite Hx. reflexivity. }
  rewrite Hrel.
  assert (Hend : endswith ((c_slash :: join s_slash (cm ++ r ++ [bn])) ++ s_slash ++ s_dotdot) s_slash = false).
  { change (s_slash ++ s_dotdot) with ([c_slash; c_dot] ++ [c_dot]). rewrite app_assoc. rewrite endswith_slash_last. reflexivity. }
  rewrite Hend.
  change (is_nil ((c_slash :: join s_slash (cm ++ r ++ [bn])) ++ s_slash ++ s_dotdot)) with false.
  cbn [orb].
  (* the joined string is '/' + join of the concatenated segments *)
  set (A := cm ++ r ++ [bn]).
  set (sp := repeat s_dot k ++ repeat s_dotdot (length r) ++ t).
  set (segs := A ++ [s_dotdot] ++ sp).
  assert (HA : A <> []). { unfold A. destruct cm; [destruct r; discriminate|discriminate]. }
  assert (Hsp : sp <> []).
  { unfold sp. destruct k; [destruct (length r); [cbn; assumption|discriminate]|discriminate]. }
  assert (Hstr : ((c_slash :: join s_slash A) ++ s_slash ++ s_dotdot) ++ s_slash ++ join s_slash sp
                 = c_slash :: join s_slash segs).
  { unfold segs. rewrite (join_app s_slash A ([s_dotdot] ++ sp)) by (assumption || discriminate).
    rewrite (join_app s_slash [s_dotdot] sp) by (assumption || discriminate).
    cbn [join app]. rewrite <- !app_assoc. reflexivity. }
  fold A. change (rel_spelling k r t) with (join s_slash sp). rewrite Hstr.
  assert (Hnorm : norm_loop true segs [] = cm ++ t).
  { unfold segs, A, sp.
    rewrite norm_push_list.
    2:{ apply segs_ok_app. split; [assumption|]. apply segs_ok_app. split; [assumption|]. constructor; [assumption|constructor]. }
    rewrite !rev_app_distr. cbn [rev app]. rewrite norm_pop by assumption.
    rewrite norm_dots. rewrite <- app_assoc. rewrite <- (rev_length r).
    rewrite norm_pops by (apply segs_ok_rev; assumption).
    rewrite norm_push_end by assumption. rewrite app_nil_r, rev_involutive. reflexivity. }
  assert (Hsegs_ne : segs <> []).
  { unfold segs. destruct A; [congruence|discriminate]. }
  assert (Hsegs_ns : Forall (fun s => ~ In c_slash s) segs).
  { unfold segs. apply Forall_app; split; [unfold A; apply Forall_app; split; [|apply Forall_app; split]|apply Forall_app; split].
    - eapply Forall_impl; [|exact Hc]. intros a (_ & _ & _ & Ha). exact Ha.
    - eapply Forall_impl; [|exact Hr]. intros a (_ & _ & _ & Ha). exact Ha.
    - constructor; [|constructor]. destruct Hb as (_ & _ & _ & Ha). exact Ha.
    - constructor; [|constructor]. cbn. intros [H|[H|[]]]; discriminate.
    - unfold sp. apply noslash_spelling. assumption. }
  assert (Hfirst : exists x0 s0 rest, segs = (x0 :: s0) :: rest /\ x0 <> c_slash).
  { unfold segs, A. destruct cm as [|c0 cm].
    - destruct r as [|r0 r].
      + destruct (seg_first_char bn Hb) as (x0 & s0 & E0 & H0). exists x0, s0. eexists. cbn [app]. rewrite E0. split; [reflexivity|assumption].
      + inversion Hr; subst. destruct (seg_first_char r0) as (x0 & s0 & E0 & H0); [assumption|].
        exists x0, s0. eexists. cbn [app]. rewrite E0. split; [reflexivity|assumption].
    - inversion Hc; subst. destruct (seg_first_char c0) as (x0 & s0 & E0 & H0); [assumption|].
      exists x0, s0. eexists. cbn [app]. rewrite E0. split; [reflexivity|assumption]. }
  destruct (normpath_abs_segs segs Hsegs_ne Hsegs_ns Hfirst) as [HN|HN].
  - rewrite HN, Hnorm. reflexivity.
  - exfalso. rewrite Hnorm in HN. destruct cm; [destruct t; [congruence|discriminate]|discriminate].
Qed.

Theorem docname_join_abs_spelling : forall base tdn,
  segs_ok tdn -> tdn <> [] ->
  docname_join base (abs_spelling tdn) = join s_slash tdn.
Proof.
  intros base tdn Ht Hne. unfold docname_join, abs_spelling. cbn [pjoin].
  assert (Hs : startswith (c_slash :: join s_slash tdn) s_slash = true).
  { cbn [startswith s_slash]. rewrite N.eqb_refl. apply startswith_nil. }
  rewrite Hs.
  assert (Hns : Forall (fun s => ~ In c_slash s) tdn).
  { eapply Forall_impl; [|exact Ht]. intros a (_ & _ & _ & Ha). exact Ha. }
  assert (Hfirst : exists x0 s0 rest, tdn = (x0 :: s0) :: rest /\ x0 <> c_slash).
  { destruct tdn as [|p tdn]; [congruence|]. inversion Ht; subst.
    destruct (seg_first_char p) as (x0 & s0 & E0 & H0); [assumption|]. exists x0, s0, tdn. rewrite E0. split; [reflexivity|assumption]. }
  assert (Hnorm : norm_loop true tdn [] = tdn).
  { apply norm_ok. assumption. }
  destruct (normpath_abs_segs tdn Hne Hns Hfirst) as [HN|HN].
  - rewrite HN, Hnorm. reflexivity.
  - exfalso. rewrite Hnorm in HN. congruence.
Qed.

(* ---------- os.path.relpath and the rewriting of {include} :relative-docs: ---------- *)

Lemma repeat_rev {A} (x : A) n : rev (repeat x n) = repeat x n.
Proof.
  induction n as [|n IH]; [reflexivity|]. cbn [repeat rev]. rewrite IH.
  clear. induction n as [|n IH]; [reflexivity|]. cbn [repeat app]. rewrite IH. reflexivity.
Qed.

(* without a root, leading ".." are kept *)
Lemma norm_rel_ups n : forall m rest,
  norm_loop false (repeat s_dotdot n ++ rest) (repeat s_dotdot m)
  = norm_loop false rest (repeat s_dotdot (n + m)).
Proof.
  induction n as [|n IH]; intros m rest; [reflexivity|].
  cbn [repeat app]. 
  assert (E : norm_loop false (s_dotdot :: repeat s_dotdot n ++ rest) (repeat s_dotdot m)
              = norm_loop false (repeat s_dotdot n ++ rest) (s_dotdot :: repeat s_dotdot m)).
  { destruct m; reflexivity. }
  rewrite E. change (s_dotdot :: repeat s_dotdot m) with (repeat s_dotdot (S m)). rewrite IH.
  replace (n + S m)%nat with (S n + m)%nat by lia. reflexivity.
Qed.

Lemma normpath_cons x tl0 :
  normpath (x :: tl0) =
  let p := x :: tl0 in
  let n := initial_slashes p in
  let path := repeat c_slash n ++ join s_slash (norm_loop (negb (Nat.eqb n 0)) (split_on c_slash p) []) in
  match path with [] => s_dot | _ => path end.
Proof. reflexivity. Qed.

Lemma normpath_rel_spelling k r t : segs_ok t -> t <> [] ->
  normpath (rel_spelling k r t) = rel_spelling 0 r t.
Proof.
  intros Ht Hne. destruct (rel_spelling_first k r t Hne Ht) as (x & tl0 & E & Hx).
  assert (Hn : norm_loop false (split_on c_slash (rel_spelling k r t)) [] = repeat s_dotdot (length r) ++ t).
  { unfold rel_spelling. change s_slash with [c_slash]. rewrite split_join.
    2:{ destruct k; [destruct (length r); [cbn; assumption|discriminate]|discriminate]. }
    2:{ apply noslash_spelling. assumption. }
    rewrite norm_dots. pose proof (norm_rel_ups (length r) 0 t) as N0. cbn [repeat] in N0. rewrite N0.
    rewrite norm_push_end by assumption. rewrite repeat_rev, Nat.add_0_r. reflexivity. }
  assert (Hi : initial_slashes (rel_spelling k r t) = 0%nat).
  { rewrite E. unfold initial_slashes. cbn [startswith s_slash]. apply N.eqb_neq in Hx. rewrite N.eqb_sym in Hx.
    rewrite Hx. reflexivity. }
  rewrite E, normpath_cons. cbn zeta. rewrite <- E. rewrite Hi. cbn [Nat.eqb negb repeat app]. rewrite Hn.
  destruct (rel_spelling_first 0 r t Hne Ht) as (x0 & tl1 & E0 & _).
  unfold rel_spelling in E0 |- *. cbn [repeat app] in E0 |- *. rewrite E0. reflexivity.
Qed.

Lemma strip_common_all_app pre a b : strip_common_all (pre ++ a) (pre ++ b) = strip_common_all a b.
Proof. induction pre as [|p pre IH]; [reflexivity|]. cbn [app strip_common_all]. rewrite str_eqb_refl. exact IH. Qed.

Lemma strip_common_all_spec : forall a b,
  exists c, a = c ++ fst (strip_common_all a b) /\ b = c ++ snd (strip_common_all a b).
Proof.
  induction a as [|x a IH]; intros b; [exists []; split; reflexivity|].
  destruct b as [|y b]; [exists []; split; reflexivity|].
  cbn [strip_common_all]. destruct (str_eqb x y) eqn:E.
  - apply str_eqb_eq in E. subst y. destruct (IH b) as (c & H1 & H2). exists (x :: c). cbn [app].
    split; f_equal; assumption.
  - exists []. split; reflexivity.
Qed.

Lemma nonempty_segs_abs segs : segs_ok segs -> segs <> [] ->
  nonempty_segs (c_slash :: join s_slash segs) = segs.
Proof.
  intros H Hne. unfold nonempty_segs.
  change (c_slash :: join s_slash segs) with ([] ++ c_slash :: join s_slash segs).
  rewrite split_on_app by (intros []). change s_slash with [c_slash]. rewrite split_join.
  - cbn [filter is_nil negb]. clear Hne. induction segs as [|x l IH]; [reflexivity|]. inversion H; subst.
    cbn [filter]. destruct x; [destruct H2 as (Hx & _); congruence|]. cbn [is_nil negb]. f_equal. apply IH. assumption.
  - assumption.
  - eapply Forall_impl; [|exact H]. intros a (_ & _ & _ & Ha). exact Ha.
Qed.

Lemma normpath_abs_ok segs : segs_ok segs -> segs <> [] ->
  normpath (c_slash :: join s_slash segs) = c_slash :: join s_slash segs.
Proof.
  intros H Hne.
  assert (Hns : Forall (fun s => ~ In c_slash s) segs).
  { eapply Forall_impl; [|exact H]. intros a (_ & _ & _ & Ha). exact Ha. }
  assert (Hfirst : exists x0 s0 rest, segs = (x0 :: s0) :: rest /\ x0 <> c_slash).
  { destruct segs as [|p segs]; [congruence|]. inversion H; subst.
    destruct (seg_first_char p) as (x0 & s0 & E0 & H0); [assumption|]. exists x0, s0, segs. rewrite E0. split; [reflexivity|assumption]. }
  destruct (normpath_abs_segs segs Hne Hns Hfirst) as [HN|HN]; rewrite norm_ok in HN by assumption; [exact HN|congruence].
Qed.

(* The destination written in an included file (directory cm ++ r below srcdir, spelled
   relative to that directory) is rewritten by _handle_relative_docs into a spelling of the same
   file relative to the including document's directory sdir. *)
Theorem relpath_rewrite : forall srcdir cm r t sdir k,
  segs_ok srcdir -> srcdir <> [] -> segs_ok cm -> segs_ok r -> segs_ok t -> t <> [] -> segs_ok sdir ->
  (forall x, sdir <> (cm ++ t) ++ x) ->
  exists c' r' t', sdir = c' ++ r' /\ cm ++ t = c' ++ t' /\ t' <> [] /\
    relpath (pjoin (c_slash :: join s_slash (srcdir ++ cm ++ r)) [normpath (rel_spelling k r t)])
            (c_slash :: join s_slash (srcdir ++ sdir))
    = rel_spelling 0 r' t'.
Proof.
  intros srcdir cm r t sdir k Hs Hsne Hc Hr Ht Hne Hsd Hnp.
  destruct (strip_common_all_spec sdir (cm ++ t)) as (c' & E1 & E2).
  destruct (strip_common_all sdir (cm ++ t)) as [r' t'] eqn:ES. cbn [fst snd] in *.
  assert (Ht' : t' <> []).
  { intro E. subst t'. rewrite app_nil_r in E2. apply (Hnp r'). rewrite E2. exact E1. }
  exists c', r', t'. repeat split; try assumption.
  rewrite normpath_rel_spelling by assumption.
  (* the joined path *)
  destruct (rel_spelling_first 0 r t Hne Ht) as (x & tl0 & E & Hx).
  assert (HA : segs_ok (srcdir ++ cm ++ r)) by (repeat (apply segs_ok_app; split); assumption).
  assert (HAne : srcdir ++ cm ++ r <> []) by (destruct srcdir; [congruence|discriminate]).
  destruct (exists_last HAne) as (A0 & lastseg & EA).
  assert (Hlast : seg_ok lastseg). { rewrite EA in HA. apply segs_ok_app in HA as [_ HA]. inversion HA; assumption. }
  destruct (seg_last_char lastseg Hlast) as (ls' & xl & Els & Hxl).
  assert (Hend : endswith (c_slash :: join s_slash (srcdir ++ cm ++ r)) s_slash = false).
  { rewrite EA, Els. destruct (join_last_char A0 ls' xl) as [q Hq].
    match goal with |- endswith ?X _ = _ =>
      assert (HX : X = (c_slash :: q) ++ [xl]) by (cbn [app]; f_equal; exact Hq); rewrite HX end.
    rewrite endswith_slash_last. apply N.eqb_neq. intro Ec. apply Hxl. symmetry. exact Ec. }
  assert (Hrel : startswith (rel_spelling 0 r t) s_slash = false).
  { rewrite E. cbn [startswith s_slash]. apply N.eqb_neq in Hx. rewrite N.eqb_sym in Hx. rewrite Hx. reflexivity. }
  cbn [pjoin]. rewrite Hrel. cbn [is_nil orb]. rewrite Hend.
  set (sp := repeat s_dotdot (length r) ++ t).
  assert (Hsp : sp <> []) by (unfold sp; destruct (length r); [cbn; assumption|discriminate]).
  assert (Hstr : (c_slash :: join s_slash (srcdir ++ cm ++ r)) ++ s_slash ++ rel_spelling 0 r t
                 = c_slash :: join s_slash ((srcdir ++ cm ++ r) ++ sp)).
  { rewrite (join_app s_slash (srcdir ++ cm ++ r) sp) by assumption. reflexivity. }
  rewrite Hstr. unfold relpath.
  assert (Hnorm : norm_loop true ((srcdir ++ cm ++ r) ++ sp) [] = srcdir ++ cm ++ t).
  { unfold sp. pose proof (norm_up_down true (srcdir ++ cm) r t 0 []) as N0. cbn [repeat app rev] in N0.
    rewrite <- !app_assoc in N0. rewrite <- !app_assoc. apply N0; try assumption. apply segs_ok_app. split; assumption. }
  assert (Hp1 : normpath (c_slash :: join s_slash ((srcdir ++ cm ++ r) ++ sp)) = c_slash :: join s_slash (srcdir ++ cm ++ t)).
  { assert (Hne2 : (srcdir ++ cm ++ r) ++ sp <> []) by (destruct srcdir; [congruence|discriminate]).
    assert (Hns : Forall (fun s => ~ In c_slash s) ((srcdir ++ cm ++ r) ++ sp)).
    { apply Forall_app. split; [eapply Forall_impl; [|exact HA]; intros a (_ & _ & _ & Ha); exact Ha|].
      unfold sp. apply (noslash_spelling 0 (length r) t Ht). }
    assert (Hfirst : exists x0 s0 rest, (srcdir ++ cm ++ r) ++ sp = (x0 :: s0) :: rest /\ x0 <> c_slash).
    { destruct srcdir as [|p0 srcdir]; [congruence|]. inversion Hs; subst.
      destruct (seg_first_char p0) as (x0 & s0 & E0 & H0); [assumption|]. exists x0, s0. eexists. cbn [app]. rewrite E0. split; [reflexivity|assumption]. }
    destruct (normpath_abs_segs _ Hne2 Hns Hfirst) as [HN|HN]; rewrite Hnorm in HN; [exact HN|].
    destruct srcdir; [congruence|discriminate]. }
  rewrite Hp1.
  rewrite normpath_abs_ok; [|apply segs_ok_app; split; assumption|destruct srcdir; [congruence|discriminate]].
  rewrite !nonempty_segs_abs;
    [|apply segs_ok_app; split; [assumption|apply segs_ok_app; split; assumption]|destruct srcdir; [congruence|discriminate]
     |apply segs_ok_app; split; assumption|destruct srcdir; [congruence|discriminate]].
  rewrite strip_common_all_app. rewrite ES.
  unfold rel_spelling. cbn [repeat app].
  destruct (repeat s_dotdot (length r') ++ t') eqn:ER; [|reflexivity].
  exfalso. destruct (length r'); cbn in ER; [congruence|discriminate].
Qed.

(* ---------- the page URIs of the html and dirhtml builders ---------- *)

Lemma join_last_append sep l s x : join sep (l ++ [s]) ++ x = join sep (l ++ [s ++ x]).
Proof.
  induction l as [|p l IH]; [reflexivity|].
  destruct l as [|q l].
  - cbn [app join]. rewrite <- !app_assoc. reflexivity.
  - change ((p :: q :: l) ++ [s]) with (p :: q :: (l ++ [s])).
    change ((p :: q :: l) ++ [s ++ x]) with (p :: q :: (l ++ [s ++ x])).
    rewrite !join_cons. change (q :: l ++ [s]) with ((q :: l) ++ [s]). change (q :: l ++ [s ++ x]) with ((q :: l) ++ [s ++ x]).
    rewrite <- IH. rewrite <- !app_assoc. reflexivity.
Qed.

Lemma useg_ok_html z : useg_ok z -> useg_ok (z ++ s_html).
Proof.
  intros [(H1 & H2 & H3 & H4) H5]. destruct z as [|c z]; [congruence|].
  split; [repeat split|].
  - discriminate.
  - intro E. apply (f_equal (@length N)) in E. rewrite app_length in E. cbn in E. lia.
  - intro E. apply (f_equal (@length N)) in E. rewrite app_length in E. cbn in E. lia.
  - intro Hin. apply in_app_or in Hin as [Hin|Hin]; [contradiction|]. cbn in Hin.
    repeat (destruct Hin as [Hin|Hin]; [discriminate|]). destruct Hin.
  - intro Hin. apply in_app_or in Hin as [Hin|Hin]; [contradiction|]. cbn in Hin.
    repeat (destruct Hin as [Hin|Hin]; [discriminate|]). destruct Hin.
Qed.

(* the URI of a document's page, as a list of segments *)
Definition page_uri_segs (dirhtml : bool) (dn : list str) : list str :=
  match split_last dn with
  | Some (front, z) =>
      if dirhtml then (if str_eqb z s_index then front ++ [[]] else dn ++ [[]])
      else front ++ [z ++ s_html]
  | None => [[]]
  end.

Lemma target_uri_segs dirhtml dn : dn <> [] -> Forall useg_ok dn ->
  target_uri dirhtml (join s_slash dn) = join s_slash (page_uri_segs dirhtml dn)
  /\ uri_ok (page_uri_segs dirhtml dn).
Proof.
  intros Hne Hok. destruct (exists_last Hne) as (front & z & E). subst dn.
  assert (Hf : Forall useg_ok front) by (apply Forall_app in Hok; tauto).
  assert (Hz : useg_ok z) by (apply Forall_app in Hok as [_ Hok]; inversion Hok; assumption).
  unfold page_uri_segs, target_uri. rewrite split_last_app. destruct dirhtml.
  - change s_slash with [c_slash]. rewrite split_join by (try (destruct front; discriminate); apply useg_noslash; assumption).
    rewrite split_last_app. destruct (str_eqb z s_index).
    + split.
      * destruct front; reflexivity.
      * exists front, []. repeat split; auto.
    + split.
      * symmetry. etransitivity; [apply join_app_single; destruct front; discriminate|]. rewrite app_nil_r. reflexivity.
      * exists (front ++ [z]), []. repeat split; auto.
  - split.
    + apply join_last_append.
    + exists front, (z ++ s_html). repeat split; auto. right. apply useg_ok_html. assumption.
Qed.

(* for both builders and documents at any depth: resolving the relative URI that make_refnode
   computes against the URI of the referencing page gives the URI of the target page *)
Theorem builder_uri_roundtrip : forall dirhtml (from to : list str),
  from <> [] -> to <> [] -> Forall useg_ok from -> Forall useg_ok to ->
  resolve_ref (target_uri dirhtml (join s_slash from))
              (get_relative_uri dirhtml (join s_slash from) (join s_slash to))
  = target_uri dirhtml (join s_slash to).
Proof.
  intros dirhtml from to Hf Ht Hfo Hto. unfold get_relative_uri.
  destruct (target_uri_segs dirhtml from Hf Hfo) as [E1 U1].
  destruct (target_uri_segs dirhtml to Ht Hto) as [E2 U2].
  rewrite E1, E2. apply relative_uri_roundtrip; assumption.
Qed.
