(* Model of the Sphinx cross-document link path of MyST-Parser:
     DocutilsRenderer.render_link                      (mdit_to_docutils/base.py)
     SphinxRenderer.render_link_project/_path/_unknown (mdit_to_docutils/sphinx_.py)
     ResolveAnchorIds.apply (the part that forwards)   (mdit_to_docutils/transforms.py)
     MystReferenceResolver.run / resolve_myst_ref_doc / resolve_myst_ref_any /
       _resolve_ref_nested / _resolve_doc_nested       (sphinx_ext/myst_refs.py)
   and of the Sphinx functions they call (make_refnode, DownloadFileCollector).
   A project is a finite description of what the Sphinx environment holds after
   reading (oracle O_sphinx_env).  Executable definitions only. *)
From Coq Require Import List NArith Bool.
From MV Require Import Base.PyStr.
From MV Require Import XRef.Path.
From MV Require Import Gen.C12Links.
Import ListNotations.
Open Scope N_scope.

(* ---------- the project description ---------- *)

(* one entry of env.metadata[doc]["myst_slugs"]: slug -> (line, section id, title) *)
Record slugent := { sl_slug : str; sl_id : str; sl_title : str }.

(* an explicit target of the current document as ResolveAnchorIds sees it:
   name -> (label id, implicit title) *)
Record localent := { lo_name : str; lo_id : str; lo_title : option str }.

Record docrec := {
  d_name : str;                 (* docname, e.g. "a/b/two" *)
  d_dir : list str;             (* directory of its source file below srcdir *)
  d_title : str;                (* clean_astext(env.titles[docname]) *)
  d_slugs : list slugent;       (* in document order *)
  d_local : list localent }.

(* StandardDomain.anonlabels (every label) and .labels (those with a section name) *)
Record labelent := { lb_name : str; lb_doc : str; lb_id : str; lb_sect : option str }.

Record project := {
  p_srcdir : list str;          (* absolute, resolved *)
  p_suffixes : list str;        (* Project.source_suffix, in order *)
  p_docs : list docrec;         (* env.all_docs with titles and slugs *)
  p_labels : list labelent;
  p_files : list (list str);    (* every regular file below srcdir (sources included) *)
  p_nitpick : list str;         (* targets t with ("myst", t) in nitpick_ignore *)
  p_url_schemes : list str;     (* keys of myst_url_schemes *)
  p_dirhtml : bool;             (* builder: false = html, true = dirhtml *)
  p_all_external : bool;        (* myst_all_links_external *)
  p_commonmark_only : bool;     (* myst_commonmark_only *)
  p_gfm_only : bool }.          (* myst_gfm_only *)

(* the three switches under which DocutilsRenderer.render_link renders EVERY link as a plain URL
   (commonmark_only or gfm_only or all_links_external): no MyST link resolution then *)
Definition plain_url_mode (P : project) : bool :=
  orb (orb (p_commonmark_only P) (p_gfm_only P)) (p_all_external P).

Fixpoint find_doc (ds : list docrec) (n : str) : option docrec :=
  match ds with
  | [] => None
  | d :: r => if str_eqb (d_name d) n then Some d else find_doc r n
  end.

Fixpoint find_slug (ss : list slugent) (s : str) : option slugent :=
  match ss with
  | [] => None
  | e :: r => if str_eqb (sl_slug e) s then Some e else find_slug r s
  end.

Fixpoint find_local (ls : list localent) (n : str) : option localent :=
  match ls with
  | [] => None
  | e :: r => if str_eqb (lo_name e) n then Some e else find_local r n
  end.

Fixpoint find_label (ls : list labelent) (n : str) : option labelent :=
  match ls with
  | [] => None
  | e :: r => if str_eqb (lb_name e) n then Some e else find_label r n
  end.

Fixpoint mem_path (p : list str) (l : list (list str)) : bool :=
  match l with [] => false | x :: r => list_str_eqb p x || mem_path p r end.

Fixpoint is_prefix (p l : list str) : bool :=
  match p, l with
  | [], _ => true
  | x :: p', y :: l' => str_eqb x y && is_prefix p' l'
  | _ :: _, [] => false
  end.

(* Path.is_file(): the files of the description; nothing outside srcdir is addressed (O_fs) *)
Definition is_file (P : project) (loc : fsloc) : bool :=
  match loc with
  | Inside rel => mem_path rel (p_files P)
  | Outside _ => false
  end.

(* os.access(f, R_OK) in Sphinx's DownloadFileCollector: files and directories *)
Definition is_readable (P : project) (loc : fsloc) : bool :=
  match loc with
  | Inside rel => mem_path rel (p_files P)
                  || existsb (fun f => is_prefix rel f) (p_files P)
                  || is_nil rel
  | Outside abs => is_prefix abs (p_srcdir P)
  end.

(* ---------- small string helpers ---------- *)

(* str.lower(): ASCII by rule, the code points 128..591 from the table regenerated from the
   running interpreter (Gen/C12Links.v, a code point may lower to several), others unchanged
   (O_lower: generated label names stay below U+0250) *)
Fixpoint assoc_N (c : N) (t : list (N * list N)) : option (list N) :=
  match t with
  | [] => None
  | (k, v) :: r => if c =? k then Some v else assoc_N c r
  end.
Definition lower_c (c : N) : list N :=
  if (65 <=? c) && (c <=? 90) then [c + 32]
  else match assoc_N c gen_lower_table with Some v => v | None => [c] end.
Definition lower (s : str) : str := flat_map lower_c s.

Definition is_alpha (c : N) : bool := ((65 <=? c) && (c <=? 90)) || ((97 <=? c) && (c <=? 122)).
Definition is_digit (c : N) : bool := (48 <=? c) && (c <=? 57).
Definition is_scheme_char (c : N) : bool :=
  is_alpha c || is_digit c || (c =? 43) || (c =? 46) || (c =? 45).

(* REGEX_SCHEME: start of string, one ASCII letter, then any run of letters, digits,
   '+', '.', '-', then ':'.  Group 1 (everything before the colon) is returned.  As ':'
   is not in the class the greedy run has a single way to match. *)
Fixpoint scheme_rest (s : str) : option str :=
  match s with
  | [] => None
  | c :: r => if c =? c_colon then Some []
              else if is_scheme_char c then option_map (cons c) (scheme_rest r)
              else None
  end.

Definition scheme_of (s : str) : option str :=
  match s with
  | c :: r => if is_alpha c then option_map (cons c) (scheme_rest r) else None
  | [] => None
  end.

Fixpoint contains (s pat : str) : bool :=
  startswith s pat || match s with [] => false | _ :: s' => contains s' pat end.

Definition s_project : str := [112; 114; 111; 106; 101; 99; 116].   (* "project" *)
Definition s_path : str := [112; 97; 116; 104].                     (* "path" *)
Definition s_inv : str := [105; 110; 118].                          (* "inv" *)
Definition s_css : str := [58; 47; 47].                             (* "://" *)

Definition nonempty (s : str) : bool := negb (is_nil s).
(* Python truthiness of an optional string: None and "" are false *)
Definition truthy_ostr (o : option str) : option str :=
  match o with Some s => if nonempty s then Some s else None | None => None end.

Definition abs_str (P : project) (loc : fsloc) : str :=
  match loc with
  | Inside rel => c_slash :: join s_slash (p_srcdir P ++ rel)
  | Outside abs => s_slash ++ join s_slash abs
  end.

(* ---------- the link token and the renderer's classification ---------- *)

Record link := {
  l_dest : str;        (* href after markdown-it (normalizeLink/normalizeLinkText = id: O_mdurl) *)
  l_auto : bool;       (* token.info == "auto"  ( <scheme:...> ) *)
  l_children : bool;   (* len(token.children) > 0 *)
  l_include : option (str * list str) }.
    (* md_env["relative-docs"] when the link is in a file pulled in by {include} with
       :relative-docs: prefix  -> (prefix, directory of the included file below srcdir);
       source_dir is the directory of the including document *)

Definition l_explicit (l : link) : bool := negb (l_auto l) && l_children l.

Inductive cls :=
| C_url (uri : str)                         (* render_link_url: external reference *)
| C_anchor (href : str)                     (* render_link_anchor: reference id_link *)
| C_inv                                     (* render_link_inventory (property C19) *)
| C_doc (docname : str) (tid : option str)  (* pending_xref refdomain="doc" *)
| C_any (target : str)                      (* pending_xref refdomain=None *)
| C_download (reftarget : str) (shown : str) (* download_reference; literal shown if not explicit *)
| C_nofile (abs : str) (uri : str).         (* render_link_project: warning + url *)

(* destination.split("#", maxsplit=1) -> path_dest, path_id *)
Definition split_dest (dest : str) : str * option str := (before c_hash dest, after c_hash dest).

Definition abs_dir_str (P : project) (dir : list str) : str :=
  c_slash :: join s_slash (p_srcdir P ++ dir).

(* SphinxRenderer._handle_relative_docs *)
Definition handle_relative_docs (P : project) (d : docrec) (l : link) (dest : str) : str :=
  match l_include l with
  | None => dest
  | Some (prefix, incdir) =>
      if startswith dest prefix
      then relpath (pjoin (abs_dir_str P incdir) [normpath dest]) (abs_dir_str P (d_dir d))
      else dest
  end.

(* SphinxRenderer._abs_path: relfn2path raises ValueError on a NUL character -> None *)
Definition has_nul (s : str) : bool := mem_N 0 s.
Definition abs_path (P : project) (d : docrec) (path : str) : option fsloc :=
  if has_nul path then None else Some (relfn2path (p_srcdir P) (d_dir d) path).

Definition render_link_project (P : project) (d : docrec) (l : link) : cls :=
  let href := l_dest l in
  let dest := if startswith href (fst gen_project_prefix) then skipn (snd gen_project_prefix) href else href in
  if startswith dest s_hash then C_anchor dest
  else
    let dest := handle_relative_docs P d l dest in
    let '(path_dest, path_id) := split_dest dest in
    match abs_path P d path_dest with
    | None => C_nofile path_dest href
    | Some loc =>
        match truthy_ostr (path2doc (p_suffixes P) loc) with    (* if not docname: *)
        | None => C_nofile (abs_str P loc) href
        | Some docname => C_doc docname path_id
        end
    end.

(* render_link_path (after the repair: a local file that cannot be read is reported when the
   link is rendered, like a missing document of a project: link) *)
Definition render_link_path (P : project) (d : docrec) (l : link) : cls :=
  let href := l_dest l in
  let dest := if startswith href (fst gen_path_prefix) then skipn (snd gen_path_prefix) href else href in
  let dest := handle_relative_docs P d l dest in
  if contains dest s_css then C_download dest dest
  else match abs_path P d dest with
       | None => C_nofile dest href
       | Some loc => if is_readable P loc then C_download dest dest else C_nofile (abs_str P loc) href
       end.

Definition render_link_unknown (P : project) (d : docrec) (l : link) : cls :=
  let dest := handle_relative_docs P d l (l_dest l) in
  let '(path_dest, path_id) := split_dest dest in
  if match abs_path P d path_dest with Some loc => is_file P loc | None => false end then
    match truthy_ostr (path2doc (p_suffixes P) (relfn2path (p_srcdir P) (d_dir d) path_dest)) with   (* if docname: *)
    | Some docname => C_doc docname path_id
    | None => C_download path_dest path_dest
    end
  else
    (* a document referenced without its extension, with a heading anchor *)
    match path_id, find_doc (p_docs P) (docname_join (d_name d) path_dest) with
    | Some _, Some _ => C_doc (docname_join (d_name d) path_dest) path_id
    | _, _ => C_any dest
    end.

Definition opt_str_eqb (o : option str) (s : str) : bool :=
  match o with Some x => str_eqb x s | None => false end.

Definition render_link (P : project) (d : docrec) (l : link) : cls :=
  let href := l_dest l in
  if plain_url_mode P then C_url href
  else if startswith href s_hash then C_anchor href
  else
    let scheme := scheme_of href in
    if match scheme with Some s => mem_str s (p_url_schemes P) | None => false end then C_url href
    else if opt_str_eqb scheme s_inv then C_inv
    else if opt_str_eqb scheme s_path then render_link_path P d l
    else if opt_str_eqb scheme s_project then render_link_project P d l
    else if l_auto l then C_url href
    else render_link_unknown P d l.

(* ---------- outcomes ---------- *)

Inductive tgt :=
| T_uri (u : str)          (* reference internal refuri=u *)
| T_refid (i : str)        (* reference refid=i  (same page) *)
| T_fallback (i : str)     (* reference refid=normalizeLink(target): unresolved *)
| T_dl (loc : fsloc)       (* download_reference with a file name registered in env.dlfiles *)
| T_dl_missing             (* download_reference left without filename/refuri *)
| T_ext (u : str)          (* external reference refuri=u *)
| T_bare                   (* no reference node, only the inner inline *)
| T_other.                 (* not modelled here (inventory links) *)

Inductive txt :=
| X_children               (* the rendered children of the link token (nested markup) *)
| X_str (s : str)          (* an inline holding this text *)
| X_lit (s : str)          (* a literal holding this text *)
| X_none.                  (* nothing *)

Inductive warn :=
| W_missing (named : str)      (* myst.xref_missing, the message names this string *)
| W_ambiguous (named : str)    (* myst.xref_ambiguous *)
| W_unreadable.                (* Sphinx: download.not_readable *)

Record outcome := { o_tgt : tgt; o_txt : txt; o_warns : list warn }.

Definition mk (t : tgt) (x : txt) (w : list warn) : outcome :=
  {| o_tgt := t; o_txt := x; o_warns := w |}.

(* sphinx.util.nodes.make_refnode(builder, fromdocname, todocname, targetid, child) *)
Definition make_refnode (dirhtml : bool) (from to tid : str) : tgt :=
  if str_eqb from to && nonempty tid then T_refid tid
  else if nonempty tid then T_uri (get_relative_uri dirhtml from to ++ s_hash ++ tid)
  else T_uri (get_relative_uri dirhtml from to).

(* MystReferenceResolver.log_warning for XREF_MISSING (nitpick_ignore honoured) *)
Definition log_missing (P : project) (target : str) : list warn :=
  if nonempty target && mem_str target (p_nitpick P) then [] else [W_missing target].

(* resolve_myst_ref_doc *)
Definition doc_target_text (ref_docname : str) (ref_id : option str) : str :=
  match ref_id with
  | Some i => if nonempty i then ref_docname ++ s_hash ++ i else ref_docname
  | None => ref_docname
  end.

Definition resolve_myst_ref_doc (P : project) (from : str) (explicit : bool)
           (ref_docname : str) (ref_id : option str) : outcome :=
  match find_doc (p_docs P) ref_docname with
  | None =>
      mk T_bare (if explicit then X_children else X_lit ref_docname) (log_missing P ref_docname)
  | Some td =>
      let '(targetid, implicit, ws) :=
        match ref_id with
        | Some i =>
            if nonempty i then
              match find_slug (d_slugs td) i with
              | None => (i, [], log_missing P i)
              | Some e => (sl_id e, sl_title e, [])
              end
            else ([], d_title td, [])
        | None => ([], d_title td, [])
        end in
      mk (make_refnode (p_dirhtml P) from ref_docname targetid)
         (if explicit then X_children
          else if nonempty implicit then X_str implicit
          else X_lit (doc_target_text ref_docname ref_id)) ws
  end.

(* one candidate of resolve_myst_ref_any *)
Record cand := { c_role : str; c_tgt : tgt; c_txt : txt }.

Definition r_ref : str := [115; 116; 100; 58; 114; 101; 102].   (* "std:ref" *)
Definition r_doc : str := [115; 116; 100; 58; 100; 111; 99].   (* "std:doc" *)

(* _resolve_ref_nested *)
Definition resolve_ref_nested (P : project) (from : str) (explicit : bool) (reftarget : str)
  : option cand :=
  let target := lower reftarget in
  match find_label (p_labels P) target with
  | None => None
  | Some e =>
      if explicit then
        if nonempty (lb_doc e)
        then Some {| c_role := r_ref; c_tgt := make_refnode (p_dirhtml P) from (lb_doc e) (lb_id e); c_txt := X_children |}
        else None
      else
        match lb_sect e with
        | None => None
        | Some sect =>
            if nonempty (lb_doc e)
            then Some {| c_role := r_ref; c_tgt := make_refnode (p_dirhtml P) from (lb_doc e) (lb_id e); c_txt := X_str sect |}
            else None
        end
  end.

(* _resolve_doc_nested *)
Definition resolve_doc_nested (P : project) (from : str) (explicit : bool) (reftarget : str)
  : option cand :=
  let docname := docname_join from reftarget in
  match find_doc (p_docs P) docname with
  | None => None
  | Some td =>
      Some {| c_role := r_doc; c_tgt := make_refnode (p_dirhtml P) from docname [];
              c_txt := if explicit then X_children else X_str (d_title td) |}
  end.

Definition opt_list {A} (o : option A) : list A := match o with Some x => [x] | None => [] end.

Section Resolver.
  (* the parts of the Sphinx environment MyST only queries (oracles): the remaining std
     object types, the other domains' resolve_any_xref, the intersphinx inventories *)
  Variable std_objects : str -> list cand.
  Variable other_domains : str -> list cand.
  Variable intersphinx : str -> option cand.

  (* resolve_myst_ref_any: candidates in the order coded; the first one wins *)
  Definition any_candidates (P : project) (from : str) (explicit : bool) (target : str) : list cand :=
    opt_list (resolve_ref_nested P from explicit target)
    ++ opt_list (resolve_doc_nested P from explicit target)
    ++ std_objects target ++ other_domains target.

  (* "ensure the output node has some content" *)
  Definition ensure_content (target : str) (x : txt) : txt :=
    match x with
    | X_none => X_lit target
    | X_str s => if nonempty s then x else X_lit target
    | _ => x
    end.

  (* MystReferenceResolver.run for a pending_xref with refdomain=None *)
  Definition resolve_any (P : project) (from : str) (explicit : bool) (target : str) : outcome :=
    match any_candidates P from explicit target with
    | c :: rest =>
        mk (c_tgt c) (ensure_content target (c_txt c))
           (match rest with [] => [] | _ => [W_ambiguous target] end)
    | [] =>
        match intersphinx target with
        | Some c => mk (c_tgt c) (ensure_content target (c_txt c)) []
        | None =>
            mk (T_fallback target)
               (if explicit then X_children else X_lit target)
               (log_missing P target)
        end
    end.

  (* ResolveAnchorIds for a reference with id_link (href = "#target") *)
  Definition resolve_anchor (P : project) (d : docrec) (explicit : bool) (href : str) : outcome :=
    let target := tl href in
    match find_local (d_local d) target with
    | Some e =>
        mk (T_refid (lo_id e))
           (if explicit then X_children
            else match lo_title e with
                 | Some t => if nonempty t then X_str t else X_str (c_hash :: target)
                 | None => X_str (c_hash :: target)
                 end) []
    | None =>
        match find_slug (d_slugs d) target with
        | Some e =>
            mk (T_refid (sl_id e))
               (if explicit then X_children
                else if nonempty (sl_title e) then X_str (sl_title e) else X_str (c_hash :: target)) []
        | None => resolve_any P (d_name d) explicit target
        end
    end.

  (* Sphinx DownloadFileCollector.process_doc on a download_reference *)
  Definition collect_download (P : project) (d : docrec) (reftarget : str) : tgt * list warn :=
    if contains reftarget s_css then (T_ext reftarget, [])
    else
      let loc := relfn2path (p_srcdir P) (d_dir d) reftarget in
      if is_readable P loc then (T_dl loc, []) else (T_dl_missing, [W_unreadable]).

  (* a link of document [d] from the token to the resolved doctree *)
  Definition run_link (P : project) (d : docrec) (l : link) : outcome :=
    let explicit := l_explicit l in
    match render_link P d l with
    | C_url u => mk (T_ext u) X_children []
    | C_inv => mk T_other X_none []
    | C_anchor href => resolve_anchor P d explicit href
    | C_doc docname tid => resolve_myst_ref_doc P (d_name d) explicit docname tid
    | C_any target => resolve_any P (d_name d) explicit target
    | C_download reftarget shown =>
        let '(t, ws) := collect_download P d reftarget in
        mk t (if explicit then X_children else X_lit shown) ws
    | C_nofile abs uri => mk (T_ext uri) X_children [W_missing abs]
    end.
End Resolver.

(* the instance used by the correspondence check: a project with no objects in other
   domains and no intersphinx inventories *)
Definition no_cands (_ : str) : list cand := [].
Definition no_cand (_ : str) : option cand := None.
Definition run_link_plain : project -> docrec -> link -> outcome :=
  run_link no_cands no_cands no_cand.

Definition count_missing (ws : list warn) : nat :=
  length (filter (fun w => match w with W_missing _ => true | _ => false end) ws).
