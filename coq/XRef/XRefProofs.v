(* Lemmas about the link classifier and the reference resolver of XRef/XRefModel.v. *)
From Coq Require Import List NArith Bool Lia.
From MV Require Import Base.PyStr.
From MV Require Import XRef.Path.
From MV Require Import XRef.PathProofs.
From MV Require Import Gen.C12Links.
From MV Require Import XRef.XRefModel.
Import ListNotations.
Open Scope N_scope.

(* ---------- spellings of a path ---------- *)

(* [sp] is a way to write the srcdir-relative path [tp] in a document whose directory is
   [docdir]: relative (any number of "./", "../" up to ANY common ancestor, then down) or
   with a leading "/" *)
Inductive spells (docdir tp : list str) : str -> Prop :=
| Sp_rel : forall cm r t k, docdir = cm ++ r -> tp = cm ++ t -> t <> [] ->
    spells docdir tp (rel_spelling k r t)
| Sp_abs : tp <> [] -> spells docdir tp (abs_spelling tp).

Lemma name_ok_parts l : Forall name_ok l ->
  segs_ok l /\ Forall (fun s => ~ In c_hash s) l /\ Forall (fun s => ~ In c_colon s) l
  /\ Forall (fun s => ~ In 0 s) l.
Proof.
  intro H. repeat split; (eapply Forall_impl; [|exact H]); intros a (Ha & _ & Hh & Hc & Hn); assumption.
Qed.

Theorem relfn2path_spells : forall srcdir docdir tp sp,
  segs_ok srcdir -> segs_ok docdir -> Forall name_ok tp -> spells docdir tp sp ->
  relfn2path srcdir docdir sp = Inside tp.
Proof.
  intros srcdir docdir tp sp Hs Hd Ht H. destruct H as [cm r t k E1 E2 Hne|Hne].
  - subst. apply Forall_app in Ht as [_ Ht]. apply segs_ok_app in Hd as [Hc Hr].
    apply relfn2path_rel_spelling; assumption.
  - apply relfn2path_abs_spelling; [assumption| |assumption]. apply name_seg. assumption.
Qed.

Lemma notin_repeat (c : N) (s : str) n : ~ In c s -> Forall (fun x => ~ In c x) (repeat s n).
Proof. intro H. apply Forall_forall. intros x Hx. apply repeat_spec in Hx. subst. exact H. Qed.

Lemma spelling_notin c docdir tp sp : c <> c_dot -> c <> c_slash ->
  Forall (fun s => ~ In c s) tp -> spells docdir tp sp -> ~ In c sp.
Proof.
  intros Hd Hs Ht H. destruct H as [cm r t k E1 E2 Hne|Hne].
  - subst. apply Forall_app in Ht as [_ Ht]. unfold rel_spelling. intro Hin.
    apply in_join in Hin as [Hin|[s [Hin Hc]]].
    + cbn in Hin. destruct Hin as [Hin|[]]. congruence.
    + apply in_app_or in Hin as [Hin|Hin]; [|apply in_app_or in Hin as [Hin|Hin]].
      * apply repeat_spec in Hin. subst. cbn in Hc. destruct Hc as [Hc|[]]. congruence.
      * apply repeat_spec in Hin. subst. cbn in Hc. destruct Hc as [Hc|[Hc|[]]]; congruence.
      * rewrite Forall_forall in Ht. apply (Ht s Hin). exact Hc.
  - unfold abs_spelling. intros [Hin|Hin]; [congruence|].
    apply in_join in Hin as [Hin|[s [Hin Hc]]].
    + cbn in Hin. destruct Hin as [Hin|[]]. congruence.
    + rewrite Forall_forall in Ht. apply (Ht s Hin). exact Hc.
Qed.

Lemma spells_clean docdir tp sp : Forall name_ok tp -> spells docdir tp sp ->
  ~ In c_hash sp /\ ~ In c_colon sp.
Proof.
  intros Ht H. destruct (name_ok_parts tp Ht) as (_ & Hh & Hc & _).
  split; eapply spelling_notin; try eassumption; discriminate.
Qed.

Lemma spells_no_nul docdir tp sp : Forall name_ok tp -> spells docdir tp sp -> has_nul sp = false.
Proof.
  intros Ht H. destruct (name_ok_parts tp Ht) as (_ & _ & _ & Hn).
  unfold has_nul. destruct (mem_N 0 sp) eqn:E; [|reflexivity]. apply mem_N_In in E.
  exfalso. revert E. eapply spelling_notin; try eassumption; discriminate.
Qed.

(* ---------- the scheme regex ---------- *)

Lemma scheme_rest_nocolon s : ~ In c_colon s -> scheme_rest s = None.
Proof.
  induction s as [|c s IH]; intro H; [reflexivity|].
  cbn [scheme_rest]. destruct (c =? c_colon) eqn:E.
  - apply N.eqb_eq in E. exfalso. apply H. left. exact E.
  - rewrite IH; [destruct (is_scheme_char c); reflexivity|]. intro H1. apply H. right. exact H1.
Qed.

Lemma scheme_rest_stop p c r : ~ In c_colon p -> c <> c_colon -> is_scheme_char c = false ->
  scheme_rest (p ++ c :: r) = None.
Proof.
  induction p as [|x p IH]; intros Hp Hc Hs.
  - cbn [app scheme_rest]. apply N.eqb_neq in Hc. rewrite Hc, Hs. reflexivity.
  - cbn [app scheme_rest]. destruct (x =? c_colon) eqn:E.
    + apply N.eqb_eq in E. exfalso. apply Hp. left. exact E.
    + rewrite IH; [destruct (is_scheme_char x); reflexivity| |assumption|assumption].
      intro H1. apply Hp. right. exact H1.
Qed.

Lemma scheme_of_nocolon s : ~ In c_colon s -> scheme_of s = None.
Proof.
  intro H. destruct s as [|c s]; [reflexivity|]. cbn [scheme_of].
  rewrite scheme_rest_nocolon; [destruct (is_alpha c); reflexivity|]. intro H1. apply H. right. exact H1.
Qed.

Lemma scheme_of_hash p r : ~ In c_colon p -> scheme_of (p ++ c_hash :: r) = None.
Proof.
  intro H. destruct p as [|c p]; [reflexivity|]. cbn [app scheme_of].
  rewrite scheme_rest_stop; [destruct (is_alpha c); reflexivity| |discriminate|reflexivity].
  intro H1. apply H. right. exact H1.
Qed.

Lemma scheme_of_project rest : scheme_of (s_project ++ c_colon :: rest) = Some s_project.
Proof. reflexivity. Qed.

Lemma scheme_of_path rest : scheme_of (s_path ++ c_colon :: rest) = Some s_path.
Proof. reflexivity. Qed.

Lemma startswith_app p r : startswith (p ++ r) p = true.
Proof.
  induction p as [|c p IH]; [apply startswith_nil|]. cbn [app startswith]. rewrite N.eqb_refl. exact IH.
Qed.

Lemma skipn_app_len {A} (p r : list A) : skipn (length p) (p ++ r) = r.
Proof. induction p as [|c p IH]; [reflexivity|]. cbn [length app skipn]. exact IH. Qed.

Lemma startswith_notin c s : ~ In c s -> startswith s [c] = false.
Proof.
  intro H. destruct s as [|x s]; [reflexivity|]. cbn [startswith].
  destruct (c =? x) eqn:E; [|reflexivity]. apply N.eqb_eq in E. exfalso. apply H. left. symmetry. exact E.
Qed.

Lemma contains_css_nocolon s : ~ In c_colon s -> contains s s_css = false.
Proof.
  induction s as [|x s IH]; intro H; [reflexivity|].
  cbn [contains startswith s_css]. destruct (c_colon =? x) eqn:E.
  - apply N.eqb_eq in E. exfalso. apply H. left. symmetry. exact E.
  - change (58 =? x) with (c_colon =? x). rewrite E. cbn [andb orb]. apply IH. intro H1. apply H. right. exact H1.
Qed.

(* ---------- render_link: which branch ---------- *)

Lemma render_link_is_unknown P d l : plain_url_mode P = false ->
  startswith (l_dest l) s_hash = false -> scheme_of (l_dest l) = None -> l_auto l = false ->
  render_link P d l = render_link_unknown P d l.
Proof. intros H0 H1 H2 H3. unfold render_link. rewrite H0, H1, H2, H3. reflexivity. Qed.

Lemma render_link_is_project P d l rest : plain_url_mode P = false ->
  l_dest l = s_project ++ c_colon :: rest -> mem_str s_project (p_url_schemes P) = false ->
  render_link P d l = render_link_project P d l.
Proof.
  intros H0 H1 H2. unfold render_link. rewrite H0, H1. rewrite scheme_of_project. rewrite H2. reflexivity.
Qed.

Lemma render_link_is_path P d l rest : plain_url_mode P = false ->
  l_dest l = s_path ++ c_colon :: rest -> mem_str s_path (p_url_schemes P) = false ->
  render_link P d l = render_link_path P d l.
Proof.
  intros H0 H1 H2. unfold render_link. rewrite H0, H1. rewrite scheme_of_path. rewrite H2. reflexivity.
Qed.

Lemma truthy_some (dn : str) : dn <> [] -> truthy_ostr (Some dn) = Some dn.
Proof. intro H. destruct dn; [congruence|reflexivity]. Qed.

Definition mklink (dest : str) (auto children : bool) : link :=
  {| l_dest := dest; l_auto := auto; l_children := children; l_include := None |}.

(* a link inside a file pulled in by {include} :relative-docs: prefix (file in directory incdir) *)
Definition mklink_inc (dest : str) (auto children : bool) (prefix : str) (incdir : list str) : link :=
  {| l_dest := dest; l_auto := auto; l_children := children; l_include := Some (prefix, incdir) |}.

Definition with_frag (sp : str) (frag : option str) : str :=
  match frag with None => sp | Some f => sp ++ c_hash :: f end.

Lemma split_dest_frag sp frag : ~ In c_hash sp ->
  split_dest (with_frag sp frag) = (sp, frag).
Proof.
  intro H. unfold split_dest, with_frag. destruct frag as [f|].
  - rewrite before_app, after_app by assumption. reflexivity.
  - rewrite before_nosep, after_nosep by assumption. reflexivity.
Qed.

Lemma scheme_of_with_frag sp frag : ~ In c_colon sp -> scheme_of (with_frag sp frag) = None.
Proof.
  intro H. destruct frag; cbn [with_frag]; [apply scheme_of_hash|apply scheme_of_nocolon]; assumption.
Qed.

Lemma startswith_hash_with_frag sp frag : sp <> [] -> ~ In c_hash sp ->
  startswith (with_frag sp frag) s_hash = false.
Proof.
  intros Hne H. destruct sp as [|x sp]; [congruence|].
  destruct frag; cbn [with_frag app startswith s_hash];
    (destruct (c_hash =? x) eqn:E; [apply N.eqb_eq in E; exfalso; apply H; left; symmetry; exact E|reflexivity]).
Qed.

Lemma spells_nonempty docdir tp sp : Forall name_ok tp -> spells docdir tp sp -> sp <> [].
Proof.
  intros Ht H. destruct H as [cm r t k E1 E2 Hne|Hne].
  - subst. apply Forall_app in Ht as [_ Ht].
    destruct (rel_spelling_first k r t Hne (name_seg t Ht)) as (x & tl0 & E & _). rewrite E. discriminate.
  - discriminate.
Qed.

Section Spellings.
  Variable P : project.
  Variable d : docrec.
  Variable tp : list str.      (* the intended file, relative to the source directory *)
  Variable sp : str.           (* how it is written *)
  Hypothesis Hsrc : segs_ok (p_srcdir P).
  Hypothesis Hdir : segs_ok (d_dir d).
  Hypothesis Htp : Forall name_ok tp.
  Hypothesis Hsp : spells (d_dir d) tp sp.
  Hypothesis Hext : plain_url_mode P = false.

  Lemma sp_loc : relfn2path (p_srcdir P) (d_dir d) sp = Inside tp.
  Proof. apply relfn2path_spells; assumption. Qed.

  Lemma sp_abs : abs_path P d sp = Some (Inside tp).
  Proof. unfold abs_path. rewrite (spells_no_nul _ _ _ Htp Hsp), sp_loc. reflexivity. Qed.

  (* [text](sp) / [text](sp#frag) to a source file *)
  Lemma unknown_doc : forall dn frag ch,
    is_file P (Inside tp) = true -> path2doc (p_suffixes P) (Inside tp) = Some dn -> dn <> [] ->
    render_link P d (mklink (with_frag sp frag) false ch) = C_doc dn frag.
  Proof.
    intros dn frag ch Hf Hd Hdn. destruct (spells_clean _ _ _ Htp Hsp) as [Hh Hc].
    rewrite render_link_is_unknown; [|assumption| | |]; cbn [l_dest l_auto mklink];
      [|apply startswith_hash_with_frag; [eapply spells_nonempty; eassumption|assumption]
       |apply scheme_of_with_frag; assumption|reflexivity].
    unfold render_link_unknown, handle_relative_docs. cbn [l_dest l_include mklink]. rewrite split_dest_frag by assumption.
    rewrite sp_abs, sp_loc, Hf, Hd, (truthy_some dn Hdn). reflexivity.
  Qed.

  (* [text](sp) to a file that is not a document *)
  Lemma unknown_file : forall ch,
    is_file P (Inside tp) = true -> path2doc (p_suffixes P) (Inside tp) = None ->
    render_link P d (mklink sp false ch) = C_download sp sp
    /\ collect_download P d sp = (T_dl (Inside tp), []).
  Proof.
    intros ch Hf Hd. destruct (spells_clean _ _ _ Htp Hsp) as [Hh Hc].
    pose proof (contains_css_nocolon sp Hc) as EC. split.
    - rewrite render_link_is_unknown; [|assumption| | |]; cbn [l_dest l_auto mklink];
        [|apply (startswith_hash_with_frag sp None); [eapply spells_nonempty; eassumption|assumption]
         |apply scheme_of_nocolon; assumption|reflexivity].
      unfold render_link_unknown, handle_relative_docs. cbn [l_dest l_include mklink].
      pose proof (split_dest_frag sp None Hh) as Hsd. cbn [with_frag] in Hsd. rewrite Hsd.
      rewrite sp_abs, sp_loc, Hf, Hd. reflexivity.
    - unfold collect_download. rewrite EC, sp_loc.
      unfold is_readable. cbn [is_file] in Hf. rewrite Hf. reflexivity.
  Qed.

  (* <project:sp>, [text](project:sp), with or without #frag: no is_file test *)
  Lemma project_doc : forall dn frag auto ch,
    mem_str s_project (p_url_schemes P) = false ->
    path2doc (p_suffixes P) (Inside tp) = Some dn -> dn <> [] ->
    render_link P d (mklink (s_project ++ c_colon :: with_frag sp frag) auto ch) = C_doc dn frag.
  Proof.
    intros dn frag auto ch Hu Hd Hdn. destruct (spells_clean _ _ _ Htp Hsp) as [Hh Hc].
    rewrite (render_link_is_project P d _ (with_frag sp frag)); [|assumption|reflexivity|assumption].
    unfold render_link_project. cbn [l_dest mklink].
    change (s_project ++ c_colon :: with_frag sp frag) with ((s_project ++ [c_colon]) ++ with_frag sp frag).
    change (fst gen_project_prefix) with (s_project ++ [c_colon]).
    change (snd gen_project_prefix) with (length (s_project ++ [c_colon])).
    rewrite startswith_app, skipn_app_len.
    rewrite startswith_hash_with_frag; [|eapply spells_nonempty; eassumption|assumption].
    unfold handle_relative_docs. cbn [l_include mklink].
    rewrite split_dest_frag by assumption. rewrite sp_abs, Hd, (truthy_some dn Hdn). reflexivity.
  Qed.

  (* <path:sp>, [text](path:sp) to an existing file *)
  Lemma path_file : forall auto ch,
    mem_str s_path (p_url_schemes P) = false -> is_file P (Inside tp) = true ->
    render_link P d (mklink (s_path ++ c_colon :: sp) auto ch) = C_download sp sp.
  Proof.
    intros auto ch Hu Hf.
    rewrite (render_link_is_path P d _ sp); [|assumption|reflexivity|assumption].
    unfold render_link_path, handle_relative_docs. cbn [l_dest l_include mklink].
    change (s_path ++ c_colon :: sp) with ((s_path ++ [c_colon]) ++ sp).
    change (fst gen_path_prefix) with (s_path ++ [c_colon]).
    change (snd gen_path_prefix) with (length (s_path ++ [c_colon])).
    rewrite startswith_app, skipn_app_len. destruct (spells_clean _ _ _ Htp Hsp) as [_ Hc].
    rewrite (contains_css_nocolon sp Hc), sp_abs.
    unfold is_readable. cbn [is_file] in Hf. rewrite Hf. reflexivity.
  Qed.

  (* ... and to a file that does not exist: reported when the link is rendered *)
  Lemma path_file_missing : forall auto ch,
    mem_str s_path (p_url_schemes P) = false -> is_readable P (Inside tp) = false ->
    render_link P d (mklink (s_path ++ c_colon :: sp) auto ch)
    = C_nofile (abs_str P (Inside tp)) (s_path ++ c_colon :: sp).
  Proof.
    intros auto ch Hu Hf. destruct (spells_clean _ _ _ Htp Hsp) as [Hh Hc].
    rewrite (render_link_is_path P d _ sp); [|assumption|reflexivity|assumption].
    unfold render_link_path, handle_relative_docs. cbn [l_dest l_include mklink].
    change (s_path ++ c_colon :: sp) with ((s_path ++ [c_colon]) ++ sp).
    change (fst gen_path_prefix) with (s_path ++ [c_colon]).
    change (snd gen_path_prefix) with (length (s_path ++ [c_colon])).
    rewrite startswith_app, skipn_app_len. rewrite (contains_css_nocolon sp Hc), sp_abs, Hf. reflexivity.
  Qed.

  Lemma collect_file : is_file P (Inside tp) = true ->
    collect_download P d sp = (T_dl (Inside tp), []).
  Proof.
    intro Hf. destruct (spells_clean _ _ _ Htp Hsp) as [Hh Hc].
    unfold collect_download. rewrite (contains_css_nocolon sp Hc), sp_loc.
    unfold is_readable. cbn [is_file] in Hf. rewrite Hf. reflexivity.
  Qed.
End Spellings.

(* every spelling of a file below the source directory, in every link form *)
Theorem path_spellings_all : forall (P : project) (d : docrec) (tp : list str) (sp : str),
  segs_ok (p_srcdir P) -> segs_ok (d_dir d) -> Forall name_ok tp -> spells (d_dir d) tp sp ->
  plain_url_mode P = false ->
  relfn2path (p_srcdir P) (d_dir d) sp = Inside tp
  /\ (forall dn frag ch,
        is_file P (Inside tp) = true -> path2doc (p_suffixes P) (Inside tp) = Some dn -> dn <> [] ->
        render_link P d (mklink (with_frag sp frag) false ch) = C_doc dn frag)
  /\ (forall dn frag auto ch,
        mem_str s_project (p_url_schemes P) = false -> path2doc (p_suffixes P) (Inside tp) = Some dn -> dn <> [] ->
        render_link P d (mklink (s_project ++ c_colon :: with_frag sp frag) auto ch) = C_doc dn frag)
  /\ (forall ch,
        is_file P (Inside tp) = true -> path2doc (p_suffixes P) (Inside tp) = None ->
        render_link P d (mklink sp false ch) = C_download sp sp
        /\ collect_download P d sp = (T_dl (Inside tp), []))
  /\ (forall auto ch,
        mem_str s_path (p_url_schemes P) = false ->
        (is_file P (Inside tp) = true ->
           render_link P d (mklink (s_path ++ c_colon :: sp) auto ch) = C_download sp sp
           /\ collect_download P d sp = (T_dl (Inside tp), []))
        /\ (is_readable P (Inside tp) = false ->
           render_link P d (mklink (s_path ++ c_colon :: sp) auto ch)
           = C_nofile (abs_str P (Inside tp)) (s_path ++ c_colon :: sp))).
Proof.
  intros P d tp sp H1 H2 H3 H4 H5. split; [apply sp_loc; assumption|].
  split; [intros; apply (unknown_doc P d tp sp); assumption|].
  split; [intros; apply (project_doc P d tp sp); assumption|].
  split; [intros; apply (unknown_file P d tp sp); assumption|].
  intros auto ch Hu. split.
  - intro Hf. split; [apply (path_file P d tp sp); assumption|apply (collect_file P d tp sp); assumption].
  - intro Hf. apply (path_file_missing P d tp sp); assumption.
Qed.

(* the docname without extension, through docname_join *)
Theorem docname_join_spells : forall docdir bn tdn sp,
  segs_ok docdir -> seg_ok bn -> segs_ok tdn -> spells docdir tdn sp ->
  docname_join (join s_slash (docdir ++ [bn])) sp = join s_slash tdn.
Proof.
  intros docdir bn tdn sp Hd Hb Ht H. destruct H as [cm r t k E1 E2 Hne|Hne].
  - subst. apply segs_ok_app in Hd as [Hc Hr]. apply segs_ok_app in Ht as [_ Ht].
    rewrite <- app_assoc. apply docname_join_rel_spelling; assumption.
  - apply docname_join_abs_spelling; assumption.
Qed.


(* [text](docname#anchor): the docname without extension, through docname_join, with an anchor *)
Theorem unknown_docname_anchor : forall P d bn tdn sp frag ch td,
  segs_ok (d_dir d) -> seg_ok bn -> d_name d = join s_slash (d_dir d ++ [bn]) ->
  Forall name_ok tdn -> spells (d_dir d) tdn sp ->
  is_file P (relfn2path (p_srcdir P) (d_dir d) sp) = false ->
  find_doc (p_docs P) (join s_slash tdn) = Some td -> plain_url_mode P = false ->
  render_link P d (mklink (with_frag sp (Some frag)) false ch) = C_doc (join s_slash tdn) (Some frag).
Proof.
  intros P d bn tdn sp frag ch td Hdir Hbn Hname Ht Hsp Hf Hfind Hext.
  destruct (spells_clean _ _ _ Ht Hsp) as [Hh Hc].
  rewrite render_link_is_unknown; cbn [l_dest l_auto mklink];
    [|assumption|apply startswith_hash_with_frag; [eapply spells_nonempty; eassumption|assumption]
     |apply scheme_of_with_frag; assumption|reflexivity].
  unfold render_link_unknown, handle_relative_docs. cbn [l_dest l_include mklink].
  rewrite split_dest_frag by assumption. unfold abs_path. rewrite (spells_no_nul _ _ _ Ht Hsp), Hf. rewrite Hname.
  rewrite (docname_join_spells (d_dir d) bn tdn sp Hdir Hbn (name_seg tdn Ht) Hsp). rewrite Hfind. reflexivity.
Qed.

(* ---------- links inside a file included with :relative-docs: ---------- *)

Lemma last_seg_frag_ok z f : seg_ok z -> ~ In c_slash f -> seg_ok (z ++ c_hash :: f).
Proof.
  intros (H1 & H2 & H3 & H4) Hf. destruct z as [|c z]; [congruence|]. repeat split.
  - discriminate.
  - intro E. apply (f_equal (@length N)) in E. rewrite app_length in E. cbn in E. lia.
  - intro E. cbn in E. inversion E as [[E1 E2]]. destruct z as [|c2 z]; [discriminate|].
    cbn in E2. inversion E2 as [[E3 E4]]. destruct z; discriminate.
  - intro Hin. apply in_app_or in Hin as [Hin|[Hin|Hin]]; [contradiction|discriminate|contradiction].
Qed.

Lemma with_frag_rel_spelling k r tf z f :
  with_frag (rel_spelling k r (tf ++ [z])) (Some f) = rel_spelling k r (tf ++ [z ++ c_hash :: f]).
Proof.
  unfold with_frag, rel_spelling. rewrite !app_assoc. apply join_last_append.
Qed.

(* The destination written in the included file - a spelling of tp relative to the included file's
   directory cm ++ r - is rewritten into a spelling of the same file relative to the including
   document's directory; a #fragment is carried along unchanged. *)
Theorem relative_docs_rewrite : forall P d l prefix cm r t k frag,
  segs_ok (p_srcdir P) -> p_srcdir P <> [] -> Forall name_ok (d_dir d) ->
  segs_ok cm -> segs_ok r -> segs_ok t -> t <> [] ->
  (forall x, d_dir d <> (cm ++ t) ++ x) ->
  (match frag with Some f => ~ In c_slash f | None => True end) ->
  l_include l = Some (prefix, cm ++ r) ->
  startswith (with_frag (rel_spelling k r t) frag) prefix = true ->
  exists sp', spells (d_dir d) (cm ++ t) sp'
    /\ handle_relative_docs P d l (with_frag (rel_spelling k r t) frag) = with_frag sp' frag.
Proof.
  intros P d l prefix cm r t k frag Hs Hsne Hd Hc Hr Ht Hne Hnp Hfr Hinc Hpre.
  unfold handle_relative_docs. rewrite Hinc, Hpre. unfold abs_dir_str.
  destruct frag as [f|].
  - destruct (exists_last Hne) as (tf & z & Et). subst t.
    assert (Hz : seg_ok z) by (apply segs_ok_app in Ht as [_ Ht]; inversion Ht; assumption).
    assert (Htf : segs_ok tf) by (apply segs_ok_app in Ht; tauto).
    rewrite with_frag_rel_spelling.
    assert (Ht2 : segs_ok (tf ++ [z ++ c_hash :: f])).
    { apply segs_ok_app. split; [assumption|]. constructor; [apply last_seg_frag_ok; assumption|constructor]. }
    assert (Hnp2 : forall x, d_dir d <> (cm ++ tf ++ [z ++ c_hash :: f]) ++ x).
    { intros x E. assert (Hin : In (z ++ c_hash :: f) (d_dir d)).
      { rewrite E. apply in_or_app. left. apply in_or_app. right. apply in_or_app. right. left. reflexivity. }
      rewrite Forall_forall in Hd. destruct (Hd _ Hin) as (_ & _ & Hh & _). apply Hh. apply in_or_app. right. left. reflexivity. }
    destruct (relpath_rewrite (p_srcdir P) cm r (tf ++ [z ++ c_hash :: f]) (d_dir d) k Hs Hsne Hc Hr Ht2
                (ltac:(destruct tf; discriminate)) (name_seg _ Hd) Hnp2) as (c' & r' & t' & E1 & E2 & Hne' & HR).
    rewrite HR.
    destruct (exists_last Hne') as (t'' & z' & Et'). subst t'.
    rewrite !app_assoc in E2. apply app_inj_tail in E2 as [E2 Ez]. subst z'.
    exists (rel_spelling 0 r' (t'' ++ [z])). split.
    + apply (Sp_rel (d_dir d) (cm ++ tf ++ [z]) c' r' (t'' ++ [z]) 0); [exact E1| |destruct t''; discriminate].
      rewrite !app_assoc. f_equal. exact E2.
    + symmetry. apply with_frag_rel_spelling.
  - cbn [with_frag] in *.
    destruct (relpath_rewrite (p_srcdir P) cm r t (d_dir d) k Hs Hsne Hc Hr Ht Hne (name_seg _ Hd) Hnp)
      as (c' & r' & t' & E1 & E2 & Hne' & HR).
    rewrite HR. exists (rel_spelling 0 r' t'). split; [|reflexivity].
    apply (Sp_rel (d_dir d) (cm ++ t) c' r' t' 0); assumption.
Qed.

(* ... hence the link of the included file reaches the same document as it would from the included
   file's own location (compare [unknown_doc] for a document whose directory is cm ++ r) *)
Theorem relative_docs_same_target : forall P d prefix cm r t k frag ch dn,
  segs_ok (p_srcdir P) -> p_srcdir P <> [] -> Forall name_ok (d_dir d) ->
  segs_ok cm -> segs_ok r -> Forall name_ok (cm ++ t) -> t <> [] ->
  (forall x, d_dir d <> (cm ++ t) ++ x) ->
  (match frag with Some f => ~ In c_slash f | None => True end) ->
  startswith (with_frag (rel_spelling k r t) frag) prefix = true ->
  is_file P (Inside (cm ++ t)) = true -> path2doc (p_suffixes P) (Inside (cm ++ t)) = Some dn -> dn <> [] ->
  plain_url_mode P = false ->
  render_link P d (mklink_inc (with_frag (rel_spelling k r t) frag) false ch prefix (cm ++ r)) = C_doc dn frag.
Proof.
  intros P d prefix cm r t k frag ch dn Hs Hsne Hd Hc Hr Htp Hne Hnp Hfr Hpre Hf Hdoc Hdn Hext.
  assert (Ht : Forall name_ok t) by (apply Forall_app in Htp; tauto).
  assert (Hsp0 : spells (cm ++ r) (cm ++ t) (rel_spelling k r t)) by (apply (Sp_rel _ _ cm r t k); auto).
  destruct (spells_clean _ _ _ Htp Hsp0) as [Hh0 Hc0].
  rewrite render_link_is_unknown; cbn [l_dest l_auto mklink_inc];
    [|assumption|apply startswith_hash_with_frag; [exact (spells_nonempty _ _ _ Htp Hsp0)|assumption]
     |apply scheme_of_with_frag; assumption|reflexivity].
  destruct (relative_docs_rewrite P d (mklink_inc (with_frag (rel_spelling k r t) frag) false ch prefix (cm ++ r))
              prefix cm r t k frag Hs Hsne Hd Hc Hr (name_seg _ Ht) Hne Hnp Hfr eq_refl Hpre) as (sp' & Hsp' & HR).
  unfold render_link_unknown. cbn [l_dest mklink_inc] in *. rewrite HR.
  destruct (spells_clean _ _ _ Htp Hsp') as [Hh Hcc].
  rewrite split_dest_frag by assumption.
  unfold abs_path. rewrite (spells_no_nul _ _ _ Htp Hsp').
  rewrite (relfn2path_spells _ _ _ _ Hs (name_seg _ Hd) Htp Hsp'). rewrite Hf, Hdoc, (truthy_some dn Hdn). reflexivity.
Qed.

(* ---------- the resolver ---------- *)


Lemma log_missing_le1 P t : (count_missing (log_missing P t) <= 1)%nat.
Proof. unfold log_missing. destruct (nonempty t && mem_str t (p_nitpick P)); cbn; lia. Qed.

Lemma log_missing_plain P t : mem_str t (p_nitpick P) = false -> log_missing P t = [W_missing t].
Proof. intro H. unfold log_missing. rewrite H, andb_false_r. reflexivity. Qed.

(* doc.md#slug is looked up in the slug table of the TARGET document *)
Theorem anchor_lookup : forall P from explicit dn td slug,
  find_doc (p_docs P) dn = Some td -> slug <> [] ->
  (forall e, find_slug (d_slugs td) slug = Some e -> sl_title e <> [] ->
     resolve_myst_ref_doc P from explicit dn (Some slug)
     = mk (make_refnode (p_dirhtml P) from dn (sl_id e)) (if explicit then X_children else X_str (sl_title e)) [])
  /\ (find_slug (d_slugs td) slug = None ->
     resolve_myst_ref_doc P from explicit dn (Some slug)
     = mk (make_refnode (p_dirhtml P) from dn slug)
          (if explicit then X_children else X_lit (dn ++ s_hash ++ slug)) (log_missing P slug)).
Proof.
  intros P from explicit dn td slug Hd Hs.
  assert (Hn : nonempty slug = true) by (destruct slug; [congruence|reflexivity]).
  split; [intros e He Ht|intro He]; unfold resolve_myst_ref_doc, doc_target_text; rewrite Hd, Hn, He; [|reflexivity].
  destruct (sl_title e) eqn:ET; [congruence|reflexivity].
Qed.

Lemma make_refnode_other b from to tid : from <> to -> tid <> [] ->
  make_refnode b from to tid = T_uri (get_relative_uri b from to ++ s_hash ++ tid).
Proof.
  intros H1 H2. unfold make_refnode. apply str_eqb_neq in H1. rewrite H1.
  destruct tid; [congruence|reflexivity].
Qed.

Lemma make_refnode_same b from tid : tid <> [] -> make_refnode b from from tid = T_refid tid.
Proof. intro H. unfold make_refnode. rewrite str_eqb_refl. destruct tid; [congruence|reflexivity]. Qed.

Lemma make_refnode_page b from to : make_refnode b from to [] = T_uri (get_relative_uri b from to).
Proof. unfold make_refnode. rewrite andb_false_r. reflexivity. Qed.

Lemma is_file_readable P loc : is_file P loc = true -> is_readable P loc = true.
Proof. destruct loc as [rel|abs]; cbn [is_file is_readable]; [intro H; rewrite H; reflexivity|discriminate]. Qed.

(* a download link that reaches Sphinx's collector always finds its file (or is remote) *)
Lemma download_resolvable P d l rt shown : render_link P d l = C_download rt shown ->
  contains rt s_css = true \/ is_readable P (relfn2path (p_srcdir P) (d_dir d) rt) = true.
Proof.
  unfold render_link.
  destruct (plain_url_mode P); [discriminate|].
  destruct (startswith (l_dest l) s_hash); [discriminate|].
  destruct (match scheme_of (l_dest l) with Some s => mem_str s (p_url_schemes P) | None => false end); [discriminate|].
  destruct (opt_str_eqb (scheme_of (l_dest l)) s_inv); [discriminate|].
  destruct (opt_str_eqb (scheme_of (l_dest l)) s_path).
  { unfold render_link_path.
    set (dest := handle_relative_docs P d l _).
    destruct (contains dest s_css) eqn:EC; [intro H; inversion H; subst; left; exact EC|].
    unfold abs_path. destruct (has_nul dest); [discriminate|].
    destruct (is_readable P (relfn2path (p_srcdir P) (d_dir d) dest)) eqn:ER; [|discriminate].
    intro H. inversion H; subst. right. exact ER. }
  destruct (opt_str_eqb (scheme_of (l_dest l)) s_project).
  { unfold render_link_project.
    match goal with |- (if ?c then _ else _) = _ -> _ => destruct c; [discriminate|] end.
    destruct (split_dest _) as [pd pid].
    destruct (abs_path P d pd); [|discriminate].
    destruct (truthy_ostr _); discriminate. }
  destruct (l_auto l); [discriminate|].
  unfold render_link_unknown. destruct (split_dest _) as [pd pid].
  unfold abs_path. destruct (has_nul pd).
  - destruct pid; [destruct (find_doc _ _)|]; discriminate.
  - destruct (is_file P (relfn2path (p_srcdir P) (d_dir d) pd)) eqn:EF.
    + destruct (truthy_ostr _); [discriminate|]. intro H. inversion H; subst. right. apply is_file_readable. exact EF.
    + destruct pid; [destruct (find_doc _ _)|]; discriminate.
Qed.

Section ResolverFacts.
  Variable std_objects : str -> list cand.
  Variable other_domains : str -> list cand.
  Variable intersphinx : str -> option cand.
  (* the candidates of the queried parts of Sphinx carry the link's own content node *)
  Hypothesis O_contnode_std : forall t c, In c (std_objects t) -> c_txt c = X_children.
  Hypothesis O_contnode_other : forall t c, In c (other_domains t) -> c_txt c = X_children.
  Hypothesis O_contnode_isx : forall t c, intersphinx t = Some c -> c_txt c = X_children.

  Notation run := (run_link std_objects other_domains intersphinx).
  Notation res_any := (resolve_any std_objects other_domains intersphinx).
  Notation res_anchor := (resolve_anchor std_objects other_domains intersphinx).
  Notation cands := (any_candidates std_objects other_domains).

  Lemma cands_explicit_txt P from t c : In c (cands P from true t) -> c_txt c = X_children.
  Proof.
    unfold any_candidates. intro H. repeat (apply in_app_or in H as [H|H]).
    - unfold resolve_ref_nested in H. destruct (find_label (p_labels P) (lower t)) as [e|]; [|destruct H].
      destruct (nonempty (lb_doc e)); [|destruct H]. destruct H as [H|[]]. subst. reflexivity.
    - unfold resolve_doc_nested in H. destruct (find_doc (p_docs P) (docname_join from t)); [|destruct H].
      destruct H as [H|[]]. subst. reflexivity.
    - eapply O_contnode_std; eassumption.
    - eapply O_contnode_other; eassumption.
  Qed.

  Lemma res_any_explicit_txt P from t : o_txt (res_any P from true t) = X_children.
  Proof.
    unfold resolve_any. destruct (cands P from true t) as [|c rest] eqn:E.
    - destruct (intersphinx t) as [c|] eqn:EI; [|reflexivity].
      cbn [o_txt mk]. rewrite (O_contnode_isx t c EI). reflexivity.
    - cbn [o_txt mk]. rewrite (cands_explicit_txt P from t c); [reflexivity|]. rewrite E. left. reflexivity.
  Qed.

  (* explicit text: the children of the link token are what is rendered, on every route
     (resolved or not), except inventory links which are not modelled here *)
  Theorem text_explicit : forall P d l,
    l_explicit l = true -> render_link P d l <> C_inv -> o_txt (run P d l) = X_children.
  Proof.
    intros P d l He Hinv. unfold run_link. rewrite He.
    destruct (render_link P d l) as [u|href| |dn tid|t|rt shown|a u] eqn:ER; try reflexivity.
    - unfold resolve_anchor. destruct (find_local (d_local d) (tl href)); [reflexivity|].
      destruct (find_slug (d_slugs d) (tl href)); [reflexivity|]. apply res_any_explicit_txt.
    - congruence.
    - unfold resolve_myst_ref_doc. destruct (find_doc (p_docs P) dn) as [td|]; [|reflexivity].
      destruct tid as [i|]; [destruct (nonempty i); [destruct (find_slug (d_slugs td) i)|]|]; reflexivity.
    - apply res_any_explicit_txt.
    - destruct (collect_download P d rt). reflexivity.
  Qed.

  (* empty text: the title of the target *)
  Theorem text_title_doc : forall P from dn td,
    find_doc (p_docs P) dn = Some td -> d_title td <> [] ->
    o_txt (resolve_myst_ref_doc P from false dn None) = X_str (d_title td)
    /\ o_txt (resolve_myst_ref_doc P from false dn (Some [])) = X_str (d_title td).
  Proof.
    intros P from dn td H Ht. unfold resolve_myst_ref_doc. rewrite H. cbn [nonempty is_nil negb o_txt mk].
    destruct (d_title td); [congruence|]. split; reflexivity.
  Qed.

  Theorem text_title_section : forall P from dn td slug e,
    find_doc (p_docs P) dn = Some td -> slug <> [] -> find_slug (d_slugs td) slug = Some e -> sl_title e <> [] ->
    o_txt (resolve_myst_ref_doc P from false dn (Some slug)) = X_str (sl_title e).
  Proof.
    intros P from dn td slug e Hd Hs He Ht.
    destruct (anchor_lookup P from false dn td slug Hd Hs) as [H1 _]. rewrite (H1 e He Ht). reflexivity.
  Qed.

  Theorem text_title_docname : forall P from t td,
    resolve_ref_nested P from false t = None ->
    find_doc (p_docs P) (docname_join from t) = Some td -> d_title td <> [] ->
    o_txt (res_any P from false t) = X_str (d_title td)
    /\ o_tgt (res_any P from false t) = make_refnode (p_dirhtml P) from (docname_join from t) [].
  Proof.
    intros P from t td Hr Hd Ht. unfold resolve_any, any_candidates, resolve_doc_nested.
    rewrite Hr, Hd. cbn [opt_list app o_txt o_tgt mk c_txt c_tgt ensure_content].
    destruct (d_title td); [congruence|]. split; reflexivity.
  Qed.

  Theorem text_title_label : forall P from t e sect,
    find_label (p_labels P) (lower t) = Some e -> lb_doc e <> [] -> lb_sect e = Some sect -> sect <> [] ->
    o_txt (res_any P from false t) = X_str sect
    /\ o_tgt (res_any P from false t) = make_refnode (p_dirhtml P) from (lb_doc e) (lb_id e).
  Proof.
    intros P from t e sect Hl Hd Hs Hne. unfold resolve_any, any_candidates, resolve_ref_nested.
    rewrite Hl, Hs. destruct (lb_doc e) eqn:ED; [congruence|].
    cbn [nonempty is_nil negb opt_list app o_txt o_tgt mk c_txt c_tgt ensure_content].
    destruct sect; [congruence|]. split; reflexivity.
  Qed.

  (* ----- warnings ----- *)

  Lemma res_any_missing_le1 P from ex t : (count_missing (o_warns (res_any P from ex t)) <= 1)%nat.
  Proof.
    unfold resolve_any. destruct (cands P from ex t) as [|c rest].
    - destruct (intersphinx t); cbn [o_warns mk]; [cbn; lia|apply log_missing_le1].
    - cbn [o_warns mk]. destruct rest; cbn; lia.
  Qed.

  (* never more than one xref_missing per link *)
  Theorem missing_at_most_once : forall P d l,
    (count_missing (o_warns (run P d l)) <= 1)%nat.
  Proof.
    intros P d l. unfold run_link.
    destruct (render_link P d l) as [u|href| |dn tid|t|rt shown|a u]; cbn [o_warns mk]; try (cbn; lia).
    - unfold resolve_anchor. destruct (find_local (d_local d) (tl href)); [cbn; lia|].
      destruct (find_slug (d_slugs d) (tl href)); [cbn; lia|]. apply res_any_missing_le1.
    - unfold resolve_myst_ref_doc. destruct (find_doc (p_docs P) dn) as [td|]; cbn [o_warns mk]; [|apply log_missing_le1].
      destruct tid as [i|]; [destruct (nonempty i); [destruct (find_slug (d_slugs td) i)|]|]; cbn [o_warns mk];
        try (cbn; lia). apply log_missing_le1.
    - apply res_any_missing_le1.
    - destruct (collect_download P d rt) as [t0 ws] eqn:EC. cbn [o_warns mk].
      unfold collect_download in EC. destruct (contains rt s_css); [inversion EC; cbn; lia|].
      destruct (is_readable P (relfn2path (p_srcdir P) (d_dir d) rt)); inversion EC; cbn; lia.
  Qed.

  (* what "the destination cannot be resolved" means for each route of the classifier *)
  Definition unresolved (P : project) (d : docrec) (l : link) : Prop :=
    match render_link P d l with
    | C_doc dn tid =>
        find_doc (p_docs P) dn = None
        \/ exists td i, find_doc (p_docs P) dn = Some td /\ tid = Some i /\ i <> [] /\ find_slug (d_slugs td) i = None
    | C_any t => cands P (d_name d) (l_explicit l) t = [] /\ intersphinx t = None
    | C_anchor href =>
        find_local (d_local d) (tl href) = None /\ find_slug (d_slugs d) (tl href) = None
        /\ cands P (d_name d) (l_explicit l) (tl href) = [] /\ intersphinx (tl href) = None
    | C_nofile _ _ => True
    | C_download rt _ =>
        contains rt s_css = false /\ is_readable P (relfn2path (p_srcdir P) (d_dir d) rt) = false
    | C_url _ | C_inv => False
    end.

  (* exactly one xref_missing iff unresolved - on every route *)
  Theorem missing_once : forall P d l,
    p_nitpick P = [] ->
    (unresolved P d l -> count_missing (o_warns (run P d l)) = 1%nat)
    /\ (~ unresolved P d l -> count_missing (o_warns (run P d l)) = 0%nat).
  Proof.
    intros P d l Hnit.
    assert (Hlog : forall t, log_missing P t = [W_missing t]).
    { intro t. apply log_missing_plain. rewrite Hnit. reflexivity. }
    unfold unresolved, run_link.
    destruct (render_link P d l) as [u|href| |dn tid|t|rt shown|a u] eqn:ER; cbn [o_warns mk] in *.
    - split; [intros []|reflexivity].
    - unfold resolve_anchor, resolve_any.
      destruct (find_local (d_local d) (tl href)) as [e|].
      { split; [intros (H & _); discriminate|reflexivity]. }
      destruct (find_slug (d_slugs d) (tl href)) as [e|].
      { split; [intros (_ & H & _); discriminate|reflexivity]. }
      destruct (cands P (d_name d) (l_explicit l) (tl href)) as [|c rest].
      + destruct (intersphinx (tl href)) as [c|].
        * split; [intros (_ & _ & _ & H); discriminate|reflexivity].
        * cbn [o_warns mk]. rewrite Hlog. split; [reflexivity|intro H; exfalso; apply H; repeat split; reflexivity].
      + cbn [o_warns mk]. split; [intros (_ & _ & H & _); discriminate|destruct rest; reflexivity].
    - split; [intros []|reflexivity].
    - unfold resolve_myst_ref_doc. destruct (find_doc (p_docs P) dn) as [td|].
      + destruct tid as [i|].
        * destruct (nonempty i) eqn:EN.
          -- destruct (find_slug (d_slugs td) i) as [e|] eqn:ES; cbn [o_warns mk].
             ++ split; [|reflexivity]. intros [H|(td' & i' & H1 & H2 & H3 & H4)]; [discriminate|].
                inversion H1; inversion H2; subst. congruence.
             ++ rewrite Hlog. split; [reflexivity|]. intro H. exfalso. apply H. right. exists td, i.
                repeat split; try reflexivity; try assumption. destruct i; [discriminate|discriminate].
          -- cbn [o_warns mk]. split; [|reflexivity]. intros [H|(td' & i' & H1 & H2 & H3 & H4)]; [discriminate|].
             inversion H2; subst. destruct i'; [congruence|discriminate].
        * cbn [o_warns mk]. split; [|reflexivity]. intros [H|(td' & i' & H1 & H2 & _)]; discriminate.
      + cbn [o_warns mk]. rewrite Hlog. split; [reflexivity|]. intro H. exfalso. apply H. left. reflexivity.
    - unfold resolve_any. destruct (cands P (d_name d) (l_explicit l) t) as [|c rest].
      + destruct (intersphinx t) as [c|]; cbn [o_warns mk].
        * split; [intros (_ & H); discriminate|reflexivity].
        * rewrite Hlog. split; [reflexivity|intro H; exfalso; apply H; split; reflexivity].
      + cbn [o_warns mk]. split; [intros (H & _); discriminate|destruct rest; reflexivity].
    - destruct (download_resolvable P d l rt shown ER) as [HR|HR].
      + split; [intros (H & _); congruence|]. intros _. unfold collect_download. rewrite HR. reflexivity.
      + split; [intros (_ & H); congruence|]. intros _. unfold collect_download.
        destruct (contains rt s_css); [reflexivity|]. rewrite HR. reflexivity.
    - split; [reflexivity|intro H; exfalso; apply H; exact I].
  Qed.

  (* an unresolved plain destination: exactly one warning naming it, the fallback reference, the text kept *)
  Theorem missing_any : forall P from ex t,
    cands P from ex t = [] -> intersphinx t = None -> mem_str t (p_nitpick P) = false ->
    res_any P from ex t = mk (T_fallback t) (if ex then X_children else X_lit t) [W_missing t].
  Proof.
    intros P from ex t Hc Hi Hn. unfold resolve_any. rewrite Hc, Hi, (log_missing_plain P t Hn). reflexivity.
  Qed.

  Theorem missing_doc : forall P from ex dn tid,
    find_doc (p_docs P) dn = None -> mem_str dn (p_nitpick P) = false ->
    resolve_myst_ref_doc P from ex dn tid = mk T_bare (if ex then X_children else X_lit dn) [W_missing dn].
  Proof.
    intros P from ex dn tid Hd Hn. unfold resolve_myst_ref_doc. rewrite Hd, (log_missing_plain P dn Hn). reflexivity.
  Qed.
End ResolverFacts.

(* ---------- <path:nofile.txt>: one xref_missing since the repair (was: only Sphinx's download.not_readable) ---------- *)

Definition wit_project : project :=
  {| p_srcdir := [[115; 114; 99]]; p_suffixes := [[46; 114; 115; 116]; [46; 109; 100]];
     p_docs := [{| d_name := [105; 110; 100; 101; 120]; d_dir := []; d_title := [73]; d_slugs := []; d_local := [] |}];
     p_labels := []; p_files := [[[105; 110; 100; 101; 120; 46; 109; 100]]];
     p_nitpick := []; p_url_schemes := []; p_dirhtml := false; p_all_external := false; p_commonmark_only := false; p_gfm_only := false |}.

Definition wit_doc : docrec :=
  {| d_name := [105; 110; 100; 101; 120]; d_dir := []; d_title := [73]; d_slugs := []; d_local := [] |}.

(* <path:nofile.txt> *)
Definition wit_link : link :=
  mklink (s_path ++ c_colon :: [110; 111; 102; 105; 108; 101; 46; 116; 120; 116]) true true.

Theorem missing_once_path_witness :
  unresolved no_cands no_cands no_cand wit_project wit_doc wit_link
  /\ count_missing (o_warns (run_link_plain wit_project wit_doc wit_link)) = 1%nat.
Proof. split; vm_compute; [exact I|reflexivity]. Qed.

(* ---------- the premises are needed: witnesses outside them ---------- *)

(* relative_uri round trip fails when the target "URI" is not normal: a ".." segment, an empty
   segment, a '#' inside a segment (the real sphinx.util.osutil.relative_uri behaves the same:
   correspondence bucket pathfn:exhaustive) *)
Theorem roundtrip_premise_refuted :
  (exists from to, from <> [] /\ to <> [] /\ In s_dotdot to /\
     resolve_ref (join s_slash from) (relative_uri (join s_slash from) (join s_slash to)) <> join s_slash to)
  /\ (exists from to, from <> [] /\ to <> [] /\ In [] (removelast to) /\
     resolve_ref (join s_slash from) (relative_uri (join s_slash from) (join s_slash to)) <> join s_slash to)
  /\ (exists from to, from <> [] /\ to <> [] /\ (exists s, In s to /\ In c_hash s) /\
     resolve_ref (join s_slash from) (relative_uri (join s_slash from) (join s_slash to)) <> join s_slash to).
Proof.
  split; [|split].
  - exists [[120]], [[97]; s_dotdot; [98]].
    split; [discriminate|split; [discriminate|split; [right; left; reflexivity|vm_compute; discriminate]]].
  - exists [[120]], [[97]; []; [98]].
    split; [discriminate|split; [discriminate|split; [right; left; reflexivity|vm_compute; discriminate]]].
  - exists [[120]], [[97; 35; 98]].
    split; [discriminate|split; [discriminate|split; [|vm_compute; discriminate]]].
    exists [97; 35; 98]. split; [left; reflexivity|right; left; reflexivity].
Qed.

(* a directory literally named "\" breaks the spelling theorem (Sphinx's relfn2path treats a first
   component '\' like a leading '/'): name_ok excludes it *)
Theorem spelling_premise_refuted :
  exists srcdir docdir tp sp, segs_ok srcdir /\ segs_ok docdir /\ segs_ok tp /\ spells docdir tp sp
    /\ relfn2path srcdir docdir sp <> Inside tp.
Proof.
  exists [[115]], [], [s_bslash; [120]], (rel_spelling 0 [] [s_bslash; [120]]).
  assert (H1 : seg_ok [115]) by (repeat split; try discriminate; intros [H|[]]; discriminate).
  assert (H2 : seg_ok s_bslash) by (repeat split; try discriminate; intros [H|[]]; discriminate).
  assert (H3 : seg_ok [120]) by (repeat split; try discriminate; intros [H|[]]; discriminate).
  split; [constructor; [exact H1|constructor]|].
  split; [constructor|].
  split; [constructor; [exact H2|constructor; [exact H3|constructor]]|].
  split; [apply (Sp_rel [] [s_bslash; [120]] [] [] [s_bslash; [120]] 0); [reflexivity|reflexivity|discriminate]|].
  vm_compute. discriminate.
Qed.
