(* The md_env bookkeeping of MockIncludeDirective.run (myst_parser/mocking.py) around the nested
   render of an included file: md_env["relative-images"] and md_env["relative-docs"] are saved,
   set from the directive's options, and restored afterwards.  Executable definitions only. *)
From Coq Require Import List NArith Bool.
From MV Require Import Base.PyStr.
From MV Require Import XRef.Path.
Import ListNotations.
Open Scope N_scope.

(* the two md_env entries; None = the key is absent *)
Record menv := {
  me_images : option str;                 (* md_env["relative-images"] *)
  me_docs : option (str * str * str) }.   (* md_env["relative-docs"] = (prefix, source dir, include dir) *)

Definition set_images (e : menv) (v : option str) : menv := {| me_images := v; me_docs := me_docs e |}.
Definition set_docs (e : menv) (v : option (str * str * str)) : menv := {| me_images := me_images e; me_docs := v |}.

(* md_env.update({key: saved[key] for the keys that were present}) *)
Definition restore (saved e : menv) : menv :=
  {| me_images := match me_images saved with Some x => Some x | None => me_images e end;
     me_docs := match me_docs saved with Some x => Some x | None => me_docs e end |}.

(* the options of one {include} directive *)
Record iopts := { io_images : bool; io_docs : option str }.

(* the bookkeeping, hand-written: [render] is the nested render of the included content - what it
   reports and what it leaves in md_env; [root_dir] the directory of the outermost document,
   [dir] the directory of the included file (path.parent) *)
Definition include_env {A} (o : iopts) (root_dir dir : str) (render : menv -> A * menv) (env : menv) : A * menv :=
  let saved := env in
  let env := if io_images o then set_images env (Some (relpath dir root_dir)) else env in
  let env := match io_docs o with Some p => set_docs env (Some (p, root_dir, dir)) | None => env end in
  let '(a, env) := render env in
  let env := set_images env None in
  let env := set_docs env None in
  (a, restore saved env).

(* the content of a file: links and nested includes *)
Inductive item :=
| ILink                                            (* a link: reports the relative-docs setting it sees *)
| IInc (o : iopts) (dir : str) (body : items)      (* {include} of a file in directory [dir] *)
with items := INil | ICons (x : item) (r : items).

Fixpoint render_item (root : str) (it : item) (env : menv) {struct it} : list (option (str * str * str)) * menv :=
  match it with
  | ILink => ([me_docs env], env)
  | IInc o dir body => include_env o root dir (render_items root body) env
  end
with render_items (root : str) (l : items) (e : menv) {struct l} : list (option (str * str * str)) * menv :=
  match l with
  | INil => ([], e)
  | ICons x r => let '(a, e1) := render_item root x e in
                 let '(b, e2) := render_items root r e1 in (a ++ b, e2)
  end.

(* specification: the setting a link sees is that of the nearest enclosing include that has the
   option, with the OUTERMOST document's directory as base *)
Fixpoint seen (root : str) (setting : option (str * str * str)) (it : item) {struct it} : list (option (str * str * str)) :=
  match it with
  | ILink => [setting]
  | IInc o dir body =>
      seen_items root (match io_docs o with Some p => Some (p, root, dir) | None => setting end) body
  end
with seen_items (root : str) (setting : option (str * str * str)) (l : items) {struct l} : list (option (str * str * str)) :=
  match l with
  | INil => []
  | ICons x r => seen root setting x ++ seen_items root setting r
  end.

(* SphinxRenderer._handle_relative_docs on the md_env entry itself *)
Definition handle_with_setting (setting : option (str * str * str)) (dest : str) : str :=
  match setting with
  | None => dest
  | Some (prefix, source_dir, include_dir) =>
      if startswith dest prefix then relpath (pjoin include_dir [normpath dest]) source_dir else dest
  end.
