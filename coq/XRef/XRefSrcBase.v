(* Vocabulary of the source translation gen/c12_src.py -> Gen/C12Src.v.
   Each definition is the Gallina reading of one Python/docutils/Sphinx idiom that occurs in the
   translated functions; the mapping idiom |-> definition is the TRUSTED part of the translation
   (listed in props/C12.py).  Executable definitions only. *)
From Coq Require Import List NArith Bool.
From MV Require Import Base.PyStr.
From MV Require Import XRef.Path.
From MV Require Import XRef.XRefModel.
Import ListNotations.
Open Scope N_scope.

(* self.sphinx_env.srcdir is set in every Sphinx build ("not set in some test situations") *)
Definition srcdir_set : bool := true.

(* "class" in token.attrs: generated links carry no attributes *)
Definition no_attrs : bool := false.

(* an optional string used where a string is expected, after a truthiness test *)
Definition oget (o : option str) : str := match o with Some s => s | None => [] end.
(* Python truthiness of str | None *)
Definition ostr_truthy (o : option str) : bool := match o with Some s => nonempty s | None => false end.
Definition is_some {A} (o : option A) : bool := match o with Some _ => true | None => false end.

(* the node a render_link_* method builds before _process_wrap_node *)
Inductive wnode :=
| N_doc (reftarget : str) (reftargetid : option str)   (* pending_xref(refdomain="doc", ...) *)
| N_any (reftarget : str)                               (* pending_xref(refdomain=None, ...) *)
| N_dl (reftarget : str).                               (* download_reference(refdomain=None, ...) *)

(* self._process_wrap_node(wrap_node, token, explicit, classes, path_dest) *)
Definition finish (w : wnode) (shown : str) : cls :=
  match w with
  | N_doc t i => C_doc t i
  | N_any t => C_any t
  | N_dl t => C_download t shown
  end.

(* x in self.env.all_docs / self.sphinx_env.found_docs *)
Definition in_docs (P : project) (dn : str) : bool := is_some (find_doc (p_docs P) dn).
(* self.env.metadata[doc].get("myst_slugs", {}) *)
Definition slugs_of (P : project) (dn : str) : list slugent :=
  match find_doc (p_docs P) dn with Some d => d_slugs d | None => [] end.
(* clean_astext(self.env.titles[doc]) *)
Definition title_of (P : project) (dn : str) : str :=
  match find_doc (p_docs P) dn with Some d => d_title d | None => [] end.
(* k in slug_to_section ;  _, targetid, implicit_text = slug_to_section[k] *)
Definition slug_in (ss : list slugent) (k : str) : bool := is_some (find_slug ss k).
Definition slug_id (ss : list slugent) (k : str) : str :=
  match find_slug ss k with Some e => sl_id e | None => [] end.
Definition slug_title (ss : list slugent) (k : str) : str :=
  match find_slug ss k with Some e => sl_title e | None => [] end.

(* stddomain.anonlabels.get(t, ("", ""))  and  stddomain.labels.get(t, ("", "", "")):
   labels holds the entries that have a section name *)
Definition anon_doc (P : project) (t : str) : str :=
  match find_label (p_labels P) t with Some e => lb_doc e | None => [] end.
Definition anon_id (P : project) (t : str) : str :=
  match find_label (p_labels P) t with Some e => lb_id e | None => [] end.
Definition lab_entry (P : project) (t : str) : option (labelent * str) :=
  match find_label (p_labels P) t with
  | Some e => match lb_sect e with Some s => Some (e, s) | None => None end
  | None => None
  end.
Definition lab_doc (P : project) (t : str) : str :=
  match lab_entry P t with Some (e, _) => lb_doc e | None => [] end.
Definition lab_id (P : project) (t : str) : str :=
  match lab_entry P t with Some (e, _) => lb_id e | None => [] end.
Definition lab_sect (P : project) (t : str) : str :=
  match lab_entry P t with Some (_, s) => s | None => [] end.

(* node[0].deepcopy(): the inner node of the pending_xref: the rendered children when the link has
   explicit text, else an empty inline *)
Definition inner_of (explicit : bool) : txt := if explicit then X_children else X_none.
(* inner.children non-empty *)
Definition txt_has_children (x : txt) : bool :=
  match x with X_none => false | X_str s => nonempty s | X_lit _ => true | X_children => true end.

Definition mkcand (role : str) (r : tgt * txt) : cand :=
  {| c_role := role; c_tgt := fst r; c_txt := snd r |}.

(* the absolute path string of an optional location, else a fallback string: f"{abs_path or dest}" *)
Definition loc_or (P : project) (o : option fsloc) (dflt : str) : str :=
  match o with Some loc => abs_str P loc | None => dflt end.

(* len(results) > 1 *)
Definition more_than_one {A} (l : list A) : bool := match l with _ :: _ :: _ => true | _ => false end.
(* a (role, node) candidate as the reference node it is *)
Definition cand_ref (c : cand) : tgt * txt := (c_tgt c, c_txt c).
(* len(n.children) == 1 and isinstance(n[0], nodes.inline) and not n[0].children *)
Definition txt_empty_inline (x : txt) : bool :=
  match x with X_none => true | X_str s => is_nil s | _ => false end.
