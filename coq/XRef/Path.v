(* POSIX paths and URIs as used by the Sphinx cross-reference code paths of MyST:
   transcriptions of posixpath.normpath / posixpath.join, pathlib's parsing as used
   by BuildEnvironment.relfn2path, Project.path2doc, sphinx.util.docname_join,
   sphinx.util.osutil.relative_uri and the html builder's target URI.
   Executable definitions only; proofs are in PathProofs.v. *)
From Coq Require Import List NArith Bool.
From MV Require Import Base.PyStr.
Import ListNotations.
Open Scope N_scope.

Definition c_slash : N := 47.   (* '/' *)
Definition c_bslash : N := 92.  (* '\\' *)
Definition c_dot : N := 46.     (* '.' *)
Definition c_hash : N := 35.    (* '#' *)
Definition c_colon : N := 58.   (* ':' *)

Definition s_slash : str := [c_slash].
Definition s_dot : str := [c_dot].
Definition s_dotdot : str := [c_dot; c_dot].
Definition s_bslash : str := [c_bslash].
Definition s_hash : str := [c_hash].
Definition s_html : str := [46; 104; 116; 109; 108].   (* ".html" *)

Definition is_nil {A} (l : list A) : bool := match l with [] => true | _ => false end.

(* s.split(c) for a one-character separator: the result is never empty *)
Fixpoint split_on (c : N) (s : str) : list str :=
  match s with
  | [] => [[]]
  | x :: s' =>
      if x =? c then [] :: split_on c s'
      else match split_on c s' with
           | [] => [[x]]
           | h :: t => (x :: h) :: t
           end
  end.

(* s.split(c)[0] : the part before the first c *)
Fixpoint before (c : N) (s : str) : str :=
  match s with
  | [] => []
  | x :: s' => if x =? c then [] else x :: before c s'
  end.

(* s.split(c, maxsplit=1)[1] when it exists: the part after the first c *)
Fixpoint after (c : N) (s : str) : option str :=
  match s with
  | [] => None
  | x :: s' => if x =? c then Some s' else after c s'
  end.

Fixpoint list_str_eqb (a b : list str) : bool :=
  match a, b with
  | [], [] => true
  | x :: a', y :: b' => str_eqb x y && list_str_eqb a' b'
  | _, _ => false
  end.

(* ---------- posixpath.normpath ---------- *)

(* the for-loop over comps; [acc] is new_comps reversed; [abs] = initial_slashes != 0 *)
Fixpoint norm_loop (abs : bool) (comps : list str) (acc : list str) : list str :=
  match comps with
  | [] => rev acc
  | c :: r =>
      if str_eqb c [] || str_eqb c s_dot then norm_loop abs r acc
      else if negb (str_eqb c s_dotdot)
              || (negb abs && is_nil acc)
              || (match acc with x :: _ => str_eqb x s_dotdot | [] => false end)
           then norm_loop abs r (c :: acc)
           else match acc with
                | _ :: acc' => norm_loop abs r acc'
                | [] => norm_loop abs r acc
                end
  end.

Definition initial_slashes (p : str) : nat :=
  if startswith p [c_slash; c_slash] && negb (startswith p [c_slash; c_slash; c_slash]) then 2%nat
  else if startswith p s_slash then 1%nat else 0%nat.

Definition normpath (p : str) : str :=
  match p with
  | [] => s_dot
  | _ =>
      let n := initial_slashes p in
      let comps := norm_loop (negb (Nat.eqb n 0)) (split_on c_slash p) [] in
      let path := repeat c_slash n ++ join s_slash comps in
      match path with [] => s_dot | _ => path end
  end.

(* posixpath.join(a, *ps) *)
Fixpoint pjoin (path : str) (ps : list str) : str :=
  match ps with
  | [] => path
  | b :: r =>
      pjoin (if startswith b s_slash then b
             else if is_nil path || endswith path s_slash then path ++ b
             else path ++ s_slash ++ b) r
  end.

(* sphinx.util.docname_join:
   posixpath.normpath(posixpath.join('/' + basedocname, '..', docname))[1:] *)
Definition docname_join (base dn : str) : str :=
  tl (normpath (pjoin (c_slash :: base) [s_dotdot; dn])).

(* ---------- pathlib as used by relfn2path ---------- *)

Inductive root_kind := NoRoot | Root1 | Root2.

(* posixpath.splitroot: '' / one or three-and-more slashes -> '/' / exactly two -> '//' *)
Definition path_root (s : str) : root_kind :=
  if startswith s [c_slash; c_slash; c_slash] then Root1
  else if startswith s [c_slash; c_slash] then Root2
  else if startswith s s_slash then Root1
  else NoRoot.

(* the components pathlib keeps: empty ones and '.' are dropped *)
Definition path_parts (s : str) : list str :=
  filter (fun x => negb (str_eqb x [] || str_eqb x s_dot)) (split_on c_slash s).

(* where a resolved absolute path lies relative to the source directory *)
Inductive fsloc :=
| Inside (rel : list str)          (* srcdir / rel *)
| Outside (abs : list str).        (* / abs : not below srcdir *)

Fixpoint strip_prefix (pre l : list str) : option (list str) :=
  match pre, l with
  | [], _ => Some l
  | p :: pre', x :: l' => if str_eqb p x then strip_prefix pre' l' else None
  | _ :: _, [] => None
  end.

Definition locate (srcdir abs : list str) : fsloc :=
  match strip_prefix srcdir abs with
  | Some rel => Inside rel
  | None => Outside abs
  end.

(* BuildEnvironment.relfn2path(filename, docname) -> abs_fn, as a location.
   [srcdir] absolute and resolved; [docdir] = doc2path(docname, base=False).parent.
   Path.resolve() on a tree without symbolic links = lexical normalisation from the root. *)
Definition relfn2path (srcdir docdir : list str) (filename : str) : fsloc :=
  let parts := path_parts filename in
  match path_root filename with
  | Root2 => locate srcdir (norm_loop true parts [])   (* realpath turns the '//' root into '/' *)
  | Root1 => locate srcdir (norm_loop true (srcdir ++ parts) [])
  | NoRoot =>
      match parts with
      | p :: rest =>
          if str_eqb p s_bslash
          then locate srcdir (norm_loop true (srcdir ++ rest) [])
          else locate srcdir (norm_loop true (srcdir ++ docdir ++ parts) [])
      | [] => locate srcdir (norm_loop true (srcdir ++ docdir) [])
      end
  end.

(* s.removesuffix(suf) when s.endswith(suf) *)
Definition strip_suffix (s suf : str) : option str :=
  if endswith s suf then Some (firstn (length s - length suf) s) else None.

Fixpoint first_suffix (name : str) (sufs : list str) : option str :=
  match sufs with
  | [] => None
  | suf :: r => match strip_suffix name suf with
                | Some stem => Some stem
                | None => first_suffix name r
                end
  end.

Fixpoint split_last (l : list str) : option (list str * str) :=
  match l with
  | [] => None
  | [x] => Some ([], x)
  | x :: r => match split_last r with
              | Some (i, z) => Some (x :: i, z)
              | None => None
              end
  end.

(* Project.path2doc on the absolute path: relative_to(srcdir) when below it, then the
   first configured suffix the file NAME ends with is removed from the posix string *)
Definition path2doc (sufs : list str) (loc : fsloc) : option str :=
  let '(segs, pre) := match loc with
                      | Inside rel => (rel, [])
                      | Outside abs => (abs, s_slash)
                      end in
  match split_last segs with
  | None => None
  | Some (dir, name) =>
      match first_suffix name sufs with
      | None => None
      | Some stem => Some (pre ++ join s_slash (dir ++ [stem]))
      end
  end.

(* ---------- URIs ---------- *)

(* the loop of relative_uri: drop equal leading segments, never the last one of either *)
Fixpoint strip_common (b t : list str) : list str * list str :=
  match b, t with
  | x :: ((_ :: _) as b'), y :: ((_ :: _) as t') =>
      if str_eqb x y then strip_common b' t' else (b, t)
  | _, _ => (b, t)
  end.

Definition s_up : str := [c_dot; c_dot; c_slash].       (* "../" *)

Fixpoint ups (n : nat) : str :=
  match n with O => [] | S k => s_up ++ ups k end.

(* sphinx.util.osutil.relative_uri(base, to) *)
Definition relative_uri (base to : str) : str :=
  if startswith to s_slash then to
  else
    let '(b2, t2) := strip_common (split_on c_slash (before c_hash base))
                                  (split_on c_slash (before c_hash to)) in
    if list_str_eqb b2 t2 then []
    else if Nat.eqb (length b2) 1 && list_str_eqb t2 [[]] then [c_dot; c_slash]
    else ups (length b2 - 1) ++ join s_slash t2.

(* get_target_uri of the two HTML builders.
   html:    quote(docname) + '.html'  (urllib.parse.quote is injective and is undone by the
            comparison: the model works on unquoted strings, oracle O_quote)
   dirhtml: '' for 'index', docname[:-5] for '.../index', else docname + '/' *)
Definition s_index : str := [105; 110; 100; 101; 120].           (* "index" *)
Definition target_uri (dirhtml : bool) (docname : str) : str :=
  if dirhtml then
    (* docname == 'index'  <=> its components are ["index"];  docname.endswith('/index') <=> there are at
       least two components and the last one is "index" (true of every string, "index" has no '/');
       docname[:-5] then is the other components joined, with a trailing '/' *)
    match split_last (split_on c_slash docname) with
    | Some (front, z) =>
        if str_eqb z s_index
        then (if is_nil front then [] else join s_slash (front ++ [[]]))
        else docname ++ s_slash
    | None => docname ++ s_slash
    end
  else docname ++ s_html.

(* Builder.get_relative_uri *)
Definition get_relative_uri (dirhtml : bool) (from to : str) : str :=
  relative_uri (target_uri dirhtml from) (target_uri dirhtml to).

(* ---------- os.path.relpath(path, start) for absolute arguments ---------- *)

Fixpoint strip_common_all (a b : list str) : list str * list str :=
  match a, b with
  | x :: a', y :: b' => if str_eqb x y then strip_common_all a' b' else (a, b)
  | _, _ => (a, b)
  end.

Definition nonempty_segs (s : str) : list str :=
  filter (fun x => negb (is_nil x)) (split_on c_slash s).

(* abspath(p) = normpath(p) for an absolute p; commonprefix of the two component lists;
   '..' for what is left of start, then what is left of path; '.' when nothing is left *)
Definition relpath (path start : str) : str :=
  let '(s', p') := strip_common_all (nonempty_segs (normpath start)) (nonempty_segs (normpath path)) in
  match repeat s_dotdot (length s') ++ p' with
  | [] => s_dot
  | rel => join s_slash rel
  end.

(* How a user agent resolves a relative reference [rel] (path only, no fragment) against
   the URI [base] of the page that contains it (RFC 3986 5.2 for path-only references):
   the empty reference is the page itself, otherwise the last segment of the base is
   replaced by the reference and dot segments are removed; a reference that ends in '/',
   '/.' or '/..' denotes a directory, so the result keeps a trailing '/'.  This is the
   specification side of the round-trip theorem, not a transcription of implementation code. *)
Definition ends_in_dir (segs : list str) : bool :=
  match split_last segs with
  | Some (_, z) => is_nil z || str_eqb z s_dot || str_eqb z s_dotdot
  | None => false
  end.

Definition resolve_ref (base rel : str) : str :=
  match rel with
  | [] => base
  | _ =>
      let segs := removelast (split_on c_slash base) ++ split_on c_slash rel in
      let out := norm_loop true segs [] in
      join s_slash (if ends_in_dir segs then out ++ [[]] else out)
  end.
