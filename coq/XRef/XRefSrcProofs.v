(* The definitions regenerated from the Python source (Gen/C12Src.v) equal the hand-written model
   (XRef/XRefModel.v).  These are the proof obligations that an edit of the translated functions breaks. *)
From Coq Require Import List NArith Bool.
From MV Require Import Base.PyStr.
From MV Require Import XRef.Path.
From MV Require Import Gen.C12Links.
From MV Require Import XRef.XRefModel.
From MV Require Import XRef.XRefSrcBase.
From MV Require Import Gen.C12Src.
Import ListNotations.
Open Scope N_scope.

(* case analysis on every scrutinee, innermost first *)
Ltac split_all :=
  repeat match goal with
         | |- context [match ?x with _ => _ end] =>
             lazymatch x with
             | context [match _ with _ => _ end] => fail
             | _ => destruct x eqn:?
             end
         end.

Lemma abs_path_src_eq P d p : abs_path_src P d p = abs_path P d p.
Proof. reflexivity. Qed.

Lemma handle_relative_docs_src_eq P d l dest :
  handle_relative_docs_src P d l dest = handle_relative_docs P d l dest.
Proof.
  unfold handle_relative_docs_src, handle_relative_docs.
  destruct (l_include l) as [[prefix incdir]|]; [|reflexivity]. cbn [fst snd].
  destruct (startswith dest prefix); reflexivity.
Qed.

Lemma project_tail P d l dest :
  (let v_destination := handle_relative_docs_src P d l dest in
   let v_path_dest := before c_hash v_destination in
   let v_path_id := after c_hash v_destination in
   let v_abs_path := abs_path_src P d v_path_dest in
   let v_docname := match v_abs_path with Some a => path2doc (p_suffixes P) a | None => None end in
   if negb (ostr_truthy v_docname) then C_nofile (loc_or P v_abs_path v_path_dest) (l_dest l)
   else finish (N_doc (oget v_docname) v_path_id) v_destination)
  = (let dest := handle_relative_docs P d l dest in
     let '(path_dest, path_id) := split_dest dest in
     match abs_path P d path_dest with
     | None => C_nofile path_dest (l_dest l)
     | Some loc =>
         match truthy_ostr (path2doc (p_suffixes P) loc) with
         | None => C_nofile (abs_str P loc) (l_dest l)
         | Some docname => C_doc docname path_id
         end
     end).
Proof.
  cbv zeta. rewrite handle_relative_docs_src_eq, abs_path_src_eq. unfold split_dest.
  destruct (abs_path P d _) as [loc|]; [|reflexivity].
  destruct (path2doc (p_suffixes P) loc) as [[|c s]|]; reflexivity.
Qed.

Theorem render_link_project_src_eq P d l : render_link_project_src P d l = render_link_project P d l.
Proof.
  unfold render_link_project_src, render_link_project.
  change (fst gen_project_prefix) with [112; 114; 111; 106; 101; 99; 116; 58].
  change (snd gen_project_prefix) with 8%nat.
  cbv zeta. change (negb srcdir_set) with false. cbv iota.
  destruct (startswith (l_dest l) [112; 114; 111; 106; 101; 99; 116; 58]).
  - destruct (startswith (skipn 8 (l_dest l)) [35]) eqn:E; change s_hash with [35]; rewrite E; [reflexivity|].
    apply (project_tail P d l (skipn 8 (l_dest l))).
  - destruct (startswith (l_dest l) [35]) eqn:E; change s_hash with [35]; rewrite E; [reflexivity|].
    apply (project_tail P d l (l_dest l)).
Qed.

Lemma path_tail P d l dest :
  (let v_destination := handle_relative_docs_src P d l dest in
   if andb (negb (contains v_destination [58; 47; 47])) srcdir_set then
     match abs_path_src P d v_destination with
     | None => C_nofile (loc_or P (abs_path_src P d v_destination) v_destination) (l_dest l)
     | Some a => if negb (is_readable P a) then C_nofile (abs_str P a) (l_dest l)
                 else finish (N_dl v_destination) v_destination
     end
   else finish (N_dl v_destination) v_destination)
  = (let dest := handle_relative_docs P d l dest in
     if contains dest s_css then C_download dest dest
     else match abs_path P d dest with
          | None => C_nofile dest (l_dest l)
          | Some loc => if is_readable P loc then C_download dest dest else C_nofile (abs_str P loc) (l_dest l)
          end).
Proof.
  cbv zeta. rewrite handle_relative_docs_src_eq. change s_css with [58; 47; 47]. unfold srcdir_set.
  destruct (contains _ _); [reflexivity|]. cbn [negb andb]. rewrite !abs_path_src_eq.
  destruct (abs_path P d _) as [loc|] eqn:E; [|reflexivity].
  destruct (is_readable P loc); reflexivity.
Qed.

Theorem render_link_path_src_eq P d l : render_link_path_src P d l = render_link_path P d l.
Proof.
  unfold render_link_path_src, render_link_path.
  change (fst gen_path_prefix) with [112; 97; 116; 104; 58]. change (snd gen_path_prefix) with 5%nat.
  cbv zeta.
  destruct (startswith (l_dest l) [112; 97; 116; 104; 58]).
  - apply (path_tail P d l (skipn 5 (l_dest l))).
  - apply (path_tail P d l (l_dest l)).
Qed.

Theorem render_link_unknown_src_eq P d l : render_link_unknown_src P d l = render_link_unknown P d l.
Proof.
  unfold render_link_unknown_src, render_link_unknown. cbv zeta. unfold srcdir_set. cbv iota.
  rewrite handle_relative_docs_src_eq, abs_path_src_eq. unfold split_dest.
  set (dest := handle_relative_docs P d l (l_dest l)).
  unfold abs_path. destruct (has_nul (before c_hash dest)).
  - unfold in_docs. destruct (after c_hash dest); [destruct (find_doc _ _)|]; reflexivity.
  - destruct (is_file P _).
    + destruct (path2doc _ _) as [[|c s]|]; reflexivity.
    + unfold in_docs. destruct (after c_hash dest); [destruct (find_doc _ _)|]; reflexivity.
Qed.

(* the three scheme tests are mutually exclusive, so their order in the source is immaterial *)
Lemma opt_str_eqb_excl o a b : a <> b -> opt_str_eqb o a = true -> opt_str_eqb o b = false.
Proof.
  intros Hab H. destruct o as [x|]; [|reflexivity]. cbn [opt_str_eqb] in *.
  apply str_eqb_eq in H. subst. apply str_eqb_neq. exact Hab.
Qed.

Theorem render_link_src_eq P d l : render_link_src P d l = render_link P d l.
Proof.
  unfold render_link_src, render_link. cbv zeta. unfold no_attrs. cbn [andb].
  change (orb (orb (p_commonmark_only P) (p_gfm_only P)) (p_all_external P)) with (plain_url_mode P).
  destruct (plain_url_mode P); [reflexivity|]. cbv iota.
  change s_hash with [35]. destruct (startswith (l_dest l) [35]); [reflexivity|].
  destruct (match scheme_of (l_dest l) with Some s => mem_str s (p_url_schemes P) | None => false end); [reflexivity|].
  change s_inv with [105; 110; 118]. change s_path with [112; 97; 116; 104]. change s_project with [112; 114; 111; 106; 101; 99; 116].
  destruct (opt_str_eqb (scheme_of (l_dest l)) [105; 110; 118]) eqn:Ei;
    destruct (opt_str_eqb (scheme_of (l_dest l)) [112; 97; 116; 104]) eqn:Ea;
    destruct (opt_str_eqb (scheme_of (l_dest l)) [112; 114; 111; 106; 101; 99; 116]) eqn:Ep;
    try reflexivity;
    try (apply render_link_path_src_eq); try (apply render_link_project_src_eq);
    try (exfalso; first
      [ rewrite (opt_str_eqb_excl _ [105; 110; 118] [112; 97; 116; 104]) in Ea by (discriminate || assumption); discriminate
      | rewrite (opt_str_eqb_excl _ [105; 110; 118] [112; 114; 111; 106; 101; 99; 116]) in Ep by (discriminate || assumption); discriminate
      | rewrite (opt_str_eqb_excl _ [112; 97; 116; 104] [112; 114; 111; 106; 101; 99; 116]) in Ep by (discriminate || assumption); discriminate ]).
  destruct (l_auto l); [reflexivity|apply render_link_unknown_src_eq].
Qed.

(* ---------- the resolver ---------- *)

Theorem resolve_ref_nested_src_eq P from ex t :
  option_map (mkcand r_ref) (resolve_ref_nested_src P from ex t) = resolve_ref_nested P from ex t.
Proof.
  unfold resolve_ref_nested_src, resolve_ref_nested, anon_doc, anon_id, lab_doc, lab_id, lab_sect, lab_entry.
  cbv zeta. destruct ex.
  - destruct (find_label (p_labels P) (lower t)) as [e|]; [|reflexivity].
    destruct (lb_doc e); reflexivity.
  - destruct (find_label (p_labels P) (lower t)) as [e|]; [|reflexivity].
    destruct (lb_sect e); [|reflexivity]. destruct (lb_doc e); reflexivity.
Qed.

Theorem resolve_doc_nested_src_eq P from ex t :
  option_map (mkcand r_doc) (resolve_doc_nested_src P from ex t) = resolve_doc_nested P from ex t.
Proof.
  unfold resolve_doc_nested_src, resolve_doc_nested, in_docs, title_of. cbv zeta.
  destruct (find_doc (p_docs P) (docname_join from t)); [|reflexivity]. destruct ex; reflexivity.
Qed.

Theorem any_candidates_src_eq std other P from ex t :
  any_candidates_src std other P from ex t = any_candidates std other P from ex t.
Proof.
  unfold any_candidates_src, any_candidates. cbv zeta.
  rewrite <- resolve_ref_nested_src_eq, <- resolve_doc_nested_src_eq.
  change [115; 116; 100; 58; 114; 101; 102] with r_ref. change [115; 116; 100; 58; 100; 111; 99] with r_doc.
  destruct (resolve_ref_nested_src P from ex t); destruct (resolve_doc_nested_src P from ex t);
    cbn [option_map opt_list app]; rewrite <- ?app_assoc; reflexivity.
Qed.

Theorem resolve_myst_ref_doc_src_eq P from ex dn tid :
  resolve_myst_ref_doc_src P from ex dn tid = resolve_myst_ref_doc P from ex dn tid.
Proof.
  unfold resolve_myst_ref_doc_src, resolve_myst_ref_doc, in_docs, slugs_of, title_of, slug_in, slug_id, slug_title,
    doc_target_text, inner_of.
  cbv zeta. cbn [app].
  destruct (find_doc (p_docs P) dn) as [td|]; cbn [is_some negb].
  - destruct tid as [[|c i]|]; cbn [ostr_truthy nonempty is_nil negb oget].
    + destruct ex; [reflexivity|]. destruct (d_title td); reflexivity.
    + destruct (find_slug (d_slugs td) (c :: i)) as [e|]; cbn [is_some negb].
      * destruct ex; [reflexivity|]. destruct (sl_title e); reflexivity.
      * destruct ex; reflexivity.
    + destruct ex; [reflexivity|]. destruct (d_title td); reflexivity.
  - destruct ex; reflexivity.
Qed.

(* ---------- the whole link: run_link with the regenerated parts plugged in ---------- *)

Section SrcLink.
  Variable std_objects : str -> list cand.
  Variable other_domains : str -> list cand.
  Variable intersphinx : str -> option cand.

  (* MystReferenceResolver.run's tail (first candidate wins, ambiguity, fallback) is hand-modelled;
     its candidate list is the regenerated one *)
  Definition resolve_any_src (P : project) (from : str) (explicit : bool) (target : str) : outcome :=
    match any_candidates_src std_objects other_domains P from explicit target with
    | c :: rest =>
        mk (c_tgt c) (ensure_content target (c_txt c))
           (match rest with [] => [] | _ => [W_ambiguous target] end)
    | [] =>
        match intersphinx target with
        | Some c => mk (c_tgt c) (ensure_content target (c_txt c)) []
        | None => mk (T_fallback target) (if explicit then X_children else X_lit target) (log_missing P target)
        end
    end.

  Definition run_link_src (P : project) (d : docrec) (l : link) : outcome :=
    let explicit := l_explicit l in
    match render_link_src P d l with
    | C_url u => mk (T_ext u) X_children []
    | C_inv => mk T_other X_none []
    | C_anchor href =>
        let target := tl href in
        match find_local (d_local d) target with
        | Some e =>
            mk (T_refid (lo_id e))
               (if explicit then X_children
                else match lo_title e with
                     | Some t => if nonempty t then X_str t else X_str (c_hash :: target)
                     | None => X_str (c_hash :: target)
                     end) []
        | None =>
            match find_slug (d_slugs d) target with
            | Some e =>
                mk (T_refid (sl_id e))
                   (if explicit then X_children
                    else if nonempty (sl_title e) then X_str (sl_title e) else X_str (c_hash :: target)) []
            | None => resolve_any_src P (d_name d) explicit target
            end
        end
    | C_doc docname tid => resolve_myst_ref_doc_src P (d_name d) explicit docname tid
    | C_any target => resolve_any_src P (d_name d) explicit target
    | C_download reftarget shown =>
        let '(t, ws) := collect_download P d reftarget in
        mk t (if explicit then X_children else X_lit shown) ws
    | C_nofile abs uri => mk (T_ext uri) X_children [W_missing abs]
    end.

  Lemma resolve_any_src_eq P from ex t :
    resolve_any_src P from ex t = resolve_any std_objects other_domains intersphinx P from ex t.
  Proof. unfold resolve_any_src, resolve_any. rewrite any_candidates_src_eq. reflexivity. Qed.

  Theorem run_link_src_eq P d l :
    run_link_src P d l = run_link std_objects other_domains intersphinx P d l.
  Proof.
    unfold run_link_src, run_link, resolve_anchor. rewrite render_link_src_eq.
    destruct (render_link P d l); try reflexivity.
    - destruct (find_local _ _); [reflexivity|]. destruct (find_slug _ _); [reflexivity|]. apply resolve_any_src_eq.
    - apply resolve_myst_ref_doc_src_eq.
    - apply resolve_any_src_eq.
  Qed.
End SrcLink.

(* ---------- the property theorems, for the regenerated definitions ---------- *)
From Coq Require Import Setoid Morphisms.
From MV Require Import XRef.PathProofs.
From MV Require Import XRef.XRefProofs.

Theorem path_spellings_all_src : forall (P : project) (d : docrec) (tp : list str) (sp : str),
  segs_ok (p_srcdir P) -> segs_ok (d_dir d) -> Forall name_ok tp -> spells (d_dir d) tp sp ->
  plain_url_mode P = false ->
  relfn2path (p_srcdir P) (d_dir d) sp = Inside tp
  /\ (forall dn frag ch,
        is_file P (Inside tp) = true -> path2doc (p_suffixes P) (Inside tp) = Some dn -> dn <> [] ->
        render_link_src P d (mklink (with_frag sp frag) false ch) = C_doc dn frag)
  /\ (forall dn frag auto ch,
        mem_str s_project (p_url_schemes P) = false -> path2doc (p_suffixes P) (Inside tp) = Some dn -> dn <> [] ->
        render_link_src P d (mklink (s_project ++ c_colon :: with_frag sp frag) auto ch) = C_doc dn frag)
  /\ (forall ch,
        is_file P (Inside tp) = true -> path2doc (p_suffixes P) (Inside tp) = None ->
        render_link_src P d (mklink sp false ch) = C_download sp sp
        /\ collect_download P d sp = (T_dl (Inside tp), []))
  /\ (forall auto ch,
        mem_str s_path (p_url_schemes P) = false ->
        (is_file P (Inside tp) = true ->
           render_link_src P d (mklink (s_path ++ c_colon :: sp) auto ch) = C_download sp sp
           /\ collect_download P d sp = (T_dl (Inside tp), []))
        /\ (is_readable P (Inside tp) = false ->
           render_link_src P d (mklink (s_path ++ c_colon :: sp) auto ch)
           = C_nofile (abs_str P (Inside tp)) (s_path ++ c_colon :: sp))).
Proof.
  intros P d tp sp H1 H2 H3 H4 H5.
  destruct (path_spellings_all P d tp sp H1 H2 H3 H4 H5) as (A & B & C & D & E).
  split; [exact A|]. split; [intros; rewrite render_link_src_eq; apply B; assumption|].
  split; [intros; rewrite render_link_src_eq; apply C; assumption|].
  split; [intros ch Hf Hd; rewrite render_link_src_eq; apply D; assumption|].
  intros auto ch Hu. destruct (E auto ch Hu) as [E1 E2]. split; intro H; rewrite render_link_src_eq; auto.
Qed.

Theorem anchor_lookup_src : forall P from explicit dn td slug,
  find_doc (p_docs P) dn = Some td -> slug <> [] ->
  (forall e, find_slug (d_slugs td) slug = Some e -> sl_title e <> [] ->
     resolve_myst_ref_doc_src P from explicit dn (Some slug)
     = mk (make_refnode (p_dirhtml P) from dn (sl_id e)) (if explicit then X_children else X_str (sl_title e)) [])
  /\ (find_slug (d_slugs td) slug = None ->
     resolve_myst_ref_doc_src P from explicit dn (Some slug)
     = mk (make_refnode (p_dirhtml P) from dn slug)
          (if explicit then X_children else X_lit (dn ++ s_hash ++ slug)) (log_missing P slug)).
Proof.
  intros P from explicit dn td slug Hd Hs. destruct (anchor_lookup P from explicit dn td slug Hd Hs) as [A B].
  split; intros; rewrite resolve_myst_ref_doc_src_eq; auto.
Qed.

Theorem relative_docs_rewrite_src : forall P d l prefix cm r t k frag,
  segs_ok (p_srcdir P) -> p_srcdir P <> [] -> Forall name_ok (d_dir d) ->
  segs_ok cm -> segs_ok r -> segs_ok t -> t <> [] ->
  (forall x, d_dir d <> (cm ++ t) ++ x) ->
  (match frag with Some f => ~ In c_slash f | None => True end) ->
  l_include l = Some (prefix, cm ++ r) ->
  startswith (with_frag (rel_spelling k r t) frag) prefix = true ->
  exists sp', spells (d_dir d) (cm ++ t) sp'
    /\ handle_relative_docs_src P d l (with_frag (rel_spelling k r t) frag) = with_frag sp' frag.
Proof.
  intros. rewrite handle_relative_docs_src_eq. eapply relative_docs_rewrite; eassumption.
Qed.

(* the [unresolved] predicate read off the regenerated classifier and candidate list *)
Definition unresolved_src (std_objects other_domains : str -> list cand) (intersphinx : str -> option cand)
           (P : project) (d : docrec) (l : link) : Prop :=
  match render_link_src P d l with
  | C_doc dn tid =>
      find_doc (p_docs P) dn = None
      \/ exists td i, find_doc (p_docs P) dn = Some td /\ tid = Some i /\ i <> [] /\ find_slug (d_slugs td) i = None
  | C_any t => any_candidates_src std_objects other_domains P (d_name d) (l_explicit l) t = [] /\ intersphinx t = None
  | C_anchor href =>
      find_local (d_local d) (tl href) = None /\ find_slug (d_slugs d) (tl href) = None
      /\ any_candidates_src std_objects other_domains P (d_name d) (l_explicit l) (tl href) = [] /\ intersphinx (tl href) = None
  | C_nofile _ _ => True
  | C_download rt _ =>
      contains rt s_css = false /\ is_readable P (relfn2path (p_srcdir P) (d_dir d) rt) = false
  | C_url _ | C_inv => False
  end.

Lemma unresolved_src_iff std other isx P d l :
  unresolved_src std other isx P d l <-> unresolved std other isx P d l.
Proof.
  unfold unresolved_src, unresolved. rewrite render_link_src_eq.
  destruct (render_link P d l); try tauto; rewrite ?any_candidates_src_eq; tauto.
Qed.

Theorem missing_once_src :
  forall (std_objects other_domains : str -> list cand) (intersphinx : str -> option cand) P d l,
  p_nitpick P = [] ->
  (unresolved_src std_objects other_domains intersphinx P d l ->
     count_missing (o_warns (run_link_src std_objects other_domains intersphinx P d l)) = 1%nat)
  /\ (~ unresolved_src std_objects other_domains intersphinx P d l ->
     count_missing (o_warns (run_link_src std_objects other_domains intersphinx P d l)) = 0%nat).
Proof.
  intros std other isx P d l Hn. rewrite run_link_src_eq, unresolved_src_iff. apply missing_once. exact Hn.
Qed.

Theorem src_refines_model :
  (forall P d p, abs_path_src P d p = abs_path P d p)
  /\ (forall P d l dest, handle_relative_docs_src P d l dest = handle_relative_docs P d l dest)
  /\ (forall P d l, render_link_project_src P d l = render_link_project P d l)
  /\ (forall P d l, render_link_path_src P d l = render_link_path P d l)
  /\ (forall P d l, render_link_unknown_src P d l = render_link_unknown P d l)
  /\ (forall P d l, render_link_src P d l = render_link P d l)
  /\ (forall P from ex t, option_map (mkcand r_ref) (resolve_ref_nested_src P from ex t) = resolve_ref_nested P from ex t)
  /\ (forall P from ex t, option_map (mkcand r_doc) (resolve_doc_nested_src P from ex t) = resolve_doc_nested P from ex t)
  /\ (forall std other P from ex t, any_candidates_src std other P from ex t = any_candidates std other P from ex t)
  /\ (forall P from ex dn tid, resolve_myst_ref_doc_src P from ex dn tid = resolve_myst_ref_doc P from ex dn tid).
Proof.
  exact (conj abs_path_src_eq (conj handle_relative_docs_src_eq (conj render_link_project_src_eq
        (conj render_link_path_src_eq (conj render_link_unknown_src_eq (conj render_link_src_eq
        (conj resolve_ref_nested_src_eq (conj resolve_doc_nested_src_eq (conj any_candidates_src_eq
        resolve_myst_ref_doc_src_eq))))))))).
Qed.
