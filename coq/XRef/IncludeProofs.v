(* Facts about the include bookkeeping (XRef/IncludeModel.v). *)
From Coq Require Import List NArith Bool.
From MV Require Import Base.PyStr.
From MV Require Import XRef.Path.
From MV Require Import XRef.IncludeModel.
From MV Require Import XRef.XRefModel.
Import ListNotations.
Open Scope N_scope.

Lemma restore_after_pop saved e :
  restore saved (set_docs (set_images e None) None) = saved.
Proof. destruct saved as [[i|] [dd|]]; reflexivity. Qed.

(* one include: whatever the nested render does, md_env afterwards is what it was before *)
Theorem include_env_restores {A} o root dir (render : menv -> A * menv) env :
  snd (include_env o root dir render env) = env.
Proof.
  unfold include_env. destruct (render _) as [a e]. cbn [snd]. apply restore_after_pop.
Qed.

Scheme item_mut := Induction for item Sort Prop
with items_mut := Induction for items Sort Prop.

(* any nesting: after an item has been rendered, md_env is exactly what it was before *)
Theorem render_item_restores root it env : snd (render_item root it env) = env.
Proof. destruct it as [|o dir body]; [reflexivity|]. cbn [render_item]. apply include_env_restores. Qed.

Theorem render_items_restores root l : forall env, snd (render_items root l env) = env.
Proof.
  induction l as [|x r IH]; intro env; [reflexivity|]. cbn [render_items].
  pose proof (render_item_restores root x env) as H. destruct (render_item root x env) as [a e1]. cbn [snd] in H. subst e1.
  pose proof (IH env) as H2. destruct (render_items root r env) as [b e2]. cbn [snd] in *. exact H2.
Qed.

(* what the links see: the setting of the nearest enclosing include with the option, based at the
   outermost document; links that FOLLOW a nested include see the outer setting again *)
Theorem render_item_seen root : forall it env, fst (render_item root it env) = seen root (me_docs env) it.
Proof.
  apply (item_mut (fun it => forall env, fst (render_item root it env) = seen root (me_docs env) it)
                  (fun l => forall env, fst (render_items root l env) = seen_items root (me_docs env) l)).
  - reflexivity.
  - intros o dir body IH env. cbn [render_item seen]. unfold include_env.
    set (env2 := match io_docs o with
                 | Some p => set_docs (if io_images o then set_images env (Some (relpath dir root)) else env) (Some (p, root, dir))
                 | None => if io_images o then set_images env (Some (relpath dir root)) else env
                 end).
    assert (Hs : me_docs env2 = match io_docs o with Some p => Some (p, root, dir) | None => me_docs env end).
    { unfold env2. destruct (io_docs o); destruct (io_images o); reflexivity. }
    rewrite <- Hs. specialize (IH env2). destruct (render_items root body env2) as [a e]. exact IH.
  - reflexivity.
  - intros x IHx r IHr env. cbn [render_items seen_items].
    pose proof (IHx env) as Hx. pose proof (render_item_restores root x env) as Hr.
    destruct (render_item root x env) as [a e1]. cbn [fst snd] in Hx, Hr. subst e1 a.
    specialize (IHr env). destruct (render_items root r env) as [b e2]. cbn [fst] in *. rewrite IHr. reflexivity.
Qed.

(* every setting a link sees is based at the outermost document's directory *)
Theorem seen_based_at_root root : forall it setting,
  (match setting with Some (_, r, _) => r = root | None => True end) ->
  Forall (fun s => match s with Some (_, r, _) => r = root | None => True end) (seen root setting it).
Proof.
  apply (item_mut (fun it => forall setting, (match setting with Some (_, r, _) => r = root | None => True end) ->
                     Forall (fun s => match s with Some (_, r, _) => r = root | None => True end) (seen root setting it))
                  (fun l => forall setting, (match setting with Some (_, r, _) => r = root | None => True end) ->
                     Forall (fun s => match s with Some (_, r, _) => r = root | None => True end) (seen_items root setting l))).
  - intros setting H. constructor; [exact H|constructor].
  - intros o dir body IH setting H. cbn [seen]. apply IH. destruct (io_docs o); [reflexivity|exact H].
  - intros setting H. constructor.
  - intros x IHx r IHr setting H. cbn [seen_items]. apply Forall_app. split; [apply IHx|apply IHr]; exact H.
Qed.

(* the md_env entry of a link and the model's l_include describe the same rewriting *)
Theorem handle_relative_docs_setting P d l prefix incdir dest :
  l_include l = Some (prefix, incdir) ->
  handle_relative_docs P d l dest
  = handle_with_setting (Some (prefix, abs_dir_str P (d_dir d), abs_dir_str P incdir)) dest.
Proof. intro H. unfold handle_relative_docs, handle_with_setting. rewrite H. reflexivity. Qed.
