(* The tokenizer oracle of the C08 / C04 theorems instantiated with the C07 model of options_to_items
   (Opt/OptModel.v, Opt/OptComments.v - read only here). *)
From Coq Require Import List NArith ZArith Bool.
From MV Require Import Base.PyStr.
From MV Require Import Base.Res.
From MV Require Import Opt.OptModel.
From MV Require Import Opt.OptSafe.
From MV Require Import Opt.OptComments.
From MV Require Import Opt.YamlSpec.
From MV Require Import Opt.OptAgreeAll.
From MV Require Import Dir.PyLines.
From MV Require Import Dir.PyLinesProofs.
From MV Require Import Dir.DirModel.
From MV Require Import Dir.DirProofs.
From MV Require Import Dir.Lines.
From MV Require Import Dir.LinesProofs.
Import ListNotations.

(* (pairs, state.has_comments): exactly the shape of the [tokenize] Section variable of Dir/DirModel.v *)
Definition c07_tokenize : str -> res (list (str * str) * bool) := options_to_items_state.

(* the stateful result is determined by the pairs and the flag *)
Lemma c07_state_decompose text :
  options_to_items_state text =
  match options_to_items text with
  | Ok items => Ok (items, has_comments text)
  | Raise e => Raise e
  end.
Proof.
  pose proof (options_to_items_state_erase text) as H. unfold has_comments.
  destruct (options_to_items_state text) as [[items cm]|e]; cbn in H; rewrite <- H; reflexivity.
Qed.

(* C07_only_tokenize_error carried over to the stateful function *)
Lemma c07_only_tokenize_error text :
  match c07_tokenize text with Ok _ => True | Raise (TokenizeError _) => True | Raise _ => False end.
Proof.
  unfold c07_tokenize. rewrite c07_state_decompose.
  destruct (only_tokenize_error text) as [[pairs E]|[p [E _]]]; rewrite E; exact I.
Qed.

(* final newline: from the two facts about the C07 model *)
Lemma c07_final_newline (t : str) :
  options_to_items (t ++ nl) = options_to_items t ->
  has_comments (t ++ nl) = has_comments t ->
  c07_tokenize (t ++ nl) = c07_tokenize t.
Proof.
  intros Hp Hc. unfold c07_tokenize. rewrite !c07_state_decompose, Hp, Hc. reflexivity.
Qed.

(* C08_styles_interchangeable with the C07 model as tokenizer: the premise about the tokenizer is now a statement
   about Opt.OptModel.options_to_items (pairs) and Opt.OptComments.has_comments (flag) *)
Theorem styles_interchangeable_c07 yaml_load sg fl c1 c2 d0 d1 kvs B line v add :
  has_option_spec sg = true ->
  kvs <> [] -> Forall kv_line kvs ->
  splitlines c1 = map (fun l => c_colon :: l) kvs ++ B -> is_colon_line (hd_line B) = false ->
  splitlines c2 = d0 :: kvs ++ d1 :: B -> is_dash_line d0 = true -> is_dash_line d1 = true ->
  options_to_items (join_nl kvs ++ nl) = options_to_items (join_nl kvs) ->
  has_comments (join_nl kvs ++ nl) = has_comments (join_nl kvs) ->
  yaml_load (join_nl kvs ++ nl) = yaml_load (join_nl kvs) ->
  res_rel (result_rel sg fl 2)
          (parse_directive_text c07_tokenize yaml_load sg fl c1 line v add)
          (parse_directive_text c07_tokenize yaml_load sg fl c2 line v add).
Proof.
  intros Hh Hne Hk L1 HB L2 H0 H1 Hp Hc Hy.
  apply (styles_interchangeable c07_tokenize yaml_load sg fl c1 c2 d0 d1 kvs B line v add); auto.
  apply c07_final_newline; assumption.
Qed.

(* C04_lines_nested with the C07 model as tokenizer: for a class without arguments nothing is assumed about the
   tokenizer any more (O_parse_ok follows from C07_only_tokenize_error) *)
Theorem lines_nested_c07 yaml_load sg fl :
  has_option_spec sg = true -> no_arguments sg = true -> first_line_is_body sg fl = false ->
  forall doc, wf_seq doc = true ->
  document_lines c07_tokenize yaml_load sg fl doc = Ok (lift (locate_seq 1 doc)).
Proof.
  intros Hh Hna Hfl doc Hw.
  apply lines_nested; auto.
  intros content line. apply (parse_ok_when c07_tokenize yaml_load sg fl Hna c07_only_tokenize_error).
Qed.

(* the pairs premise from C07_final_newline_optional: a block of lines that is the text (without its final line feed) of
   a well-formed C07 block whose last item is a key without value or with a flow scalar *)
Definition c07_block_text (t : str) : Prop :=
  exists lead items, t = print_block (BK lead items false) /\
                     wf_block (BK lead items true) = true /\ last_item_ok items = true.

Lemma c07_pairs_final_newline t : c07_block_text t -> options_to_items (t ++ nl) = options_to_items t.
Proof.
  intros [lead [items [-> [Hw Hl]]]].
  change nl with [10%N]. rewrite <- (print_block_nolf lead items Hl).
  symmetry. apply final_newline_optional; assumption.
Qed.

Theorem styles_interchangeable_c07_block yaml_load sg fl c1 c2 d0 d1 kvs B line v add :
  has_option_spec sg = true ->
  kvs <> [] -> Forall kv_line kvs ->
  splitlines c1 = map (fun l => c_colon :: l) kvs ++ B -> is_colon_line (hd_line B) = false ->
  splitlines c2 = d0 :: kvs ++ d1 :: B -> is_dash_line d0 = true -> is_dash_line d1 = true ->
  c07_block_text (join_nl kvs) ->
  has_comments (join_nl kvs ++ nl) = has_comments (join_nl kvs) ->
  yaml_load (join_nl kvs ++ nl) = yaml_load (join_nl kvs) ->
  res_rel (result_rel sg fl 2)
          (parse_directive_text c07_tokenize yaml_load sg fl c1 line v add)
          (parse_directive_text c07_tokenize yaml_load sg fl c2 line v add).
Proof.
  intros Hh Hne Hk L1 HB L2 H0 H1 Hb Hc Hy.
  apply (styles_interchangeable_c07 yaml_load sg fl c1 c2 d0 d1 kvs B line v add); auto.
  apply c07_pairs_final_newline. exact Hb.
Qed.

(* non-vacuity: "class: x" / "name: y" is such a block text, made of kv_lines *)
Definition ex_kvs : list str := [[99; 108; 97; 115; 115; 58; 32; 120]; [110; 97; 109; 101; 58; 32; 121]]%N.
Definition ex_items : list item :=
  [IKV (KPlain (PL [99; 108; 97; 115; 115]%N [])) 0 (VFlow 1 (FPlain (PL [120]%N []) []) 0 None) [];
   IKV (KPlain (PL [110; 97; 109; 101]%N [])) 0 (VFlow 1 (FPlain (PL [121]%N []) []) 0 None) []].

Lemma ex_kvs_block_text : c07_block_text (join_nl ex_kvs) /\ Forall kv_line ex_kvs.
Proof.
  split.
  - exists [], ex_items. repeat split; vm_compute; reflexivity.
  - repeat constructor; try reflexivity; eexists; eexists; split; reflexivity.
Qed.
