(* Model of myst_parser/parsers/directives.py (after fix 601d16e): parse_directive_text,
   _parse_directive_options, parse_directive_arguments.  Function for function, same order of tests.
   Executable definitions only; proofs are in DirProofs.v.

   External code enters as Section variables:
     tokenize   options_to_items (C07's model)     : block -> (items, state.has_comments) | TokenizeError | other
     yaml_load  yaml.safe_load                      : block -> yres
   and the directive class as a record [dsig] (so "every directive class" is a universally quantified parameter). *)
From Coq Require Import List NArith ZArith Bool.
From MV Require Import Base.PyStr.
From MV Require Import Base.Res.
From MV Require Import Dir.PyLines.
Import ListNotations.
Open Scope N_scope.

Definition dashes : str := [c_dash; c_dash; c_dash].     (* "---" *)
Definition colon : str := [c_colon].                     (* ":" *)

(* the directive class as seen by the splitter *)
Record dsig := {
  has_option_spec : bool;                       (* bool(directive_class.option_spec) *)
  opt_known : str -> bool;                      (* options_spec[name] does not raise KeyError *)
  opt_keys : list str;                          (* sorted(options_spec), only printed in a message *)
  opt_is_flag : str -> bool;                    (* options_spec[name] is directives.flag *)
  opt_conv : str -> option str -> res str;      (* options_spec[name](value); the value is observed by its repr *)
  required_arguments : nat;
  optional_arguments : nat;
  final_argument_whitespace : bool;
  has_content : bool;
  is_test : bool                                (* issubclass(directive_class, TestDirective) *)
}.

(* ParseWarnings: type, lineno and what the message names *)
Inductive pwarn :=
| W_yaml_bad (line : option nat)                (* "Invalid options format (bad YAML)"        DIRECTIVE_OPTION *)
| W_yaml_notdict (line : option nat)            (* "Invalid options format (not a dict)"      DIRECTIVE_OPTION *)
| W_tokenize (line : option nat)                (* "Invalid options format: ..."              DIRECTIVE_OPTION *)
| W_comments (line : option nat)                (* "Directive options has # comments ..."     DIRECTIVE_OPTION_COMMENTS *)
| W_invalid (name : str) (line : option nat)    (* "Invalid option value for 'name' ..."      DIRECTIVE_OPTION *)
| W_unknown (names : list str) (line : option nat)  (* "Unknown option keys: [sorted names]"  DIRECTIVE_OPTION *)
| W_split                                       (* "Splitting content across first line ..."  DIRECTIVE_PARSING, lineno None *)
| W_has_content.                                (* "Has content, but none permitted"          DIRECTIVE_PARSING, lineno None *)

Inductive yres :=
| Y_error                      (* yaml.parser.ParserError / yaml.scanner.ScannerError *)
| Y_falsy                      (* None, {}, [], "", 0, False : `... or {}` *)
| Y_notdict
| Y_dict (items : list (str * str))
| Y_raise (e : exn).           (* any other exception *)

(* Python dicts as association lists in insertion order *)
Fixpoint dict_set {V} (d : list (str * V)) (k : str) (v : V) : list (str * V) :=
  match d with
  | [] => [(k, v)]
  | (k', v') :: d' => if str_eqb k k' then (k', v) :: d' else (k', v') :: dict_set d' k v
  end.
Definition dict_update {V} (d e : list (str * V)) : list (str * V) :=    (* {**d, **e} *)
  fold_left (fun acc kv => dict_set acc (fst kv) (snd kv)) e d.
Definition dict_of {V} (items : list (str * V)) : list (str * V) := dict_update [] items.
Fixpoint dict_get {V} (d : list (str * V)) (k : str) : option V :=
  match d with [] => None | (k', v) :: d' => if str_eqb k k' then Some v else dict_get d' k end.

Record dopts := {
  o_content : list str;                 (* the lines of the content that follow the options block *)
  o_options : list (str * str);
  o_warnings : list pwarn;
  o_has_options : bool }.

Record dresult := {
  r_arguments : list str;
  r_options : list (str * str);
  r_body : list str;
  r_body_offset : Z;
  r_warnings : list pwarn }.

(* `line.lstrip().startswith(":")` *)
Definition is_colon_line (l : str) : bool := startswith (lstrip l) colon.
Definition is_dash_line (l : str) : bool := startswith l dashes.

(* x[1:] is List.tl (total, like the slice) *)

(* the while loop of the colon style: pops leading colon lines *)
Fixpoint pop_colon_lines (content_lines : list str) : list str * list str :=
  match content_lines with
  | [] => ([], [])
  | l :: rest =>
      if negb (is_colon_line l) then ([], content_lines)
      else let (y, r) := pop_colon_lines rest in (tl (lstrip l) :: y, r)
  end.

(* re.search(r"^-{3,}", "\n".join(lines), re.MULTILINE): the lines before the first line starting
   with "---", and the lines from it on (None = no match).  O_re_multiline. *)
Fixpoint search_dash (lines : list str) : list str * option (list str) :=
  match lines with
  | [] => ([], None)
  | l :: rest =>
      if is_dash_line l then ([], Some lines)
      else let (pre, m) := search_dash rest in (l :: pre, m)
  end.

(* content[: match.start()] for the match found by search_dash: every preceding line with its "\n" *)
Definition text_before (pre : list str) : str := concat (map (fun l => l ++ nl) pre).

Section Dir.

Variable tokenize : str -> res (list (str * str) * bool).
Variable yaml_load : str -> yres.

(* the option-block extraction at the top of _parse_directive_options:
   (options_block, content_lines, line) *)
Definition split_options (content : str) (line : option nat) : option str * list str * option nat :=
  let content_lines := splitlines content in
  if startswith content dashes then
    let line := option_map S line in
    let content_lines := tl content_lines in
    let '(pre, m) := search_dash content_lines in
    match m with
    | Some _ =>
        let options_block := text_before pre in
        (Some (dedent options_block), skipn (count_nl options_block + 1) content_lines, line)
    | None => (Some (dedent (join_nl content_lines)), [], line)
    end
  else if startswith (lstrip content) colon then
    let (yaml_lines, rest) := pop_colon_lines content_lines in
    (Some (join_nl yaml_lines), rest, line)
  else (None, content_lines, line).

(* the for-loop over options.items() *)
Fixpoint validate_loop (sg : dsig) (line : option nat) (options : list (str * str))
  : res (list (str * str) * list pwarn * list str) :=     (* new_options, validation_errors, unknown_options *)
  match options with
  | [] => Ok ([], [], [])
  | (name, value) :: rest =>
      if negb (opt_known sg name) then
        do r <- validate_loop sg line rest;
        let '(no, ve, un) := r in Ok (no, ve, name :: un)
      else
        let value := if nonempty value then Some value else None in
        let value := if opt_is_flag sg name then None else value in
        match opt_conv sg name value with
        | Ok converted =>
            do r <- validate_loop sg line rest;
            let '(no, ve, un) := r in Ok ((name, converted) :: no, ve, un)
        | Raise _ =>         (* `except Exception` (commit 155ac3f): every failure of a converter is reported *)
            do r <- validate_loop sg line rest;
            let '(no, ve, un) := r in Ok (no, W_invalid name line :: ve, un)
        end
  end.

Definition parse_directive_options (content : str) (sg : dsig) (as_yaml : bool) (line : option nat)
           (additional_options : option (list (str * str))) : res dopts :=
  let '(options_block, content_lines, line) := split_options content line in
  let has_options_block := match options_block with Some _ => true | None => false end in
  if as_yaml then
    match yaml_load (match options_block with Some b => b | None => [] end) with
    | Y_raise _     (* `except Exception:` (commit 22b9d98): every failure of the loader is reported *)
    | Y_error => Ok {| o_content := content_lines; o_options := []; o_warnings := [W_yaml_bad line];
                       o_has_options := has_options_block |}
    | Y_falsy => Ok {| o_content := content_lines; o_options := []; o_warnings := [];
                       o_has_options := has_options_block |}
    | Y_notdict => Ok {| o_content := content_lines; o_options := []; o_warnings := [W_yaml_notdict line];
                         o_has_options := has_options_block |}
    | Y_dict items => Ok {| o_content := content_lines; o_options := items; o_warnings := [];
                            o_has_options := has_options_block |}
    end
  else
    let tok :=
      match options_block with
      | None => Ok (Some ([], []))
      | Some b =>
          match tokenize b with
          | Ok (items, has_comments) =>
              Ok (Some (dict_of items, if has_comments then [W_comments line] else []))
          | Raise (TokenizeError _) => Ok None
          | Raise e => Raise e
          end
      end in
    match tok with
    | Raise e => Raise e
    | Ok None => Ok {| o_content := content_lines; o_options := []; o_warnings := [W_tokenize line];
                       o_has_options := has_options_block |}
    | Ok (Some (options, validation_errors)) =>
        if is_test sg then
          Ok {| o_content := content_lines; o_options := options; o_warnings := [];
                o_has_options := has_options_block |}
        else
          let options :=
            match additional_options with
            | Some (a :: l) => dict_update (dict_of (a :: l)) options     (* `if additional_options:` *)
            | _ => options
            end in
          do r <- validate_loop sg line options;
          let '(new_options, ve, unknown) := r in
          let validation_errors := validation_errors ++ ve in
          let validation_errors :=
            if nonempty unknown then validation_errors ++ [W_unknown (sorted_strs unknown) line]
            else validation_errors in
          Ok {| o_content := content_lines; o_options := new_options; o_warnings := validation_errors;
                o_has_options := has_options_block |}
    end.

Definition parse_directive_arguments (sg : dsig) (arg_text : str) : res (list str) :=
  let required := required_arguments sg in
  let optional := optional_arguments sg in
  let arguments := split_ws arg_text in
  if Nat.ltb (length arguments) required then Raise MarkupError
  else if Nat.ltb (required + optional) (length arguments) then
    if final_argument_whitespace sg then
      match (required + optional)%nat with
      | O => Ok (split_ws arg_text)                      (* split(None, -1): no limit *)
      | S k => Ok (split_max k arg_text)
      end
    else Raise MarkupError
  else Ok arguments.

(* parse_directive_text, in the order of the source: the option phase ... *)
Definition options_phase (sg : dsig) (content : str) (line : option nat) (validate_options : bool)
           (additional_options : option (list (str * str)))
  : res (list pwarn * bool * list (str * str) * list str * Z) :=
  (* parse_warnings, has_options_block, options, body_lines, content_offset *)
  if has_option_spec sg then
    do result <- parse_directive_options content sg (negb validate_options) line additional_options;
    let body_lines := o_content result in
    Ok (o_warnings result, o_has_options result, o_options result, body_lines,
        (Z.of_nat (length (splitlines content)) - Z.of_nat (length body_lines))%Z)
  else Ok ([], false, [], splitlines content, 0%Z).

(* `not (required_arguments or optional_arguments)` and `first_line.strip()` *)
Definition no_arguments (sg : dsig) : bool :=
  Nat.eqb (required_arguments sg) 0 && Nat.eqb (optional_arguments sg) 0.
Definition first_line_is_body (sg : dsig) (first_line : str) : bool :=
  no_arguments sg && nonempty (strip first_line).

(* ... the first line: body text or arguments ... *)
Definition first_line_phase (sg : dsig) (first_line : str) (parse_warnings : list pwarn)
           (has_options_block : bool) (body_lines : list str) (content_offset : Z)
  : res (list pwarn * list str * Z * list str) :=
  if no_arguments sg then
    if nonempty (strip first_line) then
      let parse_warnings :=
        if has_options_block && existsb nonempty body_lines then parse_warnings ++ [W_split]
        else parse_warnings in
      Ok (parse_warnings, first_line :: body_lines, 0%Z, [])
    else Ok (parse_warnings, body_lines, content_offset, [])
  else
    do arguments <- parse_directive_arguments sg first_line;
    Ok (parse_warnings, body_lines, content_offset, arguments).

(* ... "remove first line of body if blank" ... *)
Definition strip_blank_line (body_lines : list str) (content_offset : Z) : list str * Z :=
  match body_lines with
  | l :: rest => if is_blank l then (rest, (content_offset + 1)%Z) else (body_lines, content_offset)
  | [] => (body_lines, content_offset)
  end.

Definition parse_directive_text (sg : dsig) (first_line content : str) (line : option nat)
           (validate_options : bool) (additional_options : option (list (str * str))) : res dresult :=
  do st <- options_phase sg content line validate_options additional_options;
  let '(parse_warnings, has_options_block, options, body_lines, content_offset) := st in
  do st2 <- first_line_phase sg first_line parse_warnings has_options_block body_lines content_offset;
  let '(parse_warnings, body_lines, content_offset, arguments) := st2 in
  let '(body_lines, content_offset) := strip_blank_line body_lines content_offset in
  (* ... and the check for body content *)
  let parse_warnings :=
    if nonempty body_lines && negb (has_content sg) then parse_warnings ++ [W_has_content]
    else parse_warnings in
  Ok {| r_arguments := arguments; r_options := options; r_body := body_lines;
        r_body_offset := content_offset; r_warnings := parse_warnings |}.

End Dir.

(* ---- the code as it was before fix 601d16e (kept for the refutation theorem only):
   the remaining content was re-joined with "\n" and split again ---- *)
Definition old_body_and_offset (content : str) : list str * Z :=
  let content_lines := splitlines content in
  let rest :=
    if startswith content dashes then
      let cl := tl content_lines in
      match search_dash cl with
      | (pre, Some (d :: after)) =>
          (* content[match.end() + 1 :] : skip the run of dashes and one more character *)
          tl (drop_while (fun c => c =? c_dash) (join_nl (d :: after)))
      | _ => []
      end
    else if startswith (lstrip content) colon then join_nl (snd (pop_colon_lines content_lines))
    else join_nl content_lines in
  let body_lines := splitlines rest in
  let off := (Z.of_nat (length content_lines) - Z.of_nat (length body_lines))%Z in
  match body_lines with
  | l :: r => if is_blank l then (r, (off + 1)%Z) else (body_lines, off)
  | [] => (body_lines, off)
  end.
