(* Semantics of the Python idioms that gen/c08_dirsrc.py maps to a single function (the domain mapping of the
   source translation of parsers/directives.py).  Executable definitions only. *)
From Coq Require Import List NArith ZArith Bool.
From MV Require Import Base.PyStr.
From MV Require Import Base.Res.
From MV Require Import Dir.PyLines.
From MV Require Import Dir.DirModel.
Import ListNotations.
Open Scope N_scope.

(* _RE_NEWLINE.split(text), _RE_NEWLINE = re.compile(r"\r\n|\r|\n"): never empty, keeps a last "" *)
Fixpoint re_newline_split_from (skip_lf : bool) (s : str) : list str :=
  match s with
  | [] => [[]]
  | c :: s' =>
      if skip_lf && (c =? c_nl) then re_newline_split_from false s'
      else if is_sep c then [] :: re_newline_split_from (c =? c_cr) s'
      else cons_first c (re_newline_split_from false s')
  end.
Definition re_newline_split (s : str) : list str := re_newline_split_from false s.

(* lines[-1] *)
Fixpoint py_last (ls : list str) : res str :=
  match ls with
  | [] => Raise IndexError
  | [l] => Ok l
  | _ :: r => py_last r
  end.

(* s.split(None, k) for a Python int k: negative = no limit *)
Definition py_split_maxsplit (s : str) (k : Z) : list str :=
  if (k <? 0)%Z then split_ws s else split_max (Z.to_nat k) s.

(* x or "" for x : None | str *)
Definition ostr_or_empty (o : option str) : str := match o with Some s => s | None => [] end.

(* an optional dict used as a dict (inside `if additional_options:`) *)
Definition odict (o : option (list (str * str))) : list (str * str) := match o with Some l => l | None => [] end.

(* the value of `yaml.safe_load(..) or {}`, isinstance(., dict), and the dict handed on *)
Definition y_or_empty (y : yres) : yres := match y with Y_falsy => Y_dict [] | o => o end.
Definition y_is_dict (y : yres) : bool := match y with Y_dict _ => true | _ => false end.
Definition y_items (y : yres) : list (str * str) := match y with Y_dict items => items | _ => [] end.

(* re.search(r"^-{3,}", content, re.MULTILINE).start(): offset of the first "\n"-separated line that starts with "---" *)
Definition re_search_dashes (content : str) : option nat :=
  match search_dash (split_nl content) with
  | (pre, Some _) => Some (length (text_before pre))
  | (_, None) => None
  end.
