(* Lemmas about the Python string operations of PyLines.v. *)
From Coq Require Import List NArith Bool Lia Permutation.
From MV Require Import Base.PyStr.
From MV Require Import Gen.C08Unicode.
From MV Require Import Dir.PyLines.
Import ListNotations.
Open Scope N_scope.

(* ---------- character classes ---------- *)

Lemma sep_is_space c : is_sep c = true -> is_space c = true.
Proof.
  unfold is_sep, is_space. intro H. apply mem_N_In in H.
  assert (A : forallb (fun x => mem_N x ws_chars) sep_chars = true) by (vm_compute; reflexivity).
  rewrite forallb_forall in A. apply A. exact H.
Qed.

Lemma nl_is_sep : is_sep c_nl = true. Proof. vm_compute. reflexivity. Qed.
Lemma dash_not_sep : is_sep c_dash = false. Proof. vm_compute. reflexivity. Qed.
Lemma dash_not_space : is_space c_dash = false. Proof. vm_compute. reflexivity. Qed.
Lemma colon_not_space : is_space c_colon = false. Proof. vm_compute. reflexivity. Qed.
Lemma st_is_space c : is_st c = true -> is_space c = true.
Proof.
  unfold is_st. intro H. apply orb_true_iff in H as [H|H]; apply N.eqb_eq in H; subst; vm_compute; reflexivity.
Qed.

(* a line holds no separator *)
Definition nosep (l : str) : Prop := forallb (fun c => negb (is_sep c)) l = true.

Lemma nosep_cons c l : nosep (c :: l) <-> is_sep c = false /\ nosep l.
Proof.
  unfold nosep. cbn [forallb]. rewrite andb_true_iff, negb_true_iff. tauto.
Qed.

Lemma nosep_nil : nosep []. Proof. reflexivity. Qed.

Lemma nosep_app a b : nosep (a ++ b) <-> nosep a /\ nosep b.
Proof. unfold nosep. rewrite forallb_app, andb_true_iff. tauto. Qed.

(* ---------- splitlines ---------- *)

Lemma cons_first_nosep c ls :
  is_sep c = false -> Forall nosep ls -> Forall nosep (cons_first c ls).
Proof.
  intros Hc H. destruct ls as [|l ls]; cbn [cons_first].
  - constructor; [|constructor]. apply nosep_cons. split; [exact Hc | apply nosep_nil].
  - inversion H; subst. constructor; auto. apply nosep_cons. auto.
Qed.

Lemma splitlines_from_nosep s : forall b, Forall nosep (splitlines_from b s).
Proof.
  induction s as [|c s IH]; intro b; cbn [splitlines_from].
  - constructor.
  - destruct (b && (c =? c_nl)); [apply IH|].
    destruct (is_sep c) eqn:E.
    + constructor; [apply nosep_nil | apply IH].
    + apply cons_first_nosep; [exact E | apply IH].
Qed.

Lemma splitlines_nosep s : Forall nosep (splitlines s).
Proof. apply splitlines_from_nosep. Qed.

Lemma cons_first_not_nil c ls : cons_first c ls <> [].
Proof. destruct ls; discriminate. Qed.

Lemma splitlines_nonempty s : s <> [] -> splitlines s <> [].
Proof.
  destruct s as [|c s]; [congruence|]. intros _. unfold splitlines. cbn [splitlines_from andb].
  destruct (is_sep c); [discriminate | apply cons_first_not_nil].
Qed.

(* the first line is a prefix of the text, followed by nothing or by a separator *)
Lemma splitlines_head s l ls :
  splitlines s = l :: ls ->
  exists r, s = l ++ r /\ (r = [] \/ exists c r', r = c :: r' /\ is_sep c = true).
Proof.
  unfold splitlines. revert l ls. induction s as [|c s IH]; intros l ls H; cbn [splitlines_from andb] in H.
  - discriminate.
  - destruct (is_sep c) eqn:E.
    + inversion H; subst. exists (c :: s). split; [reflexivity|]. right. eauto.
    + destruct (splitlines_from false s) as [|l' ls'] eqn:E'.
      * cbn [cons_first] in H. inversion H; subst.
        destruct s as [|x s].
        -- exists []. split; [reflexivity | left; reflexivity].
        -- exfalso. cbn [splitlines_from andb] in E'.
           destruct (is_sep x); [discriminate | eapply cons_first_not_nil; eauto].
      * cbn [cons_first] in H. injection H as H1 H2. subst l ls.
        destruct (IH l' ls' eq_refl) as [r [Hs Hr]]. exists r. split; [cbn; congruence | exact Hr].
Qed.

(* for the proofs only: first line or "" *)
Definition hd_line (ls : list str) : str := match ls with l :: _ => l | [] => [] end.

Lemma startswith_nil_r s : startswith s [] = true.
Proof. destruct s; reflexivity. Qed.

Lemma hd_line_cons_first c ls : hd_line (cons_first c ls) = c :: hd_line ls.
Proof. destruct ls; reflexivity. Qed.

(* s.startswith(p) only looks at the first line when p holds no separator *)
Lemma startswith_hd_line p : forall s,
  nosep p -> startswith s p = startswith (hd_line (splitlines s)) p.
Proof.
  unfold splitlines.
  induction p as [|c p IH]; intros s Hp.
  - rewrite !startswith_nil_r. reflexivity.
  - apply nosep_cons in Hp as [Hc Hp].
    destruct s as [|x s]; [reflexivity|].
    cbn [splitlines_from andb].
    destruct (is_sep x) eqn:E.
    + cbn [hd_line startswith].
      destruct (c =? x) eqn:Ecx; [|reflexivity].
      apply N.eqb_eq in Ecx. subst. congruence.
    + rewrite hd_line_cons_first. cbn [startswith]. rewrite (IH s Hp). reflexivity.
Qed.

(* ---------- lstrip / strip ---------- *)

Lemma lstrip_app_nonempty l r : lstrip l <> [] -> lstrip (l ++ r) = lstrip l ++ r.
Proof.
  induction l as [|c l IH]; intro H; [exfalso; apply H; reflexivity|].
  cbn [lstrip app] in *. destruct (is_space c); [apply IH; exact H | reflexivity].
Qed.

Lemma lstrip_all_space l r : lstrip l = [] -> lstrip (l ++ r) = lstrip r.
Proof.
  induction l as [|c l IH]; intro H; [reflexivity|].
  cbn [lstrip app] in *. destruct (is_space c); [apply IH; exact H | discriminate].
Qed.

Lemma lstrip_idem s : lstrip (lstrip s) = lstrip s.
Proof.
  induction s as [|c s IH]; [reflexivity|]. cbn [lstrip]. destruct (is_space c) eqn:E; [exact IH|].
  cbn [lstrip]. rewrite E. reflexivity.
Qed.

Lemma lstrip_nonspace c s : is_space c = false -> lstrip (c :: s) = c :: s.
Proof. intro H. cbn [lstrip]. rewrite H. reflexivity. Qed.

(* ---------- split ---------- *)

Lemma break_space_app s : forall w r, break_space s = (w, r) -> s = w ++ r.
Proof.
  induction s as [|c s IH]; intros w r H; cbn [break_space] in H.
  - inversion H. reflexivity.
  - destruct (is_space c).
    + inversion H. reflexivity.
    + destruct (break_space s) as [w' r'] eqn:E. inversion H; subst. cbn. f_equal. apply IH. reflexivity.
Qed.

Lemma break_space_word s : forall w r, break_space s = (w, r) ->
  forallb (fun c => negb (is_space c)) w = true /\ (r = [] \/ exists c r', r = c :: r' /\ is_space c = true).
Proof.
  induction s as [|c s IH]; intros w r H; cbn [break_space] in H.
  - inversion H. split; [reflexivity | left; reflexivity].
  - destruct (is_space c) eqn:E.
    + inversion H; subst. split; [reflexivity | right; eauto].
    + destruct (break_space s) as [w' r'] eqn:E'. inversion H; subst.
      destruct (IH w' r eq_refl) as [A B]. split; [|exact B]. cbn [forallb]. rewrite E. exact A.
Qed.

(* split_ws_acc with a pending word: the word is completed by the next run of non-whitespace *)
Lemma split_ws_acc_word w : forall cur r,
  forallb (fun c => negb (is_space c)) w = true ->
  (r = [] \/ exists c r', r = c :: r' /\ is_space c = true) ->
  nonempty (cur ++ w) = true ->
  split_ws_acc (rev cur) (w ++ r) = (cur ++ w) :: split_ws_acc [] r.
Proof.
  induction w as [|c w IH]; intros cur r Hw Hr Hne.
  - rewrite app_nil_r in *. cbn [app].
    destruct Hr as [->|[c [r' [-> Hc]]]].
    + cbn [split_ws_acc]. destruct (rev cur) eqn:E.
      * apply (f_equal (@rev N)) in E. rewrite rev_involutive in E. subst. discriminate.
      * cbn [nonempty]. rewrite <- E, rev_involutive. reflexivity.
    + cbn [split_ws_acc]. rewrite Hc. destruct (rev cur) eqn:E.
      * apply (f_equal (@rev N)) in E. rewrite rev_involutive in E. subst. discriminate.
      * cbn [nonempty]. rewrite <- E, rev_involutive. reflexivity.
  - cbn [forallb] in Hw. apply andb_true_iff in Hw as [Hc Hw]. apply negb_true_iff in Hc.
    cbn [app split_ws_acc]. rewrite Hc.
    replace (c :: rev cur) with (rev (cur ++ [c])) by (rewrite rev_app_distr; reflexivity).
    rewrite (IH (cur ++ [c]) r Hw Hr).
    + rewrite <- app_assoc. reflexivity.
    + rewrite <- app_assoc. destruct cur; reflexivity.
Qed.

Lemma split_ws_lstrip s : split_ws s = split_ws (lstrip s).
Proof.
  unfold split_ws. induction s as [|c s IH]; [reflexivity|].
  cbn [lstrip split_ws_acc]. destruct (is_space c) eqn:E.
  - cbn [nonempty]. exact IH.
  - cbn [split_ws_acc]. rewrite E. reflexivity.
Qed.

(* one step of split(): first word, then the split of the rest *)
Lemma split_ws_step s c s' w r :
  lstrip s = c :: s' -> break_space (c :: s') = (w, r) ->
  split_ws s = w :: split_ws r /\ w <> [].
Proof.
  intros Hl Hb. rewrite split_ws_lstrip, Hl.
  pose proof (break_space_app _ _ _ Hb) as Happ.
  pose proof (break_space_word _ _ _ Hb) as [Hw Hr].
  assert (Hc : is_space c = false).
  { destruct (is_space c) eqn:E; [|reflexivity].
    assert (lstrip (lstrip s) = lstrip s) by apply lstrip_idem.
    rewrite Hl in H. cbn [lstrip] in H. rewrite E in H.
    (* lstrip s' = c :: s' is impossible: lstrip never gets longer *)
    exfalso. clear -H.
    assert (L : forall t, (length (lstrip t) <= length t)%nat).
    { induction t as [|x t IHt]; cbn [lstrip]; [lia|]. destruct (is_space x); cbn [length] in *; lia. }
    specialize (L s'). rewrite H in L. cbn [length] in L. lia. }
  assert (Hwne : w <> []).
  { cbn [break_space] in Hb. rewrite Hc in Hb. destruct (break_space s') in Hb. inversion Hb. discriminate. }
  split; [|exact Hwne].
  unfold split_ws. rewrite Happ.
  change (@nil N) with (rev (@nil N)) at 1.
  rewrite (split_ws_acc_word w [] r Hw Hr).
  - reflexivity.
  - cbn [app]. destruct w; [congruence | reflexivity].
Qed.

Lemma split_ws_all_space s : lstrip s = [] -> split_ws s = [].
Proof. intro H. rewrite split_ws_lstrip, H. reflexivity. Qed.

(* s.split(None, k): the first k words, then the remainder (which itself splits into the other words) *)
Lemma split_max_spec k : forall s,
  (length (split_ws s) <= k)%nat -> split_max k s = split_ws s.
Proof.
  induction k as [|k IH]; intros s H; cbn [split_max]; destruct (lstrip s) as [|c s'] eqn:El.
  - rewrite split_ws_all_space; auto.
  - destruct (break_space (c :: s')) as [w r] eqn:Eb.
    destruct (split_ws_step s c s' w r El Eb) as [E _]. rewrite E in H. cbn [length] in H. lia.
  - rewrite split_ws_all_space; auto.
  - destruct (break_space (c :: s')) as [w r] eqn:Eb.
    destruct (split_ws_step s c s' w r El Eb) as [E _]. rewrite E in *. cbn [length] in H.
    f_equal. apply IH. lia.
Qed.

Definition is_suffix (t s : str) : Prop := exists pre, s = pre ++ t.

Lemma is_suffix_refl s : is_suffix s s. Proof. exists []. reflexivity. Qed.
Lemma is_suffix_trans a b c : is_suffix a b -> is_suffix b c -> is_suffix a c.
Proof. intros [p ->] [q ->]. exists (q ++ p). rewrite app_assoc. reflexivity. Qed.

Lemma lstrip_suffix s : is_suffix (lstrip s) s.
Proof.
  induction s as [|c s IH]; cbn [lstrip]; [apply is_suffix_refl|].
  destruct (is_space c); [|apply is_suffix_refl].
  destruct IH as [p Hp]. exists (c :: p). cbn. congruence.
Qed.

Lemma split_max_absorbs k : forall s,
  (k < length (split_ws s))%nat ->
  exists last, split_max k s = firstn k (split_ws s) ++ [last] /\
               is_suffix last s /\ lstrip last = last /\ last <> [] /\
               split_ws last = skipn k (split_ws s).
Proof.
  induction k as [|k IH]; intros s H; cbn [split_max]; destruct (lstrip s) as [|c s'] eqn:El.
  - rewrite split_ws_all_space in H; auto. cbn in H. lia.
  - exists (c :: s'). cbn [firstn skipn app]. repeat split.
    + rewrite <- El. apply lstrip_suffix.
    + rewrite <- El. apply lstrip_idem.
    + discriminate.
    + rewrite <- El. symmetry. apply split_ws_lstrip.
  - rewrite split_ws_all_space in H; auto. cbn in H. lia.
  - destruct (break_space (c :: s')) as [w r] eqn:Eb.
    destruct (split_ws_step s c s' w r El Eb) as [E _]. rewrite E in *. cbn [length] in H.
    destruct (IH r) as [last [A [B [C [D F]]]]]; [lia|].
    exists last. cbn [firstn skipn app]. rewrite A. repeat split; auto.
    eapply is_suffix_trans; [exact B|].
    eapply is_suffix_trans; [|apply (lstrip_suffix s)]. rewrite El.
    exists w. apply (break_space_app _ _ _ Eb).
Qed.

(* ---------- sorted() keeps the elements ---------- *)

Lemma insert_sorted_perm s l : Permutation (insert_sorted s l) (s :: l).
Proof.
  induction l as [|x l IH]; cbn [insert_sorted]; [apply Permutation_refl|].
  destruct (str_leb s x); [apply Permutation_refl|].
  eapply perm_trans; [apply perm_skip; exact IH | apply perm_swap].
Qed.

Lemma sorted_strs_perm l : Permutation (sorted_strs l) l.
Proof.
  induction l as [|x l IH]; cbn; [constructor|].
  eapply perm_trans; [apply insert_sorted_perm | apply perm_skip; exact IH].
Qed.

(* ---------- join / split on "\n" ---------- *)

Definition no_nl (l : str) : Prop := forallb (fun c => negb (c =? c_nl)) l = true.

Lemma nosep_no_nl l : nosep l -> no_nl l.
Proof.
  unfold nosep, no_nl. induction l as [|c l IH]; [reflexivity|]. cbn [forallb].
  rewrite !andb_true_iff. intros [A B]. split; [|apply IH; exact B].
  apply negb_true_iff in A. apply negb_true_iff. destruct (c =? c_nl) eqn:E; [|reflexivity].
  apply N.eqb_eq in E. subst. rewrite nl_is_sep in A. discriminate.
Qed.

Lemma count_nl_app a b : count_nl (a ++ b) = (count_nl a + count_nl b)%nat.
Proof. induction a as [|c a IH]; [reflexivity|]. cbn [app count_nl]. destruct (c =? c_nl); cbn; lia. Qed.

Lemma count_nl_no_nl l : no_nl l -> count_nl l = O.
Proof.
  unfold no_nl. induction l as [|c l IH]; [reflexivity|]. cbn [forallb count_nl].
  rewrite andb_true_iff, negb_true_iff. intros [A B]. rewrite A. apply IH. exact B.
Qed.

Lemma split_nl_line_app l rest : no_nl l ->
  split_nl (l ++ c_nl :: rest) = l :: split_nl rest.
Proof.
  unfold no_nl. induction l as [|c l IH]; intro H.
  - cbn [app split_nl]. rewrite N.eqb_refl. reflexivity.
  - cbn [forallb] in H. apply andb_true_iff in H as [A B]. apply negb_true_iff in A.
    cbn [app split_nl]. rewrite A. rewrite (IH B). reflexivity.
Qed.

Lemma split_nl_no_nl l : no_nl l -> split_nl l = [l].
Proof.
  unfold no_nl. induction l as [|c l IH]; intro H; [reflexivity|].
  cbn [forallb] in H. apply andb_true_iff in H as [A B]. apply negb_true_iff in A.
  cbn [split_nl]. rewrite A, (IH B). reflexivity.
Qed.
