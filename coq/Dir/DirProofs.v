(* Proofs about the model of parse_directive_text (DirModel.v). *)
From Coq Require Import List NArith ZArith Bool Lia Permutation.
From MV Require Import Base.PyStr Base.Res Dir.PyLines Dir.PyLinesProofs Dir.DirModel.
Import ListNotations.
Open Scope N_scope.

(* ================= specification side ================= *)

(* the number of content lines occupied by the option block (delimiter lines included), stated on the
   lines of the content only *)
Inductive block_extent (lines : list str) : nat -> Prop :=
| E_dash_closed d0 pre d1 after :
    lines = d0 :: pre ++ d1 :: after -> is_dash_line d0 = true ->
    Forall (fun l => is_dash_line l = false) pre -> is_dash_line d1 = true ->
    block_extent lines (2 + length pre)
| E_dash_open d0 pre :
    lines = d0 :: pre -> is_dash_line d0 = true ->
    Forall (fun l => is_dash_line l = false) pre ->
    block_extent lines (length lines)
| E_colon pre rest :
    lines = pre ++ rest -> is_dash_line (hd_line lines) = false ->
    Forall (fun l => is_colon_line l = true) pre ->
    is_colon_line (hd_line rest) = false ->
    block_extent lines (length pre).

(* a class without option_spec has no option block *)
Definition opt_extent (sg : dsig) (lines : list str) (n : nat) : Prop :=
  if has_option_spec sg then block_extent lines n else n = O.

Definition blank_at (n : nat) (lines : list str) : bool :=
  match nth_error lines n with Some l => is_blank l | None => false end.

(* what a warning names *)
Definition names_of (w : pwarn) : list str :=
  match w with W_invalid n _ => [n] | W_unknown ns _ => ns | _ => [] end.

Fixpoint count_str (k : str) (l : list str) : nat :=
  match l with [] => O | x :: l' => (if str_eqb k x then 1 else 0) + count_str k l' end.

Definition times_named (k : str) (ws : list pwarn) : nat := count_str k (flat_map names_of ws).

(* ================= helpers ================= *)

Ltac inv H := inversion H; subst; clear H.

Lemma bind_ok {A B} (r : res A) (f : A -> res B) b :
  bind r f = Ok b -> exists a, r = Ok a /\ f a = Ok b.
Proof. destruct r; cbn; intro H; [eauto | discriminate]. Qed.

Lemma skipn_cons_nth {A} (l : list A) : forall n x rest,
  skipn n l = x :: rest -> nth_error l n = Some x /\ rest = skipn (S n) l.
Proof.
  induction l as [|y l IH]; intros n x rest H.
  - destruct n; discriminate.
  - destruct n; cbn in *.
    + inv H. auto.
    + apply IH. exact H.
Qed.

Lemma skipn_nil_nth {A} (l : list A) : forall n, skipn n l = [] -> nth_error l n = None.
Proof.
  induction l as [|y l IH]; intros n H; destruct n; cbn in *; auto; discriminate.
Qed.

Lemma skipn_app_length {A} (a b : list A) : skipn (length a) (a ++ b) = b.
Proof. induction a; cbn; auto. Qed.

Lemma skipn_app_cons {A} (a : list A) x b :
  skipn (length a + 1) (a ++ x :: b) = b /\ skipn (S (length a)) (a ++ x :: b) = b.
Proof. induction a as [|y a IH]; cbn [length plus app skipn]; [auto | exact IH]. Qed.

(* ---------- the two scanning loops ---------- *)

Lemma search_dash_spec ls : forall pre m,
  search_dash ls = (pre, m) ->
  Forall (fun l => is_dash_line l = false) pre /\
  match m with
  | None => ls = pre
  | Some r => ls = pre ++ r /\ exists d after, r = d :: after /\ is_dash_line d = true
  end.
Proof.
  induction ls as [|l ls IH]; intros pre m H; cbn [search_dash] in H.
  - inv H. split; [constructor | reflexivity].
  - destruct (is_dash_line l) eqn:E.
    + inv H. split; [constructor|]. split; [reflexivity|]. eauto.
    + destruct (search_dash ls) as [pre' m'] eqn:E'. inv H.
      destruct (IH pre' m eq_refl) as [A B]. split; [constructor; auto|].
      destruct m as [r|].
      * destruct B as [B1 B2]. split; [cbn; congruence | exact B2].
      * cbn. congruence.
Qed.

Lemma pop_colon_spec ls : forall y rest,
  pop_colon_lines ls = (y, rest) ->
  exists pre, ls = pre ++ rest /\ Forall (fun l => is_colon_line l = true) pre /\
              y = map (fun l => tl (lstrip l)) pre /\ is_colon_line (hd_line rest) = false.
Proof.
  induction ls as [|l ls IH]; intros y rest H; cbn [pop_colon_lines] in H.
  - inv H. exists []. repeat split; try constructor.
  - destruct (is_colon_line l) eqn:E; cbn [negb] in H.
    + destruct (pop_colon_lines ls) as [y' r'] eqn:E'. inv H.
      destruct (IH y' rest eq_refl) as [pre [A [B [C D]]]].
      exists (l :: pre). repeat split; auto; cbn; congruence.
    + inv H. exists []. repeat split; auto.
Qed.

Lemma count_nl_text_before pre : Forall nosep pre -> count_nl (text_before pre) = length pre.
Proof.
  unfold text_before. induction 1 as [|l pre Hl _ IH]; [reflexivity|].
  cbn [map concat length]. rewrite !count_nl_app, IH.
  rewrite (count_nl_no_nl l (nosep_no_nl l Hl)). reflexivity.
Qed.

Lemma dashes_nosep : nosep dashes. Proof. reflexivity. Qed.

Lemma Forall_tl {A} (P : A -> Prop) l : Forall P l -> Forall P (tl l).
Proof. destruct 1; [constructor | assumption]. Qed.

Lemma Forall_app_l {A} (P : A -> Prop) a b : Forall P (a ++ b) -> Forall P a.
Proof. intro H. apply Forall_app in H. tauto. Qed.

(* ---------- the option-block extraction ---------- *)

Lemma split_options_spec content line b cl l' :
  split_options content line = (b, cl, l') ->
  exists n, (n <= length (splitlines content))%nat /\ cl = skipn n (splitlines content) /\
            block_extent (splitlines content) n.
Proof.
  unfold split_options. intro H.
  pose proof (splitlines_nosep content) as Hns.
  rewrite (startswith_hd_line dashes content dashes_nosep) in H.
  destruct (splitlines content) as [|d0 rest] eqn:El.
  - (* no lines: neither style *)
    cbn [hd_line] in H. replace (startswith [] dashes) with false in H by reflexivity.
    assert (content = []) as ->.
    { destruct content; [reflexivity|]. exfalso. eapply splitlines_nonempty; [|exact El]. discriminate. }
    cbn in H. inv H. exists O. repeat split; auto.
    apply (E_colon [] [] []); auto; constructor.
  - cbn [hd_line] in H. fold (is_dash_line d0) in H.
    destruct (is_dash_line d0) eqn:Ed.
    + (* dash style *)
      cbn [tl] in H. destruct (search_dash rest) as [pre m] eqn:Es.
      destruct (search_dash_spec rest pre m Es) as [Hpre Hm].
      destruct m as [r|].
      * destruct Hm as [Hr [d1 [after [-> Hd1]]]]. inv H.
        inv Hns. rewrite count_nl_text_before by (eapply Forall_app_l; eauto).
        exists (2 + length pre)%nat. repeat split.
        -- cbn [length]. rewrite app_length. cbn [length]. lia.
        -- change (2 + length pre)%nat with (S (S (length pre))). cbn [skipn].
           rewrite (proj1 (skipn_app_cons pre d1 after)), (proj2 (skipn_app_cons pre d1 after)). reflexivity.
        -- eapply E_dash_closed; eauto.
      * subst rest. inv H. exists (length (d0 :: pre)). repeat split.
        -- lia.
        -- rewrite skipn_all. reflexivity.
        -- eapply E_dash_open; eauto.
    + (* not dash style *)
      destruct (startswith (lstrip content) colon) eqn:Ec.
      * destruct (pop_colon_lines (d0 :: rest)) as [y r] eqn:Ep. inv H.
        destruct (pop_colon_spec _ _ _ Ep) as [pre [A [B [C D]]]].
        exists (length pre). repeat split.
        -- rewrite A, app_length. lia.
        -- rewrite A. symmetry. apply skipn_app_length.
        -- eapply E_colon; eauto.
      * inv H. exists O. repeat split; [lia|].
        apply (E_colon (d0 :: rest) [] (d0 :: rest)); auto; [constructor|].
        cbn [hd_line].
        (* if the first line were a colon line, content.lstrip() would start with ":" *)
        destruct (is_colon_line d0) eqn:Ecl; [|reflexivity]. exfalso.
        destruct (splitlines_head content d0 rest El) as [r [Hc _]].
        unfold is_colon_line in Ecl.
        assert (Hne : lstrip d0 <> []) by (destruct (lstrip d0); [discriminate | discriminate]).
        rewrite Hc, (lstrip_app_nonempty d0 r Hne) in Ec.
        destruct (lstrip d0) as [|x t]; [discriminate|].
        cbn in Ecl, Ec. rewrite Ecl in Ec. discriminate.
Qed.

Section WithOracles.

Variable tokenize : str -> res (list (str * str) * bool).
Variable yaml_load : str -> yres.

Notation pdo := (parse_directive_options tokenize yaml_load).
Notation pdt := (parse_directive_text tokenize yaml_load).

(* every exit of _parse_directive_options returns the content_lines of the extraction *)
Lemma pdo_content content sg as_yaml line add o :
  pdo content sg as_yaml line add = Ok o ->
  o_content o = snd (fst (split_options content line)).
Proof.
  unfold parse_directive_options.
  destruct (split_options content line) as [[b cl] l'] eqn:Es. cbn [fst snd].
  destruct as_yaml.
  - destruct (yaml_load _); intro H; inv H; reflexivity.
  - destruct b as [blk|].
    + destruct (tokenize blk) as [[items hc]|e].
      * destruct (is_test sg); [intro H; inv H; reflexivity|].
        intro H. apply bind_ok in H as [[[no ve] un] [_ H]]. inv H. reflexivity.
      * destruct e; intro H; inv H; reflexivity.
    + destruct (is_test sg); [intro H; inv H; reflexivity|].
      intro H. apply bind_ok in H as [[[no ve] un] [_ H]]. inv H. reflexivity.
Qed.

Lemma options_phase_spec sg content line v add w hob opts cl off :
  options_phase tokenize yaml_load sg content line v add = Ok (w, hob, opts, cl, off) ->
  exists n, (n <= length (splitlines content))%nat /\ cl = skipn n (splitlines content) /\
            off = Z.of_nat n /\ opt_extent sg (splitlines content) n.
Proof.
  unfold options_phase, opt_extent. destruct (has_option_spec sg) eqn:Eh.
  - intro H. apply bind_ok in H as [o [Ho H]]. inv H.
    pose proof (pdo_content _ _ _ _ _ _ Ho) as Hc.
    destruct (split_options content line) as [[b cl] l'] eqn:Es. cbn [fst snd] in Hc.
    destruct (split_options_spec _ _ _ _ _ Es) as [n [Hn [Hcl Hext]]].
    exists n. repeat split; auto; try congruence.
    rewrite Hc, Hcl, skipn_length. lia.
  - intro H. inv H. exists O. repeat split; auto. lia.
Qed.

Lemma first_line_phase_not_body sg fl w hob cl off w' body off' args :
  first_line_is_body sg fl = false ->
  first_line_phase sg fl w hob cl off = Ok (w', body, off', args) ->
  body = cl /\ off' = off.
Proof.
  unfold first_line_is_body, first_line_phase. intros Hm H.
  destruct (no_arguments sg); cbn [andb] in Hm.
  - rewrite Hm in H. inv H. auto.
  - apply bind_ok in H as [a [_ H]]. inv H. auto.
Qed.

Lemma strip_blank_spec n lines off :
  (n <= length lines)%nat ->
  strip_blank_line (skipn n lines) (Z.of_nat n) =
  (skipn (n + if blank_at n lines then 1 else 0) lines,
   Z.of_nat (n + if blank_at n lines then 1 else 0)) /\ off = off.
Proof.
  intro Hn. split; [|reflexivity]. unfold strip_blank_line, blank_at.
  destruct (skipn n lines) as [|l rest] eqn:E.
  - rewrite (skipn_nil_nth _ _ E). rewrite Nat.add_0_r, E. reflexivity.
  - destruct (skipn_cons_nth _ _ _ _ E) as [A B]. rewrite A.
    destruct (is_blank l).
    + rewrite B. replace (n + 1)%nat with (S n) by lia. f_equal. lia.
    + rewrite Nat.add_0_r, E. reflexivity.
Qed.

(* ---------- C08_offset_is_index / C08_body_is_suffix ---------- *)

Theorem offset_is_index sg fl content line v add r :
  pdt sg fl content line v add = Ok r ->
  first_line_is_body sg fl = false ->
  exists n, opt_extent sg (splitlines content) n /\
            let k := (n + if blank_at n (splitlines content) then 1 else 0)%nat in
            r_body_offset r = Z.of_nat k /\ r_body r = skipn k (splitlines content) /\
            (k <= length (splitlines content))%nat.
Proof.
  unfold parse_directive_text. intros H Hm.
  apply bind_ok in H as [[[[[w hob] opts] cl] off] [H1 H]].
  apply bind_ok in H as [[[[w' body] off'] args] [H2 H]].
  destruct (options_phase_spec _ _ _ _ _ _ _ _ _ _ H1) as [n [Hn [Hcl [Hoff Hext]]]].
  destruct (first_line_phase_not_body _ _ _ _ _ _ _ _ _ _ Hm H2) as [-> ->].
  subst cl off.
  destruct (strip_blank_spec n (splitlines content) 0%Z Hn) as [Hs _].
  rewrite Hs in H. inv H. cbn [r_body_offset r_body].
  exists n. split; [exact Hext|]. cbn zeta. repeat split.
  unfold blank_at. destruct (nth_error (splitlines content) n) eqn:E.
  - assert (n < length (splitlines content))%nat by (apply nth_error_Some; congruence).
    destruct (is_blank s); lia.
  - lia.
Qed.

Theorem body_is_suffix sg fl content line v add r :
  pdt sg fl content line v add = Ok r ->
  first_line_is_body sg fl = false ->
  (0 <= r_body_offset r)%Z /\
  r_body r = skipn (Z.to_nat (r_body_offset r)) (splitlines content).
Proof.
  intros H Hm. destruct (offset_is_index _ _ _ _ _ _ _ H Hm) as [n [_ [A [B _]]]].
  rewrite A, Nat2Z.id. split; [lia | exact B].
Qed.

(* when the directive takes no arguments, text on the first line is the first body line; the rest of the
   body is still the content after the option block, nothing stripped *)
Theorem merged_first_line sg fl content line v add r :
  pdt sg fl content line v add = Ok r ->
  first_line_is_body sg fl = true ->
  exists n, opt_extent sg (splitlines content) n /\
            r_body r = fl :: skipn n (splitlines content) /\ r_body_offset r = 0%Z /\ r_arguments r = [].
Proof.
  unfold parse_directive_text, first_line_is_body. intros H Hm.
  apply andb_true_iff in Hm as [Hna Hne].
  apply bind_ok in H as [[[[[w hob] opts] cl] off] [H1 H]].
  apply bind_ok in H as [[[[w' body] off'] args] [H2 H]].
  destruct (options_phase_spec _ _ _ _ _ _ _ _ _ _ H1) as [n [Hn [Hcl [Hoff Hext]]]].
  unfold first_line_phase in H2. rewrite Hna, Hne in H2. inv H2.
  unfold strip_blank_line in H. unfold is_blank in H. rewrite Hne in H. cbn [negb] in H. inv H.
  exists n. cbn. auto.
Qed.

(* ---------- C08_no_opts_no_leak ---------- *)

Theorem no_opts_no_leak sg fl content line v add :
  has_option_spec sg = false ->
  forall tokenize' yaml_load',
    pdt sg fl content line v add = parse_directive_text tokenize' yaml_load' sg fl content line v add /\
    forall r, pdt sg fl content line v add = Ok r ->
      r_options r = [] /\ times_named [] (r_warnings r) = O /\
      (forall w, In w (r_warnings r) -> w = W_split \/ w = W_has_content).
Proof.
  intros Hh tok' yl'. unfold parse_directive_text, options_phase. rewrite Hh. split; [reflexivity|].
  intros r H. cbn [bind] in H.
  apply bind_ok in H as [[[[w' body] off'] args] [H2 H]].
  assert (Hw : forall x, In x w' -> x = W_split \/ x = W_has_content).
  { unfold first_line_phase in H2. cbn [andb] in H2.
    destruct (no_arguments sg).
    - destruct (nonempty (strip fl)); inv H2; intros x [].
    - apply bind_ok in H2 as [a [_ H2]]. inv H2. intros x []. }
  destruct (strip_blank_line body off') as [b o]. inv H. cbn [r_options r_warnings].
  split; [reflexivity|].
  assert (Hw2 : forall x, In x (if nonempty b && negb (has_content sg) then w' ++ [W_has_content] else w') ->
                          x = W_split \/ x = W_has_content).
  { destruct (nonempty b && negb (has_content sg)); [|exact Hw].
    intros x Hx. apply in_app_or in Hx as [Hx|[<-|[]]]; auto. }
  split; [|exact Hw2].
  unfold times_named.
  replace (flat_map names_of (if nonempty b && negb (has_content sg) then w' ++ [W_has_content] else w')) with (@nil str);
    [reflexivity|].
  symmetry. generalize dependent (if nonempty b && negb (has_content sg) then w' ++ [W_has_content] else w').
  intros l Hl. induction l as [|x l IH]; [reflexivity|]. cbn [flat_map].
  destruct (Hl x (or_introl eq_refl)) as [-> | ->]; cbn [names_of app]; apply IH; intros y Hy; apply Hl; right; exact Hy.
Qed.

End WithOracles.

(* ---------- C08_arguments ---------- *)

Theorem arguments_spec sg t :
  let n := length (split_ws t) in
  let total := (required_arguments sg + optional_arguments sg)%nat in
  parse_directive_arguments sg t =
    if Nat.ltb n (required_arguments sg) then Raise MarkupError
    else if Nat.ltb total n then
           (if final_argument_whitespace sg
            then Ok (match total with O => split_ws t | S k => split_max k t end)
            else Raise MarkupError)
    else Ok (split_ws t).
Proof.
  cbn zeta. unfold parse_directive_arguments.
  destruct (Nat.ltb (length (split_ws t)) (required_arguments sg)); [reflexivity|].
  destruct (Nat.ltb (required_arguments sg + optional_arguments sg) (length (split_ws t))); [|reflexivity].
  destruct (final_argument_whitespace sg); [|reflexivity].
  destruct (required_arguments sg + optional_arguments sg)%nat; reflexivity.
Qed.

(* MarkupError iff too few, or too many without final_argument_whitespace *)
Theorem arguments_error_iff sg t :
  let n := length (split_ws t) in
  let total := (required_arguments sg + optional_arguments sg)%nat in
  parse_directive_arguments sg t = Raise MarkupError <->
  (n < required_arguments sg)%nat \/ ((total < n)%nat /\ final_argument_whitespace sg = false).
Proof.
  cbn zeta. rewrite arguments_spec.
  destruct (Nat.ltb_spec (length (split_ws t)) (required_arguments sg)).
  - split; auto.
  - destruct (Nat.ltb_spec (required_arguments sg + optional_arguments sg) (length (split_ws t))).
    + destruct (final_argument_whitespace sg); split; auto; try discriminate.
      intros [?|[_ ?]]; [lia | discriminate].
    + split; [discriminate|]. intros [?|[? _]]; lia.
Qed.

(* never another error *)
Theorem arguments_only_markup_error sg t e :
  parse_directive_arguments sg t = Raise e -> e = MarkupError.
Proof.
  rewrite arguments_spec. cbn zeta.
  repeat match goal with |- context [if ?c then _ else _] => destruct c end; congruence.
Qed.

(* within the declared count: the whitespace split *)
Theorem arguments_in_range sg t :
  (required_arguments sg <= length (split_ws t) <= required_arguments sg + optional_arguments sg)%nat ->
  parse_directive_arguments sg t = Ok (split_ws t).
Proof.
  intro H. rewrite arguments_spec. cbn zeta.
  destruct (Nat.ltb_spec (length (split_ws t)) (required_arguments sg)); [lia|].
  destruct (Nat.ltb_spec (required_arguments sg + optional_arguments sg) (length (split_ws t))); [lia|].
  reflexivity.
Qed.

(* too many with final_argument_whitespace: the last argument absorbs the rest of the text *)
Theorem arguments_absorb sg t :
  let total := (required_arguments sg + optional_arguments sg)%nat in
  (0 < total < length (split_ws t))%nat -> final_argument_whitespace sg = true ->
  exists last, parse_directive_arguments sg t = Ok (firstn (total - 1) (split_ws t) ++ [last]) /\
               is_suffix last t /\ lstrip last = last /\
               split_ws last = skipn (total - 1) (split_ws t).
Proof.
  cbn zeta. intros H Hf. rewrite arguments_spec. cbn zeta.
  destruct (Nat.ltb_spec (length (split_ws t)) (required_arguments sg)); [lia|].
  destruct (Nat.ltb_spec (required_arguments sg + optional_arguments sg) (length (split_ws t))); [|lia].
  rewrite Hf.
  destruct (required_arguments sg + optional_arguments sg)%nat as [|k] eqn:E; [lia|].
  replace (S k - 1)%nat with k by lia.
  destruct (split_max_absorbs k t) as [last [A [B [C [_ D]]]]]; [lia|].
  exists last. rewrite A. auto.
Qed.

Section WithOracles2.
Variable tokenize : str -> res (list (str * str) * bool).
Variable yaml_load : str -> yres.
Notation pdt := (parse_directive_text tokenize yaml_load).

(* how the arguments of the result relate to parse_directive_arguments *)
Theorem arguments_in_text sg fl content line v add r :
  pdt sg fl content line v add = Ok r ->
  if no_arguments sg then r_arguments r = []
  else parse_directive_arguments sg fl = Ok (r_arguments r).
Proof.
  unfold parse_directive_text. intro H.
  apply bind_ok in H as [[[[[w hob] opts] cl] off] [H1 H]].
  apply bind_ok in H as [[[[w' body] off'] args] [H2 H]].
  destruct (strip_blank_line body off') as [b o]. inv H. cbn [r_arguments].
  unfold first_line_phase in H2. destruct (no_arguments sg).
  - destruct (nonempty (strip fl)); inv H2; reflexivity.
  - apply bind_ok in H2 as [a [Ha H2]]. inv H2. exact Ha.
Qed.

Theorem arguments_error_in_text sg fl content line v add :
  no_arguments sg = false ->
  parse_directive_arguments sg fl = Raise MarkupError ->
  forall r, pdt sg fl content line v add <> Ok r.
Proof.
  intros Hn He r H. pose proof (arguments_in_text _ _ _ _ _ _ _ H) as A.
  rewrite Hn in A. congruence.
Qed.

End WithOracles2.
