(* Proofs about the model of parse_directive_text (DirModel.v). *)
From Coq Require Import List NArith ZArith Bool Lia Permutation.
From MV Require Import Base.PyStr.
From MV Require Import Base.Res.
From MV Require Import Dir.PyLines.
From MV Require Import Dir.PyLinesProofs.
From MV Require Import Dir.DirModel.
Import ListNotations.
Open Scope N_scope.

(* ================= specification side ================= *)

(* the number of content lines occupied by the option block (delimiter lines included), stated on the
   lines of the content only *)
Inductive block_extent (lines : list str) : nat -> Prop :=
| E_dash_closed d0 pre d1 after :
    lines = d0 :: pre ++ d1 :: after -> is_dash_line d0 = true ->
    Forall (fun l => is_dash_line l = false) pre -> is_dash_line d1 = true ->
    block_extent lines (2 + length pre)
| E_dash_open d0 pre :
    lines = d0 :: pre -> is_dash_line d0 = true ->
    Forall (fun l => is_dash_line l = false) pre ->
    block_extent lines (length lines)
| E_colon pre rest :
    lines = pre ++ rest -> is_dash_line (hd_line lines) = false ->
    Forall (fun l => is_colon_line l = true) pre ->
    is_colon_line (hd_line rest) = false ->
    block_extent lines (length pre).

(* a class without option_spec has no option block *)
Definition opt_extent (sg : dsig) (lines : list str) (n : nat) : Prop :=
  if has_option_spec sg then block_extent lines n else n = O.

Definition blank_at (n : nat) (lines : list str) : bool :=
  match nth_error lines n with Some l => is_blank l | None => false end.

(* what a warning names *)
Definition names_of (w : pwarn) : list str :=
  match w with W_invalid n _ => [n] | W_unknown ns _ => ns | _ => [] end.

Fixpoint count_str (k : str) (l : list str) : nat :=
  match l with [] => O | x :: l' => (if str_eqb k x then 1 else 0) + count_str k l' end.

Definition times_named (k : str) (ws : list pwarn) : nat := count_str k (flat_map names_of ws).

(* ================= helpers ================= *)

Ltac inv H := inversion H; subst; clear H.

Lemma bind_ok {A B} (r : res A) (f : A -> res B) b :
  bind r f = Ok b -> exists a, r = Ok a /\ f a = Ok b.
Proof. destruct r; cbn; intro H; [eauto | discriminate]. Qed.

Lemma skipn_cons_nth {A} (l : list A) : forall n x rest,
  skipn n l = x :: rest -> nth_error l n = Some x /\ rest = skipn (S n) l.
Proof.
  induction l as [|y l IH]; intros n x rest H.
  - destruct n; discriminate.
  - destruct n; cbn in *.
    + inv H. auto.
    + apply IH. exact H.
Qed.

Lemma skipn_nil_nth {A} (l : list A) : forall n, skipn n l = [] -> nth_error l n = None.
Proof.
  induction l as [|y l IH]; intros n H; destruct n; cbn in *; auto; discriminate.
Qed.

Lemma skipn_app_length {A} (a b : list A) : skipn (length a) (a ++ b) = b.
Proof. induction a; cbn; auto. Qed.

Lemma skipn_app_cons {A} (a : list A) x b :
  skipn (length a + 1) (a ++ x :: b) = b /\ skipn (S (length a)) (a ++ x :: b) = b.
Proof. induction a as [|y a IH]; cbn [length plus app skipn]; [auto | exact IH]. Qed.

Lemma startswith_app p : forall a r, startswith a p = true -> startswith (a ++ r) p = true.
Proof.
  induction p as [|c p IH]; intros a r H; [apply startswith_nil_r|].
  destruct a as [|x a]; [discriminate|]. cbn [startswith app] in *.
  apply andb_true_iff in H as [H1 H2]. rewrite H1, (IH a r H2). reflexivity.
Qed.

(* ---------- the two scanning loops ---------- *)

Lemma search_dash_spec ls : forall pre m,
  search_dash ls = (pre, m) ->
  Forall (fun l => is_dash_line l = false) pre /\
  match m with
  | None => ls = pre
  | Some r => ls = pre ++ r /\ exists d after, r = d :: after /\ is_dash_line d = true
  end.
Proof.
  induction ls as [|l ls IH]; intros pre m H; cbn [search_dash] in H.
  - inv H. split; [constructor | reflexivity].
  - destruct (is_dash_line l) eqn:E.
    + inv H. split; [constructor|]. split; [reflexivity|]. eauto.
    + destruct (search_dash ls) as [pre' m'] eqn:E'. inv H.
      destruct (IH pre' m eq_refl) as [A B]. split; [constructor; auto|].
      destruct m as [r|].
      * destruct B as [B1 B2]. split; [cbn; congruence | exact B2].
      * cbn. congruence.
Qed.

Lemma pop_colon_spec ls : forall y rest,
  pop_colon_lines ls = (y, rest) ->
  exists pre, ls = pre ++ rest /\ Forall (fun l => is_colon_line l = true) pre /\
              y = map (fun l => tl (lstrip l)) pre /\ is_colon_line (hd_line rest) = false.
Proof.
  induction ls as [|l ls IH]; intros y rest H; cbn [pop_colon_lines] in H.
  - inv H. exists []. repeat split; try constructor.
  - destruct (is_colon_line l) eqn:E; cbn [negb] in H.
    + destruct (pop_colon_lines ls) as [y' r'] eqn:E'. inv H.
      destruct (IH y' rest eq_refl) as [pre [A [B [C D]]]].
      exists (l :: pre). repeat split; auto; cbn; congruence.
    + inv H. exists []. repeat split; auto.
Qed.

Lemma count_nl_text_before pre : Forall nosep pre -> count_nl (text_before pre) = length pre.
Proof.
  unfold text_before. induction 1 as [|l pre Hl _ IH]; [reflexivity|].
  cbn [map concat length]. rewrite !count_nl_app, IH.
  rewrite (count_nl_no_nl l (nosep_no_nl l Hl)). reflexivity.
Qed.

Lemma dashes_nosep : nosep dashes. Proof. reflexivity. Qed.

Lemma Forall_tl {A} (P : A -> Prop) l : Forall P l -> Forall P (tl l).
Proof. destruct 1; [constructor | assumption]. Qed.

Lemma Forall_app_l {A} (P : A -> Prop) a b : Forall P (a ++ b) -> Forall P a.
Proof. intro H. apply Forall_app in H. tauto. Qed.

(* ---------- the option-block extraction ---------- *)

Lemma split_options_spec content line b cl l' :
  split_options content line = (b, cl, l') ->
  exists n, (n <= length (splitlines content))%nat /\ cl = skipn n (splitlines content) /\
            block_extent (splitlines content) n.
Proof.
  unfold split_options. intro H.
  pose proof (splitlines_nosep content) as Hns.
  rewrite (startswith_hd_line dashes content dashes_nosep) in H.
  destruct (splitlines content) as [|d0 rest] eqn:El.
  - (* no lines: neither style *)
    cbn [hd_line] in H. replace (startswith [] dashes) with false in H by reflexivity.
    assert (content = []) as ->.
    { destruct content; [reflexivity|]. exfalso. eapply splitlines_nonempty; [|exact El]. discriminate. }
    cbn in H. inv H. exists O. repeat split; auto.
    apply (E_colon [] [] []); [reflexivity | reflexivity | constructor | reflexivity].
  - cbn [hd_line] in H. fold (is_dash_line d0) in H.
    destruct (is_dash_line d0) eqn:Ed.
    + (* dash style *)
      cbn [tl] in H. destruct (search_dash rest) as [pre m] eqn:Es.
      destruct (search_dash_spec rest pre m Es) as [Hpre Hm].
      destruct m as [r|].
      * destruct Hm as [Hr [d1 [after [-> Hd1]]]]. inv H.
        inv Hns. rewrite count_nl_text_before by (eapply Forall_app_l; eauto).
        exists (2 + length pre)%nat. repeat split.
        -- cbn [length]. rewrite app_length. cbn [length]. lia.
        -- change (skipn (2 + length pre) (d0 :: pre ++ d1 :: after))
             with (skipn (S (length pre)) (pre ++ d1 :: after)).
           rewrite (proj1 (skipn_app_cons pre d1 after)), (proj2 (skipn_app_cons pre d1 after)). reflexivity.
        -- eapply E_dash_closed; eauto.
      * subst rest. inv H. exists (length (d0 :: pre)). repeat split.
        -- lia.
        -- rewrite skipn_all. reflexivity.
        -- eapply E_dash_open; eauto.
    + (* not dash style *)
      destruct (startswith (lstrip content) colon) eqn:Ec.
      * destruct (pop_colon_lines (d0 :: rest)) as [y r] eqn:Ep. inv H.
        destruct (pop_colon_spec _ _ _ Ep) as [pre [A [B [C D]]]].
        exists (length pre). repeat split.
        -- rewrite A, app_length. lia.
        -- rewrite A. symmetry. apply skipn_app_length.
        -- eapply E_colon; eauto.
      * inv H. exists O. repeat split; [lia|].
        apply (E_colon (d0 :: rest) [] (d0 :: rest)); [reflexivity | exact Ed | constructor |].
        cbn [hd_line].
        (* if the first line were a colon line, content.lstrip() would start with ":" *)
        destruct (is_colon_line d0) eqn:Ecl; [|reflexivity]. exfalso.
        destruct (splitlines_head content d0 rest El) as [r [Hc _]].
        unfold is_colon_line in Ecl.
        assert (Hne : lstrip d0 <> []) by (destruct (lstrip d0); [discriminate | discriminate]).
        rewrite Hc, (lstrip_app_nonempty d0 r Hne) in Ec.
        rewrite (startswith_app _ _ r Ecl) in Ec. discriminate.
Qed.

Section WithOracles.

Variable tokenize : str -> res (list (str * str) * bool).
Variable yaml_load : str -> yres.

Notation pdo := (parse_directive_options tokenize yaml_load).
Notation pdt := (parse_directive_text tokenize yaml_load).

(* every exit of _parse_directive_options returns the content_lines of the extraction *)
Lemma pdo_content content sg as_yaml line add o :
  pdo content sg as_yaml line add = Ok o ->
  o_content o = snd (fst (split_options content line)).
Proof.
  unfold parse_directive_options.
  destruct (split_options content line) as [[b cl] l'] eqn:Es. cbn [fst snd].
  destruct as_yaml.
  - destruct (yaml_load _); intro H; inv H; reflexivity.
  - destruct b as [blk|].
    + destruct (tokenize blk) as [[items hc]|e].
      * destruct (is_test sg); [intro H; inv H; reflexivity|].
        intro H. apply bind_ok in H as [[[no ve] un] [_ H]]. inv H. reflexivity.
      * destruct e; intro H; inv H; reflexivity.
    + destruct (is_test sg); [intro H; inv H; reflexivity|].
      intro H. apply bind_ok in H as [[[no ve] un] [_ H]]. inv H. reflexivity.
Qed.

Lemma options_phase_spec sg content line v add w hob opts cl off :
  options_phase tokenize yaml_load sg content line v add = Ok (w, hob, opts, cl, off) ->
  exists n, (n <= length (splitlines content))%nat /\ cl = skipn n (splitlines content) /\
            off = Z.of_nat n /\ opt_extent sg (splitlines content) n.
Proof.
  unfold options_phase, opt_extent. destruct (has_option_spec sg) eqn:Eh.
  - intro H. apply bind_ok in H as [o [Ho H]]. inv H.
    pose proof (pdo_content _ _ _ _ _ _ Ho) as Hc.
    destruct (split_options content line) as [[b cl] l'] eqn:Es. cbn [fst snd] in Hc.
    destruct (split_options_spec _ _ _ _ _ Es) as [n [Hn [Hcl Hext]]].
    exists n. repeat split; auto; try congruence.
    rewrite Hc, Hcl, skipn_length. lia.
  - intro H. inv H. exists O. repeat split; auto. lia.
Qed.

Lemma first_line_phase_not_body sg fl w hob cl off w' body off' args :
  first_line_is_body sg fl = false ->
  first_line_phase sg fl w hob cl off = Ok (w', body, off', args) ->
  body = cl /\ off' = off.
Proof.
  unfold first_line_is_body, first_line_phase. intros Hm H.
  destruct (no_arguments sg); cbn [andb] in Hm.
  - rewrite Hm in H. inv H. auto.
  - apply bind_ok in H as [a [_ H]]. inv H. auto.
Qed.

Lemma strip_blank_spec n lines :
  strip_blank_line (skipn n lines) (Z.of_nat n) =
  (skipn (n + if blank_at n lines then 1 else 0) lines,
   Z.of_nat (n + if blank_at n lines then 1 else 0)).
Proof.
  unfold strip_blank_line, blank_at.
  destruct (skipn n lines) as [|l rest] eqn:E.
  - rewrite (skipn_nil_nth _ _ E). rewrite Nat.add_0_r, E. reflexivity.
  - destruct (skipn_cons_nth _ _ _ _ E) as [A B]. rewrite A.
    destruct (is_blank l).
    + rewrite B. replace (n + 1)%nat with (S n) by lia. f_equal. lia.
    + rewrite Nat.add_0_r, E. reflexivity.
Qed.

(* ---------- C08_offset_is_index / C08_body_is_suffix ---------- *)

Theorem offset_is_index sg fl content line v add r :
  pdt sg fl content line v add = Ok r ->
  first_line_is_body sg fl = false ->
  exists n, opt_extent sg (splitlines content) n /\
            let k := (n + if blank_at n (splitlines content) then 1 else 0)%nat in
            r_body_offset r = Z.of_nat k /\ r_body r = skipn k (splitlines content) /\
            (k <= length (splitlines content))%nat.
Proof.
  unfold parse_directive_text. intros H Hm.
  apply bind_ok in H as [[[[[w hob] opts] cl] off] [H1 H]].
  apply bind_ok in H as [[[[w' body] off'] args] [H2 H]].
  destruct (options_phase_spec _ _ _ _ _ _ _ _ _ _ H1) as [n [Hn [Hcl [Hoff Hext]]]].
  destruct (first_line_phase_not_body _ _ _ _ _ _ _ _ _ _ Hm H2) as [-> ->].
  subst cl off.
  rewrite (strip_blank_spec n (splitlines content)) in H. inv H. cbn [r_body_offset r_body].
  exists n. split; [exact Hext|]. cbn zeta. repeat split.
  unfold blank_at. destruct (nth_error (splitlines content) n) eqn:E.
  - assert (n < length (splitlines content))%nat by (apply nth_error_Some; congruence).
    destruct (is_blank s); lia.
  - lia.
Qed.

Theorem body_is_suffix sg fl content line v add r :
  pdt sg fl content line v add = Ok r ->
  first_line_is_body sg fl = false ->
  (0 <= r_body_offset r)%Z /\
  r_body r = skipn (Z.to_nat (r_body_offset r)) (splitlines content).
Proof.
  intros H Hm. destruct (offset_is_index _ _ _ _ _ _ _ H Hm) as [n [_ [A [B _]]]].
  rewrite A, Nat2Z.id. split; [lia | exact B].
Qed.

(* when the directive takes no arguments, text on the first line is the first body line; the rest of the
   body is still the content after the option block, nothing stripped *)
Theorem merged_first_line sg fl content line v add r :
  pdt sg fl content line v add = Ok r ->
  first_line_is_body sg fl = true ->
  exists n, opt_extent sg (splitlines content) n /\
            r_body r = fl :: skipn n (splitlines content) /\ r_body_offset r = 0%Z /\ r_arguments r = [].
Proof.
  unfold parse_directive_text, first_line_is_body. intros H Hm.
  apply andb_true_iff in Hm as [Hna Hne].
  apply bind_ok in H as [[[[[w hob] opts] cl] off] [H1 H]].
  apply bind_ok in H as [[[[w' body] off'] args] [H2 H]].
  destruct (options_phase_spec _ _ _ _ _ _ _ _ _ _ H1) as [n [Hn [Hcl [Hoff Hext]]]].
  unfold first_line_phase in H2. rewrite Hna, Hne in H2. inv H2.
  unfold strip_blank_line in H. unfold is_blank in H. rewrite Hne in H. cbn [negb] in H. inv H.
  exists n. cbn. auto.
Qed.

(* ---------- C08_no_opts_no_leak ---------- *)

Theorem no_opts_no_leak sg fl content line v add :
  has_option_spec sg = false ->
  forall tokenize' yaml_load',
    pdt sg fl content line v add = parse_directive_text tokenize' yaml_load' sg fl content line v add /\
    forall r, pdt sg fl content line v add = Ok r ->
      r_options r = [] /\ times_named [] (r_warnings r) = O /\
      (forall w, In w (r_warnings r) -> w = W_split \/ w = W_has_content).
Proof.
  intros Hh tok' yl'. unfold parse_directive_text, options_phase. rewrite Hh. split; [reflexivity|].
  intros r H. cbn [bind] in H.
  apply bind_ok in H as [[[[w' body] off'] args] [H2 H]].
  assert (Hw : forall x, In x w' -> x = W_split \/ x = W_has_content).
  { unfold first_line_phase in H2. cbn [andb] in H2.
    destruct (no_arguments sg).
    - destruct (nonempty (strip fl)); inv H2; intros x [].
    - apply bind_ok in H2 as [a [_ H2]]. inv H2. intros x []. }
  destruct (strip_blank_line body off') as [b o]. inv H. cbn [r_options r_warnings].
  split; [reflexivity|].
  assert (Hw2 : forall x, In x (if nonempty b && negb (has_content sg) then w' ++ [W_has_content] else w') ->
                          x = W_split \/ x = W_has_content).
  { destruct (nonempty b && negb (has_content sg)); [|exact Hw].
    intros x Hx. apply in_app_or in Hx as [Hx|[<-|[]]]; auto. }
  split; [|exact Hw2].
  unfold times_named.
  replace (flat_map names_of (if nonempty b && negb (has_content sg) then w' ++ [W_has_content] else w')) with (@nil str);
    [reflexivity|].
  symmetry. generalize dependent (if nonempty b && negb (has_content sg) then w' ++ [W_has_content] else w').
  intros l Hl. induction l as [|x l IH]; [reflexivity|]. cbn [flat_map].
  destruct (Hl x (or_introl eq_refl)) as [-> | ->]; cbn [names_of app]; apply IH; intros y Hy; apply Hl; right; exact Hy.
Qed.

End WithOracles.

(* ---------- C08_arguments ---------- *)

Theorem arguments_spec sg t :
  let n := length (split_ws t) in
  let total := (required_arguments sg + optional_arguments sg)%nat in
  parse_directive_arguments sg t =
    if Nat.ltb n (required_arguments sg) then Raise MarkupError
    else if Nat.ltb total n then
           (if final_argument_whitespace sg
            then Ok (match total with O => split_ws t | S k => split_max k t end)
            else Raise MarkupError)
    else Ok (split_ws t).
Proof.
  cbn zeta. unfold parse_directive_arguments.
  destruct (Nat.ltb (length (split_ws t)) (required_arguments sg)); [reflexivity|].
  destruct (Nat.ltb (required_arguments sg + optional_arguments sg) (length (split_ws t))); [|reflexivity].
  destruct (final_argument_whitespace sg); [|reflexivity].
  destruct (required_arguments sg + optional_arguments sg)%nat; reflexivity.
Qed.

(* MarkupError iff too few, or too many without final_argument_whitespace *)
Theorem arguments_error_iff sg t :
  let n := length (split_ws t) in
  let total := (required_arguments sg + optional_arguments sg)%nat in
  parse_directive_arguments sg t = Raise MarkupError <->
  (n < required_arguments sg)%nat \/ ((total < n)%nat /\ final_argument_whitespace sg = false).
Proof.
  cbn zeta. rewrite arguments_spec.
  destruct (Nat.ltb_spec (length (split_ws t)) (required_arguments sg)).
  - split; auto.
  - destruct (Nat.ltb_spec (required_arguments sg + optional_arguments sg) (length (split_ws t))).
    + destruct (final_argument_whitespace sg); split; auto; try discriminate.
      intros [?|[_ ?]]; [lia | discriminate].
    + split; [discriminate|]. intros [?|[? _]]; lia.
Qed.

(* never another error *)
Theorem arguments_only_markup_error sg t e :
  parse_directive_arguments sg t = Raise e -> e = MarkupError.
Proof.
  rewrite arguments_spec. cbn zeta.
  repeat match goal with |- context [if ?c then _ else _] => destruct c end; congruence.
Qed.

(* within the declared count: the whitespace split *)
Theorem arguments_in_range sg t :
  (required_arguments sg <= length (split_ws t) <= required_arguments sg + optional_arguments sg)%nat ->
  parse_directive_arguments sg t = Ok (split_ws t).
Proof.
  intro H. rewrite arguments_spec. cbn zeta.
  destruct (Nat.ltb_spec (length (split_ws t)) (required_arguments sg)); [lia|].
  destruct (Nat.ltb_spec (required_arguments sg + optional_arguments sg) (length (split_ws t))); [lia|].
  reflexivity.
Qed.

(* too many with final_argument_whitespace: the last argument absorbs the rest of the text *)
Theorem arguments_absorb sg t :
  let total := (required_arguments sg + optional_arguments sg)%nat in
  (0 < total < length (split_ws t))%nat -> final_argument_whitespace sg = true ->
  exists last, parse_directive_arguments sg t = Ok (firstn (total - 1) (split_ws t) ++ [last]) /\
               is_suffix last t /\ lstrip last = last /\
               split_ws last = skipn (total - 1) (split_ws t).
Proof.
  cbn zeta. intros H Hf. rewrite arguments_spec. cbn zeta.
  destruct (Nat.ltb_spec (length (split_ws t)) (required_arguments sg)); [lia|].
  destruct (Nat.ltb_spec (required_arguments sg + optional_arguments sg) (length (split_ws t))); [|lia].
  rewrite Hf.
  destruct (required_arguments sg + optional_arguments sg)%nat as [|k] eqn:E; [lia|].
  replace (S k - 1)%nat with k by lia.
  destruct (split_max_absorbs k t) as [last [A [B [C [_ D]]]]]; [lia|].
  exists last. rewrite A. auto.
Qed.

Section WithOracles2.
Variable tokenize : str -> res (list (str * str) * bool).
Variable yaml_load : str -> yres.
Notation pdt := (parse_directive_text tokenize yaml_load).

(* how the arguments of the result relate to parse_directive_arguments *)
Theorem arguments_in_text sg fl content line v add r :
  pdt sg fl content line v add = Ok r ->
  if no_arguments sg then r_arguments r = []
  else parse_directive_arguments sg fl = Ok (r_arguments r).
Proof.
  unfold parse_directive_text. intro H.
  apply bind_ok in H as [[[[[w hob] opts] cl] off] [H1 H]].
  apply bind_ok in H as [[[[w' body] off'] args] [H2 H]].
  destruct (strip_blank_line body off') as [b o]. inv H. cbn [r_arguments].
  unfold first_line_phase in H2. destruct (no_arguments sg).
  - destruct (nonempty (strip fl)); inv H2; reflexivity.
  - apply bind_ok in H2 as [a [Ha H2]]. inv H2. exact Ha.
Qed.

Theorem arguments_error_in_text sg fl content line v add :
  no_arguments sg = false ->
  parse_directive_arguments sg fl = Raise MarkupError ->
  forall r, pdt sg fl content line v add <> Ok r.
Proof.
  intros Hn He r H. pose proof (arguments_in_text _ _ _ _ _ _ _ H) as A.
  rewrite Hn in A. congruence.
Qed.

End WithOracles2.

(* ================= option validation ================= *)

Definition times_named_zero (ws : list pwarn) : Prop := forall k, times_named k ws = O.


(* the value handed to the converter: empty -> None, flag -> always None *)
Definition conv_arg (sg : dsig) (name value : str) : option str :=
  if opt_is_flag sg name then None else if nonempty value then Some value else None.

Inductive verdict := Kept (c : str) | Invalid | Unknown.

(* what becomes of one (name, value) pair of the merged options *)
Definition judge (sg : dsig) (name value : str) : verdict :=
  if negb (opt_known sg name) then Unknown
  else match opt_conv sg name (conv_arg sg name value) with
       | Ok c => Kept c
       | Raise _ => Invalid
       end.

Definition kept_of (sg : dsig) (opts : list (str * str)) : list (str * str) :=
  flat_map (fun kv => match judge sg (fst kv) (snd kv) with Kept c => [(fst kv, c)] | _ => [] end) opts.
Definition invalid_of (sg : dsig) (line : option nat) (opts : list (str * str)) : list pwarn :=
  flat_map (fun kv => match judge sg (fst kv) (snd kv) with Invalid => [W_invalid (fst kv) line] | _ => [] end) opts.
Definition unknown_of (sg : dsig) (opts : list (str * str)) : list str :=
  flat_map (fun kv => match judge sg (fst kv) (snd kv) with Unknown => [fst kv] | _ => [] end) opts.

Lemma validate_loop_cons sg line k v opts :
  validate_loop sg line ((k, v) :: opts) =
  do r <- validate_loop sg line opts;
  let '(no, ve, un) := r in
  Ok (match judge sg k v with Kept c => (k, c) :: no | _ => no end,
      match judge sg k v with Invalid => W_invalid k line :: ve | _ => ve end,
      match judge sg k v with Unknown => k :: un | _ => un end).
Proof.
  cbn [validate_loop]. unfold judge, conv_arg.
  destruct (opt_known sg k); cbn [negb].
  - destruct (opt_conv sg k (if opt_is_flag sg k then None else if nonempty v then Some v else None)) as [c|e];
      destruct (validate_loop sg line opts) as [[[no ve] un]|]; reflexivity.
  - destruct (validate_loop sg line opts) as [[[no ve] un]|]; reflexivity.
Qed.

Lemma validate_loop_spec sg line opts : forall no ve un,
  validate_loop sg line opts = Ok (no, ve, un) ->
  no = kept_of sg opts /\ ve = invalid_of sg line opts /\ un = unknown_of sg opts.
Proof.
  induction opts as [|[k v] opts IH]; intros no ve un H.
  - cbn [validate_loop] in H. inv H. repeat split.
  - rewrite validate_loop_cons in H.
    unfold kept_of, invalid_of, unknown_of. cbn [flat_map fst snd].
    fold (kept_of sg opts). fold (invalid_of sg line opts). fold (unknown_of sg opts).
    apply bind_ok in H as [[[no' ve'] un'] [H1 H]]. inv H.
    destruct (IH _ _ _ H1) as [A [B C]]. subst.
    destruct (judge sg k v); repeat split.
Qed.

(* the validation loop never raises *)
Lemma validate_loop_total sg line opts : exists r, validate_loop sg line opts = Ok r.
Proof.
  induction opts as [|[k v] opts [[[no ve] un] IH]]; [eexists; reflexivity|].
  rewrite validate_loop_cons, IH. eexists. reflexivity.
Qed.

(* ---------- counting names ---------- *)

Lemma count_str_app k a b : count_str k (a ++ b) = (count_str k a + count_str k b)%nat.
Proof. induction a as [|x a IH]; [reflexivity|]. cbn [app count_str]. rewrite IH. lia. Qed.

Lemma count_str_perm k a b : Permutation a b -> count_str k a = count_str k b.
Proof. induction 1; cbn [count_str]; lia. Qed.

Lemma count_str_notin k l : ~ In k l -> count_str k l = O.
Proof.
  induction l as [|x l IH]; intro H; [reflexivity|]. cbn [count_str].
  destruct (str_eqb k x) eqn:E.
  - apply str_eqb_eq in E. subst. exfalso. apply H. left. reflexivity.
  - rewrite IH; [reflexivity|]. intro. apply H. right. assumption.
Qed.

Lemma times_named_app k a b : times_named k (a ++ b) = (times_named k a + times_named k b)%nat.
Proof. unfold times_named. rewrite flat_map_app. apply count_str_app. Qed.

Lemma names_invalid_unknown_notin sg line opts k :
  ~ In k (map fst opts) ->
  count_str k (flat_map names_of (invalid_of sg line opts)) = O /\ count_str k (unknown_of sg opts) = O.
Proof.
  induction opts as [|[k' v'] opts IH]; intro H; [split; reflexivity|].
  cbn [map fst] in H.
  assert (Hk : str_eqb k k' = false).
  { apply str_eqb_neq. intro. apply H. left. congruence. }
  destruct IH as [A B]; [intro; apply H; right; assumption|].
  unfold invalid_of, unknown_of in *. cbn [flat_map fst snd].
  destruct (judge sg k' v'); cbn [app flat_map names_of count_str]; rewrite ?flat_map_app, ?count_str_app, ?Hk;
    cbn [flat_map names_of app count_str]; rewrite ?Hk; split; try exact A; try exact B; cbn; try lia.
  all: try (rewrite A; reflexivity); try (rewrite B; reflexivity).
Qed.

(* with distinct keys: a key is named once iff it is dropped *)
Lemma named_once sg line opts : NoDup (map fst opts) -> forall k v, In (k, v) opts ->
  (count_str k (flat_map names_of (invalid_of sg line opts)) + count_str k (unknown_of sg opts))%nat =
  match judge sg k v with Kept _ => O | _ => 1%nat end.
Proof.
  induction opts as [|[k' v'] opts IH]; intros Hnd k v Hin; [destruct Hin|].
  cbn [map fst] in Hnd. inv Hnd.
  unfold invalid_of, unknown_of. cbn [flat_map fst snd]. fold (invalid_of sg line opts). fold (unknown_of sg opts).
  destruct Hin as [E|Hin].
  - inv E. destruct (names_invalid_unknown_notin sg line opts k H1) as [A B].
    destruct (judge sg k v); cbn [app flat_map names_of count_str]; rewrite ?str_eqb_refl, ?A, ?B; reflexivity.
  - assert (Hk : str_eqb k k' = false).
    { apply str_eqb_neq. intro. subst. apply H1. apply (in_map fst) in Hin. exact Hin. }
    specialize (IH H2 k v Hin).
    destruct (judge sg k' v'); cbn [app flat_map names_of count_str]; rewrite ?Hk; cbn [plus]; exact IH.
Qed.

(* ---------- dicts ---------- *)

Lemma dict_set_fresh {V} (d : list (str * V)) k v : ~ In k (map fst d) -> dict_set d k v = d ++ [(k, v)].
Proof.
  induction d as [|[k' v'] d IH]; intro H; [reflexivity|]. cbn [dict_set map fst] in *.
  destruct (str_eqb k k') eqn:E.
  - apply str_eqb_eq in E. subst. exfalso. apply H. left. reflexivity.
  - rewrite IH; [reflexivity|]. intro. apply H. right. assumption.
Qed.

Lemma dict_set_keys {V} (d : list (str * V)) k v :
  map fst (dict_set d k v) = if mem_str k (map fst d) then map fst d else map fst d ++ [k].
Proof.
  induction d as [|[k' v'] d IH]; [reflexivity|]. cbn [dict_set map fst mem_str].
  destruct (str_eqb k k') eqn:E; cbn [orb map fst]; [reflexivity|].
  rewrite IH. destruct (mem_str k (map fst d)); reflexivity.
Qed.

Lemma NoDup_snoc {A} (l : list A) x : NoDup l -> ~ In x l -> NoDup (l ++ [x]).
Proof.
  induction 1 as [|y l Hy Hl IH]; intro Hx; cbn [app].
  - constructor; [intros [] | constructor].
  - constructor.
    + intro Hi. apply in_app_or in Hi as [Hi|[<-|[]]]; [contradiction|]. apply Hx. left. reflexivity.
    + apply IH. intro. apply Hx. right. assumption.
Qed.

Lemma dict_set_nodup {V} (d : list (str * V)) k v : NoDup (map fst d) -> NoDup (map fst (dict_set d k v)).
Proof.
  intro H. rewrite dict_set_keys. destruct (mem_str k (map fst d)) eqn:E; [exact H|].
  assert (~ In k (map fst d)) by (intro X; apply mem_str_In in X; congruence).
  apply NoDup_snoc; assumption.
Qed.

Lemma dict_update_nodup {V} (e : list (str * V)) : forall d, NoDup (map fst d) -> NoDup (map fst (dict_update d e)).
Proof.
  unfold dict_update. induction e as [|[k v] e IH]; intros d H; [exact H|].
  cbn [fold_left fst snd]. apply IH. apply dict_set_nodup. exact H.
Qed.

Lemma dict_of_nodup {V} (e : list (str * V)) : NoDup (map fst (dict_of e)).
Proof. apply dict_update_nodup. constructor. Qed.

Lemma dict_get_set {V} (d : list (str * V)) k v k' :
  dict_get (dict_set d k v) k' = if str_eqb k' k then Some v else dict_get d k'.
Proof.
  induction d as [|[k1 v1] d IH]; cbn [dict_set dict_get]; [reflexivity|].
  destruct (str_eqb k k1) eqn:E.
  - apply str_eqb_eq in E. subst. cbn [dict_get]. destruct (str_eqb k' k1); reflexivity.
  - cbn [dict_get]. rewrite IH. destruct (str_eqb k' k1) eqn:E1; [|reflexivity].
    apply str_eqb_eq in E1. subst. destruct (str_eqb k1 k) eqn:E2; [|reflexivity].
    apply str_eqb_eq in E2. subst. rewrite str_eqb_refl in E. discriminate.
Qed.

(* {**d, **e}: e wins *)
Lemma dict_get_update {V} (e : list (str * V)) : forall d k,
  dict_get (dict_update d e) k =
  match dict_get (dict_update [] e) k with Some v => Some v | None => dict_get d k end.
Proof.
  unfold dict_update. induction e as [|[k1 v1] e IH]; intros d k; [reflexivity|].
  cbn [fold_left fst snd]. rewrite (IH (dict_set d k1 v1)), (IH (dict_set [] k1 v1)).
  destruct (dict_get (fold_left _ e []) k); [reflexivity|].
  rewrite dict_get_set. cbn [dict_set dict_get]. destruct (str_eqb k k1); reflexivity.
Qed.

Lemma dict_update_nodup_id {V} (e : list (str * V)) : forall d,
  NoDup (map fst (d ++ e)) -> dict_update d e = d ++ e.
Proof.
  unfold dict_update. induction e as [|[k v] e IH]; intros d H; [rewrite app_nil_r; reflexivity|].
  cbn [fold_left fst snd].
  assert (Hk : ~ In k (map fst d)).
  { rewrite map_app in H. cbn [map fst] in H. apply NoDup_remove_2 in H. intro X. apply H. apply in_or_app. left. exact X. }
  rewrite (dict_set_fresh d k v Hk). rewrite IH; rewrite <- app_assoc; [reflexivity | exact H].
Qed.

Lemma dict_of_nodup_id {V} (e : list (str * V)) : NoDup (map fst e) -> dict_of e = e.
Proof. intro H. unfold dict_of. rewrite dict_update_nodup_id; [reflexivity | exact H]. Qed.

(* the options that reach validation: the block's pairs over additional_options *)
Definition merged_options (items : list (str * str)) (additional : option (list (str * str))) : list (str * str) :=
  match additional with
  | Some (a :: l) => dict_update (dict_of (a :: l)) (dict_of items)
  | _ => dict_of items
  end.

Lemma merged_nodup items add : NoDup (map fst (merged_options items add)).
Proof.
  unfold merged_options. destruct add as [[|a l]|]; try apply dict_of_nodup.
  apply dict_update_nodup. apply dict_of_nodup.
Qed.

(* options written in the block take priority over additional_options *)
Theorem block_priority items add k :
  dict_get (merged_options items add) k =
  match dict_get (dict_of items) k with
  | Some v => Some v
  | None => match add with Some a => dict_get (dict_of a) k | None => None end
  end.
Proof.
  unfold merged_options. destruct add as [[|a l]|].
  - destruct (dict_get (dict_of items) k); reflexivity.
  - rewrite dict_get_update. fold (dict_of (dict_of items)).
    rewrite (dict_of_nodup_id (dict_of items) (dict_of_nodup items)). reflexivity.
  - destruct (dict_get (dict_of items) k); reflexivity.
Qed.

Section Validation.
Variable tokenize : str -> res (list (str * str) * bool).
Variable yaml_load : str -> yres.
Notation pdo := (parse_directive_options tokenize yaml_load).
Notation pdt := (parse_directive_text tokenize yaml_load).

(* the tokenizer's verdict on the block of this content (no block: no items) *)
Definition block_items (content : str) (line : option nat) (items : list (str * str)) (hc : bool) : Prop :=
  match fst (fst (split_options content line)) with
  | None => items = [] /\ hc = false
  | Some b => tokenize b = Ok (items, hc)
  end.

Theorem pdo_validation content sg line add o items hc :
  is_test sg = false ->
  block_items content line items hc ->
  pdo content sg false line add = Ok o ->
  let merged := merged_options items add in
  o_options o = kept_of sg merged /\
  (forall k v, In (k, v) merged ->
     times_named k (o_warnings o) = match judge sg k v with Kept _ => O | _ => 1%nat end) /\
  (forall k, ~ In k (map fst merged) -> times_named k (o_warnings o) = O).
Proof.
  cbn zeta. unfold block_items, parse_directive_options. intros Ht Hb.
  destruct (split_options content line) as [[b cl] l'] eqn:Es. cbn [fst] in Hb.
  assert (Hgen : forall options w0, times_named_zero w0 ->
            options = dict_of items ->
            (do r <- validate_loop sg l'
                   match add with Some (a :: l) => dict_update (dict_of (a :: l)) options | _ => options end;
             let '(new_options, ve, unknown) := r in
             Ok {| o_content := cl; o_options := new_options;
                   o_warnings := if nonempty unknown then (w0 ++ ve) ++ [W_unknown (sorted_strs unknown) l'] else w0 ++ ve;
                   o_has_options := match b with Some _ => true | None => false end |}) = Ok o ->
            o_options o = kept_of sg (merged_options items add) /\
            (forall k v, In (k, v) (merged_options items add) ->
               times_named k (o_warnings o) = match judge sg k v with Kept _ => O | _ => 1%nat end) /\
            (forall k, ~ In k (map fst (merged_options items add)) -> times_named k (o_warnings o) = O)).
  { intros options w0 Hw0 -> H.
    apply bind_ok in H as [[[no ve] un] [H1 H]]. inv H. cbn [o_options o_warnings].
    change (match add with Some (a :: l) => dict_update (dict_of (a :: l)) (dict_of items) | _ => dict_of items end)
      with (merged_options items add) in H1.
    destruct (validate_loop_spec _ _ _ _ _ _ H1) as [A [B C]]. subst no ve un.
    pose proof (merged_nodup items add) as Hnd.
    assert (Hcount : forall k,
      times_named k (if nonempty (unknown_of sg (merged_options items add))
                     then (w0 ++ invalid_of sg l' (merged_options items add)) ++
                          [W_unknown (sorted_strs (unknown_of sg (merged_options items add))) l']
                     else w0 ++ invalid_of sg l' (merged_options items add)) =
      (count_str k (flat_map names_of (invalid_of sg l' (merged_options items add))) +
       count_str k (unknown_of sg (merged_options items add)))%nat).
    { intro k. destruct (unknown_of sg (merged_options items add)) as [|u us] eqn:Eu; cbn [nonempty].
      - rewrite times_named_app, (Hw0 k). unfold times_named. cbn [count_str]. lia.
      - rewrite !times_named_app, (Hw0 k). unfold times_named at 2. cbn [flat_map names_of app].
        rewrite app_nil_r. rewrite (count_str_perm k _ _ (sorted_strs_perm (u :: us))). unfold times_named. lia. }
    split; [reflexivity|]. split.
    - intros k v Hin. rewrite Hcount, (named_once sg l' _ Hnd k v Hin). reflexivity.
    - intros k Hk. rewrite Hcount.
      destruct (names_invalid_unknown_notin sg l' _ k Hk) as [X Y]. rewrite X, Y. reflexivity. }
  destruct b as [blk|].
  - rewrite Hb. rewrite Ht. destruct hc.
    + apply (Hgen (dict_of items) [W_comments l']); [intro k; reflexivity | reflexivity].
    + apply (Hgen (dict_of items) []); [intro k; reflexivity | reflexivity].
  - destruct Hb as [-> ->]. rewrite Ht. apply (Hgen [] []); [intro k; reflexivity | reflexivity].
Qed.

End Validation.

Section ValidationText.
Variable tokenize : str -> res (list (str * str) * bool).
Variable yaml_load : str -> yres.
Notation pdo := (parse_directive_options tokenize yaml_load).
Notation pdt := (parse_directive_text tokenize yaml_load).

(* the options of the result are those of the option phase; the later warnings name no option *)
Lemma pdt_options sg fl content line v add r :
  pdt sg fl content line v add = Ok r -> has_option_spec sg = true ->
  exists o, pdo content sg (negb v) line add = Ok o /\ r_options r = o_options o /\
            forall k, times_named k (r_warnings r) = times_named k (o_warnings o).
Proof.
  unfold parse_directive_text, options_phase. intros H Hh. rewrite Hh in H.
  apply bind_ok in H as [[[[[w hob] opts] cl] off] [H1 H]].
  apply bind_ok in H1 as [o [Ho H1]]. inv H1.
  apply bind_ok in H as [[[[w' body] off'] args] [H2 H]].
  destruct (strip_blank_line body off') as [b ofs]. inv H. cbn [r_options r_warnings].
  exists o. split; [exact Ho|]. split; [reflexivity|]. intro k.
  assert (Hw : times_named k w' = times_named k (o_warnings o)).
  { unfold first_line_phase in H2. destruct (no_arguments sg).
    - destruct (nonempty (strip fl)); inv H2; [|reflexivity].
      destruct (o_has_options o && existsb nonempty (o_content o)); [|reflexivity].
      rewrite times_named_app. unfold times_named at 2. cbn. lia.
    - apply bind_ok in H2 as [a [_ H2]]. inv H2. reflexivity. }
  destruct (nonempty b && negb (has_content sg)); [|exact Hw].
  rewrite times_named_app, Hw. unfold times_named at 2. cbn. lia.
Qed.

Theorem option_validation sg fl content line add r items hc :
  has_option_spec sg = true -> is_test sg = false ->
  block_items tokenize content line items hc ->
  pdt sg fl content line true add = Ok r ->
  let merged := merged_options items add in
  r_options r = kept_of sg merged /\
  (forall k v, In (k, v) merged ->
     times_named k (r_warnings r) = match judge sg k v with Kept _ => O | _ => 1%nat end) /\
  (forall k, ~ In k (map fst merged) -> times_named k (r_warnings r) = O).
Proof.
  cbn zeta. intros Hh Ht Hb H.
  destruct (pdt_options _ _ _ _ _ _ _ H Hh) as [o [Ho [A B]]]. cbn [negb] in Ho.
  destruct (pdo_validation tokenize yaml_load _ _ _ _ _ _ _ Ht Hb Ho) as [X [Y Z]].
  split; [congruence|]. split.
  - intros k v0 Hin. rewrite B. apply Y. exact Hin.
  - intros k Hk. rewrite B. apply Z. exact Hk.
Qed.

End ValidationText.

(* ================= the two option styles ================= *)

(* a line "key: value" as it is written in the dash style: no separator, no indentation, not a delimiter *)
Definition kv_line (l : str) : Prop :=
  nosep l /\ is_dash_line l = false /\ exists c t, l = c :: t /\ is_space c = false.

Definition erase_line (w : pwarn) : pwarn :=
  match w with
  | W_yaml_bad _ => W_yaml_bad None | W_yaml_notdict _ => W_yaml_notdict None
  | W_tokenize _ => W_tokenize None | W_comments _ => W_comments None
  | W_invalid n _ => W_invalid n None | W_unknown ns _ => W_unknown ns None
  | W_split => W_split | W_has_content => W_has_content
  end.

Lemma colon_first_line s l0 rest :
  splitlines s = l0 :: rest -> is_colon_line l0 = true -> startswith (lstrip s) colon = true.
Proof.
  intros El Ecl. destruct (splitlines_head s l0 rest El) as [r [Hc _]].
  unfold is_colon_line in Ecl.
  assert (Hne : lstrip l0 <> []) by (destruct (lstrip l0); discriminate).
  rewrite Hc, (lstrip_app_nonempty l0 r Hne). apply startswith_app. exact Ecl.
Qed.

Lemma pop_colon_kvs kvs B :
  is_colon_line (hd_line B) = false ->
  pop_colon_lines (map (fun l => c_colon :: l) kvs ++ B) = (kvs, B).
Proof.
  intro HB. induction kvs as [|l kvs IH]; cbn [map app].
  - destruct B as [|b B]; [reflexivity|]. cbn [pop_colon_lines hd_line] in *. rewrite HB. reflexivity.
  - cbn [pop_colon_lines]. unfold is_colon_line at 1. rewrite (lstrip_nonspace _ _ colon_not_space).
    cbn [colon startswith]. rewrite N.eqb_refl. cbn [andb negb]. rewrite startswith_nil_r. cbn [negb].
    rewrite IH. reflexivity.
Qed.

Lemma search_dash_kvs kvs d1 B :
  Forall kv_line kvs -> is_dash_line d1 = true ->
  search_dash (kvs ++ d1 :: B) = (kvs, Some (d1 :: B)).
Proof.
  intros H Hd. induction H as [|l kvs [_ [Hl _]] _ IH]; cbn [app search_dash].
  - rewrite Hd. reflexivity.
  - rewrite Hl, IH. reflexivity.
Qed.

(* dedent leaves a block of unindented lines alone *)
Lemma kv_line_no_nl l : kv_line l -> no_nl l.
Proof. intros [H _]. apply nosep_no_nl. exact H. Qed.

Lemma split_nl_text_before kvs : Forall kv_line kvs -> split_nl (text_before kvs) = kvs ++ [[]].
Proof.
  unfold text_before. induction 1 as [|l kvs Hl _ IH]; [reflexivity|].
  cbn [map concat]. rewrite <- app_assoc. cbn [nl app].
  rewrite (split_nl_line_app l _ (kv_line_no_nl l Hl)). rewrite IH. reflexivity.
Qed.

Lemma kv_line_blank_st l : kv_line l -> blank_st_line l = l.
Proof.
  intros [_ [_ [c [t [-> Hc]]]]]. unfold blank_st_line. cbn [forallb].
  destruct (is_st c) eqn:E; [|reflexivity]. apply st_is_space in E. congruence.
Qed.

Lemma kv_line_indent l : kv_line l -> indent_of l = Some [].
Proof.
  intros [_ [_ [c [t [-> Hc]]]]]. unfold indent_of. cbn [drop_while take_while].
  destruct (is_st c) eqn:E; [apply st_is_space in E; congruence | reflexivity].
Qed.

Lemma join_nl_snoc_empty kvs : kvs <> [] -> join_nl (kvs ++ [[]]) = text_before kvs.
Proof.
  unfold join_nl, text_before. induction kvs as [|l kvs IH]; intro H; [congruence|].
  destruct kvs as [|l2 kvs].
  - cbn. rewrite app_nil_r. reflexivity.
  - cbn [app join map concat] in *. rewrite <- app_assoc. f_equal. f_equal. apply IH. discriminate.
Qed.

Lemma margin_all_empty (l : list str) : Forall (fun i => i = []) l -> forall m,
  (m = None \/ m = Some []) -> l <> [] \/ m = Some [] -> fold_left margin_step l m = Some [].
Proof.
  induction 1 as [|i l Hi _ IH]; intros m Hm Hne.
  - destruct Hne as [Hne|Hne]; [exfalso; apply Hne; reflexivity | exact Hne].
  - subst i. cbn [fold_left]. apply IH.
    + right. destruct Hm as [-> | ->]; reflexivity.
    + right. destruct Hm as [-> | ->]; reflexivity.
Qed.

Lemma dedent_kvs kvs : kvs <> [] -> Forall kv_line kvs -> dedent (text_before kvs) = text_before kvs.
Proof.
  intros Hne H. unfold dedent. rewrite (split_nl_text_before kvs H).
  assert (Hb : map blank_st_line (kvs ++ [[]]) = kvs ++ [[]]).
  { rewrite map_app. cbn [map]. f_equal.
    clear Hne. induction H as [|l kvs Hl _ IH]; [reflexivity|]. cbn [map]. rewrite (kv_line_blank_st l Hl), IH. reflexivity. }
  rewrite Hb.
  assert (Hi : filter_some (map indent_of (kvs ++ [[]])) = map (fun _ => []) kvs).
  { clear Hne Hb. induction H as [|l kvs Hl _ IH]; [reflexivity|].
    cbn [app map]. rewrite (kv_line_indent l Hl). cbn [filter_some]. rewrite IH. reflexivity. }
  rewrite Hi.
  rewrite (margin_all_empty (map (fun _ => []) kvs)).
  - apply join_nl_snoc_empty. exact Hne.
  - clear. induction kvs; constructor; auto.
  - left. reflexivity.
  - left. destruct kvs; [congruence | discriminate].
Qed.

Lemma text_before_join kvs : kvs <> [] -> text_before kvs = join_nl kvs ++ nl.
Proof.
  unfold text_before, join_nl. induction kvs as [|l kvs IH]; intro H; [congruence|].
  destruct kvs as [|l2 kvs].
  - cbn. rewrite app_nil_r. reflexivity.
  - cbn [map concat join] in *. rewrite IH by discriminate. rewrite <- !app_assoc. reflexivity.
Qed.

(* the extraction step for the two contents *)
Lemma split_options_colon c1 kvs B line :
  kvs <> [] -> splitlines c1 = map (fun l => c_colon :: l) kvs ++ B ->
  is_colon_line (hd_line B) = false ->
  split_options c1 line = (Some (join_nl kvs), B, line).
Proof.
  intros Hne Hl HB. unfold split_options.
  rewrite (startswith_hd_line dashes c1 dashes_nosep), Hl.
  destruct kvs as [|l kvs]; [congruence|]. cbn [map app hd_line].
  replace (startswith (c_colon :: l) dashes) with false by reflexivity.
  rewrite (colon_first_line c1 (c_colon :: l) (map (fun l => c_colon :: l) kvs ++ B)).
  - change ((c_colon :: l) :: map (fun l0 => c_colon :: l0) kvs ++ B)
      with (map (fun l0 => c_colon :: l0) (l :: kvs) ++ B).
    rewrite (pop_colon_kvs (l :: kvs) B HB). reflexivity.
  - exact Hl.
  - unfold is_colon_line. rewrite (lstrip_nonspace _ _ colon_not_space). cbn [colon startswith].
    rewrite N.eqb_refl, startswith_nil_r. reflexivity.
Qed.

Lemma split_options_dash c2 d0 d1 kvs B line :
  kvs <> [] -> Forall kv_line kvs -> splitlines c2 = d0 :: kvs ++ d1 :: B ->
  is_dash_line d0 = true -> is_dash_line d1 = true ->
  split_options c2 line = (Some (join_nl kvs ++ nl), B, option_map S line).
Proof.
  intros Hne Hk Hl H0 H1. unfold split_options.
  rewrite (startswith_hd_line dashes c2 dashes_nosep), Hl. cbn [hd_line tl].
  fold (is_dash_line d0). rewrite H0. rewrite (search_dash_kvs kvs d1 B Hk H1).
  rewrite (dedent_kvs kvs Hne Hk).
  rewrite count_nl_text_before.
  - rewrite (proj1 (skipn_app_cons kvs d1 B)). rewrite (text_before_join kvs Hne). reflexivity.
  - clear -Hk. induction Hk as [|l kvs [Hl _] _ IH]; constructor; auto.
Qed.

Definition res_rel {A} (R : A -> A -> Prop) (a b : res A) : Prop :=
  match a, b with Ok x, Ok y => R x y | Raise e1, Raise e2 => e1 = e2 | _, _ => False end.

Lemma validate_loop_lines sg l1 l2 opts :
  res_rel (fun a b => fst (fst a) = fst (fst b) /\
                      map erase_line (snd (fst a)) = map erase_line (snd (fst b)) /\ snd a = snd b)
          (validate_loop sg l1 opts) (validate_loop sg l2 opts).
Proof.
  induction opts as [|[k v] opts IH]; [cbn; auto|].
  rewrite !validate_loop_cons.
  destruct (validate_loop sg l1 opts) as [[[no1 ve1] un1]|e1];
    destruct (validate_loop sg l2 opts) as [[[no2 ve2] un2]|e2]; cbn [res_rel fst snd] in IH;
    try contradiction.
  - destruct IH as [A [B C]]. subst.
    destruct (judge sg k v); cbn [bind res_rel fst snd map erase_line]; repeat split; congruence.
  - subst. destruct (judge sg k v); cbn [bind res_rel]; reflexivity.
Qed.

Definition opts_rel (o1 o2 : dopts) : Prop :=
  o_content o1 = o_content o2 /\ o_options o1 = o_options o2 /\
  map erase_line (o_warnings o1) = map erase_line (o_warnings o2) /\ o_has_options o1 = o_has_options o2.

Definition result_rel (sg : dsig) (fl : str) (d : Z) (r1 r2 : dresult) : Prop :=
  r_arguments r1 = r_arguments r2 /\ r_options r1 = r_options r2 /\ r_body r1 = r_body r2 /\
  map erase_line (r_warnings r1) = map erase_line (r_warnings r2) /\
  (first_line_is_body sg fl = false -> r_body_offset r2 = (r_body_offset r1 + d)%Z).

Section Styles.
Variable tokenize : str -> res (list (str * str) * bool).
Variable yaml_load : str -> yres.
Notation pdo := (parse_directive_options tokenize yaml_load).
Notation pdt := (parse_directive_text tokenize yaml_load).

Lemma pdo_rel sg ay add c1 c2 line b1 b2 cl l1 l2 :
  split_options c1 line = (Some b1, cl, l1) -> split_options c2 line = (Some b2, cl, l2) ->
  tokenize b1 = tokenize b2 -> yaml_load b1 = yaml_load b2 ->
  res_rel opts_rel (pdo c1 sg ay line add) (pdo c2 sg ay line add).
Proof.
  intros S1 S2 Ht Hy. unfold parse_directive_options. rewrite S1, S2, Ht, Hy.
  destruct ay.
  - destruct (yaml_load b2); cbn [res_rel]; unfold opts_rel; cbn; auto.
  - destruct (tokenize b2) as [[items hc]|e].
    + destruct (is_test sg); [cbn [res_rel]; unfold opts_rel; cbn; auto|].
      pose proof (validate_loop_lines sg l1 l2
        match add with Some (a :: l) => dict_update (dict_of (a :: l)) (dict_of items) | _ => dict_of items end) as HV.
      destruct (validate_loop sg l1 _) as [[[no1 ve1] un1]|e1];
        destruct (validate_loop sg l2 _) as [[[no2 ve2] un2]|e2]; cbn [res_rel fst snd] in HV; try contradiction.
      * destruct HV as [A [B C]]. subst. cbn [bind res_rel]. unfold opts_rel. cbn [o_content o_options o_warnings o_has_options].
        repeat split.
        destruct (nonempty un2); destruct hc; rewrite ?map_app; cbn [map erase_line app]; rewrite ?B; reflexivity.
      * cbn [bind res_rel]. exact HV.
    + destruct e; cbn [res_rel]; unfold opts_rel; cbn; auto.
Qed.

(* everything after the option phase *)
Definition pdt_tail (sg : dsig) (fl : str) (st : list pwarn * bool * list (str * str) * list str * Z) : res dresult :=
  let '(parse_warnings, has_options_block, options, body_lines, content_offset) := st in
  do st2 <- first_line_phase sg fl parse_warnings has_options_block body_lines content_offset;
  let '(parse_warnings, body_lines, content_offset, arguments) := st2 in
  let '(body_lines, content_offset) := strip_blank_line body_lines content_offset in
  let parse_warnings :=
    if nonempty body_lines && negb (has_content sg) then parse_warnings ++ [W_has_content]
    else parse_warnings in
  Ok {| r_arguments := arguments; r_options := options; r_body := body_lines;
        r_body_offset := content_offset; r_warnings := parse_warnings |}.

Lemma pdt_is_tail sg fl content line v add :
  pdt sg fl content line v add =
  bind (options_phase tokenize yaml_load sg content line v add) (pdt_tail sg fl).
Proof.
  unfold parse_directive_text, pdt_tail.
  destruct (options_phase tokenize yaml_load sg content line v add) as [[[[[w hob] opts] cl] off]|e]; reflexivity.
Qed.

Lemma pdt_tail_rel sg fl w1 w2 hob opts cl off d :
  map erase_line w1 = map erase_line w2 ->
  res_rel (result_rel sg fl d) (pdt_tail sg fl (w1, hob, opts, cl, off))
                               (pdt_tail sg fl (w2, hob, opts, cl, (off + d)%Z)).
Proof.
  intro Hw. unfold result_rel. unfold pdt_tail, first_line_phase, first_line_is_body.
  destruct (no_arguments sg); cbn [andb].
  - destruct (nonempty (strip fl)) eqn:Es.
    + cbn [bind]. unfold strip_blank_line, is_blank. rewrite Es. cbn [negb].
      cbn [nonempty andb res_rel r_arguments r_options r_body r_warnings r_body_offset].
      repeat split; try (intro X; discriminate X).
      destruct (hob && existsb nonempty cl); destruct (negb (has_content sg));
        rewrite ?map_app, ?Hw; reflexivity.
    + cbn [bind]. unfold strip_blank_line.
      destruct cl as [|l rest]; [|destruct (is_blank l)];
        cbn [nonempty andb res_rel r_arguments r_options r_body r_warnings r_body_offset];
        repeat split; try lia;
        try (destruct (nonempty rest); cbn [andb]); destruct (negb (has_content sg));
        rewrite ?map_app, ?Hw; reflexivity.
  - destruct (parse_directive_arguments sg fl) as [args|e]; [|reflexivity].
    cbn [bind]. unfold strip_blank_line.
    destruct cl as [|l rest]; [|destruct (is_blank l)];
      cbn [nonempty andb res_rel r_arguments r_options r_body r_warnings r_body_offset];
      repeat split; try lia;
      try (destruct (nonempty rest); cbn [andb]); destruct (negb (has_content sg));
      rewrite ?map_app, ?Hw; reflexivity.
Qed.

Lemma pdt_tail_rel' sg fl w1 w2 hob opts cl off off2 d :
  map erase_line w1 = map erase_line w2 -> off2 = (off + d)%Z ->
  res_rel (result_rel sg fl d) (pdt_tail sg fl (w1, hob, opts, cl, off))
                               (pdt_tail sg fl (w2, hob, opts, cl, off2)).
Proof. intros Hw ->. apply pdt_tail_rel. exact Hw. Qed.

Theorem styles_interchangeable sg fl c1 c2 d0 d1 kvs B line v add :
  has_option_spec sg = true ->
  kvs <> [] -> Forall kv_line kvs ->
  splitlines c1 = map (fun l => c_colon :: l) kvs ++ B -> is_colon_line (hd_line B) = false ->
  splitlines c2 = d0 :: kvs ++ d1 :: B -> is_dash_line d0 = true -> is_dash_line d1 = true ->
  tokenize (join_nl kvs ++ nl) = tokenize (join_nl kvs) ->
  yaml_load (join_nl kvs ++ nl) = yaml_load (join_nl kvs) ->
  res_rel (result_rel sg fl 2) (pdt sg fl c1 line v add) (pdt sg fl c2 line v add).
Proof.
  intros Hh Hne Hk L1 HB L2 H0 H1 Ht Hy.
  rewrite !pdt_is_tail. unfold options_phase. rewrite Hh.
  pose proof (split_options_colon c1 kvs B line Hne L1 HB) as S1.
  pose proof (split_options_dash c2 d0 d1 kvs B line Hne Hk L2 H0 H1) as S2.
  pose proof (pdo_rel sg (negb v) add c1 c2 line _ _ _ _ _ S1 S2 (eq_sym Ht) (eq_sym Hy)) as HR.
  destruct (parse_directive_options tokenize yaml_load c1 sg (negb v) line add) as [o1|e1] eqn:E1;
    destruct (parse_directive_options tokenize yaml_load c2 sg (negb v) line add) as [o2|e2] eqn:E2;
    cbn [res_rel] in HR; try contradiction; [|cbn; exact HR].
  destruct HR as [A [B' [C D]]]. cbn [bind].
  pose proof (pdo_content tokenize yaml_load _ _ _ _ _ _ E1) as C1. rewrite S1 in C1. cbn [fst snd] in C1.
  pose proof (pdo_content tokenize yaml_load _ _ _ _ _ _ E2) as C2. rewrite S2 in C2. cbn [fst snd] in C2.
  rewrite <- B', <- D, C1, C2, L1, L2.
  apply pdt_tail_rel'; [exact C|].
  cbn [length]. rewrite !app_length, map_length. cbn [length]. unfold str in *. lia.
Qed.

End Styles.

(* ================= the code before fix 601d16e ================= *)

(* ":class: x\nbody\n\n" : re-joining and re-splitting lost the trailing blank line, the offset was 2 *)
Definition old_witness : str :=
  [58; 99; 108; 97; 115; 115; 58; 32; 120; 10; 98; 111; 100; 121; 10; 10].

Lemma old_code_refuted :
  exists content,
    let '(body, off) := old_body_and_offset content in
    body <> skipn (Z.to_nat off) (splitlines content).
Proof. exists old_witness. vm_compute. discriminate. Qed.
