(* The Python str operations used by myst_parser/parsers/directives.py, on str = list N.
   Executable definitions only; lemmas are in PyLinesProofs.v.
   The two character classes come from Gen/C08Unicode.v (regenerated from the interpreter). *)
From Coq Require Import List NArith Bool.
From MV Require Import Base.PyStr.
From MV Require Import Gen.C08Unicode.
Import ListNotations.
Open Scope N_scope.

Definition is_space (c : N) : bool := mem_N c ws_chars.   (* chr(c).isspace() *)
Definition is_sep (c : N) : bool := mem_N c sep_chars.    (* directives.split_lines breaks at c *)

Definition c_nl : N := 10.
Definition c_cr : N := 13.
Definition c_sp : N := 32.
Definition c_tab : N := 9.
Definition c_dash : N := 45.
Definition c_colon : N := 58.
Definition nl : str := [c_nl].

Definition nonempty {A} (l : list A) : bool := match l with [] => false | _ => true end.

(* ---- directives.split_lines(text) (commit 620bbcf; before: str.splitlines()): breaks at every separator
   (CR, LF - the set comes from Gen/C08Unicode.v), "\r\n" counts once, no trailing "" ---- *)
Definition cons_first (c : N) (ls : list str) : list str :=
  match ls with [] => [[c]] | l :: ls' => (c :: l) :: ls' end.

(* [skip_lf]: the previous character was "\r", so a "\n" here belongs to the same line break *)
Fixpoint splitlines_from (skip_lf : bool) (s : str) : list str :=
  match s with
  | [] => []
  | c :: s' =>
      if skip_lf && (c =? c_nl) then splitlines_from false s'
      else if is_sep c then [] :: splitlines_from (c =? c_cr) s'
      else cons_first c (splitlines_from false s')
  end.
Definition splitlines (s : str) : list str := splitlines_from false s.

(* "\n".join(lines) *)
Definition join_nl (ls : list str) : str := join nl ls.

(* text.split("\n") : the inverse of join_nl (keeps a trailing "") *)
Fixpoint split_nl (s : str) : list str :=
  match s with
  | [] => [[]]
  | c :: s' => if c =? c_nl then [] :: split_nl s' else cons_first c (split_nl s')
  end.

(* ---- strip family ---- *)
Fixpoint lstrip (s : str) : str :=
  match s with
  | c :: s' => if is_space c then lstrip s' else s
  | [] => []
  end.

Definition rstrip (s : str) : str := rev (lstrip (rev s)).
Definition strip (s : str) : str := rstrip (lstrip s).

(* `not s.strip()` *)
Definition is_blank (s : str) : bool := negb (nonempty (strip s)).

(* ---- split ---- *)
(* break at the first whitespace character *)
Fixpoint break_space (s : str) : str * str :=
  match s with
  | [] => ([], [])
  | c :: s' => if is_space c then ([], s) else let (w, r) := break_space s' in (c :: w, r)
  end.

(* s.split(): the maximal runs of non-whitespace; [cur] is the current word, reversed *)
Fixpoint split_ws_acc (cur : str) (s : str) : list str :=
  match s with
  | [] => if nonempty cur then [rev cur] else []
  | c :: s' =>
      if is_space c then (if nonempty cur then rev cur :: split_ws_acc [] s' else split_ws_acc [] s')
      else split_ws_acc (c :: cur) s'
  end.
Definition split_ws (s : str) : list str := split_ws_acc [] s.

(* s.split(None, k): at most k splits; the remainder keeps its trailing whitespace *)
Fixpoint split_max (k : nat) (s : str) : list str :=
  match lstrip s with
  | [] => []
  | s1 =>
      match k with
      | O => [s1]
      | S k' => let (w, r) := break_space s1 in w :: split_max k' r
      end
  end.

(* ---- list helpers mirroring the Python idioms ---- *)
Fixpoint take_while {A} (p : A -> bool) (l : list A) : list A :=
  match l with x :: l' => if p x then x :: take_while p l' else [] | [] => [] end.
Fixpoint drop_while {A} (p : A -> bool) (l : list A) : list A :=
  match l with x :: l' => if p x then drop_while p l' else l | [] => [] end.

(* number of occurrences of "\n" : s.count("\n") *)
Fixpoint count_nl (s : str) : nat :=
  match s with [] => O | c :: s' => if c =? c_nl then S (count_nl s') else count_nl s' end.

(* ---- textwrap.dedent (CPython 3.12), on text whose only line separator is "\n" ---- *)
Definition is_st (c : N) : bool := (c =? c_sp) || (c =? c_tab).     (* [ \t] *)

(* _whitespace_only_re: a line of one or more [ \t] only becomes "" *)
Definition blank_st_line (l : str) : str := if forallb is_st l then [] else l.

(* _leading_whitespace_re = leading run of [ \t] followed by a character other than [ \t\n]:
   the indent of a line that has content *)
Definition indent_of (l : str) : option str :=
  if nonempty (drop_while is_st l) then Some (take_while is_st l) else None.

(* for i,(x,y) in enumerate(zip(margin, indent)): if x != y: margin = margin[:i]; break *)
Fixpoint cut_at_mismatch (m i : str) : str :=
  match m, i with
  | x :: m', y :: i' => if x =? y then x :: cut_at_mismatch m' i' else []
  | _, _ => m        (* zip exhausted without a mismatch: margin unchanged *)
  end.

Definition margin_step (margin : option str) (indent : str) : option str :=
  match margin with
  | None => Some indent
  | Some m =>
      if startswith indent m then Some m
      else if startswith m indent then Some indent
      else Some (cut_at_mismatch m indent)
  end.

Fixpoint filter_some {A} (l : list (option A)) : list A :=
  match l with [] => [] | Some x :: l' => x :: filter_some l' | None :: l' => filter_some l' end.

Definition strip_prefix (p s : str) : str :=       (* re.sub('^' + p, '', line) *)
  if startswith s p then skipn (length p) s else s.

Definition dedent (text : str) : str :=
  let ls := map blank_st_line (split_nl text) in
  let margin := fold_left margin_step (filter_some (map indent_of ls)) None in
  match margin with
  | Some (c :: m) => join_nl (map (strip_prefix (c :: m)) ls)
  | _ => join_nl ls
  end.

(* sorted(list of str): insertion sort by code points *)
Fixpoint str_leb (a b : str) : bool :=
  match a, b with
  | [], _ => true
  | _ :: _, [] => false
  | x :: a', y :: b' => if x <? y then true else if y <? x then false else str_leb a' b'
  end.
Fixpoint insert_sorted (s : str) (l : list str) : list str :=
  match l with [] => [s] | x :: l' => if str_leb s x then s :: l else x :: insert_sorted s l' end.
Definition sorted_strs (l : list str) : list str := fold_right insert_sorted [] l.
