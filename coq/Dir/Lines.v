(* C04 - the line arithmetic of the renderer on a source-level grammar of nested blocks.
   Executable definitions only; proofs are in LinesProofs.v.

   A document is a list of blocks; [print] lays it out as MyST text; [locate] gives the 1-based line at which
   every construct starts in that text (known by construction).  [lines_seq] computes the line the renderer
   assigns to the node of every construct:
     _render_tokens            node.line = token.map[0] + 1
     nested_render_text        token.map[0] += lineno
     render_directive          position = token_line(token); run_directive(..., content, position)
     run_directive             parse_directive_text (the C08 model, run on the printed content);
                               content_offset = body_offset - prepended_lines
     MockState.nested_parse    nested_render_text("\n".join(body), position + content_offset)
     render_colon_fence        "\n" + content when the content starts with ":::" (prepended_lines = 1);
                               plain div: nested_render_text(content, token_line(token, 0))
   The markdown-it parser is an oracle, used in the only way the arithmetic needs (O_map): in the text handed to
   it, a block's token has map[0] = index of the block's first line; and (O_fence_content) a fence token's content
   is the lines between the fences with the container prefixes removed. *)
From Coq Require Import List NArith ZArith Bool.
From MV Require Import Base.PyStr.
From MV Require Import Base.Res.
From MV Require Import Dir.PyLines.
From MV Require Import Dir.DirModel.
From MV Require Import Gen.LinesSrc.
Import ListNotations.
Open Scope N_scope.

Inductive fencekind := Backtick | ColonFence.
Inductive optstyle := NoOpts | ColonOpts | DashOpts.

(* leaf constructs: one block token each, whose node line is token.map[0] + 1 *)
Inductive leafkind :=
| LPara | LHeading | LCode | LTarget | LBreak | LComment | LHtml | LMath | LTable.

Inductive blk :=
| Leaf (k : leafkind) (marker : nat) (more : nat) (ins : list (nat * nat))
      (* a leaf of kind k with [more] extra lines; for a paragraph [ins] lists inline constructs (an unknown role):
         (marker, index of the paragraph line on which it is written) *)
| Quote (marker : nat) (bs : list blk)                   (* "> " block quote *)
| ListItem (marker : nat) (bs : list blk)                (* "- " list item *)
| Div (marker : nat) (blank_before : nat) (blank_after : nat) (bs : list blk)      (* plain ::: container *)
| Dir (marker : nat) (fk : fencekind) (os : optstyle) (nopts : nat)
      (blank_before : nat) (blank_after : nat) (bs : list blk).
      (* admonition-type directive; the option block has 1 + nopts option lines (plus 2 delimiters for dash);
         [blank_before] blank lines separate the opening line / option block from the body, [blank_after] follow it *)

(* ---------- layout ---------- *)

Definition c_gt : N := 62.       (* '>' *)
Definition c_bt : N := 96.       (* '`' *)
Definition c_m : N := 109.       (* 'm' *)
Definition c_c : N := 99.        (* 'c' *)

Definition c_i : N := 105.      (* 'i' *)
Definition leaf_text (m : nat) : str := c_m :: repeat c_i m.            (* marker in unary: "miii" = 3 *)
Definition cont_text : str := [c_c].                                      (* "c" *)
(* an unknown role  {riii}`x`  preceded by a space *)
Definition role_text (m : nat) : str := [32; 123; 114] ++ repeat c_i m ++ [125; 96; 120; 96].
(* the inline constructs written on paragraph line j *)
Definition ins_on (j : nat) (ins : list (nat * nat)) : str :=
  concat (map (fun p => if Nat.eqb (snd p) j then role_text (fst p) else []) ins).
Fixpoint para_cont (j n : nat) (ins : list (nat * nat)) : list str :=
  match n with O => [] | S n' => (cont_text ++ ins_on j ins) :: para_cont (S j) n' ins end.

Definition leaf_lines (k : leafkind) (m more : nat) (ins : list (nat * nat)) : list str :=
  let t := leaf_text m in
  let cont := repeat cont_text more in
  match k with
  | LPara => (t ++ ins_on 0 ins) :: para_cont 1 more ins
  | LHeading => ([35; 32] ++ t) :: cont                                   (* "# m" *)
  | LCode => [126; 126; 126] :: t :: cont ++ [[126; 126; 126]]            (* "~~~" *)
  | LTarget => ([40] ++ t ++ [41; 61]) :: cont                            (* "(m)=" *)
  | LBreak => ([43; 43; 43; 32] ++ t) :: cont                             (* "+++ m" *)
  | LComment => ([37; 32] ++ t) :: cont                                   (* "% m" *)
  | LHtml => [60; 100; 105; 118; 62] :: t :: cont ++ [[60; 47; 100; 105; 118; 62]]   (* "<div>" "</div>" *)
  | LMath => [36; 36] :: t :: cont ++ [[36; 36]]                          (* "$$" *)
  | LTable => ([124; 32] ++ t ++ [32; 124; 32; 99; 32; 124])              (* "| m | c |" *)
              :: [124; 32; 45; 45; 45; 32; 124; 32; 45; 45; 45; 32; 124]  (* "| --- | --- |" *)
              :: repeat [124; 32; 99; 32; 124; 32; 99; 32; 124] more       (* "| c | c |" *)
  end.
Definition opt_text : str := [107; 58; 32; 118].                          (* "k: v" *)
Definition dir_name : str := [123; 110; 111; 116; 101; 125].              (* "{note}" *)
Definition div_name : str := [98; 111; 120].                              (* "box" *)

(* number of fences of each kind nested inside (the outer fence must be longer) *)
Fixpoint bt_height (b : blk) : nat :=
  let fix hs (bs : list blk) : nat := match bs with [] => O | x :: r => Nat.max (bt_height x) (hs r) end in
  match b with
  | Leaf _ _ _ _ => O
  | Quote _ bs | ListItem _ bs | Div _ _ _ bs => hs bs
  | Dir _ Backtick _ _ _ _ bs => S (hs bs)
  | Dir _ ColonFence _ _ _ _ bs => hs bs
  end.

Fixpoint colon_height (b : blk) : nat :=
  let fix hs (bs : list blk) : nat := match bs with [] => O | x :: r => Nat.max (colon_height x) (hs r) end in
  match b with
  | Leaf _ _ _ _ => O
  | Quote _ bs | ListItem _ bs => hs bs
  | Div _ _ _ bs => S (hs bs)
  | Dir _ ColonFence _ _ _ _ bs => S (hs bs)
  | Dir _ Backtick _ _ _ _ bs => hs bs
  end.

Definition opt_lines (os : optstyle) (nopts : nat) : list str :=
  match os with
  | NoOpts => []
  | ColonOpts => repeat (c_colon :: opt_text) (S nopts)
  | DashOpts => dashes :: repeat opt_text (S nopts) ++ [dashes]
  end.

Definition blank_lines (n : nat) : list str := repeat [] n.

Definition prefix_all (p : str) (ls : list str) : list str := map (fun l => p ++ l) ls.
Definition prefix_item (ls : list str) : list str :=
  match ls with
  | [] => []
  | l :: rest => ([c_dash; c_sp] ++ l) :: prefix_all [c_sp; c_sp] rest
  end.

Fixpoint print (b : blk) : list str :=
  let fix seq (bs : list blk) : list str :=
    match bs with
    | [] => []
    | [x] => print x
    | x :: r => print x ++ [] :: seq r
    end in
  match b with
  | Leaf k m more ins => leaf_lines k m more ins
  | Quote _ bs => prefix_all [c_gt; c_sp] (seq bs)
  | ListItem _ bs => prefix_item (seq bs)
  | Div _ bb ba bs =>
      let f := repeat c_colon (2 + colon_height b) in
      (f ++ div_name) :: blank_lines bb ++ seq bs ++ blank_lines ba ++ [f]
  | Dir _ fk os nopts bb ba bs =>
      let f := match fk with
               | Backtick => repeat c_bt (2 + bt_height b)
               | ColonFence => repeat c_colon (2 + colon_height b)
               end in
      (f ++ dir_name) :: opt_lines os nopts ++ blank_lines bb ++ seq bs ++ blank_lines ba ++ [f]
  end.

Fixpoint print_seq (bs : list blk) : list str :=
  match bs with
  | [] => []
  | [x] => print x
  | x :: r => print x ++ [] :: print_seq r
  end.

(* number of lines of a block *)
Fixpoint height (b : blk) : nat :=
  let fix hs (bs : list blk) : nat :=
    match bs with [] => O | [x] => height x | x :: r => (height x + 1 + hs r)%nat end in
  match b with
  | Leaf k m more ins => length (leaf_lines k m more ins)
  | Quote _ bs | ListItem _ bs => hs bs
  | Div _ bb ba bs => (1 + bb + hs bs + ba + 1)%nat
  | Dir _ _ os nopts bb ba bs =>
      (1 + length (opt_lines os nopts) + bb + hs bs + ba + 1)%nat
  end.

(* ---------- the true lines, by construction ---------- *)

(* [start] = 1-based line of the block's first line.
   [fl_body = false]: the true lines.  [fl_body = true]: where the code puts the constructs when the text after the
   directive name is body text (no-argument class; open finding line:dir-firstline-body): the body is then taken to
   begin on the line after the directive's first line even if an option block stands there. *)
Fixpoint locate_gen (fl_body : bool) (start : nat) (b : blk) : list (nat * nat) :=
  let fix seq (start : nat) (bs : list blk) : list (nat * nat) :=
    match bs with
    | [] => []
    | x :: r => locate_gen fl_body start x ++ seq (start + height x + 1)%nat r
    end in
  match b with
  | Leaf _ m _ ins => (m, start) :: map (fun p => (fst p, start)) ins
      (* inline constructs have no line of their own in markdown-it: they belong to their block's first line *)
  | Quote m bs | ListItem m bs => (m, start) :: seq start bs
  | Div m bb _ bs => (m, start) :: seq (start + 1 + bb)%nat bs
  | Dir m _ os nopts bb _ bs =>
      (m, start) :: seq (if fl_body then start + 2 + bb
                         else start + 1 + length (opt_lines os nopts) + bb)%nat bs
  end.

Definition locate_seq_gen (fl_body : bool) : nat -> list blk -> list (nat * nat) :=
  fix seq (start : nat) (bs : list blk) : list (nat * nat) :=
    match bs with
    | [] => []
    | x :: r => locate_gen fl_body start x ++ seq (start + height x + 1)%nat r
    end.

(* the true lines *)
Definition locate : nat -> blk -> list (nat * nat) := locate_gen false.
Definition locate_seq : nat -> list blk -> list (nat * nat) := locate_seq_gen false.

(* ---------- the renderer's arithmetic ---------- *)

Fixpoint lines_eqb (a b : list str) : bool :=
  match a, b with
  | [], [] => true
  | x :: a', y :: b' => str_eqb x y && lines_eqb a' b'
  | _, _ => false
  end.

Definition colons3 : str := [c_colon; c_colon; c_colon].

(* The arithmetic itself is NOT written here: it is the expressions of the source, regenerated into Gen/LinesSrc.v
   (gen/c04_linessrc.py).  The line a node gets from a block token whose map[0] is [idx] in a text rendered with
   lineno [base]: nested_render_text shifts the map, _render_tokens makes it 1-based, token_line reads it. *)
Definition node_line (base : Z) (idx : nat) : Z :=
  token_line_src (render_tokens_map0_src (nested_map0_src (Z.of_nat idx) 0 base) 0) 0.

Section Render.

Variable tokenize : str -> res (list (str * str) * bool).
Variable yaml_load : str -> yres.
Variable sg : dsig.            (* the directive class *)
Variable first_line : str.     (* the text after the directive name (empty in [print]) *)

(* the content of the fence token, as lines (O_fence_content) *)
Definition dir_content (os : optstyle) (nopts : nat) (bb : nat) (ba : nat) (bs : list blk) : list str :=
  opt_lines os nopts ++ blank_lines bb ++ print_seq bs ++ blank_lines ba.

(* [base] = what has been added to token.map so far (lineno of the enclosing nested_render_text, 0 at top level);
   [idx] = token.map[0] as given by the parser = index of the block's first line in the parsed text (O_map) *)
Fixpoint lines_blk (base : Z) (idx : nat) (b : blk) : res (list (nat * Z)) :=
  let fix seq (base : Z) (idx : nat) (bs : list blk) : res (list (nat * Z)) :=
    match bs with
    | [] => Ok []
    | x :: r =>
        do r1 <- lines_blk base idx x;
        do r2 <- seq base (idx + height x + 1)%nat r;
        Ok (r1 ++ r2)
    end in
  let line := node_line base idx in
  match b with
  | Leaf _ m _ ins =>
      (* _render_tokens: `for token_child in token.children: token_child.map = token.map` - inline tokens carry the
         block token's map, so a role's lineno = token_line(token) is the block's first line *)
      Ok ((m, line) :: map (fun p => (fst p, line)) ins)
  | Quote m bs | ListItem m bs =>
      (* children tokens belong to the same token stream: same text, same base *)
      do r <- seq base idx bs; Ok ((m, line) :: r)
  | Div m bb _ bs =>
      (* nested_render_text(token.content, token_line(token, 0)) *)
      do r <- seq line bb bs; Ok ((m, line) :: r)
  | Dir m fk os nopts bb ba bs =>
      let position := line in
      let content_lines := dir_content os nopts bb ba bs in
      let content := text_before content_lines in
      (* render_colon_fence: "\n" + content *)
      let hack := match fk with ColonFence => startswith content colons3 | Backtick => false end in
      let content_lines := if hack then [] :: content_lines else content_lines in
      let content := if hack then nl ++ content else content in
      let prepended_lines := if hack then Z.to_nat hack_prepended_src else O in
      do parsed <- parse_directive_text tokenize yaml_load sg first_line content
                     (Some (Z.to_nat position)) true None;
      let body := r_body parsed in
      let content_offset := content_offset_src (r_body_offset parsed) (Z.of_nat prepended_lines) in
      match bs with
      | [] => Ok [(m, position)]
      | _ =>
          (* O_map for the nested parse of "\n".join(body): the child blocks are where they are in [body];
             that is only defined when [body] is the content from some line [d] on *)
          let first_child := (length (opt_lines os nopts) + bb + prepended_lines)%nat in
          if first_line_is_body sg first_line then
            (* text on the first line of a no-argument directive: the body is that line followed by content lines,
               so in the nested text the children sit one line further down *)
            match body with
            | _ :: rest =>
                let d := (length content_lines - length rest)%nat in
                if lines_eqb rest (skipn d content_lines) && Nat.leb d first_child then
                  do r <- seq (nested_parse_lineno_src position content_offset) (first_child - d + 1)%nat bs;
                  Ok ((m, position) :: r)
                else Raise AssertionError
            | [] => Raise AssertionError
            end
          else
          let d := (length content_lines - length body)%nat in
          if lines_eqb body (skipn d content_lines) && Nat.leb d first_child then
            do r <- seq (nested_parse_lineno_src position content_offset) (first_child - d)%nat bs;
            Ok ((m, position) :: r)
          else Raise AssertionError
      end
  end.

Fixpoint lines_seq (base : Z) (idx : nat) (bs : list blk) : res (list (nat * Z)) :=
  match bs with
  | [] => Ok []
  | x :: r =>
      do r1 <- lines_blk base idx x;
      do r2 <- lines_seq base (idx + height x + 1)%nat r;
      Ok (r1 ++ r2)
  end.

(* a whole document: render(tokens) of md.parse(text) *)
Definition document_lines (doc : list blk) : res (list (nat * Z)) := lines_seq 0%Z O doc.

(* an included file, from its line index [startline] on (the blocks of the selected text):
   MockIncludeDirective.run -> nested_render_text(text, startline + 1) *)
Definition include_lines (startline : nat) (body : list blk) : res (list (nat * Z)) :=
  lines_seq (include_lineno_src (Z.of_nat startline)) O body.

(* ---------- warnings and includes ---------- *)

(* run_directive: create_warning(..., line=_warning.lineno if _warning.lineno is not None else position) *)
Definition warning_line (position : nat) (w : pwarn) : nat :=
  let lineno := match w with
                | W_yaml_bad l | W_yaml_notdict l | W_tokenize l | W_comments l => l
                | W_invalid _ l | W_unknown _ l => l
                | W_split | W_has_content => None
                end in
  Z.to_nat (warning_line_src (option_map Z.of_nat lineno) (Z.of_nat position)).

End Render.

(* ---------- the other line-carrying methods of the mocks (arithmetic from Gen/LinesSrc.v) ---------- *)

(* MockState.block_quote (epigraph / pull-quote / highlights): nested_parse(lines, line_offset, blockquote) *)
Definition block_quote_lineno (position content_offset : Z) : Z :=
  nested_parse_lineno_src position (block_quote_offset_src content_offset).

(* text rendered through MockState.inline_text(text, lineno) -> MockInliner.parse -> nested_render_text(.., inline=True):
   the inline token has map[0] = 0 *)
Definition inline_text_line (lineno : Z) : Z :=
  token_line_src (render_tokens_map0_src (nested_map0_src 0 0 (inliner_lineno_src lineno)) 0) 0.

(* the attribution found on index [i] of the body lines: its node and the warnings of its text *)
Definition attribution_node_line (position content_offset : Z) (i : Z) : Z :=
  attribution_line_src (attribution_lineno_src position content_offset (Some i)).
Definition attribution_text_line (position content_offset : Z) (i : Z) : Z :=
  inline_text_line (attribution_lineno_src position content_offset (Some i)).

(* a directive title: state.inline_text(title_text, self.lineno) *)
Definition title_text_line (position : Z) : Z := inline_text_line position.

(* MockStateMachine.get_source_and_line(lineno) and MockState.parse_directive_block's content offset *)
Definition source_line (lineno : option Z) (position : Z) : Z := source_and_line_src lineno position.
Definition directive_block_offset (line_offset body_offset : Z) : Z := directive_block_offset_src line_offset body_offset.

(* MockIncludeDirective.run: the text handed to nested_render_text and its lineno *)
Definition include_select (file_lines : list str) (start_line : option nat) (end_line : option nat) : list str :=
  let from := match start_line with Some s => s | None => O end in
  let upto := match end_line with Some e => e | None => length file_lines end in
  firstn (upto - from) (skipn from file_lines).

(* file_content.find(split_on): index of the first occurrence *)
Fixpoint find_sub (fuel : nat) (s needle : str) : option nat :=
  match fuel with
  | O => None
  | S f => if startswith s needle then Some O
           else match s with [] => None | _ :: s' => option_map S (find_sub f s' needle) end
  end.

(* lineno passed to nested_render_text and the selected text, for start-line / start-after (after fix 451703c) *)
Definition include_start (file_lines : list str) (start_line : option nat) (start_after : option str)
  : option (nat * str) :=
  let startline := Z.to_nat (include_startline0_src (option_map Z.of_nat start_line)) in
  let text := join_nl (include_select file_lines start_line None) in
  match start_after with
  | None => Some (Z.to_nat (include_lineno_src (Z.of_nat startline)), text)
  | Some needle =>
      match find_sub (S (length text)) text needle with
      | None => None            (* DirectiveError: text not found *)
      | Some i =>
          let cut := Z.to_nat (include_cut_src (Z.of_nat i) needle) in
          Some (Z.to_nat (include_lineno_src (include_advance_src (Z.of_nat startline) text (Z.of_nat i) needle)),
                skipn cut text)
      end
  end.

(* the same with the character index added to the line counter (before fix 451703c) *)
Definition include_start_old (file_lines : list str) (start_after : str) : option (nat * str) :=
  let text := join_nl file_lines in
  match find_sub (S (length text)) text start_after with
  | None => None
  | Some i => let cut := (i + length start_after)%nat in Some ((0 + cut + 1)%nat, skipn cut text)
  end.
