(* The definitions regenerated from parsers/directives.py (Gen/DirSrc.v) equal the hand-written model (DirModel.v).
   These are the proof obligations that an edit of split_lines / parse_directive_arguments / _parse_directive_options /
   parse_directive_text breaks. *)
From Coq Require Import List NArith ZArith Bool Lia.
From MV Require Import Base.PyStr.
From MV Require Import Base.Res.
From MV Require Import Dir.PyLines.
From MV Require Import Dir.PyLinesProofs.
From MV Require Import Dir.DirModel.
From MV Require Import Dir.DirProofs.
From MV Require Import Dir.PyRuntime.
From MV Require Import Gen.DirSrc.
Import ListNotations.
Open Scope N_scope.

(* ---------- split_lines ---------- *)

(* drop one trailing "" *)
Definition strip_last (ls : list str) : list str :=
  match py_last ls with Ok [] => removelast ls | _ => ls end.

Lemma re_split_nonempty s : forall b, re_newline_split_from b s <> [].
Proof.
  induction s as [|c s IH]; intro b; cbn [re_newline_split_from]; [discriminate|].
  destruct (b && (c =? c_nl)); [apply IH|]. destruct (is_sep c); [discriminate | apply cons_first_not_nil].
Qed.

Lemma strip_last_cons x ls : ls <> [] -> strip_last (x :: ls) = x :: strip_last ls.
Proof.
  intro H. unfold strip_last. destruct ls as [|y r]; [congruence|].
  change (py_last (x :: y :: r)) with (py_last (y :: r)).
  destruct (py_last (y :: r)) as [[|c t]|e]; reflexivity.
Qed.

Lemma strip_last_cons_first c ls : ls <> [] -> strip_last (cons_first c ls) = cons_first c (strip_last ls).
Proof.
  intro H. destruct ls as [|l r]; [congruence|]. cbn [cons_first].
  destruct r as [|l2 r2].
  - unfold strip_last. cbn [py_last]. destruct l; reflexivity.
  - rewrite (strip_last_cons (c :: l)) by discriminate. rewrite (strip_last_cons l) by discriminate. reflexivity.
Qed.

Lemma re_split_strip s : forall b, strip_last (re_newline_split_from b s) = splitlines_from b s.
Proof.
  induction s as [|c s IH]; intro b; cbn [re_newline_split_from splitlines_from]; [reflexivity|].
  destruct (b && (c =? c_nl)); [apply IH|]. destruct (is_sep c).
  - rewrite strip_last_cons by apply re_split_nonempty. rewrite IH. reflexivity.
  - rewrite strip_last_cons_first by apply re_split_nonempty. rewrite IH. reflexivity.
Qed.

Lemma py_last_ok ls : ls <> [] -> exists l, py_last ls = Ok l.
Proof.
  induction ls as [|x r IH]; [congruence|]. intros _. destruct r as [|y r']; [eexists; reflexivity|].
  cbn [py_last]. apply IH. discriminate.
Qed.

Theorem split_lines_src_eq text : split_lines_src text = Ok (splitlines text).
Proof.
  unfold split_lines_src, splitlines. rewrite <- (re_split_strip text false). unfold strip_last, re_newline_split.
  destruct (py_last_ok (re_newline_split_from false text) (re_split_nonempty text false)) as [l E]. rewrite E. cbn [bind].
  destruct l; reflexivity.
Qed.

(* ---------- parse_directive_arguments ---------- *)

Theorem parse_directive_arguments_src_eq sg t :
  parse_directive_arguments_src sg t = parse_directive_arguments sg t.
Proof.
  unfold parse_directive_arguments_src, parse_directive_arguments.
  destruct (Nat.ltb (length (split_ws t)) (required_arguments sg)); [reflexivity|].
  destruct (Nat.ltb (required_arguments sg + optional_arguments sg) (length (split_ws t))); [|reflexivity].
  destruct (final_argument_whitespace sg); [|reflexivity].
  unfold py_split_maxsplit. destruct (required_arguments sg + optional_arguments sg)%nat as [|k].
  - reflexivity.
  - replace (Z.of_nat (S k) - 1)%Z with (Z.of_nat k) by lia.
    destruct (Z.ltb_spec (Z.of_nat k) 0); [lia|]. rewrite Nat2Z.id. reflexivity.
Qed.

(* ---------- the two loops of _parse_directive_options ---------- *)

(* `while content_lines:` of the colon style = pop_colon_lines, for any fuel beyond the number of lines *)
Lemma loop1_eq sg cl : forall fuel yl, (length cl < fuel)%nat ->
  parse_directive_options_src_loop1 sg fuel (yl, cl) =
  Ok (yl ++ fst (pop_colon_lines cl), snd (pop_colon_lines cl)).
Proof.
  induction cl as [|l cl IH]; intros fuel yl Hf; (destruct fuel as [|f]; [cbn in Hf; lia|]).
  - cbn. rewrite app_nil_r. reflexivity.
  - cbn [parse_directive_options_src_loop1 pop_colon_lines]. unfold is_colon_line, colon.
    destruct (startswith (lstrip l) [c_colon]) eqn:E.
    + change (startswith (lstrip l) [58]) with (startswith (lstrip l) [c_colon]). rewrite E. cbn [negb].
      fold (parse_directive_options_src_loop1 sg). rewrite IH by (cbn in Hf; lia).
      destruct (pop_colon_lines cl) as [y r]. cbn [fst snd]. rewrite <- app_assoc. reflexivity.
    + change (startswith (lstrip l) [58]) with (startswith (lstrip l) [c_colon]). rewrite E. cbn [negb fst snd].
      rewrite app_nil_r. reflexivity.
Qed.

(* the body of `for name, value in options.items():` in normal form *)
Lemma step1_spec sg line no un ve k v :
  parse_directive_options_src_step1 sg sg line (no, un, ve) (k, v) =
  match judge sg k v with
  | Kept c => (dict_set no k c, un, ve)
  | Invalid => (no, un, ve ++ [W_invalid k line])
  | Unknown => (no, un ++ [k], ve)
  end.
Proof.
  unfold parse_directive_options_src_step1, judge, conv_arg. cbn [ostr_or_empty].
  destruct (opt_known sg k); cbn [negb]; [|reflexivity].
  destruct (nonempty v); cbn [negb]; destruct (opt_is_flag sg k);
    match goal with |- context [opt_conv sg k ?a] => destruct (opt_conv sg k a) end; reflexivity.
Qed.

Lemma step1_fold sg line opts : NoDup (map fst opts) -> forall no un ve,
  (forall k, In k (map fst opts) -> ~ In k (map fst no)) ->
  fold_left (parse_directive_options_src_step1 sg sg line) opts (no, un, ve) =
  (no ++ kept_of sg opts, un ++ unknown_of sg opts, ve ++ invalid_of sg line opts).
Proof.
  induction opts as [|[k v] opts IH]; intros Hnd no un ve Hfresh.
  - cbn. rewrite !app_nil_r. reflexivity.
  - cbn [map fst] in Hnd. inversion Hnd as [|? ? Hk Hnd']; subst.
    cbn [fold_left]. rewrite step1_spec.
    unfold kept_of, unknown_of, invalid_of. cbn [flat_map fst snd].
    fold (kept_of sg opts). fold (unknown_of sg opts). fold (invalid_of sg line opts).
    destruct (judge sg k v) as [c| |].
    + rewrite (dict_set_fresh no k c) by (apply Hfresh; left; reflexivity).
      rewrite IH; [rewrite <- app_assoc; reflexivity | exact Hnd'|].
      intros k' Hin Hno. rewrite map_app in Hno. apply in_app_or in Hno as [Hno|[<-|[]]].
      * apply (Hfresh k'); [right; exact Hin | exact Hno].
      * apply Hk. exact Hin.
    + rewrite IH; [rewrite <- app_assoc; reflexivity | exact Hnd'|].
      intros k' Hin. apply Hfresh. right. exact Hin.
    + rewrite IH; [rewrite <- app_assoc; reflexivity | exact Hnd'|].
      intros k' Hin. apply Hfresh. right. exact Hin.
Qed.

Lemma validate_loop_value sg line opts :
  validate_loop sg line opts = Ok (kept_of sg opts, invalid_of sg line opts, unknown_of sg opts).
Proof.
  destruct (validate_loop_total sg line opts) as [[[no ve] un] E]. rewrite E.
  destruct (validate_loop_spec _ _ _ _ _ _ E) as [-> [-> ->]]. reflexivity.
Qed.

(* ---------- the regex search ---------- *)

Lemma split_nl_join ls : ls <> [] -> Forall no_nl ls -> split_nl (join_nl ls) = ls.
Proof.
  unfold join_nl. induction ls as [|l ls IH]; intros Hne H; [congruence|].
  inversion H; subst. destruct ls as [|l2 ls].
  - cbn [join]. apply split_nl_no_nl. assumption.
  - change (join nl (l :: l2 :: ls)) with (l ++ c_nl :: join nl (l2 :: ls)).
    rewrite split_nl_line_app by assumption. rewrite IH; [reflexivity | discriminate | assumption].
Qed.

Lemma join_cons_nonempty (sep p : str) r : r <> [] -> join sep (p :: r) = p ++ sep ++ join sep r.
Proof. destruct r; [congruence | reflexivity]. Qed.

Lemma join_nl_app_cons pre d after :
  join_nl (pre ++ d :: after) = text_before pre ++ join_nl (d :: after).
Proof.
  unfold join_nl, text_before. induction pre as [|l pre IH]; [reflexivity|].
  cbn [app map concat]. rewrite join_cons_nonempty by (destruct pre; discriminate).
  rewrite IH, <- !app_assoc. reflexivity.
Qed.

Lemma firstn_app_length {A} (a b : list A) : firstn (length a) (a ++ b) = a.
Proof. induction a; cbn; congruence. Qed.

(* on the joined lines the search finds the line search_dash finds *)
Lemma re_search_dashes_join cl : Forall nosep cl ->
  re_search_dashes (join_nl cl) =
  match search_dash cl with (pre, Some _) => Some (length (text_before pre)) | (_, None) => None end.
Proof.
  intro H. unfold re_search_dashes. destruct cl as [|l cl].
  - reflexivity.
  - rewrite split_nl_join; [reflexivity | discriminate|].
    clear -H. induction H; constructor; auto. apply nosep_no_nl. assumption.
Qed.

(* ---------- _parse_directive_options ---------- *)

Section Options.
Variable tokenize : str -> res (list (str * str) * bool).
Variable yaml_load : str -> yres.

(* the model after the extraction of the block *)
Definition rest_model (sg : dsig) (as_yaml : bool) (additional_options : option (list (str * str)))
           (options_block : option str) (content_lines : list str) (line : option nat) : res dopts :=
  let has_options_block := match options_block with Some _ => true | None => false end in
  if as_yaml then
    match yaml_load (match options_block with Some b => b | None => [] end) with
    | Y_raise _
    | Y_error => Ok {| o_content := content_lines; o_options := []; o_warnings := [W_yaml_bad line];
                       o_has_options := has_options_block |}
    | Y_falsy => Ok {| o_content := content_lines; o_options := []; o_warnings := [];
                       o_has_options := has_options_block |}
    | Y_notdict => Ok {| o_content := content_lines; o_options := []; o_warnings := [W_yaml_notdict line];
                         o_has_options := has_options_block |}
    | Y_dict items => Ok {| o_content := content_lines; o_options := items; o_warnings := [];
                            o_has_options := has_options_block |}
    end
  else
    let tok :=
      match options_block with
      | None => Ok (Some ([], []))
      | Some b =>
          match tokenize b with
          | Ok (items, has_comments) =>
              Ok (Some (dict_of items, if has_comments then [W_comments line] else []))
          | Raise (TokenizeError _) => Ok None
          | Raise e => Raise e
          end
      end in
    match tok with
    | Raise e => Raise e
    | Ok None => Ok {| o_content := content_lines; o_options := []; o_warnings := [W_tokenize line];
                       o_has_options := has_options_block |}
    | Ok (Some (options, validation_errors)) =>
        if is_test sg then
          Ok {| o_content := content_lines; o_options := options; o_warnings := [];
                o_has_options := has_options_block |}
        else
          let options :=
            match additional_options with
            | Some (a :: l) => dict_update (dict_of (a :: l)) options
            | _ => options
            end in
          do r <- validate_loop sg line options;
          let '(new_options, ve, unknown) := r in
          let validation_errors := validation_errors ++ ve in
          let validation_errors :=
            if nonempty unknown then validation_errors ++ [W_unknown (sorted_strs unknown) line]
            else validation_errors in
          Ok {| o_content := content_lines; o_options := new_options; o_warnings := validation_errors;
                o_has_options := has_options_block |}
    end.

Lemma pdo_is_rest content sg as_yaml line add :
  parse_directive_options tokenize yaml_load content sg as_yaml line add =
  let '(ob, cl, l') := split_options content line in rest_model sg as_yaml add ob cl l'.
Proof.
  unfold parse_directive_options, rest_model. destruct (split_options content line) as [[ob cl] l']. reflexivity.
Qed.

Lemma merged_keys_nodup (items : list (str * str)) (add : option (list (str * str))) :
  NoDup (map fst (match add with Some (a :: l) => dict_update (dict_of (a :: l)) (dict_of items) | _ => dict_of items end)).
Proof.
  destruct add as [[|a l]|]; try apply dict_of_nodup. apply dict_update_nodup. apply dict_of_nodup.
Qed.

Ltac nodup_tac := repeat first [apply dict_update_nodup | apply dict_of_nodup | constructor].

(* the validation part: fold of the generated step = validate_loop *)
Ltac rest_validate :=
  match goal with
  | |- context [fold_left (parse_directive_options_src_step1 ?sg ?sg ?l) ?opts _] =>
      rewrite (step1_fold sg l opts); [| nodup_tac | intros ? ? []];
      rewrite (validate_loop_value sg l opts); cbn [bind app];
      match goal with |- context [nonempty ?u] => destruct (nonempty u) end; reflexivity
  end.

(* everything after the extraction of the block, for a block that is None or Some *)
Ltac rest_solve ay :=
  unfold rest_model; cbn [ostr_or_empty];
  destruct ay;
  [ match goal with |- context [yaml_load ?x] => destruct (yaml_load x) end; reflexivity
  | try (match goal with |- context [tokenize ?x] => destruct (tokenize x) as [[? ?]|?] end);
    try (match goal with ex : exn |- _ => destruct ex; reflexivity end);
    try (match goal with hc : bool |- _ => destruct hc end);
    match goal with |- context [is_test ?sg] => destruct (is_test sg) end; try reflexivity;
    match goal with add : option (list (str * str)) |- _ => destruct add as [[|? ?]|] end;
    cbn [odict nonempty app]; rest_validate ].

Theorem parse_directive_options_src_eq content sg as_yaml line add :
  parse_directive_options_src tokenize yaml_load content sg as_yaml line add =
  parse_directive_options tokenize yaml_load content sg as_yaml line add.
Proof.
  rewrite pdo_is_rest. unfold parse_directive_options_src, split_options.
  rewrite split_lines_src_eq. cbn [bind].
  change [45; 45; 45] with dashes. change [58] with colon.
  pose proof (splitlines_nosep content) as Hns.
  destruct (startswith content dashes).
  - (* dash style *)
    rewrite (re_search_dashes_join (tl (splitlines content)) (Forall_tl _ _ Hns)).
    destruct (search_dash (tl (splitlines content))) as [pre m] eqn:Es.
    destruct (search_dash_spec _ _ _ Es) as [Hpre Hm].
    destruct m as [r|].
    + destruct Hm as [Hr [d1 [after [-> Hd1]]]].
      rewrite Hr, join_nl_app_cons, firstn_app_length.
      replace (count_nl (text_before pre) + 1)%nat with (count_nl (text_before pre) + 1)%nat by reflexivity.
      assert (Hl : match line with None => None | Some l => Some (l + 1)%nat end = option_map S line).
      { destruct line; [cbn; f_equal; lia | reflexivity]. }
      rewrite Hl. rest_solve as_yaml.
    + assert (Hl : match line with None => None | Some l => Some (l + 1)%nat end = option_map S line).
      { destruct line; [cbn; f_equal; lia | reflexivity]. }
      rewrite Hl. rest_solve as_yaml.
  - destruct (startswith (lstrip content) colon).
    + (* colon style *)
      rewrite loop1_eq by lia. cbn [bind app]. destruct (pop_colon_lines (splitlines content)) as [y r]. cbn [fst snd].
      rest_solve as_yaml.
    + rest_solve as_yaml.
Qed.

(* ---------- parse_directive_text ---------- *)

Theorem parse_directive_text_src_eq sg fl content line v add :
  parse_directive_text_src tokenize yaml_load sg fl content line v add =
  parse_directive_text tokenize yaml_load sg fl content line v add.
Proof.
  unfold parse_directive_text_src, parse_directive_text, options_phase, first_line_phase, no_arguments, strip_blank_line,
    is_blank.
  rewrite parse_directive_options_src_eq, parse_directive_arguments_src_eq, split_lines_src_eq.
  destruct (has_option_spec sg).
  - destruct (parse_directive_options tokenize yaml_load content sg (negb v) line add) as [o|e]; [|reflexivity].
    cbn [bind].
    destruct (Nat.eqb (required_arguments sg) 0); destruct (Nat.eqb (optional_arguments sg) 0); cbn [negb orb andb bind];
      try (destruct (nonempty (strip fl)) eqn:Efl; cbn [bind];
           try (destruct (o_has_options o && existsb nonempty (o_content o)); cbn [bind]);
           try rewrite Efl; cbn [negb nonempty andb];
           try (destruct (o_content o) as [|l0 r0]; cbn [tl nonempty andb]; try destruct (nonempty (strip l0)); cbn [negb];
                try (destruct r0; cbn [nonempty andb]));
           destruct (has_content sg); reflexivity);
      (destruct (parse_directive_arguments sg fl) as [args|e]; [|reflexivity]; cbn [bind];
       destruct (o_content o) as [|l0 r0]; cbn [tl nonempty andb]; try destruct (nonempty (strip l0)); cbn [negb];
       try (destruct r0; cbn [nonempty andb]); destruct (has_content sg); reflexivity).
  - cbn [bind].
    destruct (Nat.eqb (required_arguments sg) 0); destruct (Nat.eqb (optional_arguments sg) 0); cbn [negb orb andb bind];
      try (destruct (nonempty (strip fl)) eqn:Efl; cbn [bind andb];
           try rewrite Efl; cbn [negb nonempty andb];
           try (destruct (splitlines content) as [|l0 r0]; cbn [tl nonempty andb]; try destruct (nonempty (strip l0)); cbn [negb];
                try (destruct r0; cbn [nonempty andb]));
           destruct (has_content sg); reflexivity);
      (destruct (parse_directive_arguments sg fl) as [args|e]; [|reflexivity]; cbn [bind];
       destruct (splitlines content) as [|l0 r0]; cbn [tl nonempty andb]; try destruct (nonempty (strip l0)); cbn [negb];
       try (destruct r0; cbn [nonempty andb]); destruct (has_content sg); reflexivity).
Qed.

End Options.

(* ---------- the property theorems for the regenerated definitions ---------- *)

Theorem body_is_suffix_src tokenize yaml_load sg fl content line v add r lines :
  parse_directive_text_src tokenize yaml_load sg fl content line v add = Ok r ->
  split_lines_src content = Ok lines ->
  first_line_is_body sg fl = false ->
  (0 <= r_body_offset r)%Z /\ r_body r = skipn (Z.to_nat (r_body_offset r)) lines.
Proof.
  rewrite parse_directive_text_src_eq, split_lines_src_eq. intros H Hl Hm. inversion Hl; subst.
  exact (body_is_suffix tokenize yaml_load sg fl content line v add r H Hm).
Qed.

Theorem offset_is_index_src tokenize yaml_load sg fl content line v add r lines :
  parse_directive_text_src tokenize yaml_load sg fl content line v add = Ok r ->
  split_lines_src content = Ok lines ->
  first_line_is_body sg fl = false ->
  exists n, opt_extent sg lines n /\
            let k := (n + if blank_at n lines then 1 else 0)%nat in
            r_body_offset r = Z.of_nat k /\ r_body r = skipn k lines /\ (k <= length lines)%nat.
Proof.
  rewrite parse_directive_text_src_eq, split_lines_src_eq. intros H Hl Hm. inversion Hl; subst.
  exact (offset_is_index tokenize yaml_load sg fl content line v add r H Hm).
Qed.

Theorem arguments_src sg t :
  let n := length (split_ws t) in
  let total := (required_arguments sg + optional_arguments sg)%nat in
  (parse_directive_arguments_src sg t = Raise MarkupError <->
     (n < required_arguments sg)%nat \/ ((total < n)%nat /\ final_argument_whitespace sg = false)) /\
  (forall e, parse_directive_arguments_src sg t = Raise e -> e = MarkupError) /\
  ((required_arguments sg <= n <= total)%nat -> parse_directive_arguments_src sg t = Ok (split_ws t)) /\
  ((0 < total < n)%nat -> final_argument_whitespace sg = true ->
     exists last, parse_directive_arguments_src sg t = Ok (firstn (total - 1) (split_ws t) ++ [last]) /\
                  is_suffix last t /\ lstrip last = last /\ split_ws last = skipn (total - 1) (split_ws t)).
Proof.
  cbn zeta. rewrite parse_directive_arguments_src_eq.
  exact (conj (arguments_error_iff sg t) (conj (arguments_only_markup_error sg t)
        (conj (arguments_in_range sg t) (arguments_absorb sg t)))).
Qed.

(* the options of the result are the kept ones of (block over additional_options) *)
Theorem block_priority_src tokenize yaml_load sg fl content line add r items hc :
  has_option_spec sg = true -> is_test sg = false ->
  block_items tokenize content line items hc ->
  parse_directive_text_src tokenize yaml_load sg fl content line true add = Ok r ->
  r_options r = kept_of sg (merged_options items add) /\
  forall k, dict_get (merged_options items add) k =
            match dict_get (dict_of items) k with
            | Some v => Some v
            | None => match add with Some a => dict_get (dict_of a) k | None => None end
            end.
Proof.
  rewrite parse_directive_text_src_eq. intros Hh Ht Hb H.
  destruct (option_validation tokenize yaml_load sg fl content line add r items hc Hh Ht Hb H) as [A _].
  split; [exact A | intro k; apply block_priority].
Qed.
