(* Proofs about the line arithmetic model (Lines.v): every construct gets its true line, at any depth. *)
From Coq Require Import List NArith ZArith Bool Lia.
From MV Require Import Base.PyStr.
From MV Require Import Base.Res.
From MV Require Import Dir.PyLines.
From MV Require Import Dir.PyLinesProofs.
From MV Require Import Dir.DirModel.
From MV Require Import Dir.DirProofs.
From MV Require Import Gen.LinesSrc.
From MV Require Import Dir.Lines.
Import ListNotations.
Open Scope N_scope.

(* ---------- the regenerated arithmetic (Gen/LinesSrc.v) in normal form ----------
   These are the obligations an edit of the source expressions breaks; they are proved by unfolding + lia, so an
   equivalent rewrite of an expression (1 + x, reordered sums) still passes. *)

Lemma node_line_eq base idx : node_line base idx = (Z.of_nat idx + base + 1)%Z.
Proof. unfold node_line, token_line_src, render_tokens_map0_src, nested_map0_src. lia. Qed.

Lemma content_offset_eq b p : content_offset_src b p = (b - p)%Z.
Proof. unfold content_offset_src. lia. Qed.

Lemma nested_parse_lineno_eq l o : nested_parse_lineno_src l o = (l + o)%Z.
Proof. unfold nested_parse_lineno_src. lia. Qed.

Lemma hack_prepended_eq : Z.to_nat hack_prepended_src = 1%nat.
Proof. unfold hack_prepended_src. lia. Qed.

Lemma include_lineno_eq s : include_lineno_src s = (s + 1)%Z.
Proof. unfold include_lineno_src. lia. Qed.

Lemma warning_line_src_eq l p : warning_line_src l p = match l with Some x => x | None => p end.
Proof. unfold warning_line_src. destruct l; reflexivity. Qed.

Lemma include_startline0_eq s : include_startline0_src s = match s with Some x => x | None => 0%Z end.
Proof. unfold include_startline0_src. destruct s as [x|]; [|reflexivity]. destruct (Z.eqb_spec x 0); lia. Qed.

(* the other mock methods: block_quote hands its offset on unchanged, the attribution (body index i, i.e. source line
   position + 1 + offset + i) gets that line for its node and for the warnings of its text; get_source_and_line;
   parse_directive_block *)
Lemma mock_methods_src :
  (forall position off, block_quote_lineno position off = (position + off)%Z) /\
  (forall position off i, (0 <= i)%Z -> attribution_node_line position off i = (position + 1 + off + i)%Z) /\
  (forall position off i, (0 <= i)%Z -> attribution_text_line position off i = (position + 1 + off + i)%Z) /\
  (forall lineno position, (0 < lineno)%Z -> source_line (Some lineno) position = lineno) /\
  (forall position, source_line None position = position) /\
  (forall lo bo, directive_block_offset lo bo = (lo + bo)%Z).
Proof.
  unfold block_quote_lineno, attribution_node_line, attribution_text_line, inline_text_line, source_line,
    directive_block_offset, nested_parse_lineno_src, block_quote_offset_src, attribution_line_src, attribution_lineno_src,
    inliner_lineno_src, token_line_src, render_tokens_map0_src, nested_map0_src, source_and_line_src,
    directive_block_offset_src.
  repeat split; intros; try lia.
  - destruct (Z.eqb_spec i 0); lia.
  - destruct (Z.eqb_spec i 0); lia.
  - destruct (Z.eqb_spec lineno 0); lia.
Qed.

(* open finding line:directive-title:+1, characterised: the inline text of a title written on the directive's own line
   [position] is reported at exactly position + 1 *)
Lemma title_text_line_eq position : title_text_line position = (position + 1)%Z.
Proof.
  unfold title_text_line, inline_text_line, inliner_lineno_src, token_line_src, render_tokens_map0_src, nested_map0_src. lia.
Qed.

Lemma include_advance_eq s t i n :
  include_advance_src s t i n = (s + Z.of_nat (count_nl (firstn (Z.to_nat (i + Z.of_nat (length n))) t)))%Z.
Proof. unfold include_advance_src, count_nl_upto. lia. Qed.

Lemma include_cut_eq i n : include_cut_src i n = (i + Z.of_nat (length n))%Z.
Proof. unfold include_cut_src. lia. Qed.

(* ---------- induction over nested blocks ---------- *)

Section BlkInd.
Variable P : blk -> Prop.
Variable Q : list blk -> Prop.
Hypothesis HLeaf : forall k m n ins, P (Leaf k m n ins).
Hypothesis HQuote : forall m bs, Q bs -> P (Quote m bs).
Hypothesis HItem : forall m bs, Q bs -> P (ListItem m bs).
Hypothesis HDiv : forall m bb ba bs, Q bs -> P (Div m bb ba bs).
Hypothesis HDir : forall m fk os n bb ba bs, Q bs -> P (Dir m fk os n bb ba bs).
Hypothesis HNil : Q [].
Hypothesis HCons : forall b bs, P b -> Q bs -> Q (b :: bs).

Fixpoint blk_ind2 (b : blk) : P b :=
  let fix go (bs : list blk) : Q bs :=
    match bs with [] => HNil | x :: r => HCons x r (blk_ind2 x) (go r) end in
  match b with
  | Leaf k m n ins => HLeaf k m n ins
  | Quote m bs => HQuote m bs (go bs)
  | ListItem m bs => HItem m bs (go bs)
  | Div m bb ba bs => HDiv m bb ba bs (go bs)
  | Dir m fk os n bb ba bs => HDir m fk os n bb ba bs (go bs)
  end.

Lemma blks_ind2 (bs : list blk) : Q bs.
Proof. induction bs as [|x r IH]; [exact HNil | exact (HCons x r (blk_ind2 x) IH)]. Qed.
End BlkInd.

(* ---------- the local fixpoints are the global sequence functions ---------- *)

Lemma print_Quote m bs : print (Quote m bs) = prefix_all [c_gt; c_sp] (print_seq bs).
Proof. reflexivity. Qed.

Lemma print_Item m bs : print (ListItem m bs) = prefix_item (print_seq bs).
Proof. reflexivity. Qed.

Lemma print_Div m bb ba bs :
  print (Div m bb ba bs) =
  (repeat c_colon (2 + colon_height (Div m bb ba bs)) ++ div_name)
    :: blank_lines bb ++ print_seq bs ++ blank_lines ba ++ [repeat c_colon (2 + colon_height (Div m bb ba bs))].
Proof. reflexivity. Qed.

Definition fence_of (b : blk) : str :=
  match b with
  | Dir _ Backtick _ _ _ _ _ => repeat c_bt (2 + bt_height b)
  | _ => repeat c_colon (2 + colon_height b)
  end.

Lemma print_Dir m fk os n bb ba bs :
  print (Dir m fk os n bb ba bs) =
  (fence_of (Dir m fk os n bb ba bs) ++ dir_name)
    :: opt_lines os n ++ blank_lines bb ++ print_seq bs ++ blank_lines ba ++ [fence_of (Dir m fk os n bb ba bs)].
Proof. destruct fk; reflexivity. Qed.

Fixpoint height_seq (bs : list blk) : nat :=
  match bs with [] => O | [x] => height x | x :: r => (height x + 1 + height_seq r)%nat end.

Lemma height_Quote m bs : height (Quote m bs) = height_seq bs.
Proof. reflexivity. Qed.
Lemma height_Item m bs : height (ListItem m bs) = height_seq bs.
Proof. reflexivity. Qed.
Lemma height_Div m bb ba bs :
  height (Div m bb ba bs) = (1 + bb + height_seq bs + ba + 1)%nat.
Proof. reflexivity. Qed.
Lemma height_Dir m fk os n bb ba bs :
  height (Dir m fk os n bb ba bs) =
  (1 + length (opt_lines os n) + bb + height_seq bs + ba + 1)%nat.
Proof. reflexivity. Qed.

Lemma locate_Quote g start m bs :
  locate_gen g start (Quote m bs) = (m, start) :: locate_seq_gen g start bs.
Proof. reflexivity. Qed.
Lemma locate_Item g start m bs :
  locate_gen g start (ListItem m bs) = (m, start) :: locate_seq_gen g start bs.
Proof. reflexivity. Qed.
Lemma locate_Div g start m bb ba bs :
  locate_gen g start (Div m bb ba bs) = (m, start) :: locate_seq_gen g (start + 1 + bb)%nat bs.
Proof. reflexivity. Qed.
Lemma locate_Dir g start m fk os n bb ba bs :
  locate_gen g start (Dir m fk os n bb ba bs) =
  (m, start) :: locate_seq_gen g (if g then start + 2 + bb else start + 1 + length (opt_lines os n) + bb)%nat bs.
Proof. reflexivity. Qed.

(* ---------- sizes ---------- *)

Lemma prefix_item_length ls : length (prefix_item ls) = length ls.
Proof. destruct ls; [reflexivity|]. cbn [prefix_item length]. unfold prefix_all. rewrite map_length. reflexivity. Qed.

Lemma height_is_length b : height b = length (print b).
Proof.
  induction b using blk_ind2 with (Q := fun bs => height_seq bs = length (print_seq bs)).
  - reflexivity.
  - rewrite height_Quote, print_Quote. unfold prefix_all. rewrite map_length. assumption.
  - rewrite height_Item, print_Item, prefix_item_length. assumption.
  - rewrite height_Div, print_Div. cbn [length]. rewrite !app_length. cbn [length].
    unfold blank_lines. rewrite !repeat_length. lia.
  - rewrite height_Dir, print_Dir. cbn [length]. rewrite !app_length. cbn [length].
    unfold blank_lines. rewrite !repeat_length. lia.
  - reflexivity.
  - destruct bs as [|y r]; [cbn; rewrite IHb; reflexivity|].
    cbn [height_seq print_seq] in *. rewrite app_length. cbn [length]. lia.
Qed.

Lemma height_seq_is_length bs : height_seq bs = length (print_seq bs).
Proof.
  induction bs as [|x r IH]; [reflexivity|]. destruct r as [|y r].
  - cbn. apply height_is_length.
  - cbn [height_seq print_seq] in *. rewrite app_length. cbn [length]. rewrite height_is_length. lia.
Qed.

(* ---------- well-formed documents ---------- *)

(* does the block's first line start with something other than ':' ? *)
Definition plain_start (b : blk) : bool :=
  match b with Div _ _ _ _ | Dir _ ColonFence _ _ _ _ _ => false | _ => true end.

(* A ':::' fence directly after the opening line of a backtick directive, or directly after ':key:' option lines,
   would be read as an option line by parse_directive_text (MyST cannot express that layout); directly after the
   opening line of a colon directive it is handled by the renderer's prepended-line trick. *)
Definition first_ok (fk : fencekind) (os : optstyle) (bb : nat) (bs : list blk) : bool :=
  match bs with
  | [] => true
  | b :: _ =>
      Nat.ltb 0 bb || match os with
            | DashOpts => true
            | ColonOpts => plain_start b
            | NoOpts => match fk with ColonFence => true | Backtick => plain_start b end
            end
  end.

Fixpoint wf (b : blk) : bool :=
  let fix all (bs : list blk) : bool := match bs with [] => true | x :: r => wf x && all r end in
  match b with
  | Leaf k _ more ins =>
      (* inline constructs only in paragraphs, each on one of the paragraph's lines *)
      match k with
      | LPara => forallb (fun p => Nat.leb (snd p) more) ins
      | _ => match ins with [] => true | _ => false end
      end
  | Quote _ bs | ListItem _ bs => nonempty bs && all bs
  | Div _ _ _ bs => all bs
  | Dir _ fk os _ bb _ bs => first_ok fk os bb bs && all bs
  end.

Fixpoint wf_seq (bs : list blk) : bool :=
  match bs with [] => true | x :: r => wf x && wf_seq r end.

Lemma wf_Quote m bs : wf (Quote m bs) = nonempty bs && wf_seq bs. Proof. reflexivity. Qed.
Lemma wf_Item m bs : wf (ListItem m bs) = nonempty bs && wf_seq bs. Proof. reflexivity. Qed.
Lemma wf_Div m bb ba bs : wf (Div m bb ba bs) = wf_seq bs. Proof. reflexivity. Qed.
Lemma wf_Dir m fk os n bb ba bs : wf (Dir m fk os n bb ba bs) = first_ok fk os bb bs && wf_seq bs.
Proof. reflexivity. Qed.

(* ---------- the printed lines hold no separator ---------- *)

Lemma nosep_repeat c n : is_sep c = false -> nosep (repeat c n).
Proof. intro H. induction n; [reflexivity|]. cbn [repeat]. apply nosep_cons. auto. Qed.

Lemma Forall_repeat {A} (P : A -> Prop) x n : P x -> Forall P (repeat x n).
Proof. intro H. induction n; constructor; auto. Qed.

Lemma prefix_all_nosep p ls : nosep p -> Forall nosep ls -> Forall nosep (prefix_all p ls).
Proof.
  intros Hp H. unfold prefix_all. induction H; constructor; auto. apply nosep_app. auto.
Qed.

Lemma opt_lines_nosep os n : Forall nosep (opt_lines os n).
Proof.
  destruct os; cbn [opt_lines].
  - constructor.
  - apply Forall_repeat. reflexivity.
  - constructor; [reflexivity|]. apply Forall_app. split; [apply Forall_repeat; reflexivity|].
    constructor; [reflexivity | constructor].
Qed.

Lemma nosep_concat ls : Forall nosep ls -> nosep (concat ls).
Proof. induction 1; [reflexivity|]. cbn [concat]. apply nosep_app. auto. Qed.

Lemma role_text_nosep m : nosep (role_text m).
Proof.
  unfold role_text. apply nosep_app. split; [reflexivity|]. apply nosep_app. split; [apply nosep_repeat|]; reflexivity.
Qed.

Lemma ins_on_nosep j ins : nosep (ins_on j ins).
Proof.
  unfold ins_on. apply nosep_concat. induction ins as [|p ins IH]; [constructor|]. cbn [map].
  constructor; [|exact IH]. destruct (Nat.eqb (snd p) j); [apply role_text_nosep | reflexivity].
Qed.

Lemma leaf_text_nosep m : nosep (leaf_text m).
Proof. unfold leaf_text. apply nosep_cons. split; [reflexivity | apply nosep_repeat; reflexivity]. Qed.

Lemma para_cont_nosep n : forall j ins, Forall nosep (para_cont j n ins).
Proof.
  induction n as [|n IH]; intros j ins; [constructor|]. cbn [para_cont]. constructor; [|apply IH].
  apply nosep_app. split; [reflexivity | apply ins_on_nosep].
Qed.

Lemma leaf_lines_nosep k m more ins : Forall nosep (leaf_lines k m more ins).
Proof.
  pose proof (leaf_text_nosep m) as Ht.
  assert (Hc : Forall nosep (repeat cont_text more)) by (apply Forall_repeat; reflexivity).
  destruct k; cbn [leaf_lines].
  - constructor; [apply nosep_app; split; [exact Ht | apply ins_on_nosep] | apply para_cont_nosep].
  - constructor; [apply nosep_app; split; [reflexivity | exact Ht] | exact Hc].
  - constructor; [reflexivity|]. constructor; [exact Ht|]. apply Forall_app. split; [exact Hc | repeat constructor].
  - constructor; [|exact Hc]. apply nosep_app. split; [reflexivity|]. apply nosep_app. split; [exact Ht | reflexivity].
  - constructor; [apply nosep_app; split; [reflexivity | exact Ht] | exact Hc].
  - constructor; [apply nosep_app; split; [reflexivity | exact Ht] | exact Hc].
  - constructor; [reflexivity|]. constructor; [exact Ht|]. apply Forall_app. split; [exact Hc | repeat constructor].
  - constructor; [reflexivity|]. constructor; [exact Ht|]. apply Forall_app. split; [exact Hc | repeat constructor].
  - constructor; [|constructor; [reflexivity | apply Forall_repeat; reflexivity]].
    apply nosep_app. split; [reflexivity|]. apply nosep_app. split; [exact Ht | reflexivity].
Qed.

(* every leaf kind starts with a character that is neither white space nor ':' and not with "---" *)
Lemma leaf_lines_first k m more ins :
  exists c t rest, leaf_lines k m more ins = (c :: t) :: rest /\
                   is_space c = false /\ (c =? c_colon) = false /\ is_dash_line (c :: t) = false.
Proof.
  destruct k; cbn [leaf_lines leaf_text app]; eexists; eexists; eexists; (split; [reflexivity|]); repeat split; reflexivity.
Qed.

Lemma print_nosep b : Forall nosep (print b).
Proof.
  induction b using blk_ind2 with (Q := fun bs => Forall nosep (print_seq bs)).
  - apply leaf_lines_nosep.
  - rewrite print_Quote. apply prefix_all_nosep; [reflexivity | assumption].
  - rewrite print_Item. destruct (print_seq bs) as [|l rest]; [constructor|].
    cbn [prefix_item]. inversion IHb; subst. constructor.
    + apply nosep_app. split; [reflexivity | assumption].
    + apply prefix_all_nosep; [reflexivity | assumption].
  - rewrite print_Div. constructor.
    + apply nosep_app. split; [apply nosep_repeat; reflexivity | reflexivity].
    + apply Forall_app. split; [apply Forall_repeat; reflexivity|].
      apply Forall_app. split; [assumption|].
      apply Forall_app. split; [apply Forall_repeat; reflexivity|].
      constructor; [apply nosep_repeat; reflexivity | constructor].
  - rewrite print_Dir.
    assert (Hf : nosep (fence_of (Dir m fk os n bb ba bs))).
    { destruct fk; cbn [fence_of]; apply nosep_repeat; reflexivity. }
    constructor.
    + apply nosep_app. split; [exact Hf | reflexivity].
    + apply Forall_app. split; [apply opt_lines_nosep|].
      apply Forall_app. split; [apply Forall_repeat; reflexivity|].
      apply Forall_app. split; [assumption|].
      apply Forall_app. split; [apply Forall_repeat; reflexivity|].
      constructor; [exact Hf | constructor].
  - constructor.
  - destruct bs as [|y r]; [exact IHb|]. cbn [print_seq] in *.
    apply Forall_app. split; [exact IHb|]. constructor; [reflexivity | exact IHb0].
Qed.

Lemma print_seq_nosep bs : Forall nosep (print_seq bs).
Proof.
  induction bs as [|x r IH]; [constructor|]. destruct r as [|y r]; [apply print_nosep|].
  cbn [print_seq] in *. apply Forall_app. split; [apply print_nosep|]. constructor; [reflexivity | exact IH].
Qed.

(* splitlines inverts "every line followed by \n" *)
Lemma splitlines_from_line l rest :
  nosep l -> splitlines_from false (l ++ c_nl :: rest) = l :: splitlines_from false rest.
Proof.
  induction l as [|c l IH]; intro H.
  - cbn [app splitlines_from andb]. rewrite nl_is_sep. reflexivity.
  - apply nosep_cons in H as [Hc Hl]. cbn [app splitlines_from andb]. rewrite Hc, (IH Hl). reflexivity.
Qed.

Lemma splitlines_text_before ls : Forall nosep ls -> splitlines (text_before ls) = ls.
Proof.
  unfold splitlines, text_before. induction 1 as [|l ls Hl _ IH]; [reflexivity|].
  cbn [map concat]. rewrite <- app_assoc. cbn [nl app]. rewrite (splitlines_from_line l _ Hl), IH. reflexivity.
Qed.

(* ---------- first lines ---------- *)

Definition first_line_prop (b : blk) (l : str) : Prop :=
  if plain_start b
  then exists c t, l = c :: t /\ is_space c = false /\ (c =? c_colon) = false /\ is_dash_line l = false
  else startswith l colons3 = true.

Lemma startswith_colons h s : startswith (repeat c_colon (2 + S h) ++ s) colons3 = true.
Proof. cbn. apply startswith_nil_r. Qed.

Lemma backtick_first h s :
  exists c t, repeat c_bt (2 + S h) ++ s = c :: t /\ is_space c = false /\ (c =? c_colon) = false /\
              is_dash_line (repeat c_bt (2 + S h) ++ s) = false.
Proof. exists c_bt. eexists. repeat split; reflexivity. Qed.

Lemma print_first b : wf b = true -> exists l rest, print b = l :: rest /\ first_line_prop b l.
Proof.
  induction b using blk_ind2 with
    (Q := fun bs => wf_seq bs = true -> forall b r, bs = b :: r ->
                    exists l rest, print_seq bs = l :: rest /\ first_line_prop b l); intro Hw.
  - destruct (leaf_lines_first k m n ins) as [c [t [rest [E [H1 [H2 H3]]]]]].
    exists (c :: t), rest. split; [exact E|].
    unfold first_line_prop. cbn [plain_start]. exists c, t. auto.
  - rewrite wf_Quote in Hw. apply andb_true_iff in Hw as [Hne Hw].
    destruct bs as [|b0 r]; [discriminate|].
    destruct (IHb Hw b0 r eq_refl) as [l [rest [E _]]].
    rewrite print_Quote, E. cbn [prefix_all map]. eexists. eexists. split; [reflexivity|].
    unfold first_line_prop. cbn [plain_start]. exists c_gt, (c_sp :: l). repeat split; reflexivity.
  - rewrite wf_Item in Hw. apply andb_true_iff in Hw as [Hne Hw].
    destruct bs as [|b0 r]; [discriminate|].
    destruct (IHb Hw b0 r eq_refl) as [l [rest [E _]]].
    rewrite print_Item, E. cbn [prefix_item]. eexists. eexists. split; [reflexivity|].
    unfold first_line_prop. cbn [plain_start]. exists c_dash, (c_sp :: l). repeat split; reflexivity.
  - rewrite print_Div. eexists. eexists. split; [reflexivity|].
    unfold first_line_prop. cbn [plain_start]. simpl colon_height. apply startswith_colons.
  - rewrite print_Dir. eexists. eexists. split; [reflexivity|].
    unfold first_line_prop. destruct fk; cbn [plain_start fence_of].
    + simpl bt_height. apply backtick_first.
    + simpl colon_height. apply startswith_colons.
  - intros b r E. discriminate.
  - intros b0 r E. inversion E; subst b0 r. clear E.
    cbn [wf_seq] in Hw. apply andb_true_iff in Hw as [Hb Hr].
    destruct (IHb Hb) as [l [rest [E P]]].
    destruct bs as [|y r].
    + cbn [print_seq]. eauto.
    + cbn [print_seq]. rewrite E. cbn [app]. eauto.
Qed.

Lemma print_seq_first b r : wf_seq (b :: r) = true ->
  exists l rest, print_seq (b :: r) = l :: rest /\ first_line_prop b l.
Proof.
  intro Hw. cbn [wf_seq] in Hw. apply andb_true_iff in Hw as [Hb Hr].
  destruct (print_first b Hb) as [l [rest [E P]]].
  destruct r as [|y r]; cbn [print_seq]; rewrite E; cbn [app]; eauto.
Qed.

Lemma lstrip_length s : (length (lstrip s) <= length s)%nat.
Proof. induction s as [|c s IH]; cbn [lstrip]; [lia|]. destruct (is_space c); cbn [length] in *; lia. Qed.

Lemma lstrip_snoc_nonspace s c : is_space c = false -> lstrip (s ++ [c]) <> [].
Proof.
  intro H. induction s as [|x s IH]; cbn [app lstrip].
  - rewrite H. discriminate.
  - destruct (is_space x); [exact IH | discriminate].
Qed.

Lemma is_blank_nonspace c t : is_space c = false -> is_blank (c :: t) = false.
Proof.
  intro H. unfold is_blank, strip, rstrip. rewrite (lstrip_nonspace c t H).
  cbn [rev]. destruct (lstrip (rev t ++ [c])) as [|x xs] eqn:E.
  - exfalso. eapply lstrip_snoc_nonspace; eauto.
  - destruct (rev (x :: xs)) eqn:E2; [|reflexivity].
    apply (f_equal (@length N)) in E2. rewrite rev_length in E2. discriminate.
Qed.

Lemma first_line_not_blank b l : first_line_prop b l -> is_blank l = false.
Proof.
  unfold first_line_prop. destruct (plain_start b).
  - intros [c [t [-> [H _]]]]. apply is_blank_nonspace. exact H.
  - intro H. destruct l as [|c t]; [discriminate|]. cbn [startswith colons3] in H.
    apply andb_true_iff in H as [H _]. apply N.eqb_eq in H. subst c.
    apply is_blank_nonspace. apply colon_not_space.
Qed.

Lemma first_line_plain b l : plain_start b = true -> first_line_prop b l ->
  is_dash_line l = false /\ is_colon_line l = false /\ startswith l colons3 = false.
Proof.
  unfold first_line_prop. intros -> [c [t [-> [Hs [Hc Hd]]]]]. split; [exact Hd|].
  unfold is_colon_line. rewrite (lstrip_nonspace c t Hs). cbn [startswith colon colons3].
  rewrite N.eqb_sym in Hc. rewrite Hc. auto.
Qed.

Lemma first_line_colon b l : plain_start b = false -> first_line_prop b l -> startswith l colons3 = true.
Proof. unfold first_line_prop. intros ->. auto. Qed.

Lemma colons3_not_dash l : startswith l colons3 = true -> is_dash_line l = false.
Proof.
  destruct l as [|c t]; [discriminate|]. cbn [startswith colons3]. intro H.
  apply andb_true_iff in H as [H _]. apply N.eqb_eq in H. subst c. reflexivity.
Qed.

Lemma lines_eqb_refl ls : lines_eqb ls ls = true.
Proof. induction ls as [|l ls IH]; [reflexivity|]. cbn [lines_eqb]. rewrite str_eqb_refl. exact IH. Qed.

(* ---------- what parse_directive_text returns, from the option-block extraction ---------- *)

Lemma pdt_from_split tokenize yaml_load sg fl content line v add r b cl l' :
  parse_directive_text tokenize yaml_load sg fl content line v add = Ok r ->
  first_line_is_body sg fl = false -> has_option_spec sg = true ->
  split_options content line = (b, cl, l') ->
  (r_body r, r_body_offset r) =
  strip_blank_line cl (Z.of_nat (length (splitlines content)) - Z.of_nat (length cl))%Z.
Proof.
  unfold parse_directive_text, options_phase. intros H Hm Hh Hs. rewrite Hh in H.
  apply bind_ok in H as [[[[[w hob] opts] cl0] off] [H1 H]].
  apply bind_ok in H1 as [o [Ho H1]]. inv H1.
  apply bind_ok in H as [[[[w' body] off'] args] [H2 H]].
  pose proof (pdo_content _ _ _ _ _ _ _ _ Ho) as Hc. rewrite Hs in Hc. cbn [fst snd] in Hc.
  destruct (first_line_phase_not_body _ _ _ _ _ _ _ _ _ _ Hm H2) as [-> ->].
  rewrite Hc in *. destruct (strip_blank_line cl _) as [bd of]. inv H. reflexivity.
Qed.

Lemma split_options_none content line :
  is_dash_line (hd_line (splitlines content)) = false ->
  is_colon_line (hd_line (splitlines content)) = false ->
  snd (fst (split_options content line)) = splitlines content.
Proof.
  intros Hd Hc. destruct (split_options content line) as [[b cl] l'] eqn:Es. cbn [fst snd].
  destruct (split_options_spec _ _ _ _ _ Es) as [n [_ [-> Hext]]].
  inversion Hext as [d0 pre d1 after E H0 | d0 pre E H0 | pre rest E H0 Hpre Hrest]; subst.
  - rewrite E in Hd. cbn [hd_line] in Hd. congruence.
  - rewrite E in Hd. cbn [hd_line] in Hd. congruence.
  - destruct pre as [|p pre]; [reflexivity|].
    rewrite E in Hc. cbn [app hd_line] in Hc. inversion Hpre; subst. congruence.
Qed.

Lemma map_repeat {A B} (f : A -> B) x n : map f (repeat x n) = repeat (f x) n.
Proof. induction n; cbn; congruence. Qed.

Lemma opt_text_kv : kv_line opt_text.
Proof. split; [reflexivity|]. split; [reflexivity|]. exists 107, [58; 32; 118]. split; reflexivity. Qed.

Lemma is_blank_nil : is_blank [] = true. Proof. reflexivity. Qed.

(* parse_directive_text strips at most ONE leading blank line and adds exactly 1 to the offset *)
Definition min1 (n : nat) : nat := match n with O => O | S _ => 1%nat end.

(* the body lines after the option block: [bb] blank lines, the children, trailing blanks *)
Lemma strip_blank_B bb ba (b1 : blk) (bs' : list blk) off :
  wf_seq (b1 :: bs') = true ->
  strip_blank_line (blank_lines bb ++ print_seq (b1 :: bs') ++ blank_lines ba) off =
  (blank_lines (Nat.pred bb) ++ print_seq (b1 :: bs') ++ blank_lines ba, (off + Z.of_nat (min1 bb))%Z).
Proof.
  intro Hw. destruct bb as [|k]; cbn [blank_lines repeat app Nat.pred min1].
  - destruct (print_seq_first b1 bs' Hw) as [l [rest [E P]]]. rewrite E. cbn [app].
    unfold strip_blank_line. rewrite (first_line_not_blank b1 l P). rewrite Z.add_0_r. reflexivity.
  - unfold strip_blank_line. rewrite is_blank_nil. reflexivity.
Qed.

(* the option-block extraction on the printed content of a directive leaves exactly the lines after the block *)
Lemma split_dir_content os n bb ba b1 bs' line blk cl l' :
  wf_seq (b1 :: bs') = true ->
  (bb = O -> os <> DashOpts -> plain_start b1 = true) ->
  split_options (text_before (dir_content os n bb ba (b1 :: bs'))) line = (blk, cl, l') ->
  cl = blank_lines bb ++ print_seq (b1 :: bs') ++ blank_lines ba.
Proof.
  intros Hw Hfirst Es.
  set (B := blank_lines bb ++ print_seq (b1 :: bs') ++ blank_lines ba).
  assert (HBns : Forall nosep B).
  { unfold B. apply Forall_app. split; [apply Forall_repeat; reflexivity|].
    apply Forall_app. split; [apply print_seq_nosep | apply Forall_repeat; reflexivity]. }
  assert (Hns : Forall nosep (dir_content os n bb ba (b1 :: bs'))).
  { unfold dir_content. apply Forall_app. split; [apply opt_lines_nosep | exact HBns]. }
  pose proof (splitlines_text_before _ Hns) as Hsl.
  assert (HhdB : bb = O -> exists l rest, B = l :: rest /\ first_line_prop b1 l).
  { intros ->. unfold B. cbn [blank_lines repeat app].
    destruct (print_seq_first b1 bs' Hw) as [l [rest [E P]]]. rewrite E. cbn [app]. eauto. }
  assert (HhdS : forall k, bb = S k -> hd_line B = []).
  { intros k ->. reflexivity. }
  destruct os; unfold dir_content in *; cbn [opt_lines app] in *; fold B in Es, Hsl |- *.
  - pose proof (split_options_none (text_before B) line) as Hn. rewrite Hsl, Es in Hn. cbn [fst snd] in Hn.
    apply Hn.
    + destruct bb as [|k]; [|rewrite (HhdS k eq_refl); reflexivity].
      destruct (HhdB eq_refl) as [l [rest [E P]]]. rewrite E. cbn [hd_line].
      apply (first_line_plain b1 l (Hfirst eq_refl ltac:(discriminate)) P).
    + destruct bb as [|k]; [|rewrite (HhdS k eq_refl); reflexivity].
      destruct (HhdB eq_refl) as [l [rest [E P]]]. rewrite E. cbn [hd_line].
      apply (first_line_plain b1 l (Hfirst eq_refl ltac:(discriminate)) P).
  - assert (HB : is_colon_line (hd_line B) = false).
    { destruct bb as [|k]; [|rewrite (HhdS k eq_refl); reflexivity].
      destruct (HhdB eq_refl) as [l [rest [E P]]]. rewrite E. cbn [hd_line].
      apply (first_line_plain b1 l (Hfirst eq_refl ltac:(discriminate)) P). }
    rewrite <- (map_repeat (fun l => c_colon :: l) opt_text (S n)) in Hsl, Es.
    rewrite (split_options_colon _ (repeat opt_text (S n)) B line) in Es; [inv Es; reflexivity | discriminate | exact Hsl | exact HB].
  - rewrite <- app_assoc in Hsl, Es. cbn [app] in Hsl, Es.
    rewrite (split_options_dash _ dashes dashes (repeat opt_text (S n)) B line) in Es;
      [inv Es; reflexivity | discriminate | apply Forall_repeat; apply opt_text_kv | exact Hsl | reflexivity | reflexivity].
Qed.

(* text on the first line of a no-argument directive: it becomes the first body line, nothing is stripped, offset 0 *)
Lemma pdt_merged_from_split tokenize yaml_load sg fl content line v add r b cl l' :
  parse_directive_text tokenize yaml_load sg fl content line v add = Ok r ->
  first_line_is_body sg fl = true -> has_option_spec sg = true ->
  split_options content line = (b, cl, l') ->
  r_body r = fl :: cl /\ r_body_offset r = 0%Z.
Proof.
  unfold parse_directive_text, options_phase, first_line_is_body. intros H Hm Hh Hs. rewrite Hh in H.
  apply andb_true_iff in Hm as [Hna Hne].
  apply bind_ok in H as [[[[[w hob] opts] cl0] off] [H1 H]].
  apply bind_ok in H1 as [o [Ho H1]]. inv H1.
  apply bind_ok in H as [[[[w' body] off'] args] [H2 H]].
  pose proof (pdo_content _ _ _ _ _ _ _ _ Ho) as Hc. rewrite Hs in Hc. cbn [fst snd] in Hc.
  unfold first_line_phase in H2. rewrite Hna, Hne in H2. inv H2.
  unfold strip_blank_line, is_blank in H. rewrite Hne in H. cbn [negb] in H. inv H.
  cbn [r_body r_body_offset]. auto.
Qed.

Lemma bool_cases (b : bool) : b = true \/ b = false.
Proof. destruct b; auto. Qed.

Section Nested.

Variable tokenize : str -> res (list (str * str) * bool).
Variable yaml_load : str -> yres.
Variable sg : dsig.
Variable first_line : str.

(* [merged]: is the text after the directive name body text? (false for the property theorem; true characterises
   the open finding line:dir-firstline-body) *)
Variable merged : bool.

Hypothesis H_spec : has_option_spec sg = true.
Hypothesis H_fl : first_line_is_body sg first_line = merged.
(* the directive class accepts the text: no MarkupError, nothing escapes from the tokenizer *)
Hypothesis O_parse_ok : forall content line,
  exists r, parse_directive_text tokenize yaml_load sg first_line content line true None = Ok r.

Notation pdt := (parse_directive_text tokenize yaml_load sg first_line).

(* without the prepended line *)
Lemma dir_body_plain os n bb ba b1 bs' line r :
  merged = false ->
  wf_seq (b1 :: bs') = true ->
  (bb = O -> os <> DashOpts -> plain_start b1 = true) ->
  pdt (text_before (dir_content os n bb ba (b1 :: bs'))) line true None = Ok r ->
  r_body r = blank_lines (Nat.pred bb) ++ print_seq (b1 :: bs') ++ blank_lines ba /\
  r_body_offset r = Z.of_nat (length (opt_lines os n) + min1 bb).
Proof.
  intros Hmg Hw Hfirst H. rewrite Hmg in H_fl.
  set (B := blank_lines bb ++ print_seq (b1 :: bs') ++ blank_lines ba).
  assert (HBns : Forall nosep B).
  { unfold B. apply Forall_app. split; [apply Forall_repeat; reflexivity|].
    apply Forall_app. split; [apply print_seq_nosep | apply Forall_repeat; reflexivity]. }
  assert (Hns : Forall nosep (dir_content os n bb ba (b1 :: bs'))).
  { unfold dir_content. apply Forall_app. split; [apply opt_lines_nosep | exact HBns]. }
  pose proof (splitlines_text_before _ Hns) as Hsl.
  assert (HhdB : bb = O -> exists l rest, B = l :: rest /\ first_line_prop b1 l).
  { intros ->. unfold B. cbn [blank_lines repeat app].
    destruct (print_seq_first b1 bs' Hw) as [l [rest [E P]]]. rewrite E. cbn [app]. eauto. }
  assert (HhdS : forall k, bb = S k -> hd_line B = []).
  { intros k ->. reflexivity. }
  destruct (split_options (text_before (dir_content os n bb ba (b1 :: bs'))) line) as [[blk cl] l'] eqn:Es.
  pose proof (pdt_from_split _ _ _ _ _ _ _ _ _ _ _ _ H H_fl H_spec Es) as Hr.
  rewrite Hsl in Hr.
  assert (Hcl : cl = B /\ length (dir_content os n bb ba (b1 :: bs')) = (length (opt_lines os n) + length B)%nat).
  { split; [|unfold dir_content, B; rewrite !app_length; lia].
    destruct os; unfold dir_content in *; cbn [opt_lines app] in *; fold B in Es, Hsl |- *.
    - (* no option block *)
      pose proof (split_options_none (text_before B) line) as Hn. rewrite Hsl, Es in Hn. cbn [fst snd] in Hn.
      apply Hn.
      + destruct bb as [|k]; [|rewrite (HhdS k eq_refl); reflexivity].
        destruct (HhdB eq_refl) as [l [rest [E P]]]. rewrite E. cbn [hd_line].
        apply (first_line_plain b1 l (Hfirst eq_refl ltac:(discriminate)) P).
      + destruct bb as [|k]; [|rewrite (HhdS k eq_refl); reflexivity].
        destruct (HhdB eq_refl) as [l [rest [E P]]]. rewrite E. cbn [hd_line].
        apply (first_line_plain b1 l (Hfirst eq_refl ltac:(discriminate)) P).
    - (* colon style *)
      assert (HB : is_colon_line (hd_line B) = false).
      { destruct bb as [|k]; [|rewrite (HhdS k eq_refl); reflexivity].
        destruct (HhdB eq_refl) as [l [rest [E P]]]. rewrite E. cbn [hd_line].
        apply (first_line_plain b1 l (Hfirst eq_refl ltac:(discriminate)) P). }
      rewrite <- (map_repeat (fun l => c_colon :: l) opt_text (S n)) in Hsl, Es.
      rewrite (split_options_colon _ (repeat opt_text (S n)) B line) in Es; [inv Es; reflexivity | discriminate | exact Hsl | exact HB].
    - (* dash style *)
      rewrite <- app_assoc in Hsl, Es. cbn [app] in Hsl, Es.
      rewrite (split_options_dash _ dashes dashes (repeat opt_text (S n)) B line) in Es;
        [inv Es; reflexivity | discriminate | apply Forall_repeat; apply opt_text_kv | exact Hsl | reflexivity | reflexivity]. }
  destruct Hcl as [-> Hlen]. rewrite Hlen in Hr.
  unfold B in Hr. rewrite (strip_blank_B bb ba b1 bs' _ Hw) in Hr. injection Hr as Hb Ho.
  split; [exact Hb|]. rewrite Ho.
  rewrite !Nat2Z.inj_add. lia.
Qed.

Lemma dir_body_merged os n bb ba b1 bs' line r :
  merged = true ->
  wf_seq (b1 :: bs') = true ->
  (bb = O -> os <> DashOpts -> plain_start b1 = true) ->
  pdt (text_before (dir_content os n bb ba (b1 :: bs'))) line true None = Ok r ->
  exists fl', r_body r = fl' :: (blank_lines bb ++ print_seq (b1 :: bs') ++ blank_lines ba) /\
              r_body_offset r = 0%Z.
Proof.
  intros Hmg Hw Hfirst H. rewrite Hmg in H_fl.
  destruct (split_options (text_before (dir_content os n bb ba (b1 :: bs'))) line) as [[blk cl] l'] eqn:Es.
  destruct (pdt_merged_from_split _ _ _ _ _ _ _ _ _ _ _ _ H H_fl H_spec Es) as [Hb Ho].
  rewrite (split_dir_content _ _ _ _ _ _ _ _ _ _ Hw Hfirst Es) in Hb. eauto.
Qed.

(*NESTED-END*)

Definition lift (l : list (nat * nat)) : list (nat * Z) := map (fun p => (fst p, Z.of_nat (snd p))) l.

Lemma lift_app a b : lift (a ++ b) = lift a ++ lift b.
Proof. apply map_app. Qed.

Notation lblk := (lines_blk tokenize yaml_load sg first_line).
Notation lseq := (lines_seq tokenize yaml_load sg first_line).

Lemma lblk_Quote base idx m bs :
  lblk base idx (Quote m bs) = (do r <- lseq base idx bs; Ok ((m, node_line base idx) :: r)).
Proof. reflexivity. Qed.
Lemma lblk_Item base idx m bs :
  lblk base idx (ListItem m bs) = (do r <- lseq base idx bs; Ok ((m, node_line base idx) :: r)).
Proof. reflexivity. Qed.
Lemma lblk_Div base idx m bb ba bs :
  lblk base idx (Div m bb ba bs) =
  (do r <- lseq (node_line base idx) bb bs; Ok ((m, node_line base idx) :: r)).
Proof. reflexivity. Qed.

Definition dir_hack (fk : fencekind) (content : str) : bool :=
  match fk with ColonFence => startswith content colons3 | Backtick => false end.

Lemma lblk_Dir base idx m fk os n bb ba bs :
  lblk base idx (Dir m fk os n bb ba bs) =
  let position := node_line base idx in
  let cl := dir_content os n bb ba bs in
  let content := text_before cl in
  let hack := dir_hack fk content in
  let cl' := if hack then [] :: cl else cl in
  let prepended := if hack then Z.to_nat hack_prepended_src else O in
  do parsed <- pdt (if hack then nl ++ content else content) (Some (Z.to_nat position)) true None;
  match bs with
  | [] => Ok [(m, position)]
  | _ =>
      let first_child := (length (opt_lines os n) + bb + prepended)%nat in
      if first_line_is_body sg first_line then
        match r_body parsed with
        | _ :: rest =>
            let d := (length cl' - length rest)%nat in
            if lines_eqb rest (skipn d cl') && Nat.leb d first_child then
              do r <- lseq (nested_parse_lineno_src position (content_offset_src (r_body_offset parsed) (Z.of_nat prepended))) (first_child - d + 1)%nat bs;
              Ok ((m, position) :: r)
            else Raise AssertionError
        | [] => Raise AssertionError
        end
      else
      let d := (length cl' - length (r_body parsed))%nat in
      if lines_eqb (r_body parsed) (skipn d cl') && Nat.leb d first_child then
        do r <- lseq (nested_parse_lineno_src position (content_offset_src (r_body_offset parsed) (Z.of_nat prepended))) (first_child - d)%nat bs;
        Ok ((m, position) :: r)
      else Raise AssertionError
  end.
Proof. reflexivity. Qed.

(* when does render_colon_fence prepend a line? *)
Lemma hack_iff os n bb ba b1 bs' :
  wf_seq (b1 :: bs') = true ->
  startswith (text_before (dir_content os n bb ba (b1 :: bs'))) colons3 =
  match os, bb with NoOpts, O => negb (plain_start b1) | _, _ => false end.
Proof.
  intro Hw.
  assert (Hns : Forall nosep (dir_content os n bb ba (b1 :: bs'))).
  { unfold dir_content. apply Forall_app. split; [apply opt_lines_nosep|].
    apply Forall_app. split; [apply Forall_repeat; reflexivity|].
    apply Forall_app. split; [apply print_seq_nosep | apply Forall_repeat; reflexivity]. }
  rewrite (startswith_hd_line colons3 _ ltac:(reflexivity)), (splitlines_text_before _ Hns).
  unfold dir_content. destruct os; cbn [opt_lines app repeat hd_line]; try reflexivity.
  destruct bb as [|k]; cbn [blank_lines repeat app hd_line]; [|reflexivity].
  destruct (print_seq_first b1 bs' Hw) as [l [rest [E P]]]. rewrite E. cbn [app hd_line].
  destruct (plain_start b1) eqn:Ep; cbn [negb].
  - apply (first_line_plain b1 l Ep P).
  - apply (first_line_colon b1 l Ep P).
Qed.

Theorem lines_blk_correct b :
  wf b = true -> forall base idx start, Z.of_nat start = (Z.of_nat idx + base + 1)%Z ->
  lblk base idx b = Ok (lift (locate_gen merged start b)).
Proof.
  induction b using blk_ind2 with
    (Q := fun bs => wf_seq bs = true -> forall base idx start, Z.of_nat start = (Z.of_nat idx + base + 1)%Z ->
                    lseq base idx bs = Ok (lift (locate_seq_gen merged start bs)));
    intros Hw base idx start Hs.
  - cbn [lines_blk locate_gen]. rewrite node_line_eq. unfold lift. cbn [map fst snd]. rewrite map_map. cbn [fst snd]. rewrite Hs. reflexivity.
  - rewrite wf_Quote in Hw. apply andb_true_iff in Hw as [_ Hw].
    rewrite lblk_Quote, node_line_eq, (IHb Hw base idx start Hs), locate_Quote. cbn. rewrite Hs. reflexivity.
  - rewrite wf_Item in Hw. apply andb_true_iff in Hw as [_ Hw].
    rewrite lblk_Item, node_line_eq, (IHb Hw base idx start Hs), locate_Item. cbn. rewrite Hs. reflexivity.
  - rewrite wf_Div in Hw. rewrite lblk_Div, locate_Div, !node_line_eq.
    rewrite (IHb Hw _ _ (start + 1 + bb)%nat); [cbn; rewrite Hs; reflexivity | lia].
  - rewrite wf_Dir in Hw. apply andb_true_iff in Hw as [Hfo Hw].
    rewrite lblk_Dir, locate_Dir. cbn zeta.
    rewrite ?node_line_eq, ?hack_prepended_eq.
    destruct (O_parse_ok
                (if dir_hack fk (text_before (dir_content os n bb ba bs))
                 then nl ++ text_before (dir_content os n bb ba bs) else text_before (dir_content os n bb ba bs))
                (Some (Z.to_nat (Z.of_nat idx + base + 1)))) as [r Hr].
    rewrite Hr. cbn [bind].
    destruct bs as [|b1 bs']; [cbn; rewrite Hs; reflexivity|].
    rewrite H_fl.
    destruct (bool_cases merged) as [Hm|Hm]; rewrite Hm;
    destruct (dir_hack fk (text_before (dir_content os n bb ba (b1 :: bs')))) eqn:Eh.
    + (* first line is body text; prepended-line case *)
      assert (Hcase : fk = ColonFence /\ os = NoOpts /\ bb = O).
      { unfold dir_hack in Eh. destruct fk; [discriminate|]. rewrite (hack_iff _ _ _ _ _ _ Hw) in Eh.
        destruct os; destruct bb; try discriminate. auto. }
      destruct Hcase as [-> [-> ->]].
      change (nl ++ text_before (dir_content NoOpts n 0 ba (b1 :: bs')))
        with (text_before (dir_content NoOpts n 1 ba (b1 :: bs'))) in Hr.
      destruct (dir_body_merged NoOpts n 1 ba b1 bs' _ r Hm Hw ltac:(discriminate) Hr) as [fl' [Hb Ho]].
      rewrite Hb, Ho. cbn [opt_lines length plus blank_lines repeat app].
      unfold dir_content. cbn [opt_lines blank_lines repeat app].
      unfold str in *. rewrite Nat.sub_diag. cbn [skipn]. rewrite lines_eqb_refl. cbn [andb Nat.leb Nat.sub Nat.add].
      rewrite ?nested_parse_lineno_eq, ?content_offset_eq.
      rewrite (IHb Hw _ _ (start + 2 + 0)%nat); [cbn; rewrite Hs, ?Hm; reflexivity | lia].
    + (* first line is body text *)
      assert (Hfirst : bb = O -> os <> DashOpts -> plain_start b1 = true).
      { intros -> Hos. cbn [first_ok Nat.ltb Nat.leb orb] in Hfo. destruct os; try congruence.
        destruct fk; try congruence. unfold dir_hack in Eh. rewrite (hack_iff _ _ _ _ _ _ Hw) in Eh.
        destruct (plain_start b1); [reflexivity | discriminate]. }
      destruct (dir_body_merged os n bb ba b1 bs' _ r Hm Hw Hfirst Hr) as [fl' [Hb Ho]].
      rewrite Hb, Ho.
      assert (Hcl : dir_content os n bb ba (b1 :: bs') =
                    opt_lines os n ++ (blank_lines bb ++ print_seq (b1 :: bs') ++ blank_lines ba)) by reflexivity.
      assert (Hd : (length (dir_content os n bb ba (b1 :: bs')) -
                    length (blank_lines bb ++ print_seq (b1 :: bs') ++ blank_lines ba))%nat
                   = length (opt_lines os n)).
      { rewrite Hcl, app_length. lia. }
      assert (Hle : Nat.leb (length (opt_lines os n)) (length (opt_lines os n) + bb + 0) = true).
      { apply Nat.leb_le. lia. }
      assert (Hidx : (length (opt_lines os n) + bb + 0 - length (opt_lines os n) + 1 = bb + 1)%nat) by lia.
      unfold str in *.
      rewrite Hd. rewrite Hcl at 1. rewrite skipn_app_length, lines_eqb_refl. cbn [andb].
      rewrite Hle, Hidx.
      rewrite ?nested_parse_lineno_eq, ?content_offset_eq.
      rewrite (IHb Hw _ _ (start + 2 + bb)%nat); [cbn; rewrite Hs, ?Hm; reflexivity | lia].
    + (* the prepended-line case: colon directive, no options, no blank, ':::' child *)
      assert (Hcase : fk = ColonFence /\ os = NoOpts /\ bb = O).
      { unfold dir_hack in Eh. destruct fk; [discriminate|]. rewrite (hack_iff _ _ _ _ _ _ Hw) in Eh.
        destruct os; destruct bb; try discriminate. auto. }
      destruct Hcase as [-> [-> ->]].
      change (nl ++ text_before (dir_content NoOpts n 0 ba (b1 :: bs')))
        with (text_before (dir_content NoOpts n 1 ba (b1 :: bs'))) in Hr.
      destruct (dir_body_plain NoOpts n 1 ba b1 bs' _ r Hm Hw ltac:(discriminate) Hr) as [Hb Ho].
      rewrite Hb, Ho. cbn [opt_lines length plus Nat.pred min1 blank_lines repeat app].
      unfold dir_content. cbn [opt_lines blank_lines repeat app].
      unfold str in *.
      repeat match goal with |- context [(S ?x - ?x)%nat] => replace (S x - x)%nat with 1%nat by lia end.
      cbn [skipn]. rewrite lines_eqb_refl. cbn [andb Nat.leb Nat.sub].
      rewrite ?nested_parse_lineno_eq, ?content_offset_eq.
      rewrite (IHb Hw _ _ (start + 1 + 0 + 0)%nat); [cbn; rewrite Hs, ?Hm; reflexivity | lia].
    + assert (Hfirst : bb = O -> os <> DashOpts -> plain_start b1 = true).
      { intros -> Hos. cbn [first_ok Nat.ltb Nat.leb orb] in Hfo. destruct os; try congruence.
        destruct fk; try congruence. unfold dir_hack in Eh. rewrite (hack_iff _ _ _ _ _ _ Hw) in Eh.
        destruct (plain_start b1); [reflexivity | discriminate]. }
      destruct (dir_body_plain os n bb ba b1 bs' _ r Hm Hw Hfirst Hr) as [Hb Ho].
      rewrite Hb, Ho.
      assert (Hcl : dir_content os n bb ba (b1 :: bs') =
                    (opt_lines os n ++ blank_lines (min1 bb)) ++
                    (blank_lines (Nat.pred bb) ++ print_seq (b1 :: bs') ++ blank_lines ba)).
      { unfold dir_content. rewrite <- app_assoc. f_equal. destruct bb as [|k]; reflexivity. }
      assert (Hd : (length (dir_content os n bb ba (b1 :: bs')) -
                    length (blank_lines (Nat.pred bb) ++ print_seq (b1 :: bs') ++ blank_lines ba))%nat
                   = length (opt_lines os n ++ blank_lines (min1 bb))).
      { rewrite Hcl, app_length. lia. }
      assert (Hlen : length (opt_lines os n ++ blank_lines (min1 bb)) = (length (opt_lines os n) + min1 bb)%nat).
      { rewrite app_length. unfold blank_lines. rewrite repeat_length. reflexivity. }
      assert (Hle : Nat.leb (length (opt_lines os n) + min1 bb) (length (opt_lines os n) + bb + 0) = true).
      { apply Nat.leb_le. destruct bb; cbn [min1]; lia. }
      unfold str in *.
      rewrite Hd. rewrite Hcl at 1. rewrite skipn_app_length, lines_eqb_refl. cbn [andb].
      rewrite Hlen, Hle.
      rewrite ?nested_parse_lineno_eq, ?content_offset_eq.
      rewrite (IHb Hw _ _ (start + 1 + length (opt_lines os n) + bb)%nat);
        [cbn; rewrite Hs, ?Hm; reflexivity | destruct bb; cbn [min1]; unfold str in *; lia].
  - reflexivity.
  - cbn [wf_seq] in Hw. apply andb_true_iff in Hw as [Hb Hr].
    cbn [lines_seq]. change (locate_seq_gen merged start (b :: bs))
      with (locate_gen merged start b ++ locate_seq_gen merged (start + height b + 1)%nat bs).
    rewrite (IHb Hb base idx start Hs). cbn [bind].
    rewrite (IHb0 Hr base (idx + height b + 1)%nat (start + height b + 1)%nat); [|lia].
    cbn [bind]. rewrite lift_app. reflexivity.
Qed.

Lemma lines_seq_correct bs :
  wf_seq bs = true -> forall base idx start, Z.of_nat start = (Z.of_nat idx + base + 1)%Z ->
  lseq base idx bs = Ok (lift (locate_seq_gen merged start bs)).
Proof.
  induction bs as [|b r IH]; intros Hw base idx start Hs; [reflexivity|].
  cbn [wf_seq] in Hw. apply andb_true_iff in Hw as [Hb Hr].
  cbn [lines_seq]. change (locate_seq_gen merged start (b :: r))
    with (locate_gen merged start b ++ locate_seq_gen merged (start + height b + 1)%nat r).
  rewrite (lines_blk_correct b Hb base idx start Hs). cbn [bind].
  rewrite (IH Hr base (idx + height b + 1)%nat (start + height b + 1)%nat); [|lia].
  cbn [bind]. rewrite lift_app. reflexivity.
Qed.

Theorem lines_document doc :
  wf_seq doc = true ->
  document_lines tokenize yaml_load sg first_line doc = Ok (lift (locate_seq_gen merged 1 doc)).
Proof. intro Hw. unfold document_lines. apply lines_seq_correct; [exact Hw | reflexivity]. Qed.

(* an included file rendered from its line index [s] on: every construct is placed where [locate] would put it if
   the selected text began one line later *)
Theorem include_lines_placed s body :
  wf_seq body = true ->
  include_lines tokenize yaml_load sg first_line s body = Ok (lift (locate_seq_gen merged (s + 2) body)).
Proof. intro Hw. unfold include_lines. apply lines_seq_correct; [exact Hw | rewrite include_lineno_eq; lia]. Qed.

End Nested.

(* ---------- the property theorem and the two characterised deviations ---------- *)

Definition shift1 (l : list (nat * nat)) : list (nat * nat) := map (fun p => (fst p, S (snd p))) l.

Lemma shift1_app a b : shift1 (a ++ b) = shift1 a ++ shift1 b.
Proof. apply map_app. Qed.

Lemma locate_shift g b : forall s, locate_gen g (S s) b = shift1 (locate_gen g s b).
Proof.
  induction b using blk_ind2 with
    (Q := fun bs => forall s, locate_seq_gen g (S s) bs = shift1 (locate_seq_gen g s bs)); intro s.
  - cbn [locate_gen]. unfold shift1. cbn [map fst snd]. rewrite map_map. reflexivity.
  - rewrite !locate_Quote, IHb. reflexivity.
  - rewrite !locate_Item, IHb. reflexivity.
  - rewrite !locate_Div. change (S s + 1 + bb)%nat with (S (s + 1 + bb)). rewrite IHb. reflexivity.
  - rewrite !locate_Dir. destruct g.
    + change (S s + 2 + bb)%nat with (S (s + 2 + bb)). rewrite IHb. reflexivity.
    + change (S s + 1 + length (opt_lines os n) + bb)%nat with (S (s + 1 + length (opt_lines os n) + bb)).
      rewrite IHb. reflexivity.
  - reflexivity.
  - change (locate_seq_gen g (S s) (b :: bs))
      with (locate_gen g (S s) b ++ locate_seq_gen g (S s + height b + 1)%nat bs).
    change (locate_seq_gen g s (b :: bs))
      with (locate_gen g s b ++ locate_seq_gen g (s + height b + 1)%nat bs).
    change (S s + height b + 1)%nat with (S (s + height b + 1)).
    rewrite IHb, IHb0, shift1_app. reflexivity.
Qed.

Lemma locate_seq_shift g bs s : locate_seq_gen g (S s) bs = shift1 (locate_seq_gen g s bs).
Proof.
  revert s. induction bs as [|b r IH]; intro s; [reflexivity|].
  change (locate_seq_gen g (S s) (b :: r)) with (locate_gen g (S s) b ++ locate_seq_gen g (S s + height b + 1)%nat r).
  change (locate_seq_gen g s (b :: r)) with (locate_gen g s b ++ locate_seq_gen g (s + height b + 1)%nat r).
  change (S s + height b + 1)%nat with (S (s + height b + 1)).
  rewrite locate_shift, IH, shift1_app. reflexivity.
Qed.

Theorem lines_nested tokenize yaml_load sg first_line :
  has_option_spec sg = true -> first_line_is_body sg first_line = false ->
  (forall content line, exists r,
      parse_directive_text tokenize yaml_load sg first_line content line true None = Ok r) ->
  forall doc, wf_seq doc = true ->
  document_lines tokenize yaml_load sg first_line doc = Ok (lift (locate_seq 1 doc)).
Proof. intros H1 H2 H3 doc Hw. exact (lines_document tokenize yaml_load sg first_line false H1 H2 H3 doc Hw). Qed.

Theorem lines_at_depth tokenize yaml_load sg first_line :
  has_option_spec sg = true -> first_line_is_body sg first_line = false ->
  (forall content line, exists r,
      parse_directive_text tokenize yaml_load sg first_line content line true None = Ok r) ->
  forall b, wf b = true ->
  forall base idx start, Z.of_nat start = (Z.of_nat idx + base + 1)%Z ->
  lines_blk tokenize yaml_load sg first_line base idx b = Ok (lift (locate start b)).
Proof. intros H1 H2 H3 b Hw. exact (lines_blk_correct tokenize yaml_load sg first_line false H1 H2 H3 b Hw). Qed.

(* an included file: text selected from line index s on, so its first line is line s + 1 of the file and the true
   lines of its blocks are [locate_seq (s + 1) body]; every construct is reported at exactly its true line + 1 *)
Theorem include_lines_offset tokenize yaml_load sg first_line :
  has_option_spec sg = true -> first_line_is_body sg first_line = false ->
  (forall content line, exists r,
      parse_directive_text tokenize yaml_load sg first_line content line true None = Ok r) ->
  forall s body, wf_seq body = true ->
  include_lines tokenize yaml_load sg first_line s body = Ok (lift (shift1 (locate_seq (s + 1) body))).
Proof.
  intros H1 H2 H3 s body Hw.
  rewrite (include_lines_placed tokenize yaml_load sg first_line false H1 H2 H3 s body Hw).
  unfold locate_seq. replace (s + 2)%nat with (S (s + 1)) by lia. rewrite locate_seq_shift. reflexivity.
Qed.

(* blocks without a directive inside are placed the same in both regimes *)
Fixpoint dir_free (b : blk) : bool :=
  let fix all (bs : list blk) : bool := match bs with [] => true | x :: r => dir_free x && all r end in
  match b with
  | Leaf _ _ _ _ => true
  | Quote _ bs | ListItem _ bs | Div _ _ _ bs => all bs
  | Dir _ _ _ _ _ _ _ => false
  end.
Fixpoint dir_free_seq (bs : list blk) : bool :=
  match bs with [] => true | x :: r => dir_free x && dir_free_seq r end.

Lemma locate_dir_free b : dir_free b = true -> forall s, locate_gen true s b = locate_gen false s b.
Proof.
  induction b using blk_ind2 with
    (Q := fun bs => dir_free_seq bs = true -> forall s, locate_seq_gen true s bs = locate_seq_gen false s bs);
    intros H s.
  - reflexivity.
  - rewrite !locate_Quote. f_equal. apply IHb. exact H.
  - rewrite !locate_Item. f_equal. apply IHb. exact H.
  - rewrite !locate_Div. f_equal. apply IHb. exact H.
  - discriminate.
  - reflexivity.
  - cbn [dir_free_seq] in H. apply andb_true_iff in H as [Hb Hr].
    change (locate_seq_gen true s (b :: bs)) with (locate_gen true s b ++ locate_seq_gen true (s + height b + 1)%nat bs).
    change (locate_seq_gen false s (b :: bs)) with (locate_gen false s b ++ locate_seq_gen false (s + height b + 1)%nat bs).
    rewrite (IHb Hb), (IHb0 Hr). reflexivity.
Qed.

(* text on the first line of a no-argument directive: the constructs of every document are placed at
   [locate_seq_gen true]; for a directive without option block whose body holds no further directive that is
   exactly the true line + 1 for every construct of the body (the directive's own line is right) *)
Theorem first_line_body_offset tokenize yaml_load sg first_line :
  has_option_spec sg = true -> first_line_is_body sg first_line = true ->
  (forall content line, exists r,
      parse_directive_text tokenize yaml_load sg first_line content line true None = Ok r) ->
  (forall doc, wf_seq doc = true ->
     document_lines tokenize yaml_load sg first_line doc = Ok (lift (locate_seq_gen true 1 doc))) /\
  (forall start m fk n bb ba bs, dir_free_seq bs = true ->
     locate_gen true start (Dir m fk NoOpts n bb ba bs) =
     (m, start) :: shift1 (locate_seq (start + 1 + bb) bs)).
Proof.
  intros H1 H2 H3. split.
  - intros doc Hw. exact (lines_document tokenize yaml_load sg first_line true H1 H2 H3 doc Hw).
  - intros start m fk n bb ba bs Hf. rewrite locate_Dir. f_equal.
    replace (start + 2 + bb)%nat with (S (start + 1 + bb)) by lia.
    rewrite locate_seq_shift. unfold locate_seq. f_equal.
    clear -Hf. generalize (start + 1 + bb)%nat. induction bs as [|b r IH]; intro s; [reflexivity|].
    cbn [dir_free_seq] in Hf. apply andb_true_iff in Hf as [Hb Hr].
    change (locate_seq_gen true s (b :: r)) with (locate_gen true s b ++ locate_seq_gen true (s + height b + 1)%nat r).
    change (locate_seq_gen false s (b :: r)) with (locate_gen false s b ++ locate_seq_gen false (s + height b + 1)%nat r).
    rewrite (locate_dir_free b Hb), (IH Hr). reflexivity.
Qed.

(* ---------- warnings ---------- *)

(* the lineno field of a ParseWarnings *)
Definition opt_line (w : pwarn) : option (option nat) :=
  match w with
  | W_yaml_bad l | W_yaml_notdict l | W_tokenize l | W_comments l => Some l
  | W_invalid _ l | W_unknown _ l => Some l
  | W_split | W_has_content => None
  end.

Lemma invalid_of_lines sg l opts w : In w (invalid_of sg l opts) -> opt_line w = Some l.
Proof.
  unfold invalid_of. intro H. apply in_flat_map in H as [[k v] [_ H]]. cbn [fst snd] in H.
  destruct (judge sg k v); try destruct H as [<-|[]]; try contradiction. reflexivity.
Qed.

Lemma split_options_line content line :
  snd (split_options content line) = if startswith content dashes then option_map S line else line.
Proof.
  unfold split_options. destruct (startswith content dashes).
  - destruct (search_dash (tl (splitlines content))) as [pre [m|]]; reflexivity.
  - destruct (startswith (lstrip content) colon); [|reflexivity].
    destruct (pop_colon_lines (splitlines content)); reflexivity.
Qed.

Lemma warning_line_eq p w :
  warning_line p w = match opt_line w with Some (Some l) => l | _ => p end.
Proof.
  unfold warning_line. rewrite warning_line_src_eq.
  destruct w as [l|l|l|l|? l|? l| |]; cbn [opt_line option_map]; try destruct l; cbn [option_map]; rewrite ?Nat2Z.id; reflexivity.
Qed.

Section Warnings.
Variable tokenize : str -> res (list (str * str) * bool).
Variable yaml_load : str -> yres.

Lemma pdo_warning_lines content sg ay line add o :
  parse_directive_options tokenize yaml_load content sg ay line add = Ok o ->
  forall w, In w (o_warnings o) -> opt_line w = Some (snd (split_options content line)).
Proof.
  unfold parse_directive_options.
  destruct (split_options content line) as [[b cl] l'] eqn:Es. cbn [snd].
  assert (Hval : forall options w0,
            (forall w, In w w0 -> opt_line w = Some l') ->
            (do r <- validate_loop sg l' options;
             let '(new_options, ve, unknown) := r in
             Ok {| o_content := cl; o_options := new_options;
                   o_warnings := if nonempty unknown then (w0 ++ ve) ++ [W_unknown (sorted_strs unknown) l'] else w0 ++ ve;
                   o_has_options := match b with Some _ => true | None => false end |}) = Ok o ->
            forall w, In w (o_warnings o) -> opt_line w = Some l').
  { intros options w0 Hw0 H. apply bind_ok in H as [[[no ve] un] [H1 H]]. inv H. cbn [o_warnings].
    destruct (validate_loop_spec _ _ _ _ _ _ H1) as [_ [-> _]].
    assert (Hin : forall w, In w (w0 ++ invalid_of sg l' options) -> opt_line w = Some l').
    { intros w Hw. apply in_app_or in Hw as [Hw|Hw]; [apply Hw0; exact Hw | eapply invalid_of_lines; exact Hw]. }
    destruct (nonempty un); [|exact Hin].
    intros w Hw. apply in_app_or in Hw as [Hw|[<-|[]]]; [apply Hin; exact Hw | reflexivity]. }
  destruct ay.
  - destruct (yaml_load _); intro H; inv H; cbn [o_warnings]; intros w [<-|[]] || intros w []; reflexivity.
  - destruct b as [blk|].
    + destruct (tokenize blk) as [[items hc]|e].
      * destruct (is_test sg); [intro H; inv H; intros w []|].
        apply Hval. destruct hc; [intros w [<-|[]]; reflexivity | intros w []].
      * destruct e; intro H; inv H; cbn [o_warnings]; intros w [<-|[]]; reflexivity.
    + destruct (is_test sg); [intro H; inv H; intros w []|].
      apply Hval. intros w [].
Qed.

(* Warnings of a directive reach create_warning with line = the directive's first line, or - for option warnings of a
   dash-style block - the line of the opening '---' (the next line). *)
Theorem warning_lines sg fl content position v add r :
  parse_directive_text tokenize yaml_load sg fl content (Some position) v add = Ok r ->
  forall w, In w (r_warnings r) ->
  warning_line position w =
  match opt_line w with
  | Some _ => if startswith content dashes then S position else position
  | None => position
  end.
Proof.
  unfold parse_directive_text, options_phase. intros H w Hw.
  apply bind_ok in H as [[[[[w0 hob] opts] cl] off] [H1 H]].
  apply bind_ok in H as [[[[w' body] off'] args] [H2 H]].
  destruct (strip_blank_line body off') as [bd of]. inv H. cbn [r_warnings] in Hw.
  assert (H0 : forall x, In x w0 ->
                 opt_line x = Some (if startswith content dashes then Some (S position) else Some position)).
  { destruct (has_option_spec sg).
    - apply bind_ok in H1 as [o [Ho H1]]. inv H1. intros x Hx.
      rewrite (pdo_warning_lines _ _ _ _ _ _ Ho x Hx), split_options_line.
      destruct (startswith content dashes); reflexivity.
    - inv H1. intros x []. }
  assert (H' : forall x, In x w' -> In x w0 \/ x = W_split).
  { unfold first_line_phase in H2. destruct (no_arguments sg).
    - destruct (nonempty (strip fl)); inv H2; [|auto].
      destruct (hob && existsb nonempty cl); [|auto].
      intros x Hx. apply in_app_or in Hx as [Hx|[<-|[]]]; auto.
    - apply bind_ok in H2 as [a [_ H2]]. inv H2. auto. }
  assert (Hfin : In w w0 \/ w = W_split \/ w = W_has_content).
  { destruct (nonempty bd && negb (has_content sg)).
    - apply in_app_or in Hw as [Hw|[<-|[]]]; [|auto]. destruct (H' w Hw); auto.
    - destruct (H' w Hw); auto. }
  rewrite warning_line_eq.
  destruct Hfin as [Hin|[-> | ->]]; [|reflexivity|reflexivity].
  specialize (H0 w Hin). rewrite H0.
  destruct (startswith content dashes); reflexivity.
Qed.

End Warnings.

(* ---------- includes ---------- *)

(* plain include / start-line: the text is the file from line [s] on, and nested_render_text gets lineno s + 1.
   A block whose first line has index k in that text lies on line s + k + 1 of the file but is reported at
   k + (s + 1) + 1: one too many (open finding; the repository's fixtures pin this value). *)
Theorem include_lineno_plain file_lines start_line :
  let s := match start_line with Some s => s | None => O end in
  include_start file_lines start_line None =
  Some ((s + 1)%nat, join_nl (firstn (length file_lines - s) (skipn s file_lines))).
Proof.
  cbn zeta. unfold include_start. rewrite include_startline0_eq, include_lineno_eq.
  destruct start_line as [n|]; cbn [option_map]; rewrite ?Nat2Z.id; unfold include_select.
  - replace (Z.to_nat (Z.of_nat n + 1)) with (n + 1)%nat by lia. reflexivity.
  - reflexivity.
Qed.

(* start-after (after fix 451703c): the counter advances by the number of line breaks in the skipped prefix *)
Theorem include_lineno_start_after file_lines start_line needle ln text :
  include_start file_lines start_line (Some needle) = Some (ln, text) ->
  let s := match start_line with Some s => s | None => O end in
  exists skipped, join_nl (include_select file_lines start_line None) = skipped ++ text /\
                  ln = (s + count_nl skipped + 1)%nat.
Proof.
  unfold include_start. cbn zeta.
  destruct (find_sub _ _ needle) as [i|]; [|discriminate].
  rewrite include_startline0_eq, include_lineno_eq, include_advance_eq, include_cut_eq.
  intro H. inv H. eexists. split; [symmetry; apply firstn_skipn|].
  destruct start_line as [n|]; cbn [option_map]; rewrite ?Nat2Z.id; lia.
Qed.

(* true lines are off by exactly one: the first line of an included file is reported as line 2 *)
Lemma include_off_by_one :
  exists file_lines k ln text,
    include_start file_lines None None = Some (ln, text) /\
    (* a block on index k of the text, i.e. on line k + 1 of the file, gets k + ln + 1 *)
    (k + ln + 1 <> k + 1)%nat.
Proof. exists [[97]], O, 1%nat, [97]. split; [reflexivity | discriminate]. Qed.

(* before fix 451703c: "aaaaaaaaaa MARK" / "x" with start-after MARK gave lineno 16 for a two-line file *)
Lemma include_start_after_old_refuted :
  exists file_lines needle ln ln' text,
    include_start_old file_lines needle = Some (ln, text) /\
    include_start file_lines None (Some needle) = Some (ln', text) /\
    (length file_lines < ln)%nat /\ ln' = 1%nat.
Proof.
  exists [[97;97;97;97;97;97;97;97;97;97;32;77;65;82;75]; [120]], [77;65;82;75].
  eexists. eexists. eexists. split; [vm_compute; reflexivity|]. split; [vm_compute; reflexivity|].
  split; [cbn; lia | reflexivity].
Qed.

(* ---------- when does O_parse_ok hold? ---------- *)

(* a class without arguments whose tokenizer fails only with TokenizeError accepts every text *)
Lemma parse_ok_when tokenize yaml_load sg fl :
  no_arguments sg = true ->
  (forall b, match tokenize b with Ok _ => True | Raise (TokenizeError _) => True | Raise _ => False end) ->
  forall content line add,
  exists r, parse_directive_text tokenize yaml_load sg fl content line true add = Ok r.
Proof.
  intros Hna Htok content line add.
  unfold parse_directive_text, options_phase.
  assert (Ho : has_option_spec sg = true ->
               exists o, parse_directive_options tokenize yaml_load content sg (negb true) line add = Ok o).
  { intros _. unfold parse_directive_options. cbn [negb].
    destruct (split_options content line) as [[b cl] l'].
    assert (Hv : forall options w0,
              exists o, (do r <- validate_loop sg l' options;
                         let '(new_options, ve, unknown) := r in
                         Ok {| o_content := cl; o_options := new_options;
                               o_warnings := if nonempty unknown then (w0 ++ ve) ++ [W_unknown (sorted_strs unknown) l'] else w0 ++ ve;
                               o_has_options := match b with Some _ => true | None => false end |}) = Ok o).
    { intros options w0. destruct (validate_loop_total sg l' options) as [[[no ve] un] E]. rewrite E. eexists. reflexivity. }
    destruct b as [blk|].
    - specialize (Htok blk). destruct (tokenize blk) as [[items hc]|e].
      + destruct (is_test sg); [eexists; reflexivity | apply Hv].
      + destruct e; try contradiction. eexists. reflexivity.
    - destruct (is_test sg); [eexists; reflexivity | apply Hv]. }
  destruct (has_option_spec sg).
  - destruct (Ho eq_refl) as [o E]. rewrite E. cbn [bind].
    unfold first_line_phase. rewrite Hna.
    destruct (nonempty (strip fl)); cbn [bind]; destruct (strip_blank_line _ _); eexists; reflexivity.
  - cbn [bind]. unfold first_line_phase. rewrite Hna.
    destruct (nonempty (strip fl)); cbn [bind]; destruct (strip_blank_line _ _); eexists; reflexivity.
Qed.

(* ---------- text on the first line of a no-argument directive (open finding) ---------- *)

Definition note_sig : dsig :=
  {| has_option_spec := true;
     opt_known := fun k => str_eqb k [99; 108; 97; 115; 115];
     opt_keys := [[99; 108; 97; 115; 115]];
     opt_is_flag := fun _ => false;
     opt_conv := fun _ v => match v with Some s => Ok s | None => Raise ValueError end;
     required_arguments := 0; optional_arguments := 0; final_argument_whitespace := true;
     has_content := true; is_test := false |}.

Definition stub_tok (b : str) : res (list (str * str) * bool) := Ok ([], false).

(* "```{note} x" / "y": body = ["x"; "y"], body_offset 0.  Body line 1 ("y") is content line 0, i.e. the line after
   the directive's first line [position]; nested_render_text("x\ny", position + 0) reports it at 1 + position + 1. *)
Lemma first_line_body_refuted :
  exists fl content position r,
    first_line_is_body note_sig fl = true /\
    parse_directive_text stub_tok (fun _ => Y_falsy) note_sig fl content (Some position) true None = Ok r /\
    nth_error (r_body r) 1 = nth_error (splitlines content) 0 /\
    nth_error (splitlines content) 0 <> None /\
    (Z.of_nat 1 + (Z.of_nat position + r_body_offset r) + 1 <> Z.of_nat position + 0 + 1)%Z.
Proof.
  exists [120], [121; 10], 1%nat. eexists. split; [reflexivity|]. split; [vm_compute; reflexivity|].
  split; [reflexivity|]. split; [discriminate|]. cbn. lia.
Qed.

(* inline constructs (roles, links, images ... and their warnings) carry the first line of their block, whatever
   line of the block they are written on *)
Lemma inline_lines tokenize yaml_load sg first_line base idx k m more ins :
  lines_blk tokenize yaml_load sg first_line base idx (Leaf k m more ins) =
  Ok ((m, (Z.of_nat idx + base + 1)%Z) :: map (fun p => (fst p, (Z.of_nat idx + base + 1)%Z)) ins).
Proof. rewrite <- node_line_eq. reflexivity. Qed.

(* the regenerated arithmetic in normal form, collected *)
Lemma arithmetic_src :
  (forall base idx, node_line base idx = (Z.of_nat idx + base + 1)%Z) /\
  (forall map0 map1, token_line_src map0 map1 = map0) /\
  (forall map0 map1, render_tokens_map0_src map0 map1 = (map0 + 1)%Z) /\
  (forall map0 map1 lineno, nested_map0_src map0 map1 lineno = (map0 + lineno)%Z) /\
  (forall body_offset prepended, content_offset_src body_offset prepended = (body_offset - prepended)%Z) /\
  (forall lineno input_offset, nested_parse_lineno_src lineno input_offset = (lineno + input_offset)%Z) /\
  Z.to_nat hack_prepended_src = 1%nat /\
  (forall startline, include_lineno_src startline = (startline + 1)%Z) /\
  (forall lineno position, warning_line_src lineno position = match lineno with Some l => l | None => position end).
Proof.
  repeat split; intros; first [apply node_line_eq | apply content_offset_eq | apply nested_parse_lineno_eq
    | apply hack_prepended_eq | apply include_lineno_eq | apply warning_line_src_eq
    | (unfold token_line_src, render_tokens_map0_src, nested_map0_src; lia)].
Qed.
