(* The post-condition proved for every render program (functional semantics): what the nodes a
   token's program appends look like.  Definitions, inversion lemmas for run_f, and the facts
   about registry messages that every case uses. *)
From Coq Require Import List NArith Bool Lia.
From MV Require Import Base.PyStr.
From MV Require Import Base.Res.
From MV Require Import Doc.Str.
From MV Require Import Doc.Tok.
From MV Require Import Doc.Node.
From MV Require Import Doc.Registry.
From MV Require Import Doc.Prog.
From MV Require Import Doc.Refine.
From MV Require Import Gen.Render.
From MV Require Import Doc.Render.
From MV Require Import Doc.Skel.
From MV Require Import Doc.WF.
From MV Require Import Doc.OpsProofs.
Import ListNotations.
Open Scope N_scope.

(* a node with tag X somewhere in the subtree *)
Fixpoint has_tag (X : str) (n : node) : bool :=
  match n with
  | Text _ _ => false
  | Elem _ tg _ cs => str_eqb tg X || existsb (has_tag X) cs
  end.

(* no thematic break anywhere in the token's subtree *)
Fixpoint hr_free (t : tok) : bool :=
  match t with
  | Tok ty _ _ _ _ _ _ _ cs =>
      match kind_of ty with KHr => false | _ => true end && forallb hr_free cs
  end.

(* O_table_shape as a predicate on tokens: in every table each body row has as many cells as the header row *)
Definition table_rows_match (cs : list tok) : bool :=
  match cs with
  | h :: rest =>
      match children h with
      | hrow :: _ =>
          forallb (fun sec => forallb (fun r => Nat.eqb (length (children r)) (length (children hrow)))
                                      (children sec)) rest
      | [] => true
      end
  | [] => true
  end.

Fixpoint tshape (t : tok) : bool :=
  match t with
  | Tok ty _ _ _ _ _ _ _ cs =>
      match kind_of ty with KTable => table_rows_match cs | _ => true end && forallb tshape cs
  end.

(* ---- inversion of run_f ---- *)
Lemma run_f_Done_inv c f ns f' : run_f Done c f = Some (Good (ns, f')) -> ns = [] /\ f' = f.
Proof. simpl. intro H. inversion H; auto. Qed.

Lemma run_f_FOp_inv {B} (op : fop B) k c f ns f' :
  run_f (FOp op k) c f = Some (Good (ns, f')) ->
  exists b f1, op f = Good (b, f1) /\ run_f (k b) c f1 = Some (Good (ns, f')).
Proof. simpl. destruct (op f) as [[b f1]|e]; [eauto|discriminate]. Qed.

Lemma run_f_Append_inv n k c f ns f' :
  run_f (Append n k) c f = Some (Good (ns, f')) ->
  exists ns', ns = n :: ns' /\ run_f k c f = Some (Good (ns', f')).
Proof.
  simpl. destruct (run_f k c f) as [[[ns' f1]|e]|]; try discriminate.
  intro H. inversion H; subst. eauto.
Qed.

Lemma run_f_CurTag_inv k c f ns f' :
  run_f (CurTag k) c f = Some (Good (ns, f')) -> run_f (k c) c f = Some (Good (ns, f')).
Proof. simpl. auto. Qed.

Lemma run_f_Ctx_inv o tg a cs0 body k c f ns f' :
  run_f (Ctx o tg a cs0 body k) c f = Some (Good (ns, f')) ->
  exists cs f1 ns', run_f body tg f = Some (Good (cs, f1)) /\
                    run_f (k (Elem o tg a (cs0 ++ cs))) c f1 = Some (Good (ns', f')) /\
                    ns = Elem o tg a (cs0 ++ cs) :: ns'.
Proof.
  simpl. destruct (run_f body tg f) as [[[cs f1]|e]|]; try discriminate.
  destruct (run_f (k _) c f1) as [[[ns' f2]|e]|] eqn:E; try discriminate.
  intro H. inversion H; subst. eauto 6.
Qed.

Lemma run_f_Detached_inv o tg a cs0 body k c f ns f' :
  run_f (Detached o tg a cs0 body k) c f = Some (Good (ns, f')) ->
  exists cs f1, run_f body tg f = Some (Good (cs, f1)) /\
                run_f (k (Elem o tg a (cs0 ++ cs))) c f1 = Some (Good (ns, f')).
Proof.
  simpl. destruct (run_f body tg f) as [[[cs f1]|e]|]; try discriminate. eauto.
Qed.

Lemma run_f_seq_inv p q c f ns f' :
  run_f (seq p q) c f = Some (Good (ns, f')) ->
  exists ns1 f1 ns2, run_f p c f = Some (Good (ns1, f1)) /\ run_f q c f1 = Some (Good (ns2, f')) /\
                     ns = ns1 ++ ns2.
Proof.
  rewrite run_f_seq. destruct (run_f p c f) as [[[ns1 f1]|e]|]; try discriminate.
  destruct (run_f q c f1) as [[[ns2 f2]|e]|] eqn:E; try discriminate.
  intro H. inversion H; subst. eauto 6.
Qed.

Lemma run_f_Fail_inv e c f ns f' : run_f (Fail e) c f = Some (Good (ns, f')) -> False.
Proof. simpl. discriminate. Qed.

(* ---- facts about lists of registry messages ---- *)
Lemma regmsg_has_tag X n : regmsg n -> str_eqb k_system_message X = false -> has_tag X n = false.
Proof. intros [o [lv [tag [E _]]]] H. subst. cbn [has_tag existsb]. rewrite H. reflexivity. Qed.

Lemma regmsgs_has_tag X ms :
  Forall regmsg ms -> str_eqb k_system_message X = false -> existsb (has_tag X) ms = false.
Proof.
  intros H HX. induction H as [|n ms Hn _ IH]; simpl; auto.
  rewrite (regmsg_has_tag X n Hn HX). exact IH.
Qed.

Lemma regmsg_rows_ok n : regmsg n -> rows_ok n = true.
Proof. intros [o [lv [tag [E _]]]]. subst. reflexivity. Qed.

Lemma regmsgs_rows_ok ms : Forall regmsg ms -> forallb rows_ok ms = true.
Proof. intro H. induction H as [|n ms Hn _ IH]; simpl; auto. rewrite (regmsg_rows_ok n Hn). exact IH. Qed.

Lemma regmsg_not_dropped n : regmsg n -> has_dropped n = false.
Proof.
  intros [o [lv [tag [E Ht]]]]. subst.
  destruct Ht as [Ht|[Ht|Ht]]; subst tag; vm_compute; reflexivity.
Qed.

Lemma regmsgs_not_dropped ms : Forall regmsg ms -> existsb has_dropped ms = false.
Proof. intro H. induction H as [|n ms Hn _ IH]; simpl; auto. rewrite (regmsg_not_dropped n Hn). exact IH. Qed.

Lemma regmsg_skel D n : regmsg n -> skel_node D n = [].
Proof. intros [o [lv [tag [E _]]]]. subst. reflexivity. Qed.

Lemma regmsgs_skel D ms : Forall regmsg ms -> skel_nodes D ms = [].
Proof.
  intro H. unfold skel_nodes. induction H as [|n ms Hn _ IH]; simpl; auto.
  rewrite (regmsg_skel D n Hn). exact IH.
Qed.

Lemma regmsg_astext n : regmsg n -> astext n = [].
Proof. intros [o [lv [tag [E _]]]]. subst. reflexivity. Qed.

Lemma regmsgs_astext ms : Forall regmsg ms -> flat_map astext ms = [].
Proof. intro H. induction H as [|n ms Hn _ IH]; simpl; auto. rewrite (regmsg_astext n Hn). exact IH. Qed.

(* a MyST warning node (create_warning) *)
Lemma warning_node_facts tag f n f' :
  create_warning tag f = Good (n, f') ->
  oids n = [nxt f] /\ nxt f' = N.succ (nxt f) /\
  (forall X, str_eqb k_system_message X = false -> has_tag X n = false) /\
  rows_ok n = true /\ (forall D, skel_node D n = []) /\
  has_dropped n = (str_eqb tag w_ref_footnote || str_eqb tag w_render).
Proof.
  intro H. apply create_warning_post in H. destruct H as [E En]. subst n.
  split; [reflexivity|]. split; [exact En|]. split.
  - intros X HX. cbn [has_tag existsb]. rewrite HX. reflexivity.
  - split; [reflexivity|]. split; [reflexivity|]. cbn [has_dropped existsb]. unfold is_dropped_msg.
    replace (assoc k_msg [(k_level, [show 2]); (k_msg, [tag])]) with (Some [tag]) by reflexivity.
    replace (str_eqb k_system_message k_system_message) with true by reflexivity.
    rewrite orb_false_r. reflexivity.
Qed.

(* existsb / forallb / flat_map over appended lists *)
Lemma existsb_has_tag_app X a b : existsb (has_tag X) (a ++ b) = existsb (has_tag X) a || existsb (has_tag X) b.
Proof. apply existsb_app. Qed.

Lemma skel_nodes_app D a b : skel_nodes D (a ++ b) = skel_nodes D a ++ skel_nodes D b.
Proof. unfold skel_nodes. apply flat_map_app. Qed.

Lemma skel_nodes_cons D n ns : skel_nodes D (n :: ns) = skel_node D n ++ skel_nodes D ns.
Proof. reflexivity. Qed.

Lemma flat_map_astext_app a b : flat_map astext (a ++ b) = flat_map astext a ++ flat_map astext b.
Proof. apply flat_map_app. Qed.
