(* Source-translation tie (round 3).  Gen/RenderSrc.v is regenerated from myst_parser/mdit_to_docutils/base.py
   on every run (gen/c02_pysrc.py: statement by statement).  Here: every regenerated definition equals the
   hand-written one of Doc/Render.v - this is the proof obligation an edit of the Python method breaks -, the
   renderer assembled from the regenerated methods (dispatch_src, build_src, render_doc_src, render_xform_src)
   equals the hand-written renderer, and the property theorems restated for it. *)
From Coq Require Import List NArith Bool.
From MV Require Import Base.PyStr.
From MV Require Import Base.Res.
From MV Require Import Doc.Str.
From MV Require Import Doc.Tok.
From MV Require Import Doc.Node.
From MV Require Import Doc.Registry.
From MV Require Import Doc.Prog.
From MV Require Import Gen.Render.
From MV Require Import Doc.Render.
From MV Require Import Gen.RenderSrc.
From MV Require Import Doc.RenderProofs.
From MV Require Import Doc.Transforms.
From MV Require Import Doc.Skel.
From MV Require Import Doc.WF.
From MV Require Import Doc.PostProofs.
From MV Require Import Doc.Final.
Import ListNotations.
Open Scope N_scope.

(* ---- copy_attributes: the regenerated loop IS the hand-written one (same fixpoint) ---- *)
Lemma copy_loop_src_eq : forall C OR, copy_loop_src C OR = copy_loop C OR.
Proof. reflexivity. Qed.

Lemma copy_attributes_src_eq : forall C OR, copy_attributes_src C OR = copy_attributes C OR.
Proof. reflexivity. Qed.

(* ---- renderInlineAsText: the source tests token.type, the model the token kind ---- *)
Lemma assoc_some_in {V} k (v : V) l : assoc k l = Some v -> In (k, v) l.
Proof.
  induction l as [|[k' v'] l IH]; simpl; [discriminate|].
  destruct (str_eqb k k') eqn:E.
  - intro H. inversion H; subst. apply str_eqb_eq in E. subst. left. reflexivity.
  - intro H. right. apply IH. exact H.
Qed.

Lemma kind_of_text ty : kind_of ty = KText -> ty = k_text.
Proof.
  unfold kind_of. destruct (assoc ty kind_table) as [k|] eqn:E; [|discriminate]. intros ->.
  apply assoc_some_in in E. unfold kind_table in E. simpl in E.
  repeat (destruct E as [E|E]; [inversion E; reflexivity || discriminate|]). contradiction.
Qed.

Lemma kind_of_softbreak ty : kind_of ty = KSoftbreak -> ty = k_softbreak.
Proof.
  unfold kind_of. destruct (assoc ty kind_table) as [k|] eqn:E; [|discriminate]. intros ->.
  apply assoc_some_in in E. unfold kind_table in E. simpl in E.
  repeat (destruct E as [E|E]; [inversion E; reflexivity || discriminate|]). contradiction.
Qed.

Lemma inline_as_text_src_eq : forall r, inline_as_text_src r = inline_as_text r.
Proof.
  fix IH 1. intros [t p kids]. cbn [inline_as_text_src inline_as_text].
  assert (Hk : flat_map inline_as_text_src kids = flat_map inline_as_text kids).
  { clear t p. revert kids. fix IHk 1. intros [|k kids]; [reflexivity|].
    cbn [flat_map]. rewrite (IH k), (IHk kids). reflexivity. }
  rewrite Hk.
  destruct (str_eqb (ty t) [116; 101; 120; 116]) eqn:E1.
  - apply str_eqb_eq in E1. rewrite E1. reflexivity.
  - destruct (str_eqb (ty t) [115; 111; 102; 116; 98; 114; 101; 97; 107]) eqn:E2.
    + apply str_eqb_eq in E2. rewrite E2. reflexivity.
    + destruct (kind_of (ty t)) eqn:K; try reflexivity.
      * apply kind_of_text in K. rewrite K in E1. discriminate E1.
      * apply kind_of_softbreak in K. rewrite K in E2. discriminate E2.
Qed.

Lemma alt_src_eq ks : flat_map inline_as_text_src ks = flat_map inline_as_text ks.
Proof. induction ks as [|k ks IH]; [reflexivity|]. cbn [flat_map]. rewrite inline_as_text_src_eq, IH. reflexivity. Qed.

(* ---- clean_astext, generate_heading_target, update_section_level_state, render_heading, render_table ---- *)
Lemma astext_clean_src_eq : astext_clean_src = astext_clean. Proof. reflexivity. Qed.
Lemma heading_target_src_eq : forall C OR, heading_target_src C OR = heading_target C OR. Proof. reflexivity. Qed.
Lemma render_heading_src_eq : forall C OR, render_heading_src C OR = render_heading C OR. Proof. reflexivity. Qed.
Lemma render_table_src_eq : forall C OR, render_table_src C OR = render_table C OR. Proof. reflexivity. Qed.

(* update_section_level_state is the semantics of the OpenSection instruction: the parent is the entry with the
   greatest level among those the regenerated test sect_is_parent_src accepts, the new section is appended to it
   and becomes the current node, and the level map keeps the entries the regenerated test sect_keep_src accepts *)
Lemma open_section_src : forall level sec k s, run_i (OpenSection level sec k) s =
  match parent_level (lvl s) level None with
  | None => Bad (EPy Res.ValueError)
  | Some (_, pp) =>
      run_i k (mkI (app_at pp [sec] (tree s)) (pp ++ [nchildren pp (tree s)])
                   (filter (fun x => sect_keep_src level (fst x))
                           (lvl_set level (pp ++ [nchildren pp (tree s)]) (lvl s))) (fs s))
  end.
Proof. reflexivity. Qed.

Lemma parent_level_src : forall V (x : N) (v : V) r level best, parent_level ((x, v) :: r) level best =
  if sect_is_parent_src level x
  then parent_level r level (match best with
                             | Some (b, _) => if N.ltb b x then Some (x, v) else best
                             | None => Some (x, v)
                             end)
  else parent_level r level best.
Proof. reflexivity. Qed.

(* ---- render_table_row (the loop over the cells; the alignment classes computed from the source's f-string) ---- *)
Lemma render_table_cell_src_eq : render_table_cell_src = render_table_cell. Proof. reflexivity. Qed.
Lemma render_table_row_src_eq : render_table_row_src = render_table_row. Proof. reflexivity. Qed.

(* ---- the straight-line render methods ---- *)
Section Methods.
  Variable C : cfg.
  Variable OR : oracles.

  Lemma render_paragraph_src_eq : render_paragraph_src C OR = render_paragraph C OR. Proof. reflexivity. Qed.
  Lemma render_em_src_eq : render_em_src = render_em. Proof. reflexivity. Qed.
  Lemma render_strong_src_eq : render_strong_src = render_strong. Proof. reflexivity. Qed.
  Lemma render_code_inline_src_eq : render_code_inline_src C OR = render_code_inline C OR. Proof. reflexivity. Qed.
  Lemma render_bullet_list_src_eq : render_bullet_list_src C OR = render_bullet_list C OR. Proof. reflexivity. Qed.
  Lemma render_ordered_list_src_eq : render_ordered_list_src C OR = render_ordered_list C OR. Proof. reflexivity. Qed.
  Lemma render_list_item_src_eq : render_list_item_src C OR = render_list_item C OR. Proof. reflexivity. Qed.
  Lemma render_blockquote_src_eq : render_blockquote_src C OR = render_blockquote C OR. Proof. reflexivity. Qed.
  Lemma render_hr_src_eq : render_hr_src = render_hr. Proof. reflexivity. Qed.
  Lemma render_hardbreak_src_eq : render_hardbreak_src = render_hardbreak. Proof. reflexivity. Qed.
  Lemma render_softbreak_src_eq : render_softbreak_src = render_softbreak. Proof. reflexivity. Qed.
  Lemma render_s_src_eq : render_s_src = render_s. Proof. reflexivity. Qed.
  Lemma render_text_src_eq : render_text_src = render_text. Proof. reflexivity. Qed.
  Lemma render_math_inline_src_eq : render_math_inline_src = render_math_inline. Proof. reflexivity. Qed.
  Lemma render_link_url_src_eq : render_link_url_src C OR = render_link_url C OR. Proof. reflexivity. Qed.

  Lemma render_image_src_eq t ks : render_image_src C OR t ks = render_image C OR t ks.
  Proof. unfold render_image_src, render_image. rewrite alt_src_eq. reflexivity. Qed.
End Methods.

(* ---- the renderer assembled from the regenerated methods ---- *)
Section Src.
  Variable B : backend.
  Variable C : cfg.
  Variable OR : oracles.

  (* the body of the two dispatch loops (render_children, _render_tokens; pinned by gen/c02_pysrc.py):
     self.rules[f"render_{type}"](child) if the method exists, else the "No render method" warning *)
  Definition dispatch_src (t : tok) (ks : list rt) : prog :=
    if negb (has_rule B (ty t)) then (w <- create_warning w_render ; Append w Done)
    else
      match kind_of (ty t) with
      | KParagraph => render_paragraph_src C OR t ks
      | KInline => render_inline t ks
      | KText => render_text_src t ks
      | KSoftbreak => render_softbreak_src t ks
      | KHardbreak => render_hardbreak_src t ks
      | KEm => render_em_src t ks
      | KStrong => render_strong_src t ks
      | KS => render_s_src t ks
      | KCodeInline => render_code_inline_src C OR t ks
      | KBlockquote => render_blockquote_src C OR t ks
      | KBulletList => render_bullet_list_src C OR t ks
      | KOrderedList => render_ordered_list_src C OR t ks
      | KListItem => render_list_item_src C OR t ks
      | KHr => render_hr_src t ks
      | KImage => render_image_src C OR t ks
      | KHeading => render_heading_src C OR t ks
      | KTable => render_table_src C OR t ks
      | KMathInline => render_math_inline_src t ks
      | KMathSingle => render_math_inline_src t ks
      | _ => dispatch B C OR t ks          (* methods that are not straight-line: the hand-written transcription *)
      end.

  Lemma dispatch_src_eq t ks : dispatch_src t ks = dispatch B C OR t ks.
  Proof.
    unfold dispatch_src, dispatch. destruct (negb (has_rule B (ty t))); [reflexivity|].
    destruct (kind_of (ty t)); try reflexivity. apply render_image_src_eq.
  Qed.

  Fixpoint build_src (t : tok) : rt :=
    match t with
    | Tok a b c d e f g h cs =>
        let ks := (fix go (l : list tok) : list rt :=
                     match l with [] => [] | x :: r => build_src x :: go r end) cs in
        RT t (dispatch_src t ks) ks
    end.

  Lemma build_src_eq : forall t, build_src t = build B C OR t.
  Proof.
    induction t as [a b c d e f g h cs IH] using tok_ind'.
    cbn [build_src build].
    assert (E : (fix go (l : list tok) : list rt := match l with [] => [] | x :: r => build_src x :: go r end) cs =
                (fix go (l : list tok) : list rt := match l with [] => [] | x :: r => build B C OR x :: go r end) cs).
    { induction IH as [|x r Hx _ IHr]; [reflexivity|]. rewrite Hx, IHr. reflexivity. }
    rewrite E, dispatch_src_eq. reflexivity.
  Qed.

  Definition render_tokens_src (ts : list tok) : prog := render_children (map build_src ts).

  Definition render_state_src (ts : list tok) : outcome istate :=
    match run_i (render_tokens_src ts) s_init with
    | Bad e => Bad e
    | Good s =>
        match dup_ref_warnings (N.to_nat (c_dup_refs C)) [] (fs s) with
        | Bad e => Bad e
        | Good (ws, f') => Good (mkI (app_at [] ws (tree s)) (cur s) (lvl s) f')
        end
    end.

  Definition render_doc_src (ts : list tok) : outcome (node * list str) :=
    match render_state_src ts with
    | Bad e => Bad e
    | Good s => Good (decorate (objs (fs s)) (tree s), warns (fs s))
    end.

  Definition render_xform_src (ts : list tok) : outcome (node * list str) :=
    match render_state_src ts with
    | Bad e => Bad e
    | Good s =>
        match apply_transforms B C OR s with
        | Bad e => Bad e
        | Good (t, f) => Good (decorate (objs f) t, warns f)
        end
    end.

  Lemma render_state_src_eq ts : render_state_src ts = render_state B C OR ts.
  Proof.
    unfold render_state_src, render_state, render_tokens_src, render_tokens.
    assert (E : map build_src ts = map (build B C OR) ts).
    { induction ts as [|t ts IH]; [reflexivity|]. cbn [map]. rewrite build_src_eq, IH. reflexivity. }
    rewrite E. reflexivity.
  Qed.

  Lemma render_doc_src_eq ts : render_doc_src ts = render_doc B C OR ts.
  Proof. unfold render_doc_src, render_doc. rewrite render_state_src_eq. reflexivity. Qed.

  Lemma render_xform_src_eq ts : render_xform_src ts = render_xform B C OR ts.
  Proof. unfold render_xform_src, render_xform. rewrite render_state_src_eq. reflexivity. Qed.
End Src.

(* ---- the property theorems for the regenerated renderer ---- *)
Theorem faithful_src : forall (D : str -> str) B C OR ts doc ws,
  O_lexer_concat OR -> O_canon D OR -> O_no_files OR ->
  static_forest B C OR ts = true ->
  render_doc_src B C OR ts = Good (doc, ws) ->
  has_dropped doc = false ->
  skel_node D doc = skel_toks D B C OR ts.
Proof. intros D B C OR ts doc ws H1 H2 H3 Hs H. rewrite render_doc_src_eq in H. eapply faithful; eauto. Qed.

Theorem single_occurrence_src : forall B C OR ts,
  static_forest B C OR ts = true ->
  (forall doc ws, render_doc_src B C OR ts = Good (doc, ws) -> NoDup (oids doc)) /\
  (forall doc ws, render_xform_src B C OR ts = Good (doc, ws) -> NoDup (oids doc)).
Proof.
  intros B C OR ts Hs. destruct (single_occurrence B C OR ts Hs) as [A1 A2]. split; intros doc ws H.
  - rewrite render_doc_src_eq in H. eauto.
  - rewrite render_xform_src_eq in H. eauto.
Qed.

(* the alt text of an image is markdown-it's renderInlineAsText of its children, as regenerated *)
Theorem image_alt_src : forall r, inline_as_text_src r = inline_as_text r.
Proof. exact inline_as_text_src_eq. Qed.
