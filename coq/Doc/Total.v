(* Totality of the renderer model on the static grammar, up to the registry interface.

   Every state operation of a render program is one of a fixed list (reg_api: allocation, warnings, and the calls
   into docutils' document registries - set_id via note_explicit_target / note_implicit_target / note_*footnote*,
   names - plus the splice of oracle nodes).  For every forest of the static grammar narrowed by `total_forest`
   the model renders the forest, or one of THESE operations returned an error (reg_fail): no `Fail` site of the
   renderer is reachable, every heading finds its parent section, every context finds its node.  That the registry
   operations themselves do not fail on the states the renderer produces is docutils' registry protocol (a name in
   nameids has a type in nametypes and, while it denotes an id, that id belongs to an object carrying the name; the
   id counter loop terminates ...); it is not proved here - the correspondence exercises it on every case and has
   never seen a registry operation fail. *)
From Coq Require Import List NArith Bool Lia Arith Wf_nat.
From MV Require Import Base.PyStr.
From MV Require Import Base.Res.
From MV Require Import Doc.Str.
From MV Require Import Doc.Tok.
From MV Require Import Doc.Node.
From MV Require Import Doc.Registry.
From MV Require Import Doc.Prog.
From MV Require Import Doc.Refine.
From MV Require Import Gen.Render.
From MV Require Import Doc.Render.
From MV Require Import Doc.RenderProofs.
From MV Require Import Doc.Skel.
From MV Require Import Doc.OpsProofs.
From MV Require Import Doc.Post.
From MV Require Import Doc.PostProofs.
From MV Require Import Doc.TopProofs.
Import ListNotations.
Open Scope N_scope.

Section Total.
  Variable B : backend.
  Variable C : cfg.
  Variable OR : oracles.
  (* the registry interface *)
  Inductive reg_api : forall A : Type, fop A -> Prop :=
  | ra_alloc : reg_api N alloc
  | ra_warning tag : reg_api node (create_warning tag)
  | ra_log tag : reg_api unit (log_warning tag)
  | ra_logs ws : reg_api unit (log_warnings ws)
  | ra_copy t o tg keys al a : reg_api (nattrs * list node) (copy_attributes C OR t o tg keys al a)
  | ra_note_target o tg e : reg_api (list node) (note_target' C OR o tg e)
  | ra_add_name o tg nm : reg_api unit (add_name o tg nm)
  | ra_get_names o tg : reg_api (list str) (get_names o tg)
  | ra_set_names o tg l : reg_api unit (set_names o tg l)
  | ra_set_refuri o tg u : reg_api unit (set_refuri o tg u)
  | ra_note_footnote o tg : reg_api unit (note_footnote (o_make_id OR) (c_auto_id_prefix C) o tg)
  | ra_note_autofootnote o tg : reg_api unit (note_autofootnote (o_make_id OR) (c_auto_id_prefix C) o tg)
  | ra_note_footnote_ref o tg nm : reg_api unit (note_footnote_ref (o_make_id OR) (c_auto_id_prefix C) o tg nm)
  | ra_note_autofootnote_ref o tg : reg_api unit (note_autofootnote_ref (o_make_id OR) (c_auto_id_prefix C) o tg)
  | ra_set_id_nomsg o tg : reg_api unit (set_id_nomsg (o_make_id OR) (c_auto_id_prefix C) o tg)
  | ra_is_defined target : reg_api bool (is_footnote_defined target)
  | ra_next_uuid : reg_api N next_uuid
  | ra_relabel ns : reg_api (list node) (relabel_all ns)
  | ra_preset ot l : reg_api unit (preset_ids ot l).

  (* an error returned by an operation of the registry interface *)
  Definition reg_fail (e : err) : Prop := exists A (op : fop A) f, reg_api A op /\ op f = Bad e.

  (* the operation can only fail with such an error *)
  Definition op_ok {A} (op : fop A) : Prop := forall f e, op f = Bad e -> reg_fail e.

  Lemma reg_ok A (op : fop A) : reg_api A op -> op_ok op.
  Proof. intros H f e E. exists A, op, f. auto. Qed.

  Lemma ok_bind {A A2} (m : fop A) (k : A -> fop A2) :
    op_ok m -> (forall a, op_ok (k a)) -> op_ok (fbind m k).
  Proof.
    intros Hm Hk f e E. unfold fbind in E. destruct (m f) as [[a f1]|e1] eqn:E1.
    - eapply Hk; eauto.
    - inversion E; subst. eapply Hm; eauto.
  Qed.

  Lemma ok_fret {A} (a : A) : op_ok (fret a).
  Proof. intros f e E. discriminate E. Qed.

  Lemma ok_heading_target o tg title txt :
    astext_clean title = Some txt -> op_ok (heading_target C OR o tg title).
  Proof.
    intro E. unfold heading_target. rewrite E.
    apply ok_bind; [apply reg_ok; constructor|]. intro.
    apply ok_bind; [apply reg_ok; constructor|]. intro.
    apply ok_bind; [apply reg_ok; constructor|]. intro.
    apply ok_bind; [apply reg_ok; constructor|]. intro.
    apply ok_bind; [apply reg_ok; constructor|]. intro. apply ok_fret.
  Qed.

  (* a program that cannot fail when run under a node with tag ctag: no Fail, total state operations,
     continuations total for what the body returns; LevelParent is used where a parent exists *)
  Fixpoint tot_prog (p : prog) (ctag : str) : Prop :=
    match p with
    | Done => True
    | Fail _ => False
    | @FOp A op k => op_ok op /\ forall f b f', op f = Good (b, f') -> tot_prog (k b) ctag
    | Append _ k => tot_prog k ctag
    | CurTag k => tot_prog (k ctag) ctag
    | Ctx o tg a cs0 body k =>
        tot_prog body tg /\
        forall f cs f1, run_f body tg f = Some (Good (cs, f1)) -> tot_prog (k (Elem o tg a (cs0 ++ cs))) ctag
    | Detached o tg a cs0 body k =>
        tot_prog body tg /\
        forall f cs f1, run_f body tg f = Some (Good (cs, f1)) -> tot_prog (k (Elem o tg a (cs0 ++ cs))) ctag
    | LevelParent _ k => forall l, tot_prog (k (Some l)) ctag
    | OpenSection _ _ k => tot_prog k n_section
    end.

  Definition f_res (r : option (outcome (list node * fstate))) : Prop :=
    (exists ns f', r = Some (Good (ns, f'))) \/ (exists e, r = Some (Bad e) /\ reg_fail e).

  Theorem run_f_total : forall p ctag, tot_prog p ctag -> frameable p ctag -> forall f, f_res (run_f p ctag f).
  Proof.
    induction p as [| e | A op k IH | n k IH | k IH | o tg a cs0 body IHb k IHk | o tg a cs0 body IHb k IHk
                    | level k IH | level sec k IH]; intros ctag Hp Hf f; cbn [run_f tot_prog frameable] in *.
    - left. eauto.
    - contradiction.
    - destruct Hp as [Ho Hk]. destruct (op f) as [[b f1]|e] eqn:E.
      + apply (IH b ctag (Hk f b f1 E) (Hf b) f1).
      + right. exists e. split; [reflexivity | eapply Ho; eauto].
    - destruct (IH ctag Hp Hf f) as [[ns [f' E]]|[e [E R]]]; rewrite E; [left; eauto | right; eauto].
    - apply (IH ctag ctag Hp Hf f).
    - destruct Hp as [Hb Hk]. destruct Hf as [Fb Fk].
      destruct (IHb tg Hb Fb f) as [[cs [f1 E1]]|[e [E1 R]]]; rewrite E1; [|right; eauto].
      destruct (IHk _ ctag (Hk f cs f1 E1) (Fk _) f1) as [[ns [f2 E2]]|[e [E2 R]]]; rewrite E2;
        [left; eauto | right; eauto].
    - destruct Hp as [Hb Hk]. destruct Hf as [Fb Fk].
      destruct (IHb tg Hb Fb f) as [[cs [f1 E1]]|[e [E1 R]]]; rewrite E1; [|right; eauto].
      apply (IHk _ ctag (Hk f cs f1 E1) (Fk _) f1).
    - contradiction.
    - contradiction.
  Qed.

  (* ---- composition lemmas ---- *)
  Lemma tot_seq p q ctag : frameable p ctag -> tot_prog p ctag -> tot_prog q ctag -> tot_prog (seq p q) ctag.
  Proof.
    revert ctag.
    induction p as [| e | A op k IH | n k IH | k IH | o tg a cs0 body IHb k IHk | o tg a cs0 body IHb k IHk
                    | level k IH | level sec k IH]; cbn [seq tot_prog frameable]; intros ctag Hf Hp Hq; auto.
    - destruct Hp as [Ha Hk]. split; auto. intros f b f' E. apply IH; auto. eapply Hk; eauto.
    - destruct Hp as [Hb Hk]. destruct Hf as [Fb Fk]. split; auto. intros f cs f1 E. apply IHk; auto. eapply Hk; eauto.
    - destruct Hp as [Hb Hk]. destruct Hf as [Fb Fk]. split; auto. intros f cs f1 E. apply IHk; auto. eapply Hk; eauto.
    - contradiction.
    - contradiction.
  Qed.

  Lemma tot_append_all ns k ctag : tot_prog k ctag -> tot_prog (append_all ns k) ctag.
  Proof. induction ns; simpl; auto. Qed.

  Lemma tot_new_text_elem tg a txt k ctag :
    (forall n, tot_prog (k n) ctag) -> tot_prog (new_text_elem tg a txt k) ctag.
  Proof.
    intros H. unfold new_text_elem. cbn [tot_prog]. split; [apply reg_ok; constructor|]. intros f0 o f1 _.
    destruct (is_empty txt); cbn [tot_prog]; auto. split; [apply reg_ok; constructor|]. auto.
  Qed.

  Lemma tot_append_raws l k ctag : tot_prog k ctag -> tot_prog (append_raws l k) ctag.
  Proof.
    revert k; induction l as [|[fmt txt] l IH]; intros k H; cbn [append_raws]; auto.
    apply tot_new_text_elem. intro n. cbn [tot_prog]. apply IH. exact H.
  Qed.

  Lemma tot_lex_nodes l ctag : forall acc k,
    (forall cs, tot_prog (k cs) ctag) -> tot_prog (lex_nodes l acc k) ctag.
  Proof.
    induction l as [|[cls v] l IH]; intros acc k H; cbn [lex_nodes]; auto.
    destruct cls.
    - cbn [tot_prog]. split; [apply reg_ok; constructor|]. intros f0 o f1 _. apply IH. exact H.
    - apply tot_new_text_elem. intro n. apply IH. exact H.
  Qed.

  Lemma tot_chcb text lexer k ctag :
    (forall n, tot_prog (k n) ctag) -> tot_prog (create_highlighted_code_block B C OR text lexer k) ctag.
  Proof.
    intro H. unfold create_highlighted_code_block.
    destruct (is_sphinx B).
    - apply tot_new_text_elem. exact H.
    - cbn [tot_prog]. split; [apply reg_ok; constructor|]. intros f0 o f1 _. destruct (c_highlight C).
      + destruct (o_lex OR _ _); cbn [tot_prog]; [|split; [apply reg_ok; constructor|]; intros ? ? ? _];
          apply tot_lex_nodes; intro cs; apply H.
      + apply tot_lex_nodes; intro cs; apply H.
  Qed.

  Lemma tot_colspecs n w k ctag : tot_prog k ctag -> tot_prog (colspecs n w k) ctag.
  Proof. induction n; simpl; auto. intro H. split; [apply reg_ok; constructor|]. intros f0 o f1 _. auto. Qed.

  Lemma tot_dyn_splice key ns ws ctag :
    o_dyn OR (dyn_full_key B key) = Some (ns, ws) -> forallb dyn_node_ok ns = true ->
    tot_prog (dyn_splice B OR key) ctag.
  Proof.
    intros E1 E2. unfold dyn_splice. rewrite E1, E2.
    cbn [tot_prog]. split; [apply reg_ok; constructor|]. intros ? ? ? _. split; [apply reg_ok; constructor|].
    intros ? ns' ? _. apply tot_append_all. exact I.
  Qed.

  (* sequencing after a program that may open a section: the rest runs under ctag or under the new section *)
  Lemma tot_seq_gen p q : forall ctag,
    tot_prog p ctag -> (forall c, c = ctag \/ c = n_section -> tot_prog q c) -> tot_prog (seq p q) ctag.
  Proof.
    induction p as [| e | A op k IH | n k IH | k IH | o tg a cs0 body IHb k IHk | o tg a cs0 body IHb k IHk
                    | level k IH | level sec k IH]; cbn [seq tot_prog]; intros ctag Hp Hq; auto.
    - destruct Hp as [Ha Hk]. split; auto. intros f b f' E. apply IH; auto. eapply Hk; eauto.
    - destruct Hp as [Hb Hk]. split; auto. intros f cs f1 E. apply IHk; auto. eapply Hk; eauto.
    - destruct Hp as [Hb Hk]. split; auto. intros f cs f1 E. apply IHk; auto. eapply Hk; eauto.
    - apply IH; auto. intros c Hc. apply Hq. right. destruct Hc as [Hc|Hc]; exact Hc.
  Qed.

  (* ---------------------------------------------------------------- the premise on tokens *)
  Definition title_kind_ok (t : tok) : bool :=
    match kind_of (ty t) with
    | KInline | KText | KSoftbreak | KEm | KStrong | KCodeInline | KMathInline | KMathSingle => true
    | _ => false
    end.

  (* a heading text whose rendering contains no system message *)
  Fixpoint title_ok (t : tok) : bool :=
    match t with
    | Tok ty _ attrs _ _ _ _ _ cs =>
        has_rule B ty && title_kind_ok t && negb (has_key a_id attrs) && forallb title_ok cs
    end.

  Lemma title_ok_eq t :
    title_ok t = has_rule B (ty t) && title_kind_ok t && negb (has_key a_id (attrs t)) && forallb title_ok (children t).
  Proof. destruct t. reflexivity. Qed.

  Definition dl_shape (cs : list tok) : bool :=
    match cs with
    | c :: _ => match kind_of (ty c) with KDt => true | _ => false end
    | [] => true
    end
    && forallb (fun c => match kind_of (ty c) with KDt | KDd => true | _ => false end) cs.

  (* sec: the current node may be the document or a section when the token is rendered *)
  Definition total_kind_ok (sec : bool) (t : tok) : bool :=
    if negb (has_rule B (ty t)) then true else
    match kind_of (ty t) with
    | KS => negb (existsb opens_section (children t))
    | KBlockquote => negb (has_key a_attribution (attrs t))
    | KCodeBlock =>
        code_attrs_static t
        && (is_empty (info t) || match o_split OR (info t) with [] => false | _ :: _ => true end)
    | KFence => code_attrs_static t && dyn_static B C OR t
    | KHeading =>
        match heading_level (tag t) with Some l => 1 <=? l | None => false end
        && forallb title_ok (children t) && (sec || negb (has_key a_id (attrs t)))
    | KLink => match scheme_of (href_of t) with Some s => negb (str_eqb s v_inv) | None => true end
    | KImage => negb (existsb (fun k => has_key k (attrs t)) [a_width; a_height; a_align; a_w; a_h; a_a])
    | KHtmlBlock | KHtmlInline =>
        negb (c_html_convert C) && match map_ t with Some _ => true | None => false end
    | KTable =>
        table_static (children t)
        && match children t with
           | h :: _ => match children h with
                       | r :: _ => match children r with _ :: _ => true | [] => false end
                       | [] => false
                       end
           | [] => false
           end
    | KFootnoteRef | KFootnoteReference => has_key a_label (meta t)
    | KAmsmath => has_key a_numbered (meta t)
    | KDl => negb (is_sphinx B) && dl_shape (children t)
    | KFieldList => field_static (children t)
    | KColonFence | KMystRole | KSubstInline | KSubstBlock | KFrontMatter => dyn_static B C OR t
    | KDt | KDd | KFieldlistName | KFieldlistBody | KThead | KTbody | KTr | KTh | KTd | KOther => false
    | _ => true
    end.

  Definition kid_sec (sec : bool) (t : tok) : bool :=
    match kind_of (ty t) with KInline | KS => sec | _ => false end.

  Fixpoint total_tok (sec : bool) (t : tok) {struct t} : bool :=
    match t with
    | Tok ty _ _ _ _ _ _ _ cs =>
        total_kind_ok sec t
        && forallb (total_tok (match kind_of ty with KInline | KS => sec | _ => false end)) cs
    end.

  Lemma total_tok_eq sec t :
    total_tok sec t = total_kind_ok sec t && forallb (total_tok (kid_sec sec t)) (children t).
  Proof. destruct t. reflexivity. Qed.

  Notation bld := (build B C OR).

  (* ---------------------------------------------------------------- clean titles *)
  Definition clean (n : node) : Prop := astext_clean n <> None.

  Lemma astext_clean_elem o tg a cs :
    str_eqb tg n_raw = false -> str_eqb tg k_system_message = false ->
    Forall clean cs -> clean (Elem o tg a cs).
  Proof.
    intros H1 H2 H. unfold clean. cbn [astext_clean]. rewrite H1, H2.
    induction H as [|c cs Hc _ IH]; [discriminate|].
    unfold clean in Hc. destruct (astext_clean c) as [x|]; [|exfalso; apply Hc; reflexivity].
    match type of IH with ?X <> None => destruct X; [discriminate | exfalso; apply IH; reflexivity] end.
  Qed.

  Lemma clean_some n : clean n -> exists txt, astext_clean n = Some txt.
  Proof. unfold clean. destruct (astext_clean n); [eauto | intro H; contradiction H; reflexivity]. Qed.

  Lemma in_has_key {V} k (v : V) l : In (k, v) l -> has_key k l = true.
  Proof.
    unfold has_key. induction l as [|[k' v'] l IH]; simpl; [intros []|].
    intros [H|H].
    - inversion H; subst. rewrite str_eqb_refl. reflexivity.
    - destruct (str_eqb k k'); [reflexivity | apply IH; exact H].
  Qed.

  (* without an id key no registry call, hence no message *)
  Lemma copy_loop_no_id o tg keys aliases conv l :
    (forall k0 v, In (k0, v) l -> (match assoc k0 aliases with Some k' => k' | None => k0 end) <> a_id) ->
    forall a msgs0 f a' msgs f',
    copy_loop C OR o tg keys aliases conv l a msgs0 f = Good ((a', msgs), f') -> msgs = msgs0.
  Proof.
    induction l as [|[k0 v] r IH]; intros Hl a msgs0 f a' msgs f' H; cbn [copy_loop] in H.
    - inversion H; subst. reflexivity.
    - assert (Hr : forall k1 v1, In (k1, v1) r ->
                     (match assoc k1 aliases with Some k' => k' | None => k1 end) <> a_id)
        by (intros k1 v1 Hin; apply (Hl k1 v1); right; exact Hin).
      pose proof (Hl k0 v (or_introl eq_refl)) as Hk.
      destruct (negb (mem_str _ keys)); [eapply IH; eauto|].
      destruct (str_eqb _ a_class); [eapply IH; eauto|].
      destruct (str_eqb _ a_id) eqn:Ei; [apply str_eqb_eq in Ei; contradiction|].
      destruct (mem_str _ conv); [discriminate|]. eapply IH; eauto.
  Qed.

  Lemma no_id_plain (attrs0 : list (str * str)) :
    has_key a_id attrs0 = false -> forall k0 v, In (k0, v) attrs0 ->
    (match @assoc str k0 [] with Some k' => k' | None => k0 end) <> a_id.
  Proof.
    intros H k0 v Hin. cbn [assoc]. intro X. subst k0. rewrite (in_has_key _ _ _ Hin) in H. discriminate.
  Qed.

  Definition clean_tok (t : tok) : Prop :=
    title_ok t = true -> forall ctag f ns f',
    run_f (rt_run (bld t)) ctag f = Some (Good (ns, f')) -> Forall clean ns.

  Lemma kids_clean cs : Forall clean_tok cs -> forallb title_ok cs = true ->
    forall ctag f ns f', run_f (render_children (map bld cs)) ctag f = Some (Good (ns, f')) -> Forall clean ns.
  Proof.
    induction 1 as [|c cs Hc _ IH]; intros Ht ctag f ns f' H.
    - cbn in H. inversion H; subst. constructor.
    - cbn [forallb] in Ht. apply andb_true_iff in Ht. destruct Ht as [T1 T2].
      unfold render_children in H. cbn [map seq_all] in H.
      apply run_f_seq_inv in H. destruct H as [ns1 [f1 [ns2 [H1 [H2 ->]]]]].
      apply Forall_app. split; [eapply Hc; eauto | eapply IH; eauto].
  Qed.

  Lemma text_elem_clean o tg a text n f f2 :
    text_elem o tg a text n f f2 -> str_eqb tg n_raw = false -> str_eqb tg k_system_message = false ->
    clean n /\ oid_of n = o /\ Forall clean (kids_of n).
  Proof.
    intros [f1 [_ [[_ [-> _]]|[ot [_ ->]]]]] H1 H2; (split; [apply astext_clean_elem; auto|]); cbn [oid_of kids_of];
      repeat constructor; unfold clean; cbn [astext_clean]; discriminate.
  Qed.

  Theorem build_clean : forall t, clean_tok t.
  Proof.
    induction t as [ty0 tag0 attrs0 content0 markup0 info0 meta0 map0 cs IH] using tok_ind'.
    set (t := Tok ty0 tag0 attrs0 content0 markup0 info0 meta0 map0 cs).
    intros Ht ctag f ns f' H. rewrite title_ok_eq in Ht.
    apply andb_true_iff in Ht. destruct Ht as [Ht Hkids].
    apply andb_true_iff in Ht. destruct Ht as [Ht Hid]. apply negb_true_iff in Hid.
    apply andb_true_iff in Ht. destruct Ht as [Hrule Hkind].
    change (children t) with cs in Hkids. change (ty t) with ty0 in Hrule. change (attrs t) with attrs0 in Hid.
    rewrite rt_run_build in H. change (children t) with cs in H. unfold dispatch in H. change (ty t) with ty0 in H.
    rewrite Hrule in H. cbn [negb] in H. unfold title_kind_ok in Hkind. change (ty t) with ty0 in Hkind.
    destruct (kind_of ty0) eqn:K; try discriminate Hkind.
    - (* inline *) unfold render_inline in H. eapply kids_clean; eauto.
    - (* text *) unfold render_text, append_text in H.
      apply run_f_FOp_inv in H. destruct H as [o [f1 [Ea H]]].
      apply run_f_Append_inv in H. destruct H as [ns' [-> H]]. apply run_f_Done_inv in H. destruct H as [-> ->].
      repeat constructor. unfold clean. cbn. discriminate.
    - (* softbreak *) unfold render_softbreak, append_text in H.
      apply run_f_FOp_inv in H. destruct H as [o [f1 [Ea H]]].
      apply run_f_Append_inv in H. destruct H as [ns' [-> H]]. apply run_f_Done_inv in H. destruct H as [-> ->].
      repeat constructor. unfold clean. cbn. discriminate.
    - (* em *) unfold render_em in H.
      apply run_f_FOp_inv in H. destruct H as [o [f1 [Ea H]]].
      apply run_f_Ctx_inv in H. destruct H as [cs1 [f2 [ns' [Hb [Hd ->]]]]].
      apply run_f_Done_inv in Hd. destruct Hd as [-> ->].
      repeat constructor. apply astext_clean_elem; try reflexivity. cbn [app]. eapply kids_clean; eauto.
    - (* strong *) unfold render_strong in H.
      apply run_f_FOp_inv in H. destruct H as [o [f1 [Ea H]]].
      apply run_f_Ctx_inv in H. destruct H as [cs1 [f2 [ns' [Hb [Hd ->]]]]].
      apply run_f_Done_inv in Hd. destruct Hd as [-> ->].
      repeat constructor. apply astext_clean_elem; try reflexivity. cbn [app]. eapply kids_clean; eauto.
    - (* code_inline *) unfold render_code_inline in H.
      apply run_new_text_elem in H. destruct H as [o [n [f2 [Hn H]]]].
      destruct (text_elem_clean _ _ _ _ _ _ _ Hn eq_refl eq_refl) as [_ [Ho Hk]].
      apply run_f_FOp_inv in H. destruct H as [[a msgs] [f3 [Ec H]]].
      apply run_f_Append_inv in H. destruct H as [ns' [-> H]]. apply run_f_Done_inv in H. destruct H as [-> ->].
      unfold copy_attributes in Ec. apply copy_loop_no_id in Ec.
      + subst msgs. rewrite app_nil_r. repeat constructor. apply astext_clean_elem; try reflexivity. exact Hk.
      + intros k0 v Hin. change (attrs t) with attrs0 in Hin. cbn [assoc].
        destruct (str_eqb k0 a_lexer); [discriminate|]. destruct (str_eqb k0 a_l); [discriminate|].
        intro X. subst k0. rewrite (in_has_key _ _ _ Hin) in Hid. discriminate.
    - (* math_inline *) unfold render_math_inline in H.
      apply run_new_text_elem in H. destruct H as [o [n [f2 [Hn H]]]].
      destruct (text_elem_clean _ _ _ _ _ _ _ Hn eq_refl eq_refl) as [Hc _].
      apply run_f_Append_inv in H. destruct H as [ns' [-> H]]. apply run_f_Done_inv in H. destruct H as [-> ->].
      repeat constructor. exact Hc.
    - (* math_single *) unfold render_math_inline in H.
      apply run_new_text_elem in H. destruct H as [o [n [f2 [Hn H]]]].
      destruct (text_elem_clean _ _ _ _ _ _ _ Hn eq_refl eq_refl) as [Hc _].
      apply run_f_Append_inv in H. destruct H as [ns' [-> H]]. apply run_f_Done_inv in H. destruct H as [-> ->].
      repeat constructor. exact Hc.
  Qed.

  (* ---------------------------------------------------------------- every render program is total *)
  Definition tot_tok (t : tok) : Prop :=
    forall sec, total_tok sec t = true -> forall ctag, is_section_tag ctag = sec -> tot_prog (rt_run (bld t)) ctag.

  Lemma fr_of t : fr_ok B C OR t.
  Proof. apply (all_sub_here _ _ (build_frameable B C OR t)). Qed.

  Lemma tot_seq_all_fr ps ctag :
    Forall (fun p => frameable p ctag /\ tot_prog p ctag) ps -> tot_prog (seq_all ps) ctag.
  Proof. induction 1 as [|p ps [F T] _ IH]; cbn [seq_all]; [exact I | apply tot_seq; auto]. Qed.

  Lemma kids_tot cs sec ctag :
    Forall tot_tok cs -> forallb (total_tok sec) cs = true -> is_section_tag ctag = sec ->
    tot_prog (render_children (map bld cs)) ctag.
  Proof.
    intros H Ht Hc. unfold render_children. destruct sec.
    - (* at section level every child is total under ctag and under a section it may have opened *)
      assert (G : forall c, is_section_tag c = true -> tot_prog (seq_all (map rt_run (map bld cs))) c).
      { clear Hc ctag. induction H as [|t cs Ht0 _ IH]; intros c Hcs; cbn [map seq_all]; [exact I|].
        cbn [forallb] in Ht. apply andb_true_iff in Ht. destruct Ht as [T1 T2].
        apply tot_seq_gen.
        - apply (Ht0 true T1 c Hcs).
        - intros c' [E|E]; subst c'; apply IH; auto. }
      apply G. exact Hc.
    - (* under a container no child opens a section *)
      apply tot_seq_all_fr. rewrite map_map. apply Forall_map.
      rewrite Forall_forall in *. rewrite forallb_forall in Ht. intros t Hin. split.
      + apply fr_of. left. exact Hc.
      + apply (H t Hin false (Ht t Hin) ctag Hc).
  Qed.

  Ltac tp_step :=
    match goal with
    | |- forall _, _ => intro
    | |- _ /\ _ => split
    | |- True => exact I
    | |- op_ok _ => solve [apply reg_ok; constructor]
    | |- tot_prog Done _ => exact I
    | |- tot_prog (FOp _ _) _ => cbn [tot_prog]
    | |- tot_prog (Append _ _) _ => cbn [tot_prog]
    | |- tot_prog (Ctx _ _ _ _ _ _) _ => cbn [tot_prog]
    | |- tot_prog (Detached _ _ _ _ _ _) _ => cbn [tot_prog]
    | |- tot_prog (new_text_elem _ _ _ _) _ => apply tot_new_text_elem
    | |- tot_prog (append_raws _ _) _ => apply tot_append_raws
    | |- tot_prog (append_all _ _) _ => apply tot_append_all
    | |- tot_prog (append_text _ _) _ => unfold append_text
    | |- tot_prog (create_highlighted_code_block _ _ _ _ _ _) _ => apply tot_chcb
    | |- tot_prog (colspecs _ _ _) _ => apply tot_colspecs
    | |- tot_prog (let '(_, _) := ?x in _) _ => is_var x; destruct x
    end.

  Lemma tot_container t cs tg a0 keys ctag :
    Forall tot_tok cs -> forallb (total_tok false) cs = true -> is_section_tag tg = false ->
    tot_prog (container C OR t (map bld cs) tg a0 keys) ctag.
  Proof.
    intros H Ht Htg. unfold container. repeat tp_step. apply (kids_tot cs false tg); auto.
  Qed.

  (* an element whose children are the rendered children of the token *)
  Lemma tot_ctx_kids o tg a ms cs ctag :
    Forall tot_tok cs -> forallb (total_tok false) cs = true -> is_section_tag tg = false ->
    tot_prog (Ctx o tg a ms (render_children (map bld cs)) (fun _ => Done)) ctag.
  Proof.
    intros H Ht Htg. repeat tp_step. apply (kids_tot cs false tg); auto.
  Qed.

  Section Links.
    Variable t : tok.
    Variable cs : list tok.
    Variable ctag : str.
    Hypothesis H : Forall tot_tok cs.
    Hypothesis Ht : forallb (total_tok false) cs = true.

    Lemma tot_link_url : tot_prog (render_link_url C OR t (map bld cs)) ctag.
    Proof. unfold render_link_url. repeat tp_step. apply tot_ctx_kids; auto. Qed.

    Lemma tot_link_anchor tgt : tot_prog (render_link_anchor C OR t (map bld cs) tgt) ctag.
    Proof.
      unfold render_link_anchor. repeat tp_step. destruct (str_eqb (info t) v_auto); [repeat tp_step|].
      apply tot_ctx_kids; auto.
    Qed.

    Lemma tot_wrap o tg a0 cls pd : tot_prog (process_wrap_node C OR t (map bld cs) o tg a0 cls pd) ctag.
    Proof.
      unfold process_wrap_node. repeat tp_step. destruct (explicit_link t (map bld cs)).
      - repeat tp_step. apply (kids_tot cs false k_inline); auto.
      - destruct (str_eqb tg n_download_reference); repeat tp_step.
    Qed.

    Lemma tot_link_unknown : tot_prog (render_link_unknown B C OR t (map bld cs)) ctag.
    Proof.
      unfold render_link_unknown. destruct (is_sphinx B).
      - destruct (split_hash _ _) as [pd pid]. repeat tp_step.
        destruct (o_path2doc OR pd) as [[d|]|]; try apply tot_wrap.
        destruct (match pid with Some _ => o_docjoin OR pd | None => None end); apply tot_wrap.
      - repeat tp_step. apply tot_ctx_kids; auto.
    Qed.

    Lemma tot_link_path : tot_prog (render_link_path B C OR t (map bld cs)) ctag.
    Proof.
      unfold render_link_path. destruct (is_sphinx B).
      - destruct (negb _ && negb _); repeat tp_step; [apply tot_link_url | apply tot_wrap].
      - repeat tp_step. apply tot_link_url.
    Qed.

    Lemma tot_link_project : tot_prog (render_link_project B C OR t (map bld cs)) ctag.
    Proof.
      unfold render_link_project.
      destruct (startswith _ [35%N]); [apply tot_link_anchor|].
      destruct (is_sphinx B).
      - destruct (split_hash _ _) as [pd pid].
        destruct (o_p2d_raw OR pd) as [d|]; repeat tp_step; [apply tot_wrap | apply tot_link_url].
      - repeat tp_step. apply tot_link_url.
    Qed.

    Lemma tot_link :
      match scheme_of (href_of t) with Some s => negb (str_eqb s v_inv) | None => true end = true ->
      tot_prog (render_link B C OR t (map bld cs)) ctag.
    Proof.
      intro Hinv. unfold render_link. generalize link_dispatch. intro l.
      induction l as [|lt l IH]; cbn [link_dispatch_loop].
      - apply tot_link_unknown.
      - destruct (link_test_apply B C OR lt t _) as [p|] eqn:E; [|exact IH].
        unfold link_test_apply in E.
        destruct lt.
        + destruct (_ || _); inversion E; subst. apply tot_link_url.
        + destruct (attr_get t a_class); [|discriminate]. destruct (mem_str _ _); inversion E; subst. apply tot_link_url.
        + destruct (startswith _ _); inversion E; subst. apply tot_link_anchor.
        + destruct (scheme_of (href_of t)); [|discriminate]. destruct (mem_str _ _); inversion E; subst. apply tot_link_url.
        + destruct (scheme_of (href_of t)) as [sch|]; [|discriminate].
          destruct (str_eqb sch v_inv); [discriminate Hinv | discriminate E].
        + destruct (scheme_of (href_of t)) as [sch|]; [|discriminate]. destruct (str_eqb sch v_path); inversion E; subst. apply tot_link_path.
        + destruct (scheme_of (href_of t)) as [sch|]; [|discriminate]. destruct (str_eqb sch v_project); inversion E; subst. apply tot_link_project.
        + destruct (str_eqb (info t) v_auto); inversion E; subst. apply tot_link_url.
    Qed.
  End Links.

  (* everything below a token, with what the structural render methods need *)
  Definition sub_ok (t : tok) : Prop := all_sub tot_tok t /\ total_tok false t = true.

  Lemma sub_ok_kids t : sub_ok t -> kid_sec false t = false ->
    Forall tot_tok (children t) /\ forallb (total_tok false) (children t) = true /\ Forall sub_ok (children t).
  Proof.
    intros [Ha Ht] Hk. rewrite total_tok_eq, Hk in Ht. apply andb_true_iff in Ht. destruct Ht as [_ Ht].
    split; [apply all_sub_kids_here; exact Ha|]. split; [exact Ht|].
    apply Forall_forall. intros c Hin. split.
    - pose proof (all_sub_kids _ _ Ha) as X. rewrite Forall_forall in X. auto.
    - rewrite forallb_forall in Ht. auto.
  Qed.

  Lemma kid_sec_false t : match kind_of (ty t) with KInline | KS => False | _ => True end -> kid_sec false t = false.
  Proof. intros _. unfold kid_sec. destruct (kind_of (ty t)); reflexivity. Qed.

  Lemma kid_sec_false' t : kid_sec false t = false.
  Proof. unfold kid_sec. destruct (kind_of (ty t)); reflexivity. Qed.

  Lemma tot_table_cell c ctag : sub_ok c -> tot_prog (render_table_cell (bld c)) ctag.
  Proof.
    intro H. destruct (sub_ok_kids c H (kid_sec_false' c)) as [Hk [Ht _]].
    unfold render_table_cell. rewrite rt_kids_build, rt_tok_build. repeat tp_step.
    apply (kids_tot (children c) false k_paragraph); auto.
  Qed.

  Lemma tot_table_row r ctag : sub_ok r -> tot_prog (render_table_row (bld r)) ctag.
  Proof.
    intro H. destruct (sub_ok_kids r H (kid_sec_false' r)) as [_ [_ Hs]].
    unfold render_table_row. rewrite rt_kids_build. repeat tp_step.
    apply tot_seq_all_fr. rewrite map_map. apply Forall_map. apply Forall_forall. intros c Hin. split.
    - apply frameable_table_cell. rewrite Forall_forall in Hs. destruct (Hs c Hin) as [X _].
      apply (build_frameable B C OR c).
    - apply tot_table_cell. rewrite Forall_forall in Hs. auto.
  Qed.

  Lemma tot_table t cs ctag :
    Forall sub_ok cs ->
    match cs with
    | h :: _ => match children h with
                | r :: _ => match children r with _ :: _ => true | [] => false end
                | [] => false
                end
    | [] => false
    end = true ->
    tot_prog (render_table C OR t (map bld cs)) ctag.
  Proof.
    intros H Hne. unfold render_table.
    destruct cs as [|header rest]; [discriminate|]. cbn [map].
    inversion H as [|? ? Hh Hr]; subst.
    rewrite rt_kids_build.
    destruct (children header) as [|hrow hrest] eqn:Eh; [discriminate|]. cbn [map].
    destruct (sub_ok_kids header Hh (kid_sec_false' header)) as [_ [_ Hhs]]. rewrite Eh in Hhs.
    inversion Hhs as [|? ? Hrow _]; subst.
    rewrite rt_kids_build.
    destruct (children hrow) as [|c1 crest] eqn:Ec; [discriminate|]. cbn [map].
    repeat tp_step.
    - apply tot_table_row. exact Hrow.
    - destruct rest as [|body rest']; cbn [map]; [exact I|].
      inversion Hr as [|? ? Hb _]; subst.
      repeat tp_step.
      destruct (sub_ok_kids body Hb (kid_sec_false' body)) as [_ [_ Hbs]].
      rewrite rt_kids_build. apply tot_seq_all_fr. rewrite map_map. apply Forall_map.
      apply Forall_forall. intros r Hin. split.
      + apply frameable_table_row. apply (build_frameable B C OR r).
      + apply tot_table_row. rewrite Forall_forall in Hbs. auto.
  Qed.

  Lemma tot_dd d ctag : sub_ok d -> tot_prog (render_dd (bld d)) ctag.
  Proof.
    intro H. destruct (sub_ok_kids d H (kid_sec_false' d)) as [Hk [Ht _]].
    unfold render_dd. rewrite rt_kids_build. repeat tp_step. apply (kids_tot (children d) false n_definition); auto.
  Qed.

  (* the grouping of a definition list whose children are dt / dd tokens starting with a dt *)
  Lemma dl_group_total cs :
    forallb (fun c => match kind_of (ty c) with KDt | KDd => true | _ => false end) cs = true ->
    exists lead groups, dl_group (map bld cs) = Good (lead, groups) /\
      (match cs with c :: _ => match kind_of (ty c) with KDt => True | _ => False end | [] => True end -> lead = []).
  Proof.
    induction cs as [|c cs IH]; intro H; cbn [map dl_group].
    - exists [], []. auto.
    - cbn [forallb] in H. apply andb_true_iff in H. destruct H as [Hc Hr].
      destruct (IH Hr) as [lead [groups [E _]]]. rewrite E. rewrite rt_tok_build.
      destruct (kind_of (ty c)); try discriminate Hc.
      + eexists _, _. split; [reflexivity | auto].
      + eexists _, _. split; [reflexivity | intros []].
  Qed.

  Lemma tot_dl_item g ctag :
    (exists d, fst g = bld d /\ sub_ok d) ->
    (forall r, In r (snd g) -> exists d, r = bld d /\ sub_ok d) ->
    tot_prog (render_dl_item g) ctag.
  Proof.
    intros [d [Ed Hd]] Hs. destruct (sub_ok_kids d Hd (kid_sec_false' d)) as [Hk [Ht _]].
    unfold render_dl_item. rewrite Ed, rt_kids_build. repeat tp_step.
    - apply (kids_tot (children d) false n_term); auto.
    - apply tot_seq_all_fr. apply Forall_map. apply Forall_forall. intros r Hr.
      destruct (Hs r Hr) as [d' [-> Hd']]. split.
      + apply (frameable_dd B C OR). apply (build_frameable B C OR d').
      + apply tot_dd. exact Hd'.
  Qed.

  Lemma fr_dl_item g ctag :
    (exists d, fst g = bld d /\ sub_ok d) ->
    (forall r, In r (snd g) -> exists d, r = bld d /\ sub_ok d) ->
    frameable (render_dl_item g) ctag.
  Proof.
    intros [d [Ed Hd]] Hs. apply (frameable_dl_item B C OR).
    - exists d. split; auto. apply (build_frameable B C OR d).
    - intros r Hr. destruct (Hs r Hr) as [d' [-> _]]. exists d'. split; auto. apply (build_frameable B C OR d').
  Qed.

  Lemma tot_field n b ctag :
    sub_ok n -> match b with Some b' => sub_ok b' | None => True end ->
    tot_prog (render_field (bld n) (option_map bld b)) ctag.
  Proof.
    intros Hn Hb. destruct (sub_ok_kids n Hn (kid_sec_false' n)) as [Hk [Ht _]].
    unfold render_field. rewrite rt_kids_build. repeat tp_step.
    - apply (kids_tot (children n) false n_field_name); auto.
    - destruct b as [b'|]; cbn [option_map]; [|exact I].
      destruct (sub_ok_kids b' Hb (kid_sec_false' b')) as [Hk' [Ht' _]].
      rewrite rt_kids_build. apply (kids_tot (children b') false n_field_body); auto.
  Qed.

  Lemma tot_field_loop cs ctag :
    Forall sub_ok cs -> field_static cs = true -> tot_prog (field_loop (map bld cs)) ctag.
  Proof.
    remember (length cs) as n eqn:En. revert cs En.
    induction n as [n IH] using lt_wf_ind. intros cs En H Hs.
    destruct cs as [|c1 cs]; cbn [map field_loop]; [exact I|].
    destruct cs as [|c2 cs]; [discriminate Hs|].
    cbn [field_static] in Hs. inversion H as [|? ? H1 Hr]; subst. inversion Hr as [|? ? H2 Hr2]; subst.
    rewrite rt_tok_build. destruct (kind_of (ty c1)); try discriminate Hs.
    cbn [map]. rewrite rt_tok_build. destruct (kind_of (ty c2)) eqn:K2; try discriminate Hs.
    apply tot_seq.
    - apply (frameable_field B C OR c1 (Some c2)); [apply (build_frameable B C OR c1) | apply (build_frameable B C OR c2)].
    - apply (tot_field c1 (Some c2)); auto.
    - apply (IH (length cs)); [cbn [length]; lia | reflexivity | exact Hr2 | exact Hs].
  Qed.

  Lemma has_key_assoc_some {V} k (l : list (str * V)) : has_key k l = true -> exists v, assoc k l = Some v.
  Proof. unfold has_key. destruct (assoc k l); [eauto | discriminate]. Qed.

  Lemma dyn_static_key t key :
    dyn_static B C OR t = true -> dyn_key C OR t = DKey key ->
    exists ns ws, o_dyn OR (dyn_full_key B key) = Some (ns, ws) /\ forallb dyn_node_ok ns = true.
  Proof.
    unfold dyn_static. intros H E. rewrite E in H.
    destruct (o_dyn OR (dyn_full_key B key)) as [[ns ws]|]; [eauto | discriminate].
  Qed.

  Theorem build_tot : forall t, all_sub tot_tok t.
  Proof.
    induction t as [ty0 tag0 attrs0 content0 markup0 info0 meta0 map0 cs IHcs] using tok_ind'.
    set (t := Tok ty0 tag0 attrs0 content0 markup0 info0 meta0 map0 cs).
    constructor; [|exact IHcs].
    assert (Hk : Forall tot_tok cs) by (eapply Forall_impl; [|exact IHcs]; apply all_sub_here).
    intros sec Htot ctag Hsec.
    rewrite total_tok_eq in Htot. apply andb_true_iff in Htot. destruct Htot as [Hkind Hkids].
    change (children t) with cs in Hkids.
    assert (Hsub : kid_sec sec t = false -> Forall sub_ok cs).
    { intro E. rewrite E in Hkids. apply Forall_forall. intros c Hin. split.
      - rewrite Forall_forall in IHcs. auto.
      - rewrite forallb_forall in Hkids. auto. }
    rewrite rt_run_build. change (children t) with cs.
    unfold dispatch. unfold total_kind_ok in Hkind. change (ty t) with ty0 in *.
    destruct (has_rule B ty0); cbn [negb] in *; [|repeat tp_step].
    unfold kid_sec in Hkids, Hsub. change (ty t) with ty0 in *.
    destruct (kind_of ty0) eqn:K; try discriminate Hkind.
    - (* paragraph *) unfold render_paragraph. apply tot_container; auto.
    - (* inline *) unfold render_inline. apply (kids_tot cs sec ctag); auto.
    - (* text *) unfold render_text. repeat tp_step.
    - (* softbreak *) unfold render_softbreak. repeat tp_step.
    - (* hardbreak *) unfold render_hardbreak. repeat tp_step.
    - (* em *) unfold render_em. repeat tp_step. apply (kids_tot cs false n_emphasis); auto.
    - (* strong *) unfold render_strong. repeat tp_step. apply (kids_tot cs false k_strong); auto.
    - (* s *) unfold render_s. repeat tp_step.
      pose proof gen_s_raws as Es. unfold spec_s_raws in Es. rewrite Es.
      apply tot_append_raws. apply tot_seq.
      + apply kids_frameable_transparent.
        * apply Forall_forall. intros c _. apply fr_of.
        * right. apply negb_true_iff in Hkind. exact Hkind.
      + apply (kids_tot cs sec ctag); auto.
      + apply tot_append_raws. exact I.
    - (* code_inline *) unfold render_code_inline. repeat tp_step.
    - (* code_block *)
      apply andb_true_iff in Hkind. destruct Hkind as [Hca Hinfo].
      unfold render_code_block. rewrite Hca. cbn [negb].
      destruct (is_empty (info t)); cbn [orb] in Hinfo.
      + repeat tp_step.
      + destruct (o_split OR (info t)); [discriminate|]. repeat tp_step.
    - (* fence *)
      apply andb_true_iff in Hkind. destruct Hkind as [Hca Hdyn].
      unfold render_fence. rewrite Hca. cbn [negb].
      change (match o_split OR (o_strip OR (info t)) with w :: _ => w | [] => [] end) with (info_name OR t).
      change (directive_arguments OR (info t)) with (info_arguments OR t).
      assert (Hdk : dyn_key C OR t =
                    match c_mode C with
                    | Myst => if str_eqb (info_name OR t) v_eval_rst then DUnsupported
                              else if braced (info_name OR t)
                                   then DKey [v_directive; strip_braces (info_name OR t); info_arguments OR t; content t]
                                   else DStatic
                    | _ => DStatic
                    end) by (unfold dyn_key; change (ty t) with ty0; rewrite K; reflexivity).
      destruct (c_mode C); cbn [andb]; try (repeat tp_step).
      destruct (str_eqb (info_name OR t) v_eval_rst).
      { unfold dyn_static in Hdyn. rewrite Hdk in Hdyn. discriminate. }
      unfold braced in Hdk. destruct (starts_brace (info_name OR t) && ends_brace (info_name OR t)).
      + destruct (dyn_static_key t _ Hdyn Hdk) as [ns [ws [E1 E2]]]. eapply tot_dyn_splice; eauto.
      + repeat tp_step.
    - (* blockquote *) unfold render_blockquote. apply negb_true_iff in Hkind. rewrite Hkind.
      apply tot_container; auto.
    - (* bullet_list *) unfold render_bullet_list. apply tot_container; auto.
    - (* ordered_list *) unfold render_ordered_list. apply tot_container; auto.
    - (* list_item *) unfold render_list_item. apply tot_container; auto.
    - (* hr *) unfold render_hr. repeat tp_step.
    - (* heading *)
      apply andb_true_iff in Hkind. destruct Hkind as [Hkind Hid].
      apply andb_true_iff in Hkind. destruct Hkind as [Hlev Htitle].
      unfold render_heading. destruct (heading_level (tag t)) as [level|]; [|discriminate].
      cbn [tot_prog]. rewrite Hsec. destruct sec; cbn [negb orb] in *.
      + (* section: a new section under its parent *)
        repeat tp_step.
        assert (Hopen : forall a1 a2 ms,
          tot_prog (OpenSection level (Elem a1 n_section a2 [])
                     (Ctx b0 n_title [] [] (render_children (map bld cs)) (fun title =>
                        ms1 <- heading_target C OR a1 n_section title ;
                        append_all (ms ++ ms1) Done))) ctag).
        { intros a1 a2 ms. cbn [tot_prog]. split.
          - apply (kids_tot cs false n_title); auto.
          - intros f5 cs5 f6 E5. split.
            + assert (Hc : clean (Elem b0 n_title [] ([] ++ cs5))).
              { apply astext_clean_elem; try reflexivity. cbn [app].
                eapply kids_clean; [| exact Htitle | exact E5].
                apply Forall_forall. intros c _. apply build_clean. }
              destruct (clean_some _ Hc) as [txt Et]. eapply ok_heading_target; eauto.
            + intros. apply tot_append_all. exact I. }
        cbn [tot_prog]. intro pl. destruct ((pl <? level) && negb (pl + 1 =? level)).
        * split; [apply reg_ok; constructor|]. intros f2 w f3 _. exact (Hopen b [] l).
        * exact (Hopen b [] l).
      + (* rubric *)
        apply negb_true_iff in Hid. repeat tp_step.
        * apply (kids_tot cs false n_rubric); auto.
        * unfold copy_attributes in H0. apply copy_loop_no_id in H0; [|apply no_id_plain; exact Hid]. subst l.
          assert (Hc : clean (Elem b n_rubric n ([] ++ cs0))).
          { apply astext_clean_elem; try reflexivity. cbn [app].
            eapply kids_clean; [| exact Htitle | eassumption].
            apply Forall_forall. intros c _. apply build_clean. }
          destruct (clean_some _ Hc) as [txt Et]. eapply ok_heading_target; eauto.
    - (* link *) apply tot_link; auto.
    - (* image *) unfold render_image. apply negb_true_iff in Hkind. rewrite Hkind. repeat tp_step.
    - (* html_block *)
      apply andb_true_iff in Hkind. destruct Hkind as [Hconv Hmap]. apply negb_true_iff in Hconv.
      unfold render_html_block. rewrite Hconv. destruct (map_ t); [|discriminate]. repeat tp_step.
    - (* html_inline *)
      apply andb_true_iff in Hkind. destruct Hkind as [Hconv Hmap]. apply negb_true_iff in Hconv.
      unfold render_html_inline, render_html_block. rewrite Hconv. destruct (map_ t); [|discriminate]. repeat tp_step.
    - (* table *)
      apply andb_true_iff in Hkind. destruct Hkind as [_ Hne]. apply tot_table; auto.
    - (* math_inline *) unfold render_math_inline. repeat tp_step.
    - (* math_inline_double *) unfold render_math_block. repeat tp_step.
    - (* math_single *) unfold render_math_inline. repeat tp_step.
    - (* math_block *) unfold render_math_block. repeat tp_step.
    - (* math_block_label *) unfold render_math_block_label, add_math_target. destruct (is_sphinx B); repeat tp_step.
    - (* amsmath *)
      unfold render_amsmath, add_math_target. destruct (has_key_assoc_some _ _ Hkind) as [v Ev]. rewrite Ev.
      destruct (is_sphinx B); [destruct (str_eqb v v_star)|]; repeat tp_step.
    - (* footnote_ref *)
      unfold render_footnote_ref. destruct (has_key_assoc_some _ _ Hkind) as [v Ev]. rewrite Ev.
      repeat tp_step. destruct (o_isdigit OR v); repeat tp_step.
    - (* footnote_reference *)
      unfold render_footnote_reference. destruct (has_key_assoc_some _ _ Hkind) as [v Ev]. rewrite Ev.
      repeat tp_step. destruct b; [repeat tp_step|]. repeat tp_step.
      destruct (o_isdigit OR v); repeat tp_step; apply (kids_tot cs false n_footnote); auto.
    - (* myst_target *) unfold render_myst_target. repeat tp_step.
    - (* myst_block_break *) unfold render_myst_block_break. repeat tp_step.
    - (* myst_line_comment *) unfold render_myst_line_comment. repeat tp_step.
    - (* dl *)
      apply andb_true_iff in Hkind. destruct Hkind as [Hns Hshape]. apply negb_true_iff in Hns.
      unfold dl_shape in Hshape. apply andb_true_iff in Hshape. destruct Hshape as [Hfirst Hall].
      change (children t) with cs in Hfirst, Hall.
      unfold render_dl. repeat tp_step. rewrite Hns, andb_false_r.
      destruct (dl_group_total cs Hall) as [lead [groups [Eg Hlead]]]. rewrite Eg.
      assert (lead = []).
      { apply Hlead. destruct cs as [|c cs']; [exact I|]. destruct (kind_of (ty c)); try discriminate Hfirst; exact I. }
      subst lead. repeat tp_step.
      destruct (dl_group_all B C OR sub_ok cs [] groups (Hsub eq_refl) Eg) as [_ Hg].
      apply tot_seq_all_fr. apply Forall_map. apply Forall_forall. intros g Hin.
      destruct (Hg g Hin) as [Hf Hs]. split; [apply fr_dl_item | apply tot_dl_item]; assumption.
    - (* field_list *)
      unfold render_field_list. repeat tp_step. apply tot_field_loop; auto.
    - (* span *) unfold render_span. apply tot_container; auto.
    - (* colon_fence *)
      unfold render_colon_fence.
      change (match o_split OR (o_strip OR (info t)) with w :: _ => w | [] => [] end) with (info_name OR t).
      change (directive_arguments OR (info t)) with (info_arguments OR t).
      assert (Hdk : dyn_key C OR t =
                    if braced (info_name OR t)
                    then DKey [v_directive; strip_braces (info_name OR t); info_arguments OR t;
                               if startswith (content t) v_colons then 10 :: content t else content t]
                    else DUnsupported) by (unfold dyn_key; change (ty t) with ty0; rewrite K; reflexivity).
      unfold braced in Hdk. destruct (starts_brace (info_name OR t) && ends_brace (info_name OR t)).
      + destruct (dyn_static_key t _ Hkind Hdk) as [ns [ws [E1 E2]]]. eapply tot_dyn_splice; eauto.
      + unfold dyn_static in Hkind. rewrite Hdk in Hkind. discriminate.
    - (* myst_role *)
      unfold render_myst_role.
      assert (Hdk : dyn_key C OR t = match assoc a_name (meta t) with
                                     | Some name => DKey [v_role; name; content t]
                                     | None => DUnsupported end)
        by (unfold dyn_key; change (ty t) with ty0; rewrite K; reflexivity).
      destruct (assoc a_name (meta t)) as [name|].
      + destruct (dyn_static_key t _ Hkind Hdk) as [ns [ws [E1 E2]]]. eapply tot_dyn_splice; eauto.
      + unfold dyn_static in Hkind. rewrite Hdk in Hkind. discriminate.
    - (* substitution_inline *)
      assert (Hdk : dyn_key C OR t = DKey [v_substitution; v_true; content t])
        by (unfold dyn_key; change (ty t) with ty0; rewrite K; reflexivity).
      destruct (dyn_static_key t _ Hkind Hdk) as [ns [ws [E1 E2]]]. eapply tot_dyn_splice; eauto.
    - (* substitution_block *)
      assert (Hdk : dyn_key C OR t = DKey [v_substitution; v_false; content t])
        by (unfold dyn_key; change (ty t) with ty0; rewrite K; reflexivity).
      destruct (dyn_static_key t _ Hkind Hdk) as [ns [ws [E1 E2]]]. eapply tot_dyn_splice; eauto.
    - (* front_matter *)
      assert (Hdk : dyn_key C OR t = DKey [k_front_matter; content t])
        by (unfold dyn_key; change (ty t) with ty0; rewrite K; reflexivity).
      destruct (dyn_static_key t _ Hkind Hdk) as [ns [ws [E1 E2]]]. eapply tot_dyn_splice; eauto.
  Qed.

  (* ---------------------------------------------------------------- the Python semantics, top level *)
  (* shape of a program run at section level: contexts do not open sections inside, headings have a level >= 1 *)
  Fixpoint spine (p : prog) (ctag : str) : Prop :=
    match p with
    | Done => True
    | Fail _ => True
    | @FOp A op k => forall b, spine (k b) ctag
    | Append _ k => spine k ctag
    | CurTag k => spine (k ctag) ctag
    | Ctx _ tg _ _ body k => frameable body tg /\ forall d, spine (k d) ctag
    | Detached _ tg _ _ body k => frameable body tg /\ forall d, spine (k d) ctag
    | LevelParent level k => 1 <= level /\ forall x, spine (k x) ctag
    | OpenSection level sec k =>
        1 <= level /\ (exists o a cs, sec = Elem o n_section a cs) /\ spine k n_section
    end.

  Lemma frameable_spine : forall p ctag, frameable p ctag -> spine p ctag.
  Proof.
    induction p as [| e | A op k IH | n k IH | k IH | o tg a cs0 body IHb k IHk | o tg a cs0 body IHb k IHk
                    | level k IH | level sec k IH]; cbn [frameable spine]; intros ctag H; auto;
      try (destruct H as [H1 H2]; split; auto); try contradiction.
  Qed.

  Lemma spine_seq_gen p q : forall ctag,
    spine p ctag -> (forall c, c = ctag \/ c = n_section -> spine q c) -> spine (seq p q) ctag.
  Proof.
    induction p as [| e | A op k IH | n k IH | k IH | o tg a cs0 body IHb k IHk | o tg a cs0 body IHb k IHk
                    | level k IH | level sec k IH]; cbn [seq spine]; intros ctag Hp Hq; auto.
    - destruct Hp as [Hb Hk]. split; auto.
    - destruct Hp as [Hb Hk]. split; auto.
    - destruct Hp as [Hl Hk]. split; auto.
    - destruct Hp as [Hl [Hs Hk]]. split; auto. split; auto. apply IH; auto.
      intros c Hc. apply Hq. right. destruct Hc as [Hc|Hc]; exact Hc.
  Qed.

  Definition has0 (lv : list (N * path)) : Prop := exists q, In (0, q) lv.

  Record good (s : istate) : Prop := mkGood {
    g_valid : st_valid s;
    g_has0 : has0 (lvl s);
    g_lvl : forall l q, In (l, q) (lvl s) -> valid q (tree s) = true
  }.

  Lemma parent_level_some {V} (lv : list (N * V)) level l0 v0 :
    In (l0, v0) lv -> l0 < level -> forall best, exists r, parent_level lv level best = Some r.
  Proof.
    induction lv as [|[x v] lv IH]; intros Hin Hl best; [contradiction|].
    cbn [parent_level]. destruct Hin as [E|Hin].
    - inversion E; subst. apply N.ltb_lt in Hl. rewrite Hl.
      (* from here on best is Some: the rest of the scan keeps a candidate *)
      assert (G : forall (lv' : list (N * V)) b, exists r, parent_level lv' level (Some b) = Some r).
      { induction lv' as [|[x' v'] lv' IH']; intro b; cbn [parent_level]; [eauto|].
        destruct (x' <? level); [|apply IH']. destruct b as [b1 b2]. destruct (b1 <? x'); apply IH'. }
      destruct best as [[b1 b2]|]; [destruct (b1 <? l0)|]; apply G.
    - destruct (x <? level); apply IH; auto.
  Qed.

  Lemma in_lvl_set {V} k (v : V) lv l q : In (l, q) (lvl_set k v lv) -> (l, q) = (k, v) \/ In (l, q) lv.
  Proof.
    induction lv as [|[k' v'] lv IH]; cbn [lvl_set]; intro H.
    - destruct H as [H|[]]. left. symmetry. exact H.
    - destruct (k =? k').
      + destruct H as [H|H]; [left; symmetry; exact H | right; right; exact H].
      + destruct H as [H|H]; [right; left; exact H|]. destruct (IH H) as [X|X]; [left; exact X | right; right; exact X].
  Qed.

  Lemma in_lvl_set_other {V} k (v : V) lv l q : In (l, q) lv -> l <> k -> In (l, q) (lvl_set k v lv).
  Proof.
    induction lv as [|[k' v'] lv IH]; cbn [lvl_set]; intros H Hn; [contradiction|].
    destruct (k =? k') eqn:E.
    - apply N.eqb_eq in E. subst k'. destruct H as [H|H]; [inversion H; subst; contradiction | right; exact H].
    - destruct H as [H|H]; [left; exact H | right; apply IH; auto].
  Qed.

  Definition i_res (r : outcome istate) : Prop :=
    (exists s', r = Good s' /\ good s') \/ (exists e, r = Bad e /\ reg_fail e).

  Theorem run_i_total : forall p s,
    tot_prog p (st_tag s) -> spine p (st_tag s) -> good s -> i_res (run_i p s).
  Proof.
    induction p as [| e | A op k IH | n k IH | k IH | o tg a cs0 body IHb k IHk | o tg a cs0 body IHb k IHk
                    | level k IH | level sec k IH]; intros s Ht Hs Hg; cbn [run_i tot_prog spine] in *.
    - left. eauto.
    - contradiction.
    - destruct Ht as [Ho Hk]. destruct Hg as [G2 G3 G4].
      destruct (op (fs s)) as [[b f1]|e] eqn:E.
      + apply (IH b (mkI (tree s) (cur s) (lvl s) f1)); [exact (Hk _ _ _ E) | exact (Hs b) | constructor; auto].
      + right. exists e. split; [reflexivity | eapply Ho; eauto].
    - destruct Hg as [G2 G3 G4].
      assert (Ht1 : tag_at (cur s) (app_at (cur s) [n] (tree s)) = st_tag s) by (apply tag_at_app_at; exact G2).
      apply (IH (mkI (app_at (cur s) [n] (tree s)) (cur s) (lvl s) (fs s))).
      + unfold st_tag; cbn [tree cur]. rewrite Ht1. exact Ht.
      + unfold st_tag; cbn [tree cur]. rewrite Ht1. exact Hs.
      + constructor; cbn [tree cur lvl fs]; auto.
        * unfold st_valid; cbn [tree cur]. apply valid_app_at. exact G2.
        * intros l q Hin. apply valid_app_at. eauto.
    - apply IH; auto.
    - destruct Ht as [Hb Hk]. destruct Hs as [Fb Fk]. destruct Hg as [G2 G3 G4].
      set (i := nchildren (cur s) (tree s)) in *.
      set (sb := mkI (app_at (cur s) [Elem o tg a cs0] (tree s)) (cur s ++ [i]) (lvl s) (fs s)).
      assert (Hgt : get_at (cur s ++ [i]) (app_at (cur s) [Elem o tg a cs0] (tree s)) = Some (Elem o tg a cs0))
        by (apply get_at_new_child; exact G2).
      assert (Hvb : st_valid sb) by (unfold st_valid, valid; cbn [tree cur sb]; rewrite Hgt; reflexivity).
      assert (Htb : st_tag sb = tg) by (unfold st_tag, tag_at; cbn [tree cur sb]; rewrite Hgt; reflexivity).
      destruct (run_f_total body tg Hb Fb (fs s)) as [[cs [f1 Ef]]|[e [Ef R]]].
      2:{ assert (Ei : run_i body sb = embed sb (Bad e)) by (apply refine; [exact Hvb | rewrite Htb; exact Ef]).
          rewrite Ei. cbn [embed]. right. eauto. }
      assert (Ei : run_i body sb = embed sb (Good (cs, f1))).
      { apply refine; [exact Hvb | rewrite Htb; exact Ef]. }
      rewrite Ei. cbn [embed tree cur lvl fs sb]. unfold i.
      rewrite app_at_under_new by exact G2.
      rewrite (get_at_new_child (cur s) (Elem o tg a (cs0 ++ cs)) (tree s) G2).
      assert (Ht2 : tag_at (cur s) (app_at (cur s) [Elem o tg a (cs0 ++ cs)] (tree s)) = st_tag s)
        by (apply tag_at_app_at; exact G2).
      apply (IHk (Elem o tg a (cs0 ++ cs))
                 (mkI (app_at (cur s) [Elem o tg a (cs0 ++ cs)] (tree s)) (cur s) (lvl s) f1)).
      + unfold st_tag; cbn [tree cur]. rewrite Ht2. exact (Hk _ _ _ Ef).
      + unfold st_tag; cbn [tree cur]. rewrite Ht2. apply Fk.
      + constructor; cbn [tree cur lvl fs]; auto.
        * unfold st_valid; cbn [tree cur]. apply valid_app_at. exact G2.
        * intros l q Hin. apply valid_app_at. eauto.
    - destruct Ht as [Hb Hk]. destruct Hs as [Fb Fk]. destruct Hg as [G2 G3 G4].
      set (sd := mkI (Elem o tg a cs0) [] (lvl s) (fs s)).
      assert (Hvd : st_valid sd) by reflexivity.
      assert (Htd : st_tag sd = tg) by reflexivity.
      destruct (run_f_total body tg Hb Fb (fs s)) as [[cs [f1 Ef]]|[e [Ef R]]].
      2:{ assert (Ei : run_i body sd = embed sd (Bad e)) by (apply refine; [exact Hvd | rewrite Htd; exact Ef]).
          rewrite Ei. cbn [embed]. right. eauto. }
      assert (Ei : run_i body sd = embed sd (Good (cs, f1))).
      { apply refine; [exact Hvd | rewrite Htd; exact Ef]. }
      rewrite Ei. cbn [embed tree cur lvl fs sd app_at].
      apply (IHk (Elem o tg a (cs0 ++ cs)) (mkI (tree s) (cur s) (lvl s) f1)).
      + exact (Hk _ _ _ Ef).
      + apply Fk.
      + constructor; auto.
    - destruct Hs as [Hl Hk]. destruct Hg as [G2 [q0 G3] G4].
      destruct (parent_level_some (lvl s) level 0 q0 G3 ltac:(lia) None) as [[pl pp] E]. rewrite E.
      apply IH; [apply Ht | apply Hk | constructor; auto; exists q0; exact G3].
    - destruct Hs as [Hl [[o [a [cs ->]]] Hk]]. destruct Hg as [G2 [q0 G3] G4].
      destruct (parent_level_some (lvl s) level 0 q0 G3 ltac:(lia) None) as [[pl pp] E]. rewrite E.
      destruct (parent_level_max (lvl s) level None (pl, pp) E ltac:(intros b X; discriminate X)) as [_ [Hin _]].
      destruct Hin as [Hin|X]; [|discriminate X].
      pose proof (G4 pl pp Hin) as Hvp.
      set (i := nchildren pp (tree s)).
      assert (Hgt : get_at (pp ++ [i]) (app_at pp [Elem o n_section a cs] (tree s)) = Some (Elem o n_section a cs))
        by (apply get_at_new_child; exact Hvp).
      apply IH.
      + unfold st_tag, tag_at; cbn [tree cur]. fold i. rewrite Hgt. exact Ht.
      + unfold st_tag, tag_at; cbn [tree cur]. fold i. rewrite Hgt. exact Hk.
      + constructor; cbn [tree cur lvl fs]; auto.
        * unfold st_valid, valid; cbn [tree cur]. fold i. rewrite Hgt. reflexivity.
        * exists q0. apply filter_In. split; [|cbn [fst]; apply N.leb_le; lia].
          apply in_lvl_set_other; [exact G3 | lia].
        * intros l q Hq. apply filter_In in Hq. destruct Hq as [Hq _].
          apply in_lvl_set in Hq. destruct Hq as [Hq|Hq].
          -- inversion Hq; subst. unfold valid. fold i. rewrite Hgt. reflexivity.
          -- apply valid_app_at. eauto.
  Qed.

  Lemma spine_append_all ns k ctag : spine k ctag -> spine (append_all ns k) ctag.
  Proof. induction ns; simpl; auto. Qed.

  Lemma spine_heading t cs ctag :
    match heading_level (tag t) with Some l => 1 <=? l | None => false end = true ->
    spine (render_heading C OR t (map bld cs)) ctag.
  Proof.
    intro Hl. unfold render_heading. destruct (heading_level (tag t)) as [level|]; [|exact I].
    apply N.leb_le in Hl. cbn [spine].
    assert (Hfr : forall tg, is_section_tag tg = false -> frameable (render_children (map bld cs)) tg).
    { intros tg Htg. apply kids_frameable; [|exact Htg]. apply Forall_forall. intros c _. apply fr_of. }
    destruct (negb (is_section_tag ctag)); cbn [spine].
    - intros o [a msgs]. cbn [spine]. split; [apply Hfr; reflexivity|]. intros d ms. exact I.
    - intros o ot [a msgs]. cbn [spine]. split; [exact Hl|]. intros [pl|]; [|exact I].
      assert (Hopen : forall a' ms, spine (OpenSection level (Elem o n_section a' [])
                        (Ctx ot n_title [] [] (render_children (map bld cs)) (fun title =>
                           ms1 <- heading_target C OR o n_section title ;
                           append_all (ms ++ ms1) Done))) ctag).
      { intros a' ms. cbn [spine]. split; [exact Hl|]. split; [eauto|].
        split; [apply Hfr; reflexivity|]. intros d ms1. apply spine_append_all. exact I. }
      destruct (_ && negb _); cbn [spine]; [intro w|]; apply Hopen.
  Qed.

  Definition top_spine (t : tok) : Prop := forall c, is_section_tag c = true -> spine (rt_run (bld t)) c.

  Lemma top_spine_of t : top_static t = true -> total_kind_ok true t = true -> top_spine t.
  Proof.
    intros Htop Hk c Hc. unfold top_static in Htop.
    assert (Hfr : opens_section t = false -> spine (rt_run (bld t)) c).
    { intro Ho. apply frameable_spine. apply fr_of. right. exact Ho. }
    destruct (kind_of (ty t)) eqn:K; try (apply Hfr; apply negb_true_iff in Htop; exact Htop).
    rewrite rt_run_build. unfold dispatch. unfold total_kind_ok in Hk.
    destruct (has_rule B (ty t)); cbn [negb] in *.
    - rewrite K in *. apply andb_true_iff in Hk. destruct Hk as [Hk _]. apply andb_true_iff in Hk. destruct Hk as [Hk _].
      apply spine_heading. exact Hk.
    - cbn [spine]. intro w. exact I.
  Qed.

  Lemma spine_tokens ts : Forall top_spine ts ->
    forall c, is_section_tag c = true -> spine (seq_all (map rt_run (map bld ts))) c.
  Proof.
    induction 1 as [|t ts Ht _ IH]; intros c Hc; cbn [map seq_all]; [exact I|].
    apply spine_seq_gen; [apply Ht; exact Hc|]. intros c' [E|E]; subst c'; apply IH; auto.
  Qed.

  Definition total_forest (ts : list tok) : bool := forallb top_static ts && forallb (total_tok true) ts.

  Lemma dup_ref_warnings_total n : forall acc f,
    (exists ws f', dup_ref_warnings n acc f = Good (ws, f')) \/ (exists e, dup_ref_warnings n acc f = Bad e /\ reg_fail e).
  Proof.
    induction n as [|n IH]; intros acc f; cbn [dup_ref_warnings]; [left; eexists _, _; reflexivity|].
    unfold fbind. destruct (create_warning w_duplicate_def f) as [[w f1]|e] eqn:E.
    - apply IH.
    - right. exists e. split; [reflexivity|]. eapply (reg_ok _ _ (ra_warning w_duplicate_def)); eauto.
  Qed.

  Theorem render_state_total ts : total_forest ts = true ->
    (exists s, render_state B C OR ts = Good s) \/ (exists e, render_state B C OR ts = Bad e /\ reg_fail e).
  Proof.
    intros Ht. unfold total_forest in Ht. apply andb_true_iff in Ht. destruct Ht as [Htop Htot].
    assert (Hg : good s_init).
    { constructor; cbn [s_init fs lvl tree]; auto.
      - reflexivity.
      - exists []. left. reflexivity.
      - intros l q [E|[]]. inversion E; subst. reflexivity. }
    assert (Htag : st_tag s_init = n_document) by reflexivity.
    unfold render_state.
    destruct (run_i_total (render_tokens B C OR ts) s_init) as [[s1 [E1 G1]]|[e [E1 R]]]; auto.
    - rewrite Htag. unfold render_tokens. apply (kids_tot ts true n_document); [|exact Htot|reflexivity].
      apply Forall_forall. intros t _. apply (all_sub_here _ _ (build_tot t)).
    - rewrite Htag. unfold render_tokens, render_children. apply spine_tokens; [|reflexivity].
      apply Forall_forall. intros t Hin. rewrite forallb_forall in Htop, Htot.
      apply top_spine_of; [apply Htop; exact Hin|].
      pose proof (Htot t Hin) as X. rewrite total_tok_eq in X. apply andb_true_iff in X. tauto.
    - rewrite E1.
      destruct (dup_ref_warnings_total (N.to_nat (c_dup_refs C)) [] (fs s1)) as [[ws [f' E2]]|[e [E2 R]]]; rewrite E2.
      + left. eauto.
      + right. eauto.
    - rewrite E1. right. eauto.
  Qed.
End Total.

(* TOTALITY UP TO THE REGISTRY: a forest of the narrowed static grammar is rendered, or an operation of the
   registry interface returned the error *)
Theorem render_doc_total : forall B C OR ts,
  total_forest B C OR ts = true ->
  (exists doc ws, render_doc B C OR ts = Good (doc, ws)) \/
  (exists e, render_doc B C OR ts = Bad e /\ reg_fail C OR e).
Proof.
  intros B C OR ts Ht. unfold render_doc.
  destruct (render_state_total B C OR ts Ht) as [[s E]|[e [E R]]]; rewrite E; [left; eauto | right; eauto].
Qed.
