(* Token tree = markdown_it.tree.SyntaxTreeNode (after _render_tokens' +1 on map). *)
From Coq Require Import List NArith Bool.
From MV Require Import Base.PyStr.
From MV Require Import Doc.Str.
Import ListNotations.
Open Scope N_scope.

Inductive tok : Type :=
  Tok (ty tag : str) (attrs : list (str * str)) (content markup info : str)
      (meta : list (str * str)) (map : option (N * N)) (children : list tok).

Definition ty (t : tok) : str := match t with Tok x _ _ _ _ _ _ _ _ => x end.
Definition tag (t : tok) : str := match t with Tok _ x _ _ _ _ _ _ _ => x end.
Definition attrs (t : tok) : list (str * str) := match t with Tok _ _ x _ _ _ _ _ _ => x end.
Definition content (t : tok) : str := match t with Tok _ _ _ x _ _ _ _ _ => x end.
Definition markup (t : tok) : str := match t with Tok _ _ _ _ x _ _ _ _ => x end.
Definition info (t : tok) : str := match t with Tok _ _ _ _ _ x _ _ _ => x end.
Definition meta (t : tok) : list (str * str) := match t with Tok _ _ _ _ _ _ x _ _ => x end.
Definition map_ (t : tok) : option (N * N) := match t with Tok _ _ _ _ _ _ _ x _ => x end.
Definition children (t : tok) : list tok := match t with Tok _ _ _ _ _ _ _ _ x => x end.

(* token.attrGet(k) *)
Definition attr_get (t : tok) (k : str) : option str := assoc k (attrs t).

Section tok_induction.
  Variable P : tok -> Prop.
  Hypothesis H : forall ty tag attrs content markup info meta map cs,
      Forall P cs -> P (Tok ty tag attrs content markup info meta map cs).
  Fixpoint tok_ind' (t : tok) : P t :=
    match t with
    | Tok a b c d e f g h cs =>
        H a b c d e f g h cs
          ((fix go (l : list tok) : Forall P l :=
              match l with
              | [] => Forall_nil P
              | x :: r => Forall_cons x (tok_ind' x) (go r)
              end) cs)
    end.
End tok_induction.

Fixpoint tok_size (t : tok) : nat :=
  match t with Tok _ _ _ _ _ _ _ _ cs => S (fold_right (fun c n => tok_size c + n)%nat O cs) end.
