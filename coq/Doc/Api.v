(* The registry interface of the renderer.  Every state operation a render program performs is one of
   a fixed list (`api`): allocation of a node object, the docutils registry calls (set_id through
   note_explicit_target / note_*footnote*, names), warnings, and the splice of oracle nodes.  Hence an
   invariant of the render state that each of these operations preserves holds after rendering
   (`render_state_inv`): the registry can be reasoned about as a named interface. *)
From Coq Require Import List NArith Bool Lia Arith Wf_nat.
From MV Require Import Base.PyStr.
From MV Require Import Base.Res.
From MV Require Import Doc.Str.
From MV Require Import Doc.Tok.
From MV Require Import Doc.Node.
From MV Require Import Doc.Registry.
From MV Require Import Doc.Prog.
From MV Require Import Doc.Refine.
From MV Require Import Gen.Render.
From MV Require Import Doc.Render.
From MV Require Import Doc.RenderProofs.
Import ListNotations.
Open Scope N_scope.

(* no equation label / numbered amsmath environment under Sphinx: the two constructs whose target node is
   created with a preset id (SphinxRenderer.add_math_target) *)
Fixpoint preset_free (B : backend) (t : tok) : bool :=
  match t with
  | Tok ty _ _ _ _ _ _ _ cs =>
      (negb (is_sphinx B) || match kind_of ty with KMathBlockLabel | KAmsmath => false | _ => true end)
      && forallb (preset_free B) cs
  end.

Lemma preset_free_eq B t :
  preset_free B t = (negb (is_sphinx B) || match kind_of (ty t) with KMathBlockLabel | KAmsmath => false | _ => true end)
                    && forallb (preset_free B) (children t).
Proof. destruct t. reflexivity. Qed.

Section Api.
  Variable B : backend.
  Variable C : cfg.
  Variable OR : oracles.
  Variable allow_preset : bool.

  Inductive api : forall A : Type, fop A -> Prop :=
  | api_alloc : api N alloc
  | api_warning tag : api node (create_warning tag)
  | api_log tag : api unit (log_warning tag)
  | api_logs ws : api unit (log_warnings ws)
  | api_copy t o tg keys al a : api (nattrs * list node) (copy_attributes C OR t o tg keys al a)
  | api_note_target o tg e : api (list node) (note_target' C OR o tg e)
  | api_heading_target o tg title : api (list node) (heading_target C OR o tg title)
  | api_add_name o tg nm : api unit (add_name o tg nm)
  | api_set_refuri o tg u : api unit (set_refuri o tg u)
  | api_note_footnote o tg : api unit (note_footnote (o_make_id OR) (c_auto_id_prefix C) o tg)
  | api_note_autofootnote o tg : api unit (note_autofootnote (o_make_id OR) (c_auto_id_prefix C) o tg)
  | api_note_footnote_ref o tg nm : api unit (note_footnote_ref (o_make_id OR) (c_auto_id_prefix C) o tg nm)
  | api_note_autofootnote_ref o tg : api unit (note_autofootnote_ref (o_make_id OR) (c_auto_id_prefix C) o tg)
  | api_set_id_nomsg o tg : api unit (set_id_nomsg (o_make_id OR) (c_auto_id_prefix C) o tg)
  | api_is_defined target : api bool (is_footnote_defined target)
  | api_next_uuid : api N next_uuid
  | api_relabel ns : api (list node) (relabel_all ns)
  | api_preset ot l : allow_preset = true -> api unit (preset_ids ot l).

  Fixpoint api_prog (p : prog) : Prop :=
    match p with
    | Done => True
    | Fail _ => True
    | @FOp A op k => api A op /\ forall b, api_prog (k b)
    | Append _ k => api_prog k
    | CurTag k => forall t, api_prog (k t)
    | Ctx _ _ _ _ body k => api_prog body /\ forall d, api_prog (k d)
    | Detached _ _ _ _ body k => api_prog body /\ forall d, api_prog (k d)
    | LevelParent _ k => forall x, api_prog (k x)
    | OpenSection _ _ k => api_prog k
    end.

  (* ---- an invariant preserved by the interface is preserved by every program over it ---- *)
  Section Inv.
    Variable I : fstate -> Prop.
    Hypothesis HI : forall A (op : fop A), api A op -> forall f a f', I f -> op f = Good (a, f') -> I f'.

    Theorem run_i_inv : forall p, api_prog p -> forall s s', I (fs s) -> run_i p s = Good s' -> I (fs s').
    Proof.
      induction p as [| e | A op k IH | n k IH | k IH | o tg a cs0 body IHb k IHk | o tg a cs0 body IHb k IHk
                      | level k IH | level sec k IH]; intros Hp s s' Hi H; cbn [run_i] in H.
      - inversion H; subst. exact Hi.
      - discriminate.
      - destruct Hp as [Ha Hk]. destruct (op (fs s)) as [[b f']|e] eqn:E; [|discriminate].
        eapply (IH b (Hk b)); [|exact H]. cbn [fs]. eapply HI; eauto.
      - eapply (IH Hp); [|exact H]. exact Hi.
      - eapply (IH _ (Hp _)); [|exact H]. exact Hi.
      - destruct Hp as [Hb Hk].
        match type of H with match ?X with _ => _ end = _ => destruct X as [s1|e] eqn:E1; [|discriminate] end.
        destruct (get_at _ (tree s1)) as [done|]; [|discriminate].
        eapply (IHk done (Hk done)); [|exact H]. cbn [fs]. eapply (IHb Hb); [|exact E1]. exact Hi.
      - destruct Hp as [Hb Hk].
        match type of H with match ?X with _ => _ end = _ => destruct X as [s1|e] eqn:E1; [|discriminate] end.
        eapply (IHk _ (Hk _)); [|exact H]. cbn [fs]. eapply (IHb Hb); [|exact E1]. exact Hi.
      - eapply (IH _ (Hp _)); [|exact H]. exact Hi.
      - destruct (parent_level (lvl s) level None) as [[l pp]|]; [|discriminate].
        eapply (IH Hp); [|exact H]. exact Hi.
    Qed.
  End Inv.

  (* ---- every render program is a program over the interface ---- *)
  Lemma api_seq p q : api_prog p -> api_prog q -> api_prog (seq p q).
  Proof.
    induction p as [| e | A op k IH | n k IH | k IH | o tg a cs0 body IHb k IHk | o tg a cs0 body IHb k IHk
                    | level k IH | level sec k IH]; cbn [seq api_prog]; intros Hp Hq; auto.
    - destruct Hp as [Ha Hk]. split; auto.
    - destruct Hp as [Hb Hk]. split; auto.
    - destruct Hp as [Hb Hk]. split; auto.
  Qed.

  Lemma api_seq_all ps : Forall api_prog ps -> api_prog (seq_all ps).
  Proof. induction 1; cbn [seq_all]; [exact I | apply api_seq; auto]. Qed.

  Lemma api_append_all ns k : api_prog k -> api_prog (append_all ns k).
  Proof. induction ns; simpl; auto. Qed.

  Lemma api_new_text_elem tg a txt k : (forall n, api_prog (k n)) -> api_prog (new_text_elem tg a txt k).
  Proof.
    intros H. unfold new_text_elem. cbn [api_prog]. split; [constructor|]. intro o.
    destruct (is_empty txt); cbn [api_prog]; auto. split; [constructor|]. auto.
  Qed.

  Lemma api_append_raws l k : api_prog k -> api_prog (append_raws l k).
  Proof.
    revert k; induction l as [|[fmt txt] l IH]; intros k H; cbn [append_raws]; auto.
    apply api_new_text_elem. intro n. cbn [api_prog]. apply IH. exact H.
  Qed.

  Lemma api_lex_nodes l : forall acc k, (forall cs, api_prog (k cs)) -> api_prog (lex_nodes l acc k).
  Proof.
    induction l as [|[cls v] l IH]; intros acc k H; cbn [lex_nodes]; auto.
    destruct cls.
    - cbn [api_prog]. split; [constructor|]. intro o. apply IH. exact H.
    - apply api_new_text_elem. intro n. apply IH. exact H.
  Qed.

  Lemma api_chcb text lexer k :
    (forall n, api_prog (k n)) -> api_prog (create_highlighted_code_block B C OR text lexer k).
  Proof.
    intro H. unfold create_highlighted_code_block.
    destruct (is_sphinx B).
    - apply api_new_text_elem. exact H.
    - cbn [api_prog]. split; [constructor|]. intro o. destruct (c_highlight C).
      + destruct (o_lex OR _ _); cbn [api_prog]; [|split; [constructor|]; intros _];
          apply api_lex_nodes; intro cs; apply H.
      + apply api_lex_nodes; intro cs; apply H.
  Qed.

  Lemma api_colspecs n w k : api_prog k -> api_prog (colspecs n w k).
  Proof. induction n; simpl; auto. intro H. split; [constructor|]. intro o. auto. Qed.

  Lemma api_dyn_splice key : api_prog (dyn_splice B OR key).
  Proof.
    unfold dyn_splice. destruct (o_dyn OR _) as [[ns ws]|]; [|exact I].
    destruct (forallb dyn_node_ok ns); [|exact I].
    cbn [api_prog]. split; [constructor|]. intros _. split; [constructor|]. intro ns'.
    apply api_append_all. exact I.
  Qed.

  Definition tok_api (t : tok) : Prop :=
    allow_preset = true \/ preset_free B t = true -> api_prog (rt_run (build B C OR t)).

  Lemma kids_api cs : Forall tok_api cs -> allow_preset = true \/ forallb (preset_free B) cs = true ->
    api_prog (render_children (map (build B C OR) cs)).
  Proof.
    intros H Hp. unfold render_children. apply api_seq_all.
    rewrite map_map. apply Forall_map. rewrite Forall_forall in *. intros t Hin. apply H; auto.
    destruct Hp as [Hp|Hp]; [left; exact Hp|right]. rewrite forallb_forall in Hp. auto.
  Qed.

  Ltac ap_step :=
    match goal with
    | |- forall _, _ => intro
    | |- _ /\ _ => split
    | |- True => exact I
    | |- api _ _ => solve [constructor]
    | |- api_prog Done => exact I
    | |- api_prog (Fail _) => exact I
    | |- api_prog (FOp _ _) => cbn [api_prog]
    | |- api_prog (Append _ _) => cbn [api_prog]
    | |- api_prog (CurTag _) => cbn [api_prog]
    | |- api_prog (LevelParent _ _) => cbn [api_prog]
    | |- api_prog (OpenSection _ _ _) => cbn [api_prog]
    | |- api_prog (Ctx _ _ _ _ _ _) => cbn [api_prog]
    | |- api_prog (Detached _ _ _ _ _ _) => cbn [api_prog]
    | |- api_prog (new_text_elem _ _ _ _) => apply api_new_text_elem
    | |- api_prog (append_raws _ _) => apply api_append_raws
    | |- api_prog (append_all _ _) => apply api_append_all
    | |- api_prog (dyn_splice _ _ _) => apply api_dyn_splice
    | |- api_prog (append_text _ _) => unfold append_text
    | |- api_prog (create_highlighted_code_block _ _ _ _ _ _) => apply api_chcb
    | |- api_prog (colspecs _ _ _) => apply api_colspecs
    | |- api_prog (seq _ _) => apply api_seq
    | |- api_prog (render_children (map (build _ _ _) _)) => apply kids_api; assumption
    | |- api_prog (if ?x then _ else _) => destruct x
    | |- api_prog (match ?x with _ => _ end) => destruct x
    end.

  Lemma api_container t cs tg a0 keys :
    Forall tok_api cs -> allow_preset = true \/ forallb (preset_free B) cs = true ->
    api_prog (container C OR t (map (build B C OR) cs) tg a0 keys).
  Proof. intros H Hp. unfold container. repeat ap_step. Qed.

  Section Links.
    Variable t : tok.
    Variable cs : list tok.
    Hypothesis H : Forall tok_api cs.
    Hypothesis Hp : allow_preset = true \/ forallb (preset_free B) cs = true.

    Lemma api_link_url : api_prog (render_link_url C OR t (map (build B C OR) cs)).
    Proof. unfold render_link_url. repeat ap_step. Qed.

    Lemma api_link_anchor tgt : api_prog (render_link_anchor C OR t (map (build B C OR) cs) tgt).
    Proof. unfold render_link_anchor. repeat ap_step. Qed.

    Lemma api_wrap o tg a0 cls pd : api_prog (process_wrap_node C OR t (map (build B C OR) cs) o tg a0 cls pd).
    Proof. unfold process_wrap_node. repeat ap_step. Qed.

    Lemma api_link_unknown : api_prog (render_link_unknown B C OR t (map (build B C OR) cs)).
    Proof.
      unfold render_link_unknown. destruct (is_sphinx B).
      - destruct (split_hash _ _) as [pd pid]. cbn [api_prog]. split; [constructor|]. intro o.
        destruct (o_path2doc OR pd) as [[d|]|]; try apply api_wrap.
        destruct (match pid with Some _ => o_docjoin OR pd | None => None end); apply api_wrap.
      - repeat ap_step.
    Qed.

    Lemma api_link_path : api_prog (render_link_path B C OR t (map (build B C OR) cs)).
    Proof.
      unfold render_link_path. destruct (is_sphinx B).
      - destruct (negb _ && negb _); cbn [api_prog]; (split; [constructor|]); intro x;
          [apply api_link_url | apply api_wrap].
      - cbn [api_prog]. split; [constructor|]. intro w. apply api_link_url.
    Qed.

    Lemma api_link_project : api_prog (render_link_project B C OR t (map (build B C OR) cs)).
    Proof.
      unfold render_link_project.
      destruct (startswith _ [35%N]); [apply api_link_anchor|].
      destruct (is_sphinx B).
      - destruct (split_hash _ _) as [pd pid].
        destruct (o_p2d_raw OR pd) as [d|]; cbn [api_prog]; (split; [constructor|]); intro x;
          [apply api_wrap | apply api_link_url].
      - cbn [api_prog]. split; [constructor|]. intro w. apply api_link_url.
    Qed.

    Lemma api_link : api_prog (render_link B C OR t (map (build B C OR) cs)).
    Proof.
      unfold render_link. generalize link_dispatch. intro l.
      induction l as [|lt l IH]; cbn [link_dispatch_loop].
      - apply api_link_unknown.
      - destruct (link_test_apply B C OR lt t _) as [p|] eqn:E; [|exact IH].
        unfold link_test_apply in E.
        destruct lt;
          repeat match type of E with
                 | (if ?x then _ else _) = _ => destruct x
                 | match ?x with _ => _ end = _ => destruct x
                 end; inversion E; subst;
          first [ apply api_link_url | apply api_link_anchor | apply api_link_path | apply api_link_project
                | exact I ].
    Qed.
  End Links.

  Definition sub_pf (t : tok) : Prop := allow_preset = true \/ preset_free B t = true.

  Lemma sub_pf_kids t : sub_pf t -> allow_preset = true \/ forallb (preset_free B) (children t) = true.
  Proof.
    intros [Hh|Hh]; [left; exact Hh|right]. rewrite preset_free_eq in Hh. apply andb_true_iff in Hh. tauto.
  Qed.

  Lemma sub_pf_in t c : sub_pf t -> In c (children t) -> sub_pf c.
  Proof.
    intros Hs Hin. destruct (sub_pf_kids t Hs) as [Hh|Hh]; [left; exact Hh|right].
    rewrite forallb_forall in Hh. auto.
  Qed.

  Lemma api_table_cell c : all_sub tok_api c -> sub_pf c -> api_prog (render_table_cell (build B C OR c)).
  Proof.
    intros H Hp. unfold render_table_cell. rewrite rt_kids_build, rt_tok_build.
    pose proof (all_sub_kids_here _ _ H) as Hk. pose proof (sub_pf_kids c Hp) as Hpk. repeat ap_step.
  Qed.

  Lemma api_table_row r : all_sub tok_api r -> sub_pf r -> api_prog (render_table_row (build B C OR r)).
  Proof.
    intros H Hp. unfold render_table_row. rewrite rt_kids_build. cbn [api_prog]. split; [constructor|]. intro o.
    split; [|intro; exact I]. apply api_seq_all. rewrite map_map. apply Forall_map.
    apply Forall_forall. intros c Hin. apply api_table_cell.
    - pose proof (all_sub_kids _ _ H) as Hk. rewrite Forall_forall in Hk. auto.
    - eapply sub_pf_in; eauto.
  Qed.

  Lemma api_table t cs :
    Forall (all_sub tok_api) cs -> Forall sub_pf cs -> api_prog (render_table C OR t (map (build B C OR) cs)).
  Proof.
    intros H Hp. unfold render_table.
    destruct cs as [|header rest]; cbn [map]; [exact I|].
    inversion H as [|? ? Hh Hr]; subst. inversion Hp as [|? ? Ph Pr]; subst.
    rewrite rt_kids_build.
    destruct (children header) as [|hrow hrest] eqn:Eh; cbn [map]; [exact I|].
    pose proof (all_sub_kids _ _ Hh) as Hhk. rewrite Eh in Hhk. inversion Hhk as [|? ? Hrow _]; subst.
    assert (Prow : sub_pf hrow) by (apply (sub_pf_in header); [exact Ph | rewrite Eh; left; reflexivity]).
    rewrite rt_kids_build.
    destruct (children hrow) as [|c1 crest] eqn:Ec; cbn [map]; [exact I|].
    cbn [api_prog]. split; [constructor|]. intro o. split; [constructor|]. intros [a msgs].
    split; [|intro; exact I].
    split; [constructor|]. intro og. split; [|intro; exact I].
    apply api_colspecs. cbn [api_prog]. split; [constructor|]. intro oh. split.
    - apply api_table_row; assumption.
    - intro d. destruct rest as [|body rest']; cbn [map]; [exact I|].
      inversion Hr as [|? ? Hb _]; subst. inversion Pr as [|? ? Pb _]; subst.
      cbn [api_prog]. split; [constructor|]. intro ob. split; [|intro; exact I].
      rewrite rt_kids_build. apply api_seq_all. rewrite map_map. apply Forall_map.
      apply Forall_forall. intros r Hin. apply api_table_row.
      + pose proof (all_sub_kids _ _ Hb) as Hk. rewrite Forall_forall in Hk. auto.
      + eapply sub_pf_in; eauto.
  Qed.

  Lemma api_dd d : all_sub tok_api d -> sub_pf d -> api_prog (render_dd (build B C OR d)).
  Proof.
    intros H Hp. unfold render_dd. rewrite rt_kids_build. pose proof (all_sub_kids_here _ _ H) as Hk.
    pose proof (sub_pf_kids d Hp) as Hpk. repeat ap_step.
  Qed.

  Lemma api_dl_item g :
    (exists d, fst g = build B C OR d /\ (all_sub tok_api d /\ sub_pf d)) ->
    (forall r, In r (snd g) -> exists d, r = build B C OR d /\ (all_sub tok_api d /\ sub_pf d)) ->
    api_prog (render_dl_item g).
  Proof.
    intros [d [Ed [Hd Pd]]] Hs. unfold render_dl_item. rewrite Ed, rt_kids_build.
    pose proof (all_sub_kids_here _ _ Hd) as Hk. pose proof (sub_pf_kids d Pd) as Hpk.
    cbn [api_prog]. split; [constructor|]. intro oi. split; [constructor|]. intro ot.
    cbn [api_prog]. split; [|intro; exact I]. split.
    - apply kids_api; assumption.
    - intro term. cbn [api_prog]. apply api_seq_all. apply Forall_map. apply Forall_forall.
      intros r Hr. destruct (Hs r Hr) as [d' [Er [Hd' Pd']]]. subst r. apply api_dd; assumption.
  Qed.

  Lemma api_field n b :
    all_sub tok_api n -> sub_pf n ->
    match b with Some b' => all_sub tok_api b' /\ sub_pf b' | None => True end ->
    api_prog (render_field (build B C OR n) (option_map (build B C OR) b)).
  Proof.
    intros Hn Pn Hb. unfold render_field. rewrite rt_kids_build.
    pose proof (all_sub_kids_here _ _ Hn) as Hk. pose proof (sub_pf_kids n Pn) as Hpk.
    cbn [api_prog]. split; [constructor|]. intro of. split; [constructor|]. intro on.
    cbn [api_prog]. split; [|intro; exact I]. split.
    - apply kids_api; assumption.
    - intro d. split; [constructor|]. intro ob. cbn [api_prog]. split; [|intro; exact I].
      destruct b as [b'|]; cbn [option_map]; [|exact I]. destruct Hb as [Hb Pb].
      rewrite rt_kids_build. apply kids_api; [apply all_sub_kids_here; exact Hb | apply sub_pf_kids; exact Pb].
  Qed.

  Lemma api_field_loop cs :
    Forall (fun c => all_sub tok_api c /\ sub_pf c) cs -> api_prog (field_loop (map (build B C OR) cs)).
  Proof.
    remember (length cs) as n eqn:En. revert cs En.
    induction n as [n IH] using lt_wf_ind. intros cs En H.
    destruct cs as [|c1 cs]; cbn [map field_loop]; [exact I|].
    inversion H as [|? ? [H1 P1] Hr]; subst.
    rewrite rt_tok_build. destruct (kind_of (ty c1)); try exact I.
    destruct cs as [|c2 cs]; cbn [map].
    - apply (api_field c1 None); auto.
    - inversion Hr as [|? ? [H2 P2] Hr2]; subst. rewrite rt_tok_build.
      assert (IHr : api_prog (field_loop (map (build B C OR) (c2 :: cs))))
        by (apply (IH (length (c2 :: cs))); [cbn [length]; lia | reflexivity | exact Hr]).
      assert (IHr2 : api_prog (field_loop (map (build B C OR) cs)))
        by (apply (IH (length cs)); [cbn [length]; lia | reflexivity | exact Hr2]).
      destruct (kind_of (ty c2));
        try (apply api_seq; [ apply (api_field c1 None); auto | exact IHr ]).
      apply api_seq; [ apply (api_field c1 (Some c2)); auto | exact IHr2 ].
  Qed.

  Theorem build_api : forall t, all_sub tok_api t.
  Proof.
    induction t as [ty0 tag0 attrs0 content0 markup0 info0 meta0 map0 cs IHcs] using tok_ind'.
    set (t := Tok ty0 tag0 attrs0 content0 markup0 info0 meta0 map0 cs).
    constructor; [|exact IHcs].
    assert (Hk : Forall tok_api cs) by (eapply Forall_impl; [|exact IHcs]; apply all_sub_here).
    intro Hpf.
    assert (Hp : allow_preset = true \/ forallb (preset_free B) cs = true) by (apply (sub_pf_kids t); exact Hpf).
    assert (Hkp : Forall (fun c => all_sub tok_api c /\ sub_pf c) cs).
    { apply Forall_forall. intros c Hin. split.
      - rewrite Forall_forall in IHcs. auto.
      - apply (sub_pf_in t); auto. }
    assert (Hps : Forall sub_pf cs) by (eapply Forall_impl; [|exact Hkp]; intros c [_ X]; exact X).
    rewrite rt_run_build. change (children t) with cs.
    unfold dispatch. change (ty t) with ty0.
    destruct (has_rule B ty0); cbn [negb]; [|repeat ap_step].
    destruct (kind_of ty0) eqn:K; try exact I.
    - (* paragraph *) apply api_container; auto.
    - (* inline *) unfold render_inline. apply kids_api; auto.
    - (* text *) unfold render_text. repeat ap_step.
    - (* softbreak *) unfold render_softbreak. repeat ap_step.
    - (* hardbreak *) unfold render_hardbreak. repeat ap_step.
    - (* em *) unfold render_em. repeat ap_step.
    - (* strong *) unfold render_strong. repeat ap_step.
    - (* s *) unfold render_s. cbn [api_prog]. split; [constructor|]. intro w.
      destruct s_raws as [|r1 [|r2 [|? ?]]]; try exact I.
      apply api_append_raws. apply api_seq.
      + apply kids_api; auto.
      + apply api_append_raws. exact I.
    - (* code_inline *) unfold render_code_inline. repeat ap_step.
    - (* code_block *) unfold render_code_block. repeat ap_step.
    - (* fence *) unfold render_fence. repeat ap_step.
    - (* blockquote *) unfold render_blockquote. destruct (has_key _ _); [exact I|].
      apply api_container; auto.
    - (* bullet_list *) apply api_container; auto.
    - (* ordered_list *) apply api_container; auto.
    - (* list_item *) apply api_container; auto.
    - (* hr *) unfold render_hr. repeat ap_step.
    - (* heading *) unfold render_heading. repeat ap_step.
    - (* link *) apply api_link; auto.
    - (* image *) unfold render_image. repeat ap_step.
    - (* html_block *) unfold render_html_block. repeat ap_step.
    - (* html_inline *) unfold render_html_inline, render_html_block. repeat ap_step.
    - (* table *) apply api_table; auto.
    - (* math_inline *) unfold render_math_inline. repeat ap_step.
    - (* math_inline_double *) unfold render_math_block. repeat ap_step.
    - (* math_single *) unfold render_math_inline. repeat ap_step.
    - (* math_block *) unfold render_math_block. repeat ap_step.
    - (* math_block_label *)
      assert (Hx : allow_preset = true \/ is_sphinx B = false).
      { destruct Hpf as [Hh|Hh]; [left; exact Hh|right]. rewrite preset_free_eq in Hh.
        change (ty t) with ty0 in Hh. rewrite K in Hh. destruct (is_sphinx B); [discriminate|reflexivity]. }
      unfold render_math_block_label, add_math_target.
      destruct Hx as [Hx|Hx]; [|rewrite Hx]; repeat ap_step; constructor; exact Hx.
    - (* amsmath *)
      assert (Hx : allow_preset = true \/ is_sphinx B = false).
      { destruct Hpf as [Hh|Hh]; [left; exact Hh|right]. rewrite preset_free_eq in Hh.
        change (ty t) with ty0 in Hh. rewrite K in Hh. destruct (is_sphinx B); [discriminate|reflexivity]. }
      unfold render_amsmath, add_math_target.
      destruct Hx as [Hx|Hx]; [|rewrite Hx]; repeat ap_step; constructor; exact Hx.
    - (* footnote_ref *) unfold render_footnote_ref. repeat ap_step.
    - (* footnote_reference *) unfold render_footnote_reference. repeat ap_step.
    - (* myst_target *) unfold render_myst_target. repeat ap_step.
    - (* myst_block_break *) unfold render_myst_block_break. repeat ap_step.
    - (* myst_line_comment *) unfold render_myst_line_comment. repeat ap_step.
    - (* dl *)
      unfold render_dl. cbn [api_prog]. split; [constructor|]. intro o. split; [constructor|]. intros [a msgs].
      destruct (_ && _); [exact I|].
      destruct (dl_group (map (build B C OR) cs)) as [[lead groups]|e] eqn:Eg; [|exact I].
      destruct lead; [|exact I].
      destruct (dl_group_all B C OR (fun c => all_sub tok_api c /\ sub_pf c) cs [] groups Hkp Eg) as [_ Hg].
      cbn [api_prog]. split; [|intro; exact I].
      apply api_seq_all. apply Forall_map. apply Forall_forall. intros g Hin.
      destruct (Hg g Hin) as [Hf Hs]. apply api_dl_item; assumption.
    - (* field_list *)
      unfold render_field_list. cbn [api_prog]. split; [constructor|]. intro o. split; [constructor|].
      intros [a msgs]. cbn [api_prog].
      split; [|intro; exact I]. apply api_field_loop. exact Hkp.
    - (* span *) apply api_container; auto.
    - (* colon_fence *) unfold render_colon_fence. repeat ap_step.
    - (* myst_role *) unfold render_myst_role. repeat ap_step.
    - (* substitution_inline *) apply api_dyn_splice.
    - (* substitution_block *) apply api_dyn_splice.
    - (* front_matter *) apply api_dyn_splice.
  Qed.

  (* the whole rendering: children of the root, then the duplicate-reference warnings *)
  Lemma dup_ref_warnings_inv (I : fstate -> Prop) :
    (forall A (op : fop A), api A op -> forall f a f', I f -> op f = Good (a, f') -> I f') ->
    forall n acc f ws f', I f -> dup_ref_warnings n acc f = Good (ws, f') -> I f'.
  Proof.
    intros HI. induction n as [|n IH]; intros acc f ws f' Hi H; cbn [dup_ref_warnings] in H.
    - inversion H; subst. exact Hi.
    - unfold fbind in H. destruct (create_warning w_duplicate_def f) as [[w f1]|e] eqn:E; [|discriminate].
      eapply IH; [|exact H]. eapply (HI _ _ (api_warning w_duplicate_def)); eauto.
  Qed.

  Theorem render_state_inv (I : fstate -> Prop) :
    (forall A (op : fop A), api A op -> forall f a f', I f -> op f = Good (a, f') -> I f') ->
    I f_init ->
    forall ts s, allow_preset = true \/ forallb (preset_free B) ts = true ->
      render_state B C OR ts = Good s -> I (fs s).
  Proof.
    intros HI H0 ts s Hp H. unfold render_state in H.
    destruct (run_i (render_tokens B C OR ts) (s_init)) as [s1|e] eqn:E; [|discriminate].
    destruct (dup_ref_warnings _ _ (fs s1)) as [[ws f']|e] eqn:Ed; [|discriminate].
    inversion H; subst. cbn [fs].
    eapply dup_ref_warnings_inv; [exact HI| |exact Ed].
    apply (run_i_inv I HI (render_tokens B C OR ts)) with (s := s_init); [|exact H0|exact E].
    unfold render_tokens. apply kids_api; [|exact Hp].
    apply Forall_forall. intros t _. apply (all_sub_here _ _ (build_api t)).
  Qed.
End Api.
