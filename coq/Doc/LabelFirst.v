(* C03 "a footnote starts with its label", at the point where render_footnote_reference creates the node
   (PARTIAL: the clause for the whole document after the transforms is measured, Backends.xform_check).
   A footnote definition is dropped with a warning (duplicate label), or exactly one footnote node is appended and
     - a manually numbered one ([^1]) is created with its label as FIRST child - the messages of its registration
       (note_explicit_target) and the content come after it;
     - an auto-numbered one ([^a]) is created only after it has been registered in document.autofootnotes - the list
       docutils' Footnotes transform iterates to insert the label in front (Transforms.number_footnotes:
       insert_first) - and carries auto=1. *)
From Coq Require Import List NArith Bool.
From MV Require Import Base.PyStr.
From MV Require Import Base.Res.
From MV Require Import Doc.Str.
From MV Require Import Doc.Tok.
From MV Require Import Doc.Node.
From MV Require Import Doc.Registry.
From MV Require Import Doc.Prog.
From MV Require Import Gen.Render.
From MV Require Import Doc.Render.
From MV Require Import Doc.OpsProofs.
From MV Require Import Doc.Post.
From MV Require Import Doc.PostProofs.
Import ListNotations.
Open Scope N_scope.

(* operations that leave document.autofootnotes alone *)
Definition kaf {A} (op : fop A) : Prop := forall f a f', op f = Good (a, f') -> autofootnotes f' = autofootnotes f.

Lemma kaf_fret {A} (a : A) : kaf (fret a).
Proof. intros f x f' H. inversion H; subst. reflexivity. Qed.

Lemma kaf_bind {A B} (m : fop A) (k : A -> fop B) : kaf m -> (forall a, kaf (k a)) -> kaf (fbind m k).
Proof.
  intros Hm Hk f b f' H. unfold fbind in H. destruct (m f) as [[a f1]|e] eqn:E; [|discriminate].
  rewrite (Hk a f1 b f' H). eapply Hm; eauto.
Qed.

Lemma kaf_upd {A} (a : fstate -> A) (g : fstate -> fstate) :
  (forall f, autofootnotes (g f) = autofootnotes f) -> kaf (fun f => Good (a f, g f)).
Proof. intros Hg f x f' H. inversion H; subst. apply Hg. Qed.

Lemma kaf_alloc : kaf alloc.
Proof. intros f x f' H. unfold alloc in H. inversion H; subst. reflexivity. Qed.
Lemma kaf_mk_sysmsg lv tag : kaf (mk_sysmsg lv tag).
Proof. unfold mk_sysmsg. apply kaf_bind; [apply kaf_alloc | intro; apply kaf_fret]. Qed.
Lemma kaf_put_rec o r : kaf (put_rec o r).
Proof. intros f x f' H. unfold put_rec in H. inversion H; subst. reflexivity. Qed.
Lemma kaf_dupname o nm : kaf (dupname o nm).
Proof.
  intros f x f' H. unfold dupname in H. destruct (nassoc o (objs f)); [|discriminate].
  destruct (mem_str nm (nr_names n)); [|discriminate]. eapply kaf_put_rec; eauto.
Qed.
Lemma kaf_lookup_obj i : kaf (lookup_obj i).
Proof. intros f x f' H. unfold lookup_obj in H. destruct (assoc i (ids f)); inversion H; subst. reflexivity. Qed.
Lemma kaf_rec_of o : kaf (rec_of o).
Proof. intros f x f' H. unfold rec_of in H. destruct (nassoc o (objs f)); inversion H; subst. reflexivity. Qed.

Ltac kaf_go :=
  repeat first
    [ apply kaf_fret | apply kaf_alloc | apply kaf_mk_sysmsg | apply kaf_dupname | apply kaf_lookup_obj | apply kaf_rec_of
    | (apply kaf_upd; intro; reflexivity)
    | (apply kaf_bind; [|intro])
    | match goal with
      | |- kaf (if ?c then _ else _) => destruct c
      | |- kaf (match ?x with _ => _ end) => destruct x
      end ].

Section Reg.
  Variable make_id : str -> str.
  Variable aip : str.

  Lemma kaf_set_duplicate_name_id o i name explicit : kaf (set_duplicate_name_id o i name explicit).
  Proof.
    intros f x f' H. unfold set_duplicate_name_id in H.
    destruct (assoc name (nameids f)) as [old_id|]; [|discriminate].
    destruct (assoc name (nametypes f)) as [old_explicit|]; [|discriminate].
    match type of H with ?m ?f0 = _ => assert (K : kaf m); [|rewrite (K _ _ _ H); reflexivity] end.
    kaf_go.
  Qed.

  Lemma kaf_set_name_id_map o i names explicit : forall msgs, kaf (set_name_id_map o i names explicit msgs).
  Proof.
    induction names as [|name r IH]; intro msgs; cbn [set_name_id_map]; [apply kaf_fret|].
    intros f x f' H. destruct (has_key name (nameids f)).
    - revert H. generalize f x f'. change (kaf (ms <-- set_duplicate_name_id o i name explicit ;;
                                                 set_name_id_map o i r explicit (msgs ++ ms))).
      apply kaf_bind; [apply kaf_set_duplicate_name_id | intro; apply IH].
    - rewrite (IH _ _ _ _ H). reflexivity.
  Qed.

  Lemma kaf_register_ids o l : forall msgs, kaf (register_ids o l msgs).
  Proof.
    induction l as [|i r IH]; intro msgs; cbn [register_ids]; [apply kaf_fret|].
    intros f x f' H. destruct (assoc i (ids f)) as [o'|].
    - destruct (o' =? o); [eapply IH; eauto|].
      revert H. generalize f x f'. change (kaf (m <-- mk_sysmsg 4 k_dupid ;; register_ids o r (msgs ++ [m]))).
      apply kaf_bind; [apply kaf_mk_sysmsg | intro; apply IH].
    - rewrite (IH _ _ _ _ H). reflexivity.
  Qed.

  Lemma kaf_set_id o tg : kaf (set_id make_id aip o tg).
  Proof.
    intros f [i msgs] f' H. unfold set_id in H.
    destruct (nr_ids (get_rec o tg f)) as [|i0 l0].
    - destruct (name_loop make_id (nr_names (get_rec o tg f)) [] [] f) as [[broke base] i1].
      destruct broke.
      + inversion H; subst. reflexivity.
      + destruct (counter_loop _ _ _ _) as [[i2 c']|e]; [|discriminate]. inversion H; subst. reflexivity.
    - destruct (register_ids o (i0 :: l0) [] f) as [[ms f1]|e] eqn:Eg; [|discriminate].
      inversion H; subst. eapply kaf_register_ids; eauto.
  Qed.

  Lemma kaf_note_target o tg explicit : kaf (note_target make_id aip o tg explicit).
  Proof.
    unfold note_target. apply kaf_bind; [apply kaf_set_id|]. intros [i m1].
    apply kaf_bind; [intros f x f' H; inversion H; subst; reflexivity|].
    intro r. apply kaf_bind; [apply kaf_set_name_id_map|]. intro. apply kaf_fret.
  Qed.
End Reg.

Lemma note_target_keeps_autofootnotes C OR o tg e f ms f' x :
  note_target' C OR o tg e f = Good (ms, f') -> In x (autofootnotes f) -> In x (autofootnotes f').
Proof. intros H Hin. unfold note_target' in H. rewrite (kaf_note_target _ _ _ _ _ _ _ _ H). exact Hin. Qed.

Section LabelFirst.
  Variable C : cfg.
  Variable OR : oracles.

  Theorem footnote_created_label_first : forall (t : tok) (ks : list rt) ctag f ns f',
    run_f (render_footnote_reference C OR t ks) ctag f = Some (Good (ns, f')) ->
    (exists w, ns = [w] /\ tag_of w = k_system_message) \/
    exists o a cs, ns = [Elem o n_footnote a cs] /\
      ((exists lbl rest, cs = lbl :: rest /\ tag_of lbl = n_label /\ assoc a_auto a = None) \/
       (assoc a_auto a = Some [v_one] /\
        exists f2 cs', In o (autofootnotes f2) /\ run_f (render_children ks) n_footnote f2 = Some (Good (cs', f')))).
  Proof.
    intros t ks ctag f ns f' H. unfold render_footnote_reference in H.
    destruct (assoc a_label (meta t)) as [target|]; [|apply run_f_Fail_inv in H; contradiction].
    apply run_f_FOp_inv in H. destruct H as [dup [f0 [Ed H]]]. destruct dup.
    - left. apply run_f_FOp_inv in H. destruct H as [w [f1 [Ew H]]].
      apply run_f_Append_inv in H. destruct H as [ns' [-> H]]. apply run_f_Done_inv in H. destruct H as [-> ->].
      exists w. split; [reflexivity|]. apply create_warning_post in Ew. destruct Ew as [-> _]. reflexivity.
    - right. apply run_f_FOp_inv in H. destruct H as [o [f1 [Ea H]]].
      apply run_f_FOp_inv in H. destruct H as [u [f2 [En H]]].
      destruct (o_isdigit OR target).
      + apply run_new_text_elem in H. destruct H as [ol [lbl [f3 [Hte H]]]].
        apply run_f_FOp_inv in H. destruct H as [u2 [f4 [Ef H]]].
        apply run_f_FOp_inv in H. destruct H as [ms [f5 [Et H]]].
        apply run_f_Ctx_inv in H. destruct H as [cs [f6 [ns' [Hb [Hd ->]]]]].
        apply run_f_Done_inv in Hd. destruct Hd as [-> ->].
        exists o, [], ((lbl :: ms) ++ cs). split; [reflexivity|]. left.
        exists lbl, (ms ++ cs). split; [reflexivity|]. split; [|reflexivity].
        destruct Hte as [fa [_ [[_ [-> _]]|[ot [_ ->]]]]]; reflexivity.
      + apply run_f_FOp_inv in H. destruct H as [u2 [f4 [Ef H]]].
        apply run_f_FOp_inv in H. destruct H as [ms [f5 [Et H]]].
        apply run_f_Ctx_inv in H. destruct H as [cs [f6 [ns' [Hb [Hd ->]]]]].
        apply run_f_Done_inv in Hd. destruct Hd as [-> ->].
        exists o, [(a_auto, [v_one])], (ms ++ cs). split; [reflexivity|]. right. split; [reflexivity|].
        exists f5, cs. split; [|exact Hb].
        (* registered by note_autofootnote; note_explicit_target does not touch the list *)
        assert (Haf : In o (autofootnotes f4)).
        { unfold note_autofootnote, fbind in Ef.
          destruct (set_id_nomsg (o_make_id OR) (c_auto_id_prefix C) o n_footnote f2) as [[x fx]|e]; [|discriminate].
          inversion Ef; subst. cbn [autofootnotes set_autofootnotes]. apply in_or_app. right. left. reflexivity. }
        revert Haf. apply note_target_keeps_autofootnotes with (1 := Et).
  Qed.
End LabelFirst.
