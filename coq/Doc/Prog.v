(* The renderer's control structure as a small instruction set, with two semantics:
   run_i : the Python semantics - a document tree, a current-node path, the section level map;
           `Ctx` is current_node_context (append, descend, restore), `OpenSection` is the
           permanent move of render_heading;
   run_f : a functional reading - the list of nodes a program appends to the current node.
   Refine.v proves run_i = "append what run_f returns at the current path" for every program. *)
From Coq Require Import List NArith Bool.
From MV Require Import Base.PyStr.
From MV Require Import Base.Res.
From MV Require Import Doc.Str.
From MV Require Import Doc.Node.
From MV Require Import Doc.Registry.
Import ListNotations.
Open Scope N_scope.

Inductive prog : Type :=
| Done
| Fail (e : err)
| FOp (B : Type) (op : fop B) (k : B -> prog)          (* state operation that does not touch the tree *)
| Append (n : node) (k : prog)                         (* self.current_node.append(n) *)
| CurTag (k : str -> prog)                             (* type(self.current_node) *)
| Ctx (o : N) (tg : str) (a : nattrs) (cs0 : list node) (body : prog) (k : node -> prog)
      (* n = Elem o tg a cs0;  with current_node_context(n, append=True): body;  k receives the finished node *)
| Detached (o : N) (tg : str) (a : nattrs) (cs0 : list node) (body : prog) (k : node -> prog)
      (* with current_node_context(n): body, where n is not (yet) in the tree *)
| LevelParent (level : N) (k : option N -> prog)       (* max(l for l in _level_to_section if level > l) *)
| OpenSection (level : N) (sec : node) (k : prog).     (* update_section_level_state + current_node = section *)

Arguments FOp {B} op k.

Fixpoint seq (p q : prog) : prog :=
  match p with
  | Done => q
  | Fail e => Fail e
  | FOp op k => FOp op (fun b => seq (k b) q)
  | Append n k => Append n (seq k q)
  | CurTag k => CurTag (fun t => seq (k t) q)
  | Ctx o tg a cs0 b k => Ctx o tg a cs0 b (fun x => seq (k x) q)
  | Detached o tg a cs0 b k => Detached o tg a cs0 b (fun x => seq (k x) q)
  | LevelParent l k => LevelParent l (fun x => seq (k x) q)
  | OpenSection l s k => OpenSection l s (seq k q)
  end.

Fixpoint seq_all (ps : list prog) : prog :=
  match ps with
  | [] => Done
  | p :: r => seq p (seq_all r)
  end.

Notation "x <- m ; k" := (FOp m (fun x => k)) (at level 61, m at next level, right associativity).
Notation "' p <- m ; k" := (FOp m (fun p => k)) (at level 61, p pattern, m at next level, right associativity).

Fixpoint append_all (ns : list node) (k : prog) : prog :=
  match ns with
  | [] => k
  | n :: r => Append n (append_all r k)
  end.

(* ---------------- imperative semantics ---------------- *)
Record istate := mkI { tree : node; cur : path; lvl : list (N * path); fs : fstate }.

(* max(section_level for section_level in self._level_to_section if level > section_level) *)
Fixpoint parent_level {V : Type} (l : list (N * V)) (level : N) (best : option (N * V)) : option (N * V) :=
  match l with
  | [] => best
  | (x, v) :: r =>
      if x <? level
      then parent_level r level (match best with
                                 | Some (b, _) => if b <? x then Some (x, v) else best
                                 | None => Some (x, v)
                                 end)
      else parent_level r level best
  end.

Fixpoint lvl_set {V : Type} (k : N) (v : V) (l : list (N * V)) : list (N * V) :=
  match l with
  | [] => [(k, v)]
  | (k', v') :: r => if k =? k' then (k, v) :: r else (k', v') :: lvl_set k v r
  end.

Fixpoint run_i (p : prog) (s : istate) : outcome istate :=
  match p with
  | Done => Good s
  | Fail e => Bad e
  | FOp op k =>
      match op (fs s) with
      | Good (b, f') => run_i (k b) (mkI (tree s) (cur s) (lvl s) f')
      | Bad e => Bad e
      end
  | Append n k => run_i k (mkI (app_at (cur s) [n] (tree s)) (cur s) (lvl s) (fs s))
  | CurTag k => run_i (k (tag_at (cur s) (tree s))) s
  | Ctx o tg a cs0 body k =>
      let p0 := cur s in
      let i := nchildren p0 (tree s) in
      match run_i body (mkI (app_at p0 [Elem o tg a cs0] (tree s)) (p0 ++ [i]) (lvl s) (fs s)) with
      | Good s1 =>
          match get_at (p0 ++ [i]) (tree s1) with
          | Some done => run_i (k done) (mkI (tree s1) p0 (lvl s1) (fs s1))
          | None => Bad EModel
          end
      | Bad e => Bad e
      end
  | Detached o tg a cs0 body k =>
      match run_i body (mkI (Elem o tg a cs0) [] (lvl s) (fs s)) with
      | Good s1 => run_i (k (tree s1)) (mkI (tree s) (cur s) (lvl s) (fs s1))
      | Bad e => Bad e
      end
  | LevelParent level k =>
      run_i (k (match parent_level (lvl s) level None with Some (l, _) => Some l | None => None end)) s
  | OpenSection level sec k =>
      match parent_level (lvl s) level None with
      | None => Bad (EPy ValueError)                    (* max() of an empty sequence *)
      | Some (_, pp) =>
          let i := nchildren pp (tree s) in
          let newp := pp ++ [i] in
          run_i k (mkI (app_at pp [sec] (tree s)) newp
                       (filter (fun x => fst x <=? level) (lvl_set level newp (lvl s)))
                       (fs s))
      end
  end.

(* ---------------- functional semantics ---------------- *)
(* None = the program opens a section (not expressible as "append these nodes here") *)
Fixpoint run_f (p : prog) (ctag : str) (f : fstate) : option (outcome (list node * fstate)) :=
  match p with
  | Done => Some (Good ([], f))
  | Fail e => Some (Bad e)
  | FOp op k =>
      match op f with
      | Good (b, f') => run_f (k b) ctag f'
      | Bad e => Some (Bad e)
      end
  | Append n k =>
      match run_f k ctag f with
      | Some (Good (ns, f')) => Some (Good (n :: ns, f'))
      | Some (Bad e) => Some (Bad e)
      | None => None
      end
  | CurTag k => run_f (k ctag) ctag f
  | Ctx o tg a cs0 body k =>
      match run_f body tg f with
      | Some (Good (cs, f1)) =>
          let done := Elem o tg a (cs0 ++ cs) in
          match run_f (k done) ctag f1 with
          | Some (Good (ns, f2)) => Some (Good (done :: ns, f2))
          | Some (Bad e) => Some (Bad e)
          | None => None
          end
      | Some (Bad e) => Some (Bad e)
      | None => None
      end
  | Detached o tg a cs0 body k =>
      match run_f body tg f with
      | Some (Good (cs, f1)) => run_f (k (Elem o tg a (cs0 ++ cs))) ctag f1
      | Some (Bad e) => Some (Bad e)
      | None => None
      end
  | LevelParent _ _ => None
  | OpenSection _ _ _ => None
  end.

(* a program that never reaches a section-opening step when run under a node with tag ctag *)
Fixpoint frameable (p : prog) (ctag : str) : Prop :=
  match p with
  | Done => True
  | Fail _ => True
  | FOp op k => forall b, frameable (k b) ctag
  | Append _ k => frameable k ctag
  | CurTag k => frameable (k ctag) ctag
  | Ctx _ tg _ _ body k => frameable body tg /\ forall d, frameable (k d) ctag
  | Detached _ tg _ _ body k => frameable body tg /\ forall d, frameable (k d) ctag
  | LevelParent _ _ => False
  | OpenSection _ _ _ => False
  end.
