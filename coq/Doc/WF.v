(* Well-formedness predicates of a docutils tree (the clauses of property C03), as boolean
   functions on the identity-labelled tree model. *)
From Coq Require Import List NArith Bool.
From MV Require Import Base.PyStr.
From MV Require Import Doc.Str.
From MV Require Import Doc.Node.
From MV Require Import Doc.Render.
Import ListNotations.
Open Scope N_scope.

(* "each node has exactly one parent and occurs once": no allocation number is reachable twice *)
Definition single_occurrence (doc : node) : Prop := NoDup (oids doc).

(* sections occur only directly under the document or another section and start with a title *)
Fixpoint sections_ok (ptag : str) (n : node) : bool :=
  match n with
  | Text _ _ => true
  | Elem _ tg _ cs =>
      (if str_eqb tg n_section
       then is_section_tag ptag && match cs with c :: _ => str_eqb (tag_of c) n_title | [] => false end
       else true)
      && forallb (sections_ok tg) cs
  end.

(* transitions occur only directly under the document or a section *)
Fixpoint transitions_ok (ptag : str) (n : node) : bool :=
  match n with
  | Text _ _ => true
  | Elem _ tg _ cs =>
      (if str_eqb tg n_transition then is_section_tag ptag else true)
      && forallb (transitions_ok tg) cs
  end.

(* every table row has exactly as many cells as the table declares columns *)
Definition count_tag (tg : str) (cs : list node) : nat :=
  length (filter (fun c => str_eqb (tag_of c) tg) cs).

Definition row_ok (ncols : nat) (r : node) : bool :=
  negb (str_eqb (tag_of r) n_row) || Nat.eqb (count_tag n_entry (kids_of r)) ncols.

Definition tgroup_ok (a : nattrs) (cs : list node) : bool :=
  let ncols := count_tag n_colspec cs in
  match assoc a_cols a with
  | Some [c] => str_eqb c (show (N.of_nat ncols))
  | _ => false
  end
  && forallb (fun sec => if str_eqb (tag_of sec) n_thead || str_eqb (tag_of sec) n_tbody
                         then forallb (row_ok ncols) (kids_of sec) else true) cs.

Fixpoint rows_ok (n : node) : bool :=
  match n with
  | Text _ _ => true
  | Elem _ tg a cs =>
      (if str_eqb tg n_tgroup then tgroup_ok a cs else true) && forallb rows_ok cs
  end.

(* oracles that answer nothing: enough for documents whose rendering asks no library function *)
Definition dummy_oracles : oracles :=
  mkO (fun _ => []) (fun s => s) (fun s => s) (fun s => s) (fun _ => false) (fun s => s)
      (fun _ _ => None) (fun s => s) (fun s => s) (fun _ => None) (fun _ => None)
      (fun _ => None) (fun _ => false) (fun _ => []) (fun _ => None).

Definition default_cfg : cfg :=
  mkCfg Myst false [] true false [] false [37] 0 true true.

Definition mk_tok (ty : str) (cs : list Tok.tok) : Tok.tok :=
  Tok.Tok ty [] [] [] [] [] [] (Some (1, 2)) cs.
