(* The modelled transforms keep every node single: they add freshly allocated nodes, change
   attributes, move a footnote (remove + append) and, under Sphinx, replace a reference by a
   pending_xref around its children - no allocation number becomes reachable twice. *)
From Coq Require Import List NArith Bool Lia Permutation.
From MV Require Import Base.PyStr.
From MV Require Import Base.Res.
From MV Require Import Doc.Str.
From MV Require Import Doc.Tok.
From MV Require Import Doc.Node.
From MV Require Import Doc.Registry.
From MV Require Import Doc.Prog.
From MV Require Import Doc.Render.
From MV Require Import Doc.Transforms.
From MV Require Import Doc.OpsProofs.
Import ListNotations.
Open Scope N_scope.

Lemma NoDup_app_disjoint {A} (a b : list A) : NoDup (a ++ b) -> forall x, In x a -> In x b -> False.
Proof.
  induction a as [|y a IH]; intros H x Ha Hb; [destruct Ha|].
  simpl in H. inversion H as [|? ? Hn Hd]; subst. destruct Ha as [->|Ha].
  - apply Hn. apply in_or_app. right. exact Hb.
  - eapply IH; eauto.
Qed.

Lemma NoDup_app_l {A} (a b : list A) : NoDup (a ++ b) -> NoDup a.
Proof.
  induction a as [|y a IH]; intro H; [constructor|]. simpl in H. inversion H as [|? ? Hn Hd]; subst.
  constructor; [|apply IH; exact Hd]. intro X. apply Hn. apply in_or_app. left. exact X.
Qed.

Lemma NoDup_app_r {A} (a b : list A) : NoDup (a ++ b) -> NoDup b.
Proof. induction a as [|y a IH]; intro H; auto. simpl in H. inversion H; subst. auto. Qed.

(* ---- oids under the tree operations addressed by identity ---- *)
Lemma map_oid_notin o f : forall t, ~ In o (oids t) -> map_oid o f t = t.
Proof.
  induction t as [o' s|o' tg a cs IH] using node_ind'; intro H; cbn [map_oid oid_of].
  - destruct (o' =? o) eqn:E; auto. apply N.eqb_eq in E. subst. exfalso. apply H. simpl. auto.
  - destruct (o' =? o) eqn:E.
    + apply N.eqb_eq in E. subst. exfalso. apply H. simpl. auto.
    + f_equal. cbn [oids] in H. assert (Hc : ~ In o (flat_map oids cs)) by (intro X; apply H; right; exact X).
      clear H E. induction IH as [|c cs Hc' _ IHc]; cbn [map]; auto. cbn [flat_map] in Hc.
      rewrite Hc' by (intro X; apply Hc; apply in_or_app; left; exact X).
      rewrite IHc by (intro X; apply Hc; apply in_or_app; right; exact X). reflexivity.
Qed.

Lemma oids_map_oid_same o f : (forall n, oids (f n) = oids n) -> forall t, oids (map_oid o f t) = oids t.
Proof.
  intros Hf. induction t as [o' s|o' tg a cs IH] using node_ind'; cbn [map_oid oid_of].
  - destruct (o' =? o); auto.
  - destruct (o' =? o); auto. cbn [oids]. f_equal.
    induction IH as [|c cs Hc _ IHc]; cbn [map flat_map]; auto. rewrite Hc, IHc. reflexivity.
Qed.

(* f adds the allocation numbers `extra` to the node it is applied to (or leaves its numbers alone) *)
Lemma oids_map_oid_cases o f extra :
  (forall n, oid_of n = o -> Permutation (oids (f n)) (extra ++ oids n) \/ oids (f n) = oids n) ->
  forall t, NoDup (oids t) ->
  Permutation (oids (map_oid o f t)) (extra ++ oids t) \/ oids (map_oid o f t) = oids t.
Proof.
  intros Hf. induction t as [o' s|o' tg a cs IH] using node_ind'; intros Hnd; cbn [map_oid oid_of].
  - destruct (o' =? o) eqn:E; [apply N.eqb_eq in E; apply Hf; exact E | right; reflexivity].
  - destruct (o' =? o) eqn:E; [apply N.eqb_eq in E; apply Hf; exact E|].
    cbn [oids] in *. inversion Hnd as [|? ? Hn0 Hnd']; subst. clear Hn0 E Hnd.
    assert (G : Permutation (flat_map oids (map (map_oid o f) cs)) (extra ++ flat_map oids cs) \/
                flat_map oids (map (map_oid o f) cs) = flat_map oids cs).
    { induction IH as [|c cs Hc _ IHc]; [right; reflexivity|].
      cbn [map flat_map] in *.
      assert (Hndc : NoDup (oids c)) by (eapply NoDup_app_l; eauto).
      assert (Hndr : NoDup (flat_map oids cs)) by (eapply NoDup_app_r; eauto).
      destruct (in_dec N.eq_dec o (oids c)) as [Hin|Hnin].
      - assert (Hno : ~ In o (flat_map oids cs)) by (intro X; eapply (NoDup_app_disjoint _ _ Hnd' o); eauto).
        assert (Hr : map (map_oid o f) cs = cs).
        { clear -Hno. induction cs as [|c' cs IHcs]; cbn [map]; auto. cbn [flat_map] in Hno.
          rewrite map_oid_notin by (intro X; apply Hno; apply in_or_app; left; exact X).
          rewrite IHcs by (intro X; apply Hno; apply in_or_app; right; exact X). reflexivity. }
        rewrite Hr. destruct (Hc Hndc) as [P|P].
        + left. rewrite app_assoc. apply Permutation_app_tail. exact P.
        + right. rewrite P. reflexivity.
      - rewrite map_oid_notin by exact Hnin. destruct (IHc Hndr) as [P|P].
        + left. apply Permutation_trans with (oids c ++ extra ++ flat_map oids cs).
          * apply Permutation_app_head. exact P.
          * rewrite !app_assoc. apply Permutation_app_tail. apply Permutation_app_comm.
        + right. rewrite P. reflexivity. }
    destruct G as [G|G].
    + left. apply Permutation_trans with (o' :: extra ++ flat_map oids cs); [apply perm_skip; exact G | apply Permutation_middle].
    + right. rewrite G. reflexivity.
Qed.

Lemma remove_oid_notin o : forall t, ~ In o (oids t) -> remove_oid o t = t.
Proof.
  induction t as [o' s|o' tg a cs IH] using node_ind'; intro H; cbn [remove_oid]; auto.
  f_equal. cbn [oids] in H. assert (Hc : ~ In o (flat_map oids cs)) by (intro X; apply H; right; exact X).
  clear H. induction IH as [|c cs Hc' _ IHc]; auto. cbn [flat_map] in Hc.
  assert (E : oid_of c =? o = false).
  { apply N.eqb_neq. intro X. apply Hc. apply in_or_app. left. destruct c; simpl in *; auto. }
  rewrite E. rewrite Hc' by (intro X; apply Hc; apply in_or_app; left; exact X).
  f_equal. apply IHc. intro X. apply Hc. apply in_or_app. right. exact X.
Qed.

Lemma oid_in_oids n : In (oid_of n) (oids n).
Proof. destruct n; simpl; auto. Qed.

Lemma find_oid_oid o : forall t n, find_oid o t = Some n -> oid_of n = o /\ In o (oids t).
Proof.
  induction t as [o' s|o' tg a cs IH] using node_ind'; intros n H; cbn [find_oid oid_of] in H.
  - destruct (o' =? o) eqn:E; [|discriminate]. inversion H; subst. apply N.eqb_eq in E. simpl. auto.
  - destruct (o' =? o) eqn:E.
    + inversion H; subst. apply N.eqb_eq in E. simpl. auto.
    + cbn [oids]. assert (G : oid_of n = o /\ In o (flat_map oids cs)).
      { clear E. induction IH as [|c cs Hc _ IHc]; [discriminate|]. cbn [flat_map].
        destruct (find_oid o c) as [x|] eqn:Ec.
        - inversion H; subst. destruct (Hc n eq_refl) as [A1 A2]. split; auto. apply in_or_app. left. exact A2.
        - destruct (IHc H) as [A1 A2]. split; auto. apply in_or_app. right. exact A2. }
      destruct G. split; auto. right. assumption.
Qed.

Definition rm_list (o : N) : list node -> list node :=
  fix go (l : list node) : list node :=
    match l with
    | [] => []
    | c0 :: r => if oid_of c0 =? o then go r else remove_oid o c0 :: go r
    end.

Definition find_list (o : N) : list node -> option node :=
  fix go (l : list node) : option node :=
    match l with
    | [] => None
    | c :: r => match find_oid o c with Some x => Some x | None => go r end
    end.

Lemma remove_oid_elem o o' tg a cs : remove_oid o (Elem o' tg a cs) = Elem o' tg a (rm_list o cs).
Proof. reflexivity. Qed.

Lemma find_oid_elem o o' tg a cs :
  find_oid o (Elem o' tg a cs) = if o' =? o then Some (Elem o' tg a cs) else find_list o cs.
Proof. reflexivity. Qed.

Lemma rm_list_notin o cs : ~ In o (flat_map oids cs) -> rm_list o cs = cs.
Proof.
  induction cs as [|c cs IH]; intro H; auto. cbn [rm_list flat_map] in *.
  assert (E : oid_of c =? o = false).
  { apply N.eqb_neq. intro X. apply H. apply in_or_app. left. rewrite <- X. apply oid_in_oids. }
  rewrite E. rewrite remove_oid_notin by (intro X; apply H; apply in_or_app; left; exact X).
  f_equal. apply IH. intro X. apply H. apply in_or_app. right. exact X.
Qed.

Lemma find_oid_none o : forall t, find_oid o t = None -> ~ In o (oids t).
Proof.
  induction t as [o' s|o' tg a cs IH] using node_ind'; intros H X.
  - cbn [find_oid oid_of] in H. simpl in X. destruct X as [X|[]]. subst. rewrite N.eqb_refl in H. discriminate.
  - rewrite find_oid_elem in H. destruct (o' =? o) eqn:E; [discriminate|]. cbn [oids] in X.
    destruct X as [X|X]; [subst; rewrite N.eqb_refl in E; discriminate|].
    induction IH as [|c cs Hc _ IHc]; [destruct X|]. cbn [find_list flat_map] in *.
    destruct (find_oid o c) eqn:Ec; [discriminate|].
    apply in_app_or in X. destruct X as [X|X]; [exact (Hc eq_refl X)|exact (IHc H X)].
Qed.

(* moving a node: removing it from its parent and keeping it aside loses nothing and duplicates nothing *)
Lemma oids_remove_oid o : forall t n,
  NoDup (oids t) -> oid_of t <> o -> find_oid o t = Some n ->
  Permutation (oids t) (oids (remove_oid o t) ++ oids n).
Proof.
  induction t as [o' s|o' tg a cs IH] using node_ind'; intros n Hnd Hne H.
  - cbn [find_oid oid_of] in H. simpl in Hne. destruct (o' =? o) eqn:E; [apply N.eqb_eq in E; contradiction|discriminate].
  - rewrite find_oid_elem in H. simpl in Hne. destruct (o' =? o) eqn:E; [apply N.eqb_eq in E; contradiction|]. clear E.
    rewrite remove_oid_elem. cbn [oids] in *. inversion Hnd as [|? ? Hn0 Hnd']; subst. cbn [app]. apply perm_skip.
    clear Hn0 Hnd Hne. induction IH as [|c cs Hc _ IHc]; [discriminate|].
    cbn [flat_map find_list rm_list] in *.
    assert (Hndc : NoDup (oids c)) by (eapply NoDup_app_l; eauto).
    assert (Hndr : NoDup (flat_map oids cs)) by (eapply NoDup_app_r; eauto).
    destruct (oid_of c =? o) eqn:Eo.
    + (* this child is the node *)
      apply N.eqb_eq in Eo.
      assert (Hf : find_oid o c = Some c) by (destruct c; cbn [find_oid oid_of] in *; rewrite Eo, N.eqb_refl; reflexivity).
      rewrite Hf in H. inversion H; subst n.
      assert (Hno : ~ In o (flat_map oids cs)).
      { intro X. eapply (NoDup_app_disjoint _ _ Hnd' o); eauto. rewrite <- Eo. apply oid_in_oids. }
      rewrite (rm_list_notin o cs Hno). apply Permutation_app_comm.
    + destruct (find_oid o c) as [x|] eqn:Ec.
      * inversion H; subst x. destruct (find_oid_oid o c n Ec) as [_ Hin].
        assert (Hno : ~ In o (flat_map oids cs)) by (intro X; eapply (NoDup_app_disjoint _ _ Hnd' o); eauto).
        rewrite (rm_list_notin o cs Hno). cbn [flat_map].
        apply Permutation_trans with ((oids (remove_oid o c) ++ oids n) ++ flat_map oids cs).
        -- apply Permutation_app_tail. apply Hc; auto. apply N.eqb_neq. exact Eo.
        -- rewrite <- !app_assoc. apply Permutation_app_head. apply Permutation_app_comm.
      * rewrite remove_oid_notin by (apply find_oid_none; exact Ec). cbn [flat_map].
        rewrite <- app_assoc. apply Permutation_app_head. apply IHc; auto.
Qed.

Lemma oids_add_children n ms : match n with Elem _ _ _ _ => True | Text _ _ => False end ->
  oids (add_children n ms) = oids n ++ oids_l ms.
Proof. destruct n; [contradiction|]. intros _. cbn [add_children oids]. unfold oids_l. rewrite flat_map_app. reflexivity. Qed.

Lemma seg_perm' lo hi l l' : seg lo hi l -> Permutation l l' -> seg lo hi l'.
Proof.
  intros [H1 [H2 H3]] P. split; auto. split.
  - eapply Permutation_NoDup; eauto.
  - intros x Hx. apply H3. eapply Permutation_in; [apply Permutation_sym; exact P | exact Hx].
Qed.

(* ---- the invariant of the transform state: all allocation numbers distinct and below the counter ---- *)
Definition tgood (s : tstate) : Prop := seg 0 (nxt (tfs s)) (oids (ttree s)).

Definition preserves {A} (m : top A) : Prop := forall s a s', m s = Good (a, s') -> tgood s -> tgood s'.

Lemma tbind_inv {A B} (m : top A) (k : A -> top B) s b s' :
  tbind m k s = Good (b, s') -> exists a s1, m s = Good (a, s1) /\ k a s1 = Good (b, s').
Proof. unfold tbind. destruct (m s) as [[a s1]|e]; [|discriminate]. eauto. Qed.

Lemma preserves_ret {A} (a : A) : preserves (tret a).
Proof. intros s x s' H G. inversion H; subst. exact G. Qed.

Lemma preserves_fail {A} e : preserves (@tfail A e).
Proof. intros s x s' H. discriminate H. Qed.

Lemma preserves_bind {A B} (m : top A) (k : A -> top B) :
  preserves m -> (forall a, preserves (k a)) -> preserves (tbind m k).
Proof.
  intros Hm Hk s b s' H G. apply tbind_inv in H. destruct H as [a [s1 [H1 H2]]].
  eapply Hk; eauto.
Qed.

Lemma preserves_tfor {A} (l : list A) (body : A -> top unit) :
  (forall x, preserves (body x)) -> preserves (tfor l body).
Proof.
  intro Hb. induction l as [|x l IH]; cbn [tfor].
  - apply preserves_ret.
  - apply preserves_bind; auto.
Qed.

Lemma preserves_read {A} (m : top A) : (forall s a s', m s = Good (a, s') -> s' = s) -> preserves m.
Proof. intros Hm s a s' H G. rewrite (Hm _ _ _ H). exact G. Qed.

Lemma preserves_get_tree : preserves get_tree.
Proof. apply preserves_read. intros s a s' H. inversion H; auto. Qed.
Lemma preserves_get_fs : preserves get_fs.
Proof. apply preserves_read. intros s a s' H. inversion H; auto. Qed.
Lemma preserves_node_of o : preserves (node_of o).
Proof. apply preserves_read. intros s a s' H. unfold node_of in H. destruct (find_oid o (ttree s)); inversion H; auto. Qed.
Lemma preserves_ids_of_obj o : preserves (ids_of_obj o).
Proof. apply preserves_read. intros s a s' H. inversion H; auto. Qed.
Lemma preserves_names_of_obj o : preserves (names_of_obj o).
Proof. apply preserves_read. intros s a s' H. inversion H; auto. Qed.
Lemma preserves_dupnames_of_obj o : preserves (dupnames_of_obj o).
Proof. apply preserves_read. intros s a s' H. inversion H; auto. Qed.
Lemma preserves_is_resolved o : preserves (is_resolved o).
Proof. apply preserves_read. intros s a s' H. inversion H; auto. Qed.
Lemma preserves_the_one l : preserves (the_one l).
Proof. destruct l as [|x [|y l]]; try apply preserves_fail. apply preserves_ret. Qed.

Lemma preserves_mark_resolved o : preserves (mark_resolved o).
Proof. intros s a s' H G. inversion H; subst. exact G. Qed.

(* state operations: the tree is untouched, the counter does not go back *)
Lemma preserves_lift_f {A} (op : fop A) :
  (forall f a f', op f = Good (a, f') -> nxt f <= nxt f') -> preserves (lift_f op).
Proof.
  intros Hop s a s' H G. unfold lift_f in H. destruct (op (tfs s)) as [[x f']|e] eqn:E; [|discriminate].
  inversion H; subst. unfold tgood in *. cbn [ttree tfs]. eapply seg_weaken; [exact G|lia|]. eapply Hop; eauto.
Qed.

(* attribute changes *)
Lemma preserves_upd_same g : (forall t, oids (g t) = oids t) -> preserves (upd_tree g).
Proof. intros Hg s a s' H G. inversion H; subst. unfold tgood in *. cbn [ttree tfs]. rewrite Hg. exact G. Qed.

Lemma oids_set_attr k v n : oids (set_attr k v n) = oids n. Proof. destruct n; reflexivity. Qed.
Lemma oids_del_attr k n : oids (del_attr k n) = oids n. Proof. destruct n; reflexivity. Qed.
Lemma oids_push_attr k v n : oids (push_attr k v n) = oids n. Proof. destruct n; reflexivity. Qed.

(* freshly allocated nodes put under the node with identity o *)
Lemma tgood_add_fresh o (g : node -> node) extra s f' :
  (forall n, oid_of n = o -> Permutation (oids (g n)) (extra ++ oids n) \/ oids (g n) = oids n) ->
  seg (nxt (tfs s)) (nxt f') extra -> tgood s ->
  tgood (mkT (map_oid o g (ttree s)) f' (tresolved s)).
Proof.
  intros Hg Hx G. unfold tgood in *. cbn [ttree tfs].
  assert (Hnd : NoDup (oids (ttree s))) by (destruct G as [_ [G _]]; exact G).
  destruct (oids_map_oid_cases o g extra Hg (ttree s) Hnd) as [P|P].
  - eapply seg_perm'; [|apply Permutation_sym; exact P]. apply (seg_app_rev 0 (nxt (tfs s)) (nxt f')); auto.
  - rewrite P. eapply seg_weaken; [exact G|lia|]. destruct Hx as [Hx _]. exact Hx.
Qed.

Lemma add_children_cases n ms :
  Permutation (oids (add_children n ms)) (oids_l ms ++ oids n) \/ oids (add_children n ms) = oids n.
Proof.
  destruct n as [o x|o tg a cs]; [right; reflexivity|]. left. cbn [add_children oids]. unfold oids_l.
  rewrite flat_map_app. apply Permutation_trans with ((o :: flat_map oids cs) ++ flat_map oids ms); [reflexivity|apply Permutation_app_comm].
Qed.

Lemma insert_first_cases c n :
  Permutation (oids (insert_first c n)) (oids c ++ oids n) \/ oids (insert_first c n) = oids n.
Proof.
  destruct n as [o x|o tg a cs]; [right; reflexivity|]. left. cbn [insert_first oids flat_map].
  apply Permutation_middle.
Qed.

(* ---- the transforms ---- *)
Lemma preserves_sort_footnotes C : preserves (sort_footnotes C).
Proof.
  unfold sort_footnotes. destruct (negb (c_footnote_sort C)); [apply preserves_ret|].
  apply preserves_bind; [apply preserves_get_fs|]. intro f.
  apply preserves_bind; [apply preserves_get_tree|]. intro t.
  apply preserves_lift_f. intros f0 a f' H. inversion H; subst. simpl. lia.
Qed.

(* alloc, then put the fresh text under ref *)
Lemma preserves_alloc_text ref l :
  preserves (ot <~ lift_f alloc ;; upd_tree (map_oid ref (fun n => add_children n [Text ot l]))).
Proof.
  intros s a s' H G. apply tbind_inv in H. destruct H as [ot [s1 [H1 H2]]].
  unfold lift_f in H1. cbn in H1. inversion H1; subst. clear H1. inversion H2; subst. clear H2.
  cbn [ttree tfs tresolved].
  apply (tgood_add_fresh ref _ [nxt (tfs s)] s (set_nxt (tfs s) (N.succ (nxt (tfs s))))); auto.
  - intros n _. apply (add_children_cases n [Text (nxt (tfs s)) l]).
  - cbn [nxt set_nxt]. apply seg_one.
Qed.

Lemma preserves_upd_attr o (g : node -> node) : (forall n, oids (g n) = oids n) -> preserves (upd_tree (map_oid o g)).
Proof. intro Hg. apply preserves_upd_same. intro t. apply oids_map_oid_same. exact Hg. Qed.

Lemma preserves_link_ref ref fn label : preserves (link_ref ref fn label).
Proof.
  unfold link_ref.
  apply preserves_bind.
  { destruct label; [apply preserves_alloc_text | apply preserves_ret]. }
  intros _. apply preserves_bind; [apply preserves_upd_attr; apply oids_del_attr|]. intros _.
  apply preserves_bind; [apply preserves_ids_of_obj|]. intro fids.
  apply preserves_bind; [apply preserves_ids_of_obj|]. intro rids.
  apply preserves_bind; [apply preserves_the_one|]. intro fid.
  apply preserves_bind; [apply preserves_the_one|]. intro rid.
  apply preserves_bind; [apply preserves_upd_attr; apply oids_set_attr|]. intros _.
  apply preserves_bind; [apply preserves_upd_attr; apply oids_push_attr|]. intros _.
  apply preserves_mark_resolved.
Qed.

Section TP.
  Variable B : backend.
  Variable C : cfg.
  Variable OR : oracles.

  (* alloc label + text, insert the label first *)
  Lemma preserves_insert_label fn label :
    preserves (ol <~ lift_f alloc ;; ot <~ lift_f alloc ;;
               upd_tree (map_oid fn (insert_first (Elem ol n_label [] [Text ot label])))).
  Proof.
    intros s a s' H G. apply tbind_inv in H. destruct H as [ol [s1 [H1 H]]].
    apply tbind_inv in H. destruct H as [ot [s2 [H2 H]]].
    unfold lift_f in H1, H2. cbn in H1. inversion H1; subst. clear H1. cbn in H2. inversion H2; subst. clear H2.
    inversion H; subst. clear H. cbn [ttree tfs tresolved].
    set (n0 := nxt (tfs s)).
    apply (tgood_add_fresh fn _ [n0; N.succ n0] s (set_nxt (set_nxt (tfs s) (N.succ n0)) (N.succ (N.succ n0)))); auto.
    - intros n _. apply (insert_first_cases (Elem n0 n_label [] [Text (N.succ n0) label]) n).
    - cbn [nxt set_nxt]. fold n0. apply seg_cons. apply seg_one.
  Qed.

  (* a registry operation returning fresh messages that are put under fn *)
  Lemma preserves_msgs_under fn (op : fop (list node)) :
    (forall f ms f', op f = Good (ms, f') -> msgs_post f ms f') ->
    preserves (ms <~ lift_f op ;; upd_tree (map_oid fn (fun n => add_children n ms))).
  Proof.
    intros Hop s a s' H G. apply tbind_inv in H. destruct H as [ms [s1 [H1 H]]].
    unfold lift_f in H1. destruct (op (tfs s)) as [[ms' f']|e] eqn:E; [|discriminate]. inversion H1; subst. clear H1.
    inversion H; subst. clear H. cbn [ttree tfs tresolved].
    apply Hop in E. destruct E as [_ Es].
    apply (tgood_add_fresh fn _ (oids_l ms) s f'); auto. intros n _. apply add_children_cases.
  Qed.

  (* a group of steps that is invariant-preserving as a whole, followed by steps that do not use its results *)
  Lemma preserves_prefix3 {A A2 R} (m1 : top A) (m2 : A -> top A2) (m3 : A -> A2 -> top unit) (rest : top R) :
    preserves (a <~ m1 ;; b <~ m2 a ;; m3 a b) -> preserves rest ->
    preserves (a <~ m1 ;; b <~ m2 a ;; _ <~ m3 a b ;; rest).
  Proof.
    intros Hp Hr s x s' H G.
    apply tbind_inv in H. destruct H as [a [s1 [H1 H]]].
    apply tbind_inv in H. destruct H as [b [s2 [H2 H]]].
    apply tbind_inv in H. destruct H as [u [s3 [H3 H]]].
    eapply Hr; eauto. apply (Hp s u s3); auto. unfold tbind. rewrite H1, H2. exact H3.
  Qed.

  Lemma preserves_prefix2 {A R} (m1 : top A) (m2 : A -> top unit) (rest : top R) :
    preserves (a <~ m1 ;; m2 a) -> preserves rest -> preserves (a <~ m1 ;; _ <~ m2 a ;; rest).
  Proof.
    intros Hp Hr s x s' H G.
    apply tbind_inv in H. destruct H as [a [s1 [H1 H]]].
    apply tbind_inv in H. destruct H as [u [s2 [H2 H]]].
    eapply Hr; eauto. apply (Hp s u s2); auto. unfold tbind. rewrite H1. exact H2.
  Qed.

  Lemma preserves_number_footnotes startnum : preserves (number_footnotes C OR startnum).
  Proof.
    unfold number_footnotes. apply preserves_bind; [apply preserves_get_fs|]. intro f0.
    match goal with |- preserves (?go ?l ?sn ?lb) =>
      assert (G : forall l' sn' lb', preserves (go l' sn' lb')); [|apply G] end.
    induction l' as [|fn r IH]; intros startnum0 labels.
    - apply preserves_ret.
    - apply preserves_bind; [apply preserves_get_fs|]. intro f.
      destruct (label_loop _ _ _) as [[label startnum']|e]; [|apply preserves_fail].
      apply preserves_prefix3; [apply preserves_insert_label|].
      apply preserves_bind; [apply preserves_names_of_obj|]. intro names.
      apply preserves_bind.
      { apply preserves_tfor. intro name. apply preserves_bind; [apply preserves_get_fs|]. intro f1.
        apply preserves_tfor. intro ref. apply preserves_link_ref. }
      intros _. apply preserves_bind; [apply preserves_names_of_obj|]. intro names2.
      apply preserves_bind; [apply preserves_dupnames_of_obj|]. intro dups.
      destruct names2; [destruct dups|]; try apply IH.
      apply preserves_bind.
      { apply preserves_lift_f. intros f1 a1 f1' Ha. apply keeps_add_name in Ha. lia. }
      intros _. apply preserves_prefix2; [|apply IH].
      apply preserves_msgs_under. intros f1 ms f1' Hn. eapply note_target_post; eauto.
  Qed.

  Lemma preserves_number_footnote_references labels : preserves (number_footnote_references C OR labels).
  Proof.
    unfold number_footnote_references. apply preserves_bind; [apply preserves_get_fs|]. intro f0.
    match goal with |- preserves (?go ?l ?lb) =>
      assert (G : forall l' lb', preserves (go l' lb')); [|apply G] end.
    clear labels. induction l' as [|ref r IH]; intro labels.
    - apply preserves_ret.
    - apply preserves_bind; [apply preserves_is_resolved|]. intro res.
      apply preserves_bind; [apply preserves_node_of|]. intro n.
      destruct (res || has_attr a_refid n); [apply IH|].
      destruct labels as [|label labels'].
      + apply preserves_bind; [apply preserves_lift_f; intros f a f' H; apply keeps_log_warning in H; lia|]. intros _.
        apply preserves_bind; [apply preserves_lift_f; intros f a f' H; apply alloc_post in H; destruct H; lia|]. intro om.
        apply preserves_bind; [apply preserves_lift_f; intros f a f' H; eapply set_id_nomsg_le; eauto|]. intros _.
        apply preserves_tfor. intro ref'.
        apply preserves_bind; [apply preserves_is_resolved|]. intro res'.
        apply preserves_bind; [apply preserves_node_of|]. intro n'.
        destruct (res' || has_attr a_refname n'); [apply preserves_ret | apply preserves_fail].
      + apply preserves_prefix2; [apply preserves_alloc_text|].
        apply preserves_bind; [apply preserves_get_fs|]. intro f.
        destruct (assoc label (nameids f)) as [[i|]|]; try apply preserves_fail.
        destruct (assoc i (ids f)) as [fn|]; [|apply preserves_fail].
        apply preserves_bind; [apply preserves_upd_attr; apply oids_set_attr|]. intros _.
        apply preserves_bind; [apply preserves_ids_of_obj|]. intro rids.
        apply preserves_bind; [apply preserves_the_one|]. intro rid.
        apply preserves_bind; [apply preserves_upd_attr; apply oids_push_attr|]. intros _.
        apply preserves_bind; [apply preserves_mark_resolved|]. intros _. apply IH.
  Qed.

  Lemma preserves_resolve_manual : preserves resolve_manual_footnotes.
  Proof.
    unfold resolve_manual_footnotes. apply preserves_bind; [apply preserves_get_fs|]. intro f0.
    apply preserves_tfor. intro fn. apply preserves_bind; [apply preserves_names_of_obj|]. intro names.
    apply preserves_tfor. intro label. apply preserves_bind; [apply preserves_get_fs|]. intro f.
    destruct (assoc label (footnote_refs f)) as [reflist|]; [|apply preserves_ret].
    apply preserves_bind; [apply preserves_ids_of_obj|]. intro fids.
    apply preserves_bind; [apply preserves_the_one|]. intros _.
    apply preserves_tfor. intro ref. apply preserves_bind; [apply preserves_is_resolved|]. intro res.
    destruct res; [apply preserves_ret | apply preserves_link_ref].
  Qed.

  Lemma preserves_footnotes_transform : preserves (footnotes_transform C OR).
  Proof.
    unfold footnotes_transform. apply preserves_bind; [apply preserves_number_footnotes|]. intros [n labels].
    apply preserves_bind; [apply preserves_number_footnote_references|]. intros _. apply preserves_resolve_manual.
  Qed.

  Lemma preserves_unreferenced : preserves (unreferenced_detector B).
  Proof.
    unfold unreferenced_detector. destruct (is_sphinx B); [apply preserves_ret|].
    apply preserves_bind; [apply preserves_get_fs|]. intro f0.
    apply preserves_tfor. intro fn. apply preserves_bind; [apply preserves_node_of|]. intro n.
    apply preserves_bind; [apply preserves_names_of_obj|]. intro names.
    destruct (assoc a_backrefs (attrs_of n)) as [[|? ?]|]; destruct names;
      try apply preserves_ret; apply preserves_lift_f; intros f a f' H; apply keeps_log_warning in H; lia.
  Qed.
End TP.

Lemma seg_app_l lo hi a b : seg lo hi (a ++ b) -> seg lo hi a.
Proof.
  intros [H1 [H2 H3]]. split; auto. split; [eapply NoDup_app_l; eauto|].
  intros x Hx. apply H3. apply in_or_app. left. exact Hx.
Qed.

(* CollectFootnotes: footnote.parent.remove(footnote); document += footnote *)
Lemma preserves_move fn :
  preserves (t <~ get_tree ;;
             if oid_of t =? fn then tfail (EPy AttributeError)
             else n <~ node_of fn ;; _ <~ upd_tree (remove_oid fn) ;; upd_tree (fun t => add_children t [n])).
Proof.
  intros s a s' H G. apply tbind_inv in H. destruct H as [t [s1 [H1 H]]]. inversion H1; subst. clear H1.
  destruct (oid_of (ttree s1) =? fn) eqn:E; [discriminate|]. apply N.eqb_neq in E.
  apply tbind_inv in H. destruct H as [n [s2 [H2 H]]]. unfold node_of in H2.
  destruct (find_oid fn (ttree s1)) as [n0|] eqn:Ef; [|discriminate]. inversion H2; subst. clear H2.
  apply tbind_inv in H. destruct H as [u [s3 [H3 H]]]. inversion H3; subst. clear H3. inversion H; subst. clear H.
  unfold tgood in *. cbn [ttree tfs].
  assert (Hnd : NoDup (oids (ttree s2))) by (destruct G as [_ [G _]]; exact G).
  pose proof (oids_remove_oid fn (ttree s2) n Hnd E Ef) as P.
  destruct (add_children_cases (remove_oid fn (ttree s2)) [n]) as [Q|Q].
  - eapply seg_perm'; [exact G|]. eapply Permutation_trans; [exact P|]. apply Permutation_sym.
    eapply Permutation_trans; [exact Q|]. unfold oids_l. cbn [flat_map]. rewrite app_nil_r. apply Permutation_app_comm.
  - rewrite Q. eapply seg_app_l. eapply seg_perm'; [exact G|exact P].
Qed.

Lemma preserves_collect C : preserves (collect_footnotes C).
Proof.
  unfold collect_footnotes. destruct (negb (c_footnote_sort C)); [apply preserves_ret|].
  apply preserves_bind; [apply preserves_get_fs|]. intro f0.
  apply preserves_bind; [apply preserves_get_tree|]. intro t0.
  apply preserves_bind.
  { generalize (footnotes f0 ++ autofootnotes f0). intro l. induction l as [|fn r IH].
    - apply preserves_ret.
    - apply preserves_bind; [apply preserves_node_of|]. intro n. destruct (kids_of n); [apply preserves_fail|].
      apply preserves_bind; [exact IH|]. intro rest. apply preserves_ret. }
  intro labelled. apply preserves_bind.
  { destruct labelled; [apply preserves_ret|]. destruct (_ && _); [|apply preserves_ret].
    intros s a s' H G. apply tbind_inv in H. destruct H as [o [s1 [H1 H]]].
    unfold lift_f in H1. cbn in H1. inversion H1; subst. clear H1. inversion H; subst. clear H.
    unfold tgood in *. cbn [ttree tfs nxt set_nxt].
    destruct (add_children_cases (ttree s) [Elem (nxt (tfs s)) n_transition [(a_classes, [v_footnotes])] []]) as [Q|Q].
    - eapply seg_perm'; [|apply Permutation_sym; exact Q]. unfold oids_l. cbn [flat_map oids]. rewrite app_nil_r.
      apply (seg_app_rev 0 (nxt (tfs s))); [exact G|apply seg_one].
    - rewrite Q. eapply seg_weaken; [exact G|lia|lia]. }
  intros _. apply preserves_tfor. intro fn. apply preserves_move.
Qed.

Lemma warning_facts tag f n f' : create_warning tag f = Good (n, f') -> oids n = [nxt f] /\ nxt f' = N.succ (nxt f).
Proof. intro H. apply create_warning_post in H. destruct H as [-> E]. split; [reflexivity|exact E]. Qed.

(* ---- ResolveAnchorIds ---- *)
Section Resolve.
  Variable B : backend.
  Variable OR : oracles.
  Variable ex : list (str * (str * option str)).

  Definition res_list : list node -> fop (list node) :=
    fix go (l : list node) : fop (list node) :=
      match l with
      | [] => fret []
      | c :: r => c' <-- resolve_tree B OR ex c ;; r' <-- go r ;; fret (c' :: r')
      end.

  (* the result's allocation numbers are old ones or freshly allocated ones *)
  Definition res_ok (old : list N) (f : fstate) (new : list N) (f' : fstate) : Prop :=
    nxt f <= nxt f' /\ NoDup new /\ forall x, In x new -> In x old \/ (nxt f <= x < nxt f').

  Lemma std_inline_post txt f n f' :
    std_inline txt f = Good (n, f') -> seg (nxt f) (nxt f') (oids n).
  Proof.
    unfold std_inline. intro H. apply fbind_inv' in H. destruct H as [o [f1 [Ea H]]].
    apply alloc_post in Ea. destruct Ea as [-> En].
    destruct (is_empty txt).
    - inversion H; subst. cbn [oids flat_map]. rewrite En. apply seg_one.
    - apply fbind_inv' in H. destruct H as [ot [f2 [Eb H]]]. apply alloc_post in Eb. destruct Eb as [-> En2].
      inversion H; subst. cbn [oids flat_map app]. apply seg_cons. rewrite <- En, En2. apply seg_one.
  Qed.

  Lemma skipn_app_len {A} (a b : list A) : skipn (length a) (a ++ b) = b.
  Proof. induction a; simpl; auto. Qed.

  (* resolve_ref: either the reference with fresh nodes appended, or a fresh pending_xref around a fresh inline *)
  Lemma resolve_ref_post o a cs f n1 moved f1 :
    resolve_ref B OR ex o a cs f = Good ((n1, moved), f1) ->
    (moved = false /\ exists a' extra, n1 = Elem o n_reference a' (cs ++ extra) /\ seg (nxt f) (nxt f1) (oids_l extra)) \/
    (moved = true /\ exists a' ai, n1 = Elem (nxt f) n_pending_xref a' [Elem (N.succ (nxt f)) k_inline ai cs] /\
                                   nxt f1 = N.succ (N.succ (nxt f))).
  Proof.
    unfold resolve_ref. intro H. destruct (assoc a_refuri a) as [[|uri [|? ?]]|]; try discriminate.
    destruct (assoc (drop 1 uri) ex) as [[ref_id title]|].
    - left. destruct cs as [|c cs].
      + apply fbind_inv' in H. destruct H as [i [f2 [Ei H]]]. inversion H; subst. split; auto.
        eexists. exists [i]. split; [reflexivity|]. unfold oids_l. cbn [flat_map]. rewrite app_nil_r.
        eapply std_inline_post; eauto.
      + inversion H; subst. split; auto. eexists. exists []. rewrite app_nil_r. split; [reflexivity|].
        apply seg_nil. lia.
    - destruct (is_sphinx B).
      + right. apply fbind_inv' in H. destruct H as [op [f2 [Ea H]]]. apply alloc_post in Ea. destruct Ea as [-> En].
        apply fbind_inv' in H. destruct H as [oi [f3 [Eb H]]]. apply alloc_post in Eb. destruct Eb as [-> En2].
        inversion H; subst. split; auto. eexists. eexists. rewrite En. split; [reflexivity|]. rewrite En2, En. reflexivity.
      + left. apply fbind_inv' in H. destruct H as [w [f2 [Ew H]]]. inversion H; subst. split; auto.
        eexists. exists [w]. split; [reflexivity|].
        destruct (warning_facts _ _ _ _ Ew) as [Wo Wn]. unfold oids_l. cbn [flat_map]. rewrite Wo, app_nil_r, Wn. apply seg_one.
  Qed.
End Resolve.

Section Resolve2.
  Variable B : backend.
  Variable OR : oracles.
  Variable ex : list (str * (str * option str)).

  Lemma resolve_tree_elem o tg a cs :
    resolve_tree B OR ex (Elem o tg a cs) =
    if str_eqb tg n_reference && has_key a_id_link a then
      '(n', moved) <-- resolve_ref B OR ex o a cs ;;
      old <-- res_list B OR ex cs ;;
      match n' with
      | Elem o' tg' a' cs' =>
          if (moved : bool) then
            match cs' with
            | [Elem oi ti ai _] => _ <-- move_rec o oi ;; fret (Elem o' tg' a' [Elem oi ti ai old])
            | _ => ffail EModel
            end
          else fret (Elem o' tg' a' (old ++ skipn (length cs) cs'))
      | Text _ _ => ffail EModel
      end
    else cs' <-- res_list B OR ex cs ;; fret (Elem o tg a cs').
  Proof. reflexivity. Qed.

  Definition tree_res (n : node) : Prop :=
    forall f n' f', resolve_tree B OR ex n f = Good (n', f') ->
                    NoDup (oids n) -> (forall x, In x (oids n) -> x < nxt f) ->
                    res_ok (oids n) f (oids n') f'.

  Lemma res_list_post cs : Forall tree_res cs ->
    forall f cs' f', res_list B OR ex cs f = Good (cs', f') ->
                     NoDup (oids_l cs) -> (forall x, In x (oids_l cs) -> x < nxt f) ->
                     res_ok (oids_l cs) f (oids_l cs') f'.
  Proof.
    intro Hall. induction Hall as [|c cs Hc _ IH]; intros f cs' f' H Hnd Hlt; cbn [res_list] in H.
    - inversion H; subst. split; [lia|]. split; [constructor|]. intros x [].
    - apply fbind_inv' in H. destruct H as [c' [f1 [H1 H]]].
      apply fbind_inv' in H. destruct H as [r' [f2 [H2 H]]]. inversion H; subst. clear H.
      unfold oids_l in *. cbn [flat_map] in *.
      assert (Hndc : NoDup (oids c)) by (eapply NoDup_app_l; eauto).
      assert (Hndr : NoDup (flat_map oids cs)) by (eapply NoDup_app_r; eauto).
      destruct (Hc f c' f1 H1 Hndc ltac:(intros x Hx; apply Hlt; apply in_or_app; left; exact Hx)) as [A1 [A2 A3]].
      destruct (IH f1 r' f' H2 Hndr ltac:(intros x Hx; assert (x < nxt f) by (apply Hlt; apply in_or_app; right; exact Hx); lia))
        as [B1 [B2 B3]].
      split; [lia|]. split.
      + apply NoDup_app_intro; auto. intros x Hx Hy.
        destruct (A3 x Hx) as [Ax|Ax]; destruct (B3 x Hy) as [Bx|Bx].
        * eapply (NoDup_app_disjoint _ _ Hnd x); eauto.
        * assert (x < nxt f) by (apply Hlt; apply in_or_app; left; exact Ax). lia.
        * assert (x < nxt f) by (apply Hlt; apply in_or_app; right; exact Bx). lia.
        * lia.
      + intros x Hx. apply in_app_or in Hx. destruct Hx as [Hx|Hx].
        * destruct (A3 x Hx) as [Ax|Ax]; [left; apply in_or_app; left; exact Ax | right; lia].
        * destruct (B3 x Hx) as [Bx|Bx]; [left; apply in_or_app; right; exact Bx | right; lia].
  Qed.

  Lemma resolve_tree_post : forall n, tree_res n.
  Proof.
    induction n as [o s|o tg a cs IH] using node_ind'; intros f n' f' H Hnd Hlt.
    - cbn in H. inversion H; subst. split; [lia|]. split; auto.
    - rewrite resolve_tree_elem in H. cbn [oids] in *.
      inversion Hnd as [|? ? Hno Hndc]; subst.
      assert (Hltc : forall x, In x (oids_l cs) -> x < nxt f) by (intros x Hx; apply Hlt; right; exact Hx).
      assert (Hlto : o < nxt f) by (apply Hlt; left; reflexivity).
      destruct (str_eqb tg n_reference && has_key a_id_link a).
      + apply fbind_inv' in H. destruct H as [[n1 moved] [f1 [Hr H]]].
        apply fbind_inv' in H. destruct H as [old [f2 [Hl H]]].
        apply resolve_ref_post in Hr.
        destruct Hr as [[-> [a' [extra [-> Hxs]]]]|[-> [a' [ai [-> En]]]]].
        * (* the reference keeps its identity; fresh nodes are appended after its (resolved) children *)
          rewrite skipn_app_len in H. inversion H; subst. clear H.
          assert (Hle1 : nxt f <= nxt f1) by (eapply seg_le; exact Hxs).
          destruct (res_list_post cs IH f1 old f' Hl Hndc ltac:(intros x Hx; specialize (Hltc x Hx); lia)) as [B1 [B2 B3]].
          destruct Hxs as [_ [X2 X3]].
          split; [lia|]. cbn [oids]. change (flat_map oids (old ++ extra)) with (oids_l (old ++ extra)).
          rewrite oids_l_app. split.
          -- constructor.
             ++ intro Hin. apply in_app_or in Hin. destruct Hin as [Hin|Hin].
                ** destruct (B3 o Hin) as [Y|Y]; [contradiction|lia].
                ** specialize (X3 o Hin). lia.
             ++ apply NoDup_app_intro; auto. intros x Hx Hy. specialize (X3 x Hy).
                destruct (B3 x Hx) as [Y|Y]; [specialize (Hltc x Y); lia|lia].
          -- intros x [Hx|Hx]; [left; left; exact Hx|]. apply in_app_or in Hx. destruct Hx as [Hx|Hx].
             ++ destruct (B3 x Hx) as [Y|Y]; [left; right; exact Y | right; lia].
             ++ specialize (X3 x Hx). right. lia.
        * (* sphinx: a fresh pending_xref around a fresh inline around the (resolved) children *)
          apply fbind_inv' in H. destruct H as [u [f3 [Hm H]]]. inversion H; subst. clear H.
          assert (E3 : nxt f' = nxt f2) by (unfold move_rec in Hm; destruct (nassoc o (objs f2)); inversion Hm; subst; reflexivity).
          destruct (res_list_post cs IH f1 old f2 Hl Hndc ltac:(intros x Hx; specialize (Hltc x Hx); lia)) as [B1 [B2 B3]].
          split; [lia|]. cbn [oids flat_map]. rewrite app_nil_r. change (flat_map oids old) with (oids_l old). split.
          -- constructor.
             ++ intros [Hin|Hin]; [lia|]. destruct (B3 _ Hin) as [Y|Y]; [specialize (Hltc _ Y); lia|lia].
             ++ constructor; auto. intro Hin. destruct (B3 _ Hin) as [Y|Y]; [specialize (Hltc _ Y); lia|lia].
          -- intros x [Hx|[Hx|Hx]]; [right; lia | right; lia |].
             destruct (B3 x Hx) as [Y|Y]; [left; right; exact Y | right; lia].
      + apply fbind_inv' in H. destruct H as [cs' [f1 [Hl H]]]. inversion H; subst. clear H.
        destruct (res_list_post cs IH f cs' f' Hl Hndc Hltc) as [B1 [B2 B3]].
        split; [exact B1|]. cbn [oids]. change (flat_map oids cs') with (oids_l cs'). split.
        * constructor; auto. intro Hin. destruct (B3 o Hin) as [Y|Y]; [contradiction|lia].
        * intros x [Hx|Hx]; [left; left; exact Hx|]. destruct (B3 x Hx) as [Y|Y]; [left; right; exact Y|right; exact Y].
  Qed.
End Resolve2.

Lemma preserves_resolve_anchor_ids B OR : preserves (resolve_anchor_ids B OR).
Proof.
  unfold resolve_anchor_ids. intros s a s' H G.
  apply tbind_inv in H. destruct H as [t [s1 [H1 H]]]. inversion H1; subst. clear H1.
  apply tbind_inv in H. destruct H as [f [s2 [H2 H]]]. inversion H2; subst. clear H2.
  destruct (explicit_table _ _ _) as [ex|e]; [|discriminate].
  apply tbind_inv in H. destruct H as [t' [s3 [H3 H]]]. unfold lift_f in H3.
  destruct (resolve_tree B OR ex (ttree s2) (tfs s2)) as [[t2 f2]|e] eqn:Er; [|discriminate].
  inversion H3; subst. clear H3. inversion H; subst. clear H.
  unfold tgood in *. cbn [ttree tfs]. destruct G as [G1 [G2 G3]].
  destruct (resolve_tree_post B OR ex (ttree s2) (tfs s2) t' f2 Er G2 ltac:(intros x Hx; specialize (G3 x Hx); lia))
    as [R1 [R2 R3]].
  split; [lia|]. split; auto. intros x Hx. destruct (R3 x Hx) as [Y|Y]; [specialize (G3 x Y); lia|lia].
Qed.

(* ---- the whole modelled pipeline ---- *)
Theorem apply_transforms_nodup B C OR s t f :
  seg 0 (nxt (fs s)) (oids (tree s)) ->
  apply_transforms B C OR s = Good (t, f) -> NoDup (oids t).
Proof.
  intros G H. unfold apply_transforms in H.
  match type of H with match ?m ?s0 with _ => _ end = _ => destruct (m s0) as [[u s']|e] eqn:E; [|discriminate] end.
  inversion H; subst. clear H.
  assert (P : preserves (_ <~ sort_footnotes C ;; _ <~ footnotes_transform C OR ;; _ <~ unreferenced_detector B ;;
                         _ <~ collect_footnotes C ;; resolve_anchor_ids B OR)).
  { apply preserves_bind; [apply preserves_sort_footnotes|]. intros _.
    apply preserves_bind; [apply preserves_footnotes_transform|]. intros _.
    apply preserves_bind; [apply preserves_unreferenced|]. intros _.
    apply preserves_bind; [apply preserves_collect|]. intros _. apply preserves_resolve_anchor_ids. }
  specialize (P _ _ _ E G). destruct P as [_ [P _]]. exact P.
Qed.
