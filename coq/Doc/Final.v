(* The theorems about render_doc (rendering + merge of the registry side table), assembled from
   TopProofs.v (observations of the tree built under the Python semantics) and DecoProofs.v. *)
From Coq Require Import List NArith Bool Lia.
From MV Require Import Base.PyStr.
From MV Require Import Base.Res.
From MV Require Import Doc.Str.
From MV Require Import Doc.Tok.
From MV Require Import Doc.Node.
From MV Require Import Doc.Registry.
From MV Require Import Doc.Prog.
From MV Require Import Gen.Render.
From MV Require Import Doc.Render.
From MV Require Import Doc.Skel.
From MV Require Import Doc.WF.
From MV Require Import Doc.OpsProofs.
From MV Require Import Doc.DynProofs.
From MV Require Import Doc.Post.
From MV Require Import Doc.PostProofs.
From MV Require Import Doc.TopProofs.
From MV Require Import Doc.DecoProofs.
From MV Require Import Doc.Transforms.
From MV Require Import Doc.TransProofs.
From MV Require Import Doc.Api.
From MV Require Import Doc.IdsProofs.
Import ListNotations.

Definition static_forest (B : backend) (C : cfg) (OR : oracles) (ts : list tok) : bool :=
  static B C OR ts && forallb top_static ts.

Lemma render_doc_inv B C OR ts doc ws :
  render_doc B C OR ts = Good (doc, ws) ->
  exists s, render_state B C OR ts = Good s /\ doc = decorate (objs (fs s)) (tree s).
Proof.
  unfold render_doc. destruct (render_state B C OR ts) as [s|e]; [|discriminate].
  intro H. inversion H; subst. eauto.
Qed.

Section Final.
  Variable D : str -> str.
  Variable B : backend.
  Variable C : cfg.
  Variable OR : oracles.

  Lemma doc_obs ts doc ws :
    static_forest B C OR ts = true -> render_doc B C OR ts = Good (doc, ws) ->
    NoDup (oids doc) /\ sections_ok [] doc = true /\
    (forallb tshape ts = true -> rows_ok doc = true) /\
    (forallb hr_top ts = true -> transitions_ok [] doc = true) /\
    (Hyps D OR -> has_dropped doc = false -> skel_node D doc = skel_toks D B C OR ts).
  Proof.
    intros Hst H. unfold static_forest in Hst. apply andb_true_iff in Hst. destruct Hst as [Hs1 Hs2].
    destruct (render_doc_inv _ _ _ _ _ _ H) as [s [Hr ->]].
    destruct (render_state_obs D B C OR ts s Hs1 Hs2 Hr) as [O1 O2 O3 O4 O5].
    rewrite oids_decorate, sections_ok_decorate, rows_ok_decorate, transitions_ok_decorate,
      has_dropped_decorate, skel_node_decorate.
    auto.
  Qed.
End Final.

(* ---- C02: statements as exported ---- *)
Theorem render_restores_cur : forall B C OR (t : tok) (s s' : istate),
  valid (cur s) (tree s) = true ->
  is_section_tag (tag_at (cur s) (tree s)) = false \/ RenderProofs.opens_section t = false ->
  run_i (rt_run (build B C OR t)) s = Good s' ->
  cur s' = cur s /\ lvl s' = lvl s.
Proof.
  intros B C OR t s s' Hv Hc H.
  apply (Refine.run_i_restores (rt_run (build B C OR t)) s s' Hv); [|exact H].
  apply (RenderProofs.all_sub_here _ _ (RenderProofs.build_frameable B C OR t)). exact Hc.
Qed.

Theorem faithful : forall (D : str -> str) B C OR ts doc ws,
  O_lexer_concat OR -> O_canon D OR -> O_no_files OR ->
  static_forest B C OR ts = true ->
  render_doc B C OR ts = Good (doc, ws) ->
  has_dropped doc = false ->
  skel_node D doc = skel_toks D B C OR ts.
Proof.
  intros D B C OR ts doc ws H1 H2 H3 Hst Hr Hd.
  destruct (doc_obs D B C OR ts doc ws Hst Hr) as [_ [_ [_ [_ Hsk]]]].
  apply Hsk; auto. split; [exact H1|]. split; [exact H2|exact H3].
Qed.

(* DYNAMIC SYNTAX.  A directive fence / colon fence / role / substitution / front-matter token whose run the
   oracle answers with the nodes ns: the document that consists of this token is the image of ns - the nodes of
   the run, once, in order, nothing else - and no node object occurs twice. *)
Lemma skel_tok_dyn D B C OR t key :
  dyn_key C OR t = DKey key -> exists img, skel_tok D B C OR t = dyn_skel D B C OR t img.
Proof.
  intro H. destruct t as [ty0 tg0 at0 co0 mk0 in0 me0 mp0 cs0]. unfold dyn_key in H. cbn [ty] in H.
  cbn [skel_tok]. destruct (kind_of ty0); try discriminate H; eexists; reflexivity.
Qed.

Theorem dynamic_spliced_once : forall (D : str -> str) B C OR (t : tok) key ns ws doc wsd,
  O_lexer_concat OR -> O_canon D OR -> O_no_files OR ->
  dyn_key C OR t = DKey key -> o_dyn OR (dyn_full_key B key) = Some (ns, ws) ->
  static_forest B C OR [t] = true ->
  render_doc B C OR [t] = Good (doc, wsd) -> has_dropped doc = false ->
  skel_node D doc = skel_nodes D ns /\ NoDup (oids doc).
Proof.
  intros D B C OR t key ns ws doc wsd H1 H2 H3 Hk Ho Hst Hr Hd.
  destruct (doc_obs D B C OR [t] doc wsd Hst Hr) as [Hn _]. split; [|exact Hn].
  rewrite (faithful D B C OR [t] doc wsd H1 H2 H3 Hst Hr Hd).
  unfold skel_toks. cbn [flat_map]. rewrite app_nil_r.
  destruct (skel_tok_dyn D B C OR t key Hk) as [img ->]. unfold dyn_skel. rewrite Hk, Ho. reflexivity.
Qed.

(* erasing what is specific to one back end from a skeleton: how a code block carries its language, and
   target nodes (Sphinx puts one in front of labelled / numbered equations) *)
Fixpoint erase_backend (s : skel) : list skel :=
  match s with
  | STarget => []
  | SCode _ x => [SCode [] x]
  | SBox k kids => [SBox k (flat_map erase_backend kids)]
  | _ => [s]
  end.

Lemma erase_flat_map_app a b : flat_map erase_backend (a ++ b) = flat_map erase_backend a ++ flat_map erase_backend b.
Proof. apply flat_map_app. Qed.

(* the two back ends were given runs of the dynamic syntax with the same image *)
Definition O_dyn_agree (D : str -> str) (OR : oracles) : Prop := forall key ty,
  flat_map erase_backend (match o_dyn OR (v_docutils :: key) with
                          | Some (ns, _) => skel_nodes D ns | None => [SUnknown ty] end)
  = flat_map erase_backend (match o_dyn OR (v_sphinx :: key) with
                            | Some (ns, _) => skel_nodes D ns | None => [SUnknown ty] end).

Lemma dyn_skel_agree D C OR t imgD imgS : O_dyn_agree D OR ->
  flat_map erase_backend imgD = flat_map erase_backend imgS ->
  flat_map erase_backend (dyn_skel D Docutils C OR t imgD) = flat_map erase_backend (dyn_skel D Sphinx C OR t imgS).
Proof.
  intros Ho Hi. unfold dyn_skel. destruct (dyn_key C OR t) as [|key|]; [exact Hi | apply (Ho key (ty t)) | reflexivity].
Qed.

Lemma skel_tok_backend_agree D C OR : O_dyn_agree D OR -> forall t,
  flat_map erase_backend (skel_tok D Docutils C OR t) = flat_map erase_backend (skel_tok D Sphinx C OR t).
Proof.
  intro Hdyn.
  induction t as [ty0 tg0 at0 co0 mk0 in0 me0 mp0 cs IH] using tok_ind'.
  assert (Hk : flat_map erase_backend (flat_map (skel_tok D Docutils C OR) cs)
               = flat_map erase_backend (flat_map (skel_tok D Sphinx C OR) cs)).
  { induction IH as [|c cs Hc _ IHc]; cbn [flat_map]; auto. rewrite !erase_flat_map_app, Hc, IHc. reflexivity. }
  cbn [skel_tok].
  destruct (kind_of ty0); try (apply dyn_skel_agree; [exact Hdyn | reflexivity]);
    cbn [flat_map erase_backend app is_sphinx]; rewrite ?app_nil_r; try rewrite Hk; try reflexivity.
  - (* s *) destruct spec_s_raws as [|r1 [|r2 [|? ?]]]; try reflexivity.
    rewrite !erase_flat_map_app, Hk. reflexivity.
  - (* amsmath *) cbn [meta]. destruct (assoc a_numbered me0) as [v|]; cbn [negb andb]; try reflexivity.
    destruct (str_eqb v v_star); reflexivity.
Qed.

Lemma skel_toks_backend_agree D C OR ts : O_dyn_agree D OR ->
  flat_map erase_backend (skel_toks D Docutils C OR ts) = flat_map erase_backend (skel_toks D Sphinx C OR ts).
Proof.
  intro Hdyn. unfold skel_toks. induction ts as [|t ts IH]; cbn [flat_map]; auto.
  rewrite !erase_flat_map_app, (skel_tok_backend_agree D C OR Hdyn), IH. reflexivity.
Qed.

Theorem backends_agree : forall (D : str -> str) C OR ts docD wsD docS wsS,
  O_lexer_concat OR -> O_canon D OR -> O_no_files OR -> O_dyn_agree D OR ->
  static_forest Docutils C OR ts = true -> static_forest Sphinx C OR ts = true ->
  render_doc Docutils C OR ts = Good (docD, wsD) -> has_dropped docD = false ->
  render_doc Sphinx C OR ts = Good (docS, wsS) -> has_dropped docS = false ->
  flat_map erase_backend (skel_node D docD) = flat_map erase_backend (skel_node D docS).
Proof.
  intros D C OR ts docD wsD docS wsS H1 H2 H3 H4 HstD HstS HD HdD HS HdS.
  rewrite (faithful D Docutils C OR ts docD wsD H1 H2 H3 HstD HD HdD).
  rewrite (faithful D Sphinx C OR ts docS wsS H1 H2 H3 HstS HS HdS).
  apply skel_toks_backend_agree. exact H4.
Qed.

(* ---- C03: statements as exported ---- *)
Theorem single_occurrence_render : forall B C OR ts doc ws,
  static_forest B C OR ts = true -> render_doc B C OR ts = Good (doc, ws) -> NoDup (oids doc).
Proof. intros B C OR ts doc ws Hst H. destruct (doc_obs (fun x => x) B C OR ts doc ws Hst H) as [X _]. exact X. Qed.

Theorem sections_ok_render : forall B C OR ts doc ws,
  static_forest B C OR ts = true -> render_doc B C OR ts = Good (doc, ws) -> sections_ok [] doc = true.
Proof. intros B C OR ts doc ws Hst H. destruct (doc_obs (fun x => x) B C OR ts doc ws Hst H) as [_ [X _]]. exact X. Qed.

Theorem transitions_ok_guarded : forall B C OR ts doc ws,
  static_forest B C OR ts = true -> forallb hr_top ts = true ->
  render_doc B C OR ts = Good (doc, ws) -> transitions_ok [] doc = true.
Proof.
  intros B C OR ts doc ws Hst Hh H. destruct (doc_obs (fun x => x) B C OR ts doc ws Hst H) as [_ [_ [_ [X _]]]]. auto.
Qed.

Theorem rows_match_cols : forall B C OR ts doc ws,
  static_forest B C OR ts = true -> forallb tshape ts = true ->
  render_doc B C OR ts = Good (doc, ws) -> rows_ok doc = true.
Proof.
  intros B C OR ts doc ws Hst Hh H. destruct (doc_obs (fun x => x) B C OR ts doc ws Hst H) as [_ [_ [X _]]]. auto.
Qed.

(* ---- witnesses ---- *)
Definition v_p := Eval vm_compute in lit "p".
Definition v_codetag := Eval vm_compute in lit "code".
Definition v_fence3 := Eval vm_compute in lit "```".
Definition v_mathtag := Eval vm_compute in lit "math".
Definition v_dd := Eval vm_compute in lit "$$".
Definition v_default := Eval vm_compute in lit "default".
Definition v_idp := Eval vm_compute in lit "id".
Definition tok_text (s : str) : tok := Tok k_text [] [] s [] [] [] None [].
Definition tok_inline (cs : list tok) : tok := Tok k_inline [] [] [] [] [] [] (Some (1, 2)) cs.
Definition tok_para (cs : list tok) : tok := Tok k_paragraph v_p [] [] [] [] [] (Some (1, 2)) [tok_inline cs].
Definition tok_heading (n : N) (cs : list tok) : tok :=
  Tok k_heading [104; 48 + n] [] [] [] [] [] (Some (1, 2)) [tok_inline cs].
Definition tok_fence (info content : str) : tok :=
  Tok k_fence v_codetag [] content v_fence3 info [] (Some (1, 4)) [].

(* a lexer that, like pygments with stripnl, drops leading newlines *)
Fixpoint drop_leading_nl (s : str) : str :=
  match s with
  | c :: r => if N.eqb c 10 then drop_leading_nl r else s
  | [] => []
  end.

Definition stripnl_oracles : oracles :=
  mkO (fun s => if is_empty s then [] else [s]) (fun s => s) (fun s => s) (fun s => s) (fun _ => false) (fun s => s)
      (fun _ text => Some [([], drop_leading_nl text)]) (fun s => s) (fun s => s) (fun _ => None) (fun _ => None)
      (fun _ => None) (fun _ => false) (fun _ => []) (fun _ => None).

Definition v_python := Eval vm_compute in lit "python".

(* code is not verbatim when the lexer strips leading newlines (what pygments does through docutils' Lexer) *)
Theorem code_verbatim_refuted :
  exists (ts : list tok) doc ws,
    static_forest Docutils default_cfg stripnl_oracles ts = true /\
    render_doc Docutils default_cfg stripnl_oracles ts = Good (doc, ws) /\ has_dropped doc = false /\
    skel_node (fun x => x) doc <> skel_toks (fun x => x) Docutils default_cfg stripnl_oracles ts.
Proof.
  exists [tok_fence v_python [10; 10; 120; 10]]. eexists. eexists.
  split; [vm_compute; reflexivity|]. split; [vm_compute; reflexivity|]. split; [vm_compute; reflexivity|].
  vm_compute. discriminate.
Qed.

(* the oracle assumption under which code is verbatim fails for that lexer *)
Lemma stripnl_violates_concat : ~ O_lexer_concat stripnl_oracles.
Proof.
  intro H. specialize (H v_python [10; 120] [([], [120])] eq_refl). vm_compute in H. discriminate H.
Qed.

(* ids: an id generated by docutils' set_id is not registered before; a node's preset ids are taken as they are
   (all_ids, ids_unique: Doc/IdsProofs.v) *)
Definition tok_math_label (content label : str) : tok :=
  Tok k_math_block_label v_mathtag [] content v_dd label [] (Some (1, 2)) [].

Definition sphinx_cfg : cfg :=
  mkCfg Myst false [] true true v_default false v_idp 0 true true.

(* Sphinx renderer: two equations with the same label carry the same id *)
Theorem ids_unique_refuted :
  exists (ts : list tok) doc ws,
    static_forest Sphinx sphinx_cfg dummy_oracles ts = true /\
    render_doc Sphinx sphinx_cfg dummy_oracles ts = Good (doc, ws) /\ ids_unique doc = false.
Proof.
  exists [tok_math_label [97] [108]; tok_math_label [98] [108]]. eexists. eexists.
  split; [vm_compute; reflexivity|]. split; vm_compute; reflexivity.
Qed.

(* GLOBAL: the ids of the rendered document are pairwise distinct, for every forest of the static grammar that
   contains no node created with a preset id (preset_free: no equation label / numbered amsmath environment under
   Sphinx).  The registry is used through its interface only (Api.api); the invariant is IdsProofs.ids_inv. *)
Theorem ids_unique_global : forall B C OR ts doc ws,
  static_forest B C OR ts = true -> forallb (preset_free B) ts = true ->
  render_doc B C OR ts = Good (doc, ws) -> ids_unique doc = true.
Proof.
  intros B C OR ts doc ws Hst Hp H.
  destruct (doc_obs (fun x => x) B C OR ts doc ws Hst H) as [Hn _].
  destruct (render_doc_inv _ _ _ _ _ _ H) as [s [Hr ->]].
  rewrite oids_decorate in Hn.
  apply ids_unique_of_inv; [exact Hn|]. eapply render_ids_inv; eauto.
Qed.

Section SetId.
  Variable make_id : str -> str.
  Variable aip : str.

  Lemma counter_loop_fresh fuel : forall prefix c f i c',
    counter_loop fuel prefix c f = Good (i, c') -> has_key i (ids f) = false.
  Proof.
    induction fuel as [|fuel IH]; intros prefix c f i c' H; simpl in H; [discriminate|].
    destruct (has_key (prefix ++ show (c + 1)%N) (ids f)) eqn:E.
    - eapply IH; eauto.
    - inversion H; subst. exact E.
  Qed.

  Lemma name_loop_fresh names : forall base i0 f broke base' i,
    name_loop make_id names base i0 f = (broke, base', i) -> broke = true -> has_key i (ids f) = false.
  Proof.
    induction names as [|n names IH]; intros base i0 f broke base' i H Hb; simpl in H.
    - inversion H; subst. discriminate.
    - destruct (negb (is_empty (make_id n)) && negb (has_key (make_id n) (ids f))) eqn:E.
      + inversion H; subst. apply andb_true_iff in E. destruct E as [_ E]. apply negb_true_iff in E. exact E.
      + eapply IH; eauto.
  Qed.

  (* document.set_id on a node without ids: the id it generates was not registered, and it is registered for
     the node afterwards *)
  Theorem set_id_fresh : forall o tg f i msgs f',
    nr_ids (get_rec o tg f) = [] ->
    set_id make_id aip o tg f = Good ((i, msgs), f') ->
    has_key i (ids f) = false /\ assoc i (ids f') = Some o.
  Proof.
    intros o tg f i msgs f' Hn H. unfold set_id in H. rewrite Hn in H.
    destruct (name_loop make_id (nr_names (get_rec o tg f)) [] [] f) as [[broke base] i0] eqn:En.
    destruct broke.
    - inversion H; subst. split; [eapply name_loop_fresh; eauto|]. cbn [ids set_ids]. apply OpsProofs.assoc_aset_same.
    - destruct (counter_loop _ _ _ _) as [[i1 c']|e] eqn:Ec; [|discriminate].
      inversion H; subst. split; [eapply counter_loop_fresh; eauto|]. cbn [ids set_ids]. apply OpsProofs.assoc_aset_same.
  Qed.
End SetId.

Theorem code_verbatim : forall (D : str -> str) B C OR (t : tok) doc ws,
  O_lexer_concat OR -> O_canon D OR -> O_no_files OR ->
  kind_of (ty t) = KFence -> dyn_key C OR t = DStatic -> static_forest B C OR [t] = true ->
  render_doc B C OR [t] = Good (doc, ws) -> has_dropped doc = false ->
  skel_node D doc = [SCode (lang_carried B OR t (Some (fence_name B C OR t))) (strip1nl (content t))].
Proof.
  intros D B C OR t doc ws H1 H2 H3 K Hdk Hst Hr Hd.
  rewrite (faithful D B C OR [t] doc ws H1 H2 H3 Hst Hr Hd).
  unfold skel_toks. cbn [flat_map]. rewrite app_nil_r.
  assert (E : skel_tok D B C OR t =
              dyn_skel D B C OR t [SCode (lang_carried B OR t (Some (fence_name B C OR t))) (strip1nl (content t))]).
  { destruct t as [ty0 tg0 at0 co0 mk0 in0 me0 mp0 cs0]. cbn [skel_tok ty] in *. rewrite K. reflexivity. }
  rewrite E. unfold dyn_skel. rewrite Hdk. reflexivity.
Qed.

Theorem transitions_ok_refuted :
  exists (ts : list tok) doc ws,
    render_doc Docutils default_cfg dummy_oracles ts = Good (doc, ws) /\
    transitions_ok [] doc = false.
Proof.
  exists [mk_tok k_blockquote [mk_tok k_hr []]].
  eexists. eexists. split; [vm_compute; reflexivity | vm_compute; reflexivity].
Qed.

(* every token type the model renders has a render_<type> method in both renderer classes (regenerated
   dispatch table): removing a method from the source breaks this *)
Definition dispatched_types : list str :=
  [k_paragraph; k_inline; k_text; k_softbreak; k_hardbreak; k_em; k_strong; k_s; k_code_inline; k_code_block;
   k_fence; k_blockquote; k_bullet_list; k_ordered_list; k_list_item; k_hr; k_heading; k_link; k_image;
   k_html_block; k_html_inline; k_table; k_math_inline; k_math_inline_double; k_math_single; k_math_block;
   k_math_block_label; k_amsmath; k_footnote_ref; k_footnote_reference; k_myst_target; k_myst_block_break;
   k_myst_line_comment; k_dl; k_field_list; k_span].

Lemma rules_cover :
  forallb (has_rule Docutils) dispatched_types = true /\ forallb (has_rule Sphinx) dispatched_types = true.
Proof. split; vm_compute; reflexivity. Qed.

(* the overridden methods of SphinxRenderer are the ones the model distinguishes by back end *)
Definition v_link_path := Eval vm_compute in lit "link_path".
Definition v_link_project := Eval vm_compute in lit "link_project".
Definition v_link_unknown := Eval vm_compute in lit "link_unknown".
Lemma sphinx_overrides_modelled :
  forallb (fun m => mem_str m [k_amsmath; k_math_block_label; v_link_path; v_link_project; v_link_unknown])
          sphinx_overrides = true.
Proof. vm_compute. reflexivity. Qed.

(* rendering followed by the modelled transforms (SortFootnotes, docutils Footnotes, UnreferencedFootnotesDetector,
   CollectFootnotes, ResolveAnchorIds) *)
Theorem single_occurrence_xform : forall B C OR ts doc ws,
  static_forest B C OR ts = true -> render_xform B C OR ts = Good (doc, ws) -> NoDup (oids doc).
Proof.
  intros B C OR ts doc ws Hst H. unfold static_forest in Hst. apply andb_true_iff in Hst. destruct Hst as [Hs1 Hs2].
  unfold render_xform in H. destruct (render_state B C OR ts) as [s|e] eqn:Er; [|discriminate].
  destruct (apply_transforms B C OR s) as [[t f]|e] eqn:Ea; [|discriminate]. inversion H; subst.
  rewrite oids_decorate. eapply apply_transforms_nodup; [|exact Ea].
  apply (render_state_seg (fun x => x) B C OR ts s Hs1 Hs2 Er).
Qed.

Theorem single_occurrence : forall B C OR ts,
  static_forest B C OR ts = true ->
  (forall doc ws, render_doc B C OR ts = Good (doc, ws) -> NoDup (oids doc)) /\
  (forall doc ws, render_xform B C OR ts = Good (doc, ws) -> NoDup (oids doc)).
Proof.
  intros B C OR ts Hst. split; intros doc ws H;
    [exact (single_occurrence_render B C OR ts doc ws Hst H) | exact (single_occurrence_xform B C OR ts doc ws Hst H)].
Qed.
