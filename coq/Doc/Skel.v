(* The specification of property C02: a skeleton type and two erasures.
     skel_tok  : token tree -> skeleton   reads only token fields (the specification side)
     skel_node : doctree    -> skeleton   drops section structure, system messages, labels, colspecs
   "The doctree is a faithful image of the token tree" = the two skeletons are equal: every leaf
   once, in order, with identical content, one container per container, with the carried
   attributes (link destination, image uri / alt, list enumtype / start / suffix / bullet, cell
   alignment, code language). *)
From Coq Require Import List NArith Bool.
From MV Require Import Base.PyStr.
From MV Require Import Doc.Str.
From MV Require Import Doc.Tok.
From MV Require Import Doc.Node.
From MV Require Import Doc.Registry.
From MV Require Import Gen.Render.
From MV Require Import Doc.Render.
Import ListNotations.
Open Scope N_scope.

Inductive ckind : Type :=
| CParagraph | CHeading | CQuote
| CBullet (bullet : option str)
| CEnum (enumtype : str) (start : option str) (suffix : str)
| CItem | CEm | CStrong | CSpan
| CLink (dest : str)
| CTable | CThead | CTbody | CRow
| CCell (align : option str)
| CDl | CTerm | CDef | CFieldList | CFieldName | CFieldBody | CFootnote.

Inductive skel : Type :=
| SText (s : str)
| SLiteral (s : str)                    (* inline code *)
| SCode (lang : list str) (s : str)     (* code block: how the language is carried, text without one final newline *)
| SRaw (fmt s : str)
| SMath (s : str)
| SMathBlock (s : str)
| SImage (uri alt : str)
| STransition
| SFootRef (label : str)
| STarget
| SComment (s : str)
| SUnknown (tag : str)
| SBox (k : ckind) (kids : list skel).

(* text without one trailing newline *)
Definition strip1nl (s : str) : str :=
  match rev s with
  | c :: r => if c =? 10 then rev r else s
  | [] => s
  end.

Definition one (x : option (list str)) : option str :=
  match x with Some [v] => Some v | _ => None end.

(* ------------------------------------------------------------------ node side *)
Inductive nkind :=
| NTransparent | NErased | NHeading | NBox (k : ckind) | NBullet | NEnum | NEntry | NReference | NXref
| NLiteral | NLiteralBlock | NRaw | NMath | NMathBlock | NImage | NTransition | NFootRef | NTarget | NComment
| NSysmsg | NOther.

Definition nkind_table : list (str * nkind) :=
  [(n_document, NTransparent); (n_section, NTransparent); (n_tgroup, NTransparent);
   (n_definition_list_item, NTransparent); (n_field, NTransparent);
   (k_system_message, NSysmsg); (n_colspec, NErased); (n_label, NErased);
   (n_title, NHeading); (n_rubric, NHeading);
   (k_paragraph, NBox CParagraph); (n_block_quote, NBox CQuote); (k_list_item, NBox CItem);
   (n_emphasis, NBox CEm); (k_strong, NBox CStrong); (k_inline, NBox CSpan);
   (k_bullet_list, NBullet); (n_enumerated_list, NEnum);
   (k_table, NBox CTable); (n_thead, NBox CThead); (n_tbody, NBox CTbody); (n_row, NBox CRow); (n_entry, NEntry);
   (n_definition_list, NBox CDl); (n_term, NBox CTerm); (n_definition, NBox CDef);
   (k_field_list, NBox CFieldList); (n_field_name, NBox CFieldName); (n_field_body, NBox CFieldBody);
   (n_footnote, NBox CFootnote);
   (n_reference, NReference); (n_pending_xref, NXref); (n_download_reference, NXref);
   (n_literal, NLiteral); (n_literal_block, NLiteralBlock); (n_raw, NRaw); (n_math, NMath);
   (k_math_block, NMathBlock); (k_image, NImage); (n_transition, NTransition);
   (k_footnote_reference, NFootRef); (n_target, NTarget); (n_comment, NComment)].

Definition nkind_of (tg : str) : nkind :=
  match assoc tg nkind_table with Some k => k | None => NOther end.

Definition first_str (x : option (list str)) : str :=
  match x with Some (v :: _) => v | _ => [] end.

(* the values the specification expects (fixed here; Doc/PostProofs.v proves that the tables regenerated from
   base.py - Gen/Render.v - are these, so a change of the source tables breaks the proof) *)
Definition spec_align : list (str * str) := Eval vm_compute in
  [(lit "text-align:left", lit "text-left"); (lit "text-align:right", lit "text-right");
   (lit "text-align:center", lit "text-center")].
Definition spec_style_map : list (str * str) := Eval vm_compute in
  [(lit "decimal", lit "arabic"); (lit "lower-alpha", lit "loweralpha"); (lit "upper-alpha", lit "upperalpha");
   (lit "lower-roman", lit "lowerroman"); (lit "upper-roman", lit "upperroman")].
Definition spec_default_style : str := Eval vm_compute in lit "arabic".
Definition spec_hardbreak : list (str * str) := Eval vm_compute in
  [(lit "html", lit "<br />" ++ [10]); (lit "latex", lit "\\" ++ [10])].
Definition spec_s_raws : list (str * str) := Eval vm_compute in [(lit "html", lit "<s>"); (lit "html", lit "</s>")].

Section Skel.
  Variable D : str -> str.     (* canonical form of a link destination *)
  Variable B : backend.
  Variable C : cfg.
  Variable OR : oracles.

  (* how a literal_block carries its language: sphinx the language attribute, docutils the classes *)
  Definition code_lang_of (a : nattrs) : list str :=
    match assoc a_language a with
    | Some l => l
    | None => classes_of a
    end.

  Definition link_dest_of (a : nattrs) : str :=
    match assoc a_refuri a with
    | Some l => first_str (Some l)
    | None => match assoc a_refname a with
              | Some l => first_str (Some l)
              | None => first_str (assoc a_reftarget a)
              end
    end.

  (* warnings that stand for content the renderer did not render: a dropped duplicate footnote
     definition (ref.footnote) and a token type without render method (myst.render) *)
  Definition is_dropped_msg (a : nattrs) : bool :=
    match assoc k_msg a with
    | Some [m] => str_eqb m w_ref_footnote || str_eqb m w_render
    | _ => false
    end.

  Fixpoint skel_node (n : node) : list skel :=
    match n with
    | Text _ s => [SText s]
    | Elem _ tg a cs =>
        let kids := flat_map skel_node cs in
        match nkind_of tg with
        | NTransparent => kids
        | NErased => []
        | NSysmsg => []
        | NHeading => [SBox CHeading kids]
        | NBox k => [SBox k kids]
        | NBullet => [SBox (CBullet (one (assoc a_bullet a))) kids]
        | NEnum => [SBox (CEnum (first_str (assoc a_enumtype a)) (one (assoc a_start a))
                                (first_str (assoc a_suffix a))) kids]
        | NEntry => [SBox (CCell (one (assoc a_classes a))) kids]
        | NReference => [SBox (CLink (D (link_dest_of a))) kids]
        | NXref =>
            (* pending_xref / download_reference: the children of the inner inline are the link's children;
               an inner literal is text Sphinx supplies *)
            [SBox (CLink (D (link_dest_of a)))
                  (flat_map (fun c => match c with
                                      | Text _ _ => skel_node c
                                      | Elem _ tg' a' cs' =>
                                          match nkind_of tg' with
                                          | NBox CSpan => flat_map skel_node cs'
                                          | NLiteral => []
                                          | _ => skel_node c
                                          end
                                      end) cs)]
        | NLiteral => [SLiteral (flat_map astext cs)]
        | NLiteralBlock => [SCode (code_lang_of a) (strip1nl (flat_map astext cs))]
        | NRaw => [SRaw (first_str (assoc a_format a)) (flat_map astext cs)]
        | NMath => [SMath (flat_map astext cs)]
        | NMathBlock => [SMathBlock (flat_map astext cs)]
        | NImage => [SImage (first_str (assoc a_uri a)) (first_str (assoc a_alt a))]
        | NTransition => [STransition]
        | NFootRef => [SFootRef (first_str (assoc a_refname a))]
        | NTarget => [STarget]
        | NComment => [SComment (flat_map astext cs)]
        | NOther => [SUnknown tg]
        end
    end.

  Definition skel_nodes (ns : list node) : list skel := flat_map skel_node ns.

  (* a "Duplicate footnote definition" warning node: the renderer dropped a footnote definition here *)
  Fixpoint has_dropped (n : node) : bool :=
    match n with
    | Text _ _ => false
    | Elem _ tg a cs =>
        (str_eqb tg k_system_message && is_dropped_msg a) || existsb has_dropped cs
    end.

  (* ------------------------------------------------------------------ token side *)
  Definition lang_carried (t : tok) (lexer : option str) : list str :=
    let l := match lexer with Some l => l | None => [] end in
    if is_sphinx B then [if is_empty l then v_none_lang else l]
    else v_code :: (if is_empty l then [] else [l])
         ++ match attr_get t a_class with Some c => o_split OR c | None => [] end.

  Definition fence_name (t : tok) : str :=
    let name := match o_split OR (o_strip OR (info t)) with w :: _ => w | [] => [] end in
    if is_empty name && is_sphinx B then c_highlight_language C else name.

  Definition code_block_lexer (t : tok) : option str :=
    if is_empty (info t) then None
    else match o_split OR (info t) with w :: _ => Some w | [] => None end.

  (* the alt text of an image as markdown-it defines it: text leaves, soft breaks as newlines *)
  Fixpoint alt_of (t : tok) : str :=
    match t with
    | Tok ty _ _ content _ _ _ _ cs =>
        match kind_of ty with
        | KText => content
        | KSoftbreak => [10]
        | _ => flat_map alt_of cs
        end
    end.

  Definition raw_skels (l : list (str * str)) : list skel := map (fun fx => SRaw (fst fx) (snd fx)) l.

  Definition html_text (t : tok) : str :=
    match c_mode C with Gfm => o_gfm_filter OR (content t) | _ => content t end.

  Definition align_of (t : tok) : option str :=
    match attr_get t a_style with
    | Some s => assoc s spec_align
    | None => None
    end.

  Definition enum_style (t : tok) : str :=
    match attr_get t a_style with
    | Some s => match assoc s spec_style_map with Some e => e | None => spec_default_style end
    | None => spec_default_style
    end.

  (* dynamic syntax: which oracle question a token asks (token fields only) *)
  Inductive dynk := DStatic | DKey (key : list str) | DUnsupported.

  Definition info_name (t : tok) : str :=
    match o_split OR (o_strip OR (info t)) with w :: _ => w | [] => [] end.
  Definition info_arguments (t : tok) : str :=
    match o_split1 OR (o_strip OR (info t)) with _ :: a :: _ => a | _ => [] end.
  Definition braced (s : str) : bool := starts_brace s && ends_brace s.

  Definition dyn_key (t : tok) : dynk :=
    match kind_of (ty t) with
    | KFence =>
        match c_mode C with
        | Myst => if str_eqb (info_name t) v_eval_rst then DUnsupported
                  else if braced (info_name t)
                       then DKey [v_directive; strip_braces (info_name t); info_arguments t; content t]
                       else DStatic
        | _ => DStatic
        end
    | KColonFence =>
        if braced (info_name t)
        then DKey [v_directive; strip_braces (info_name t); info_arguments t;
                   if startswith (content t) v_colons then 10 :: content t else content t]
        else DUnsupported
    | KMystRole =>
        match assoc a_name (meta t) with
        | Some name => DKey [v_role; name; content t]
        | None => DUnsupported
        end
    | KSubstInline => DKey [v_substitution; v_true; content t]
    | KSubstBlock => DKey [v_substitution; v_false; content t]
    | KFrontMatter => DKey [k_front_matter; content t]
    | _ => DStatic
    end.

  (* the image of a dynamic token is the image of what its run returns *)
  Definition dyn_skel (t : tok) (static_image : list skel) : list skel :=
    match dyn_key t with
    | DStatic => static_image
    | DKey key => match o_dyn OR (dyn_full_key B key) with
                  | Some (ns, _) => skel_nodes ns
                  | None => [SUnknown (ty t)]
                  end
    | DUnsupported => [SUnknown (ty t)]
    end.

  Definition dyn_static (t : tok) : bool :=
    match dyn_key t with
    | DStatic => true
    | DKey key => match o_dyn OR (dyn_full_key B key) with
                  | Some (ns, _) => forallb dyn_node_ok ns
                  | None => false
                  end
    | DUnsupported => false
    end.

  Fixpoint skel_tok (t : tok) : list skel :=
    match t with
    | Tok ty _ _ _ _ _ _ _ cs =>
        let kids := flat_map skel_tok cs in
        match kind_of ty with
        | KParagraph => [SBox CParagraph kids]
        | KInline => kids
        | KText => [SText (content t)]
        | KSoftbreak => [SText [10]]
        | KHardbreak => raw_skels spec_hardbreak
        | KEm => [SBox CEm kids]
        | KStrong => [SBox CStrong kids]
        | KS => match spec_s_raws with
                | [r1; r2] => raw_skels [r1] ++ kids ++ raw_skels [r2]
                | _ => [SUnknown ty]
                end
        | KCodeInline => [SLiteral (content t)]
        | KCodeBlock => [SCode (lang_carried t (code_block_lexer t)) (strip1nl (content t))]
        | KFence => dyn_skel t [SCode (lang_carried t (Some (fence_name t))) (strip1nl (content t))]
        | KBlockquote => [SBox CQuote kids]
        | KBulletList => [SBox (CBullet (if is_empty (markup t) then None else Some (markup t))) kids]
        | KOrderedList => [SBox (CEnum (enum_style t) (attr_get t a_start) (markup t)) kids]
        | KListItem => [SBox CItem kids]
        | KHr => [STransition]
        | KHeading => [SBox CHeading kids]
        | KLink => [SBox (CLink (D (href_of t))) kids]
        | KImage => [SImage (match attr_get t a_src with Some s => s | None => [] end) (flat_map alt_of cs)]
        | KHtmlBlock | KHtmlInline => [SRaw v_html (html_text t)]
        | KTable => [SBox CTable kids]
        | KThead => [SBox CThead kids]
        | KTbody => [SBox CTbody kids]
        | KTr => [SBox CRow kids]
        | KTh | KTd => [SBox (CCell (align_of t)) [SBox CParagraph kids]]
        | KMathInline | KMathSingle => [SMath (content t)]
        | KMathInlineDouble | KMathBlock => [SMathBlock (content t)]
        | KMathBlockLabel => (if is_sphinx B then [STarget] else []) ++ [SMathBlock (content t)]
        | KAmsmath =>
            (if is_sphinx B && negb (match assoc a_numbered (meta t) with Some v => str_eqb v v_star | None => true end)
             then [STarget] else []) ++ [SMathBlock (content t)]
        | KFootnoteRef => [SFootRef (match assoc a_label (meta t) with Some l => l | None => [] end)]
        | KFootnoteReference => [SBox CFootnote kids]
        | KMystTarget => [STarget]
        | KMystBlockBreak => [SComment (content t)]
        | KMystLineComment => [SComment (o_strip OR (content t))]
        | KDl => [SBox CDl kids]
        | KDt => [SBox CTerm kids]
        | KDd => [SBox CDef kids]
        | KFieldList => [SBox CFieldList kids]
        | KFieldlistName => [SBox CFieldName kids]
        | KFieldlistBody => [SBox CFieldBody kids]
        | KSpan => [SBox CSpan kids]
        | KColonFence | KMystRole | KSubstInline | KSubstBlock | KFrontMatter => dyn_skel t [SUnknown ty]
        | KOther => [SUnknown ty]
        end
    end.

  Definition skel_toks (ts : list tok) : list skel := flat_map skel_tok ts.

  (* ------------------------------------------------------------------ the static grammar *)
  Fixpoint nodup_keys (l : list (str * str)) : bool :=
    match l with
    | [] => true
    | (k, _) :: r => negb (has_key k r) && nodup_keys r
    end.

  Definition link_static (t : tok) : bool :=
    negb (str_eqb (info t) v_auto && startswith (href_of t) [35])
    && match scheme_of (href_of t) with
       | Some s => negb (str_eqb s v_inv || str_eqb s v_path || str_eqb s v_project)
       | None => true
       end.

  (* table = thead with one row (tr of th/td), optionally followed by one tbody of rows *)
  Definition cell_static (c : tok) : bool :=
    match kind_of (ty c) with KTh | KTd => true | _ => false end.
  Definition row_static (r : tok) : bool :=
    match kind_of (ty r) with KTr => forallb cell_static (children r) | _ => false end.
  Definition thead_static (h : tok) : bool :=
    match kind_of (ty h), children h with KThead, [r] => row_static r | _, _ => false end.
  Definition tbody_static (b : tok) : bool :=
    match kind_of (ty b) with KTbody => forallb row_static (children b) | _ => false end.
  Definition table_static (cs : list tok) : bool :=
    match cs with
    | [h] => thead_static h
    | [h; b] => thead_static h && tbody_static b
    | _ => false
    end.

  (* field list = (fieldlist_name, fieldlist_body) pairs, as the plug-in emits them *)
  Fixpoint field_static (cs : list tok) : bool :=
    match cs with
    | [] => true
    | n :: b :: r =>
        match kind_of (ty n), kind_of (ty b) with
        | KFieldlistName, KFieldlistBody => field_static r
        | _, _ => false
        end
    | _ => false
    end.

  Fixpoint static_tok (t : tok) : bool :=
    match t with
    | Tok ty _ attrs _ _ _ _ _ cs =>
        nodup_keys attrs
        && match kind_of ty with
           | KLink => link_static t
           | KTable => table_static cs
           | KFieldList => field_static cs
           | _ => true
           end
        && (dyn_static t
            && match kind_of ty with
               | KImage => true                 (* the children of an image only contribute its alt text *)
               | _ => forallb static_tok cs
               end)
    end.

  Definition static (ts : list tok) : bool := forallb static_tok ts.
End Skel.
