(* Executable comparison of the two skeletons: used by the correspondence check to test the
   STATEMENT of C02_faithful on real token trees (a counterexample search for the theorem). *)
From Coq Require Import List NArith Bool.
From MV Require Import Base.PyStr.
From MV Require Import Doc.Str.
From MV Require Import Doc.Tok.
From MV Require Import Doc.Node.
From MV Require Import Doc.Registry.
From MV Require Import Doc.Prog.
From MV Require Import Doc.Render.
From MV Require Import Doc.Skel.
From MV Require Import Doc.WF.
Import ListNotations.

Definition ostr_eqb (a b : option str) : bool :=
  match a, b with
  | Some x, Some y => str_eqb x y
  | None, None => true
  | _, _ => false
  end.

Fixpoint strs_eqb (a b : list str) : bool :=
  match a, b with
  | [], [] => true
  | x :: a', y :: b' => str_eqb x y && strs_eqb a' b'
  | _, _ => false
  end.

Definition ckind_eqb (a b : ckind) : bool :=
  match a, b with
  | CParagraph, CParagraph | CHeading, CHeading | CQuote, CQuote | CItem, CItem | CEm, CEm
  | CStrong, CStrong | CSpan, CSpan | CTable, CTable | CThead, CThead | CTbody, CTbody | CRow, CRow
  | CDl, CDl | CTerm, CTerm | CDef, CDef | CFieldList, CFieldList | CFieldName, CFieldName
  | CFieldBody, CFieldBody | CFootnote, CFootnote => true
  | CBullet x, CBullet y => ostr_eqb x y
  | CEnum e1 s1 x1, CEnum e2 s2 x2 => str_eqb e1 e2 && ostr_eqb s1 s2 && str_eqb x1 x2
  | CLink x, CLink y => str_eqb x y
  | CCell x, CCell y => ostr_eqb x y
  | _, _ => false
  end.

Fixpoint skel_eqb (a b : skel) {struct a} : bool :=
  match a, b with
  | SText x, SText y | SLiteral x, SLiteral y | SMath x, SMath y | SMathBlock x, SMathBlock y
  | SFootRef x, SFootRef y | SComment x, SComment y | SUnknown x, SUnknown y => str_eqb x y
  | SCode l1 x, SCode l2 y => strs_eqb l1 l2 && str_eqb x y
  | SRaw f1 x, SRaw f2 y => str_eqb f1 f2 && str_eqb x y
  | SImage u1 a1, SImage u2 a2 => str_eqb u1 u2 && str_eqb a1 a2
  | STransition, STransition | STarget, STarget => true
  | SBox k1 l1, SBox k2 l2 =>
      ckind_eqb k1 k2 &&
      (fix go (x y : list skel) : bool :=
         match x, y with
         | [], [] => true
         | p :: x', q :: y' => skel_eqb p q && go x' y'
         | _, _ => false
         end) l1 l2
  | _, _ => false
  end.

Fixpoint skels_eqb (a b : list skel) : bool :=
  match a, b with
  | [], [] => true
  | x :: a', y :: b' => skel_eqb x y && skels_eqb a' b'
  | _, _ => false
  end.

(* (static ts, a footnote was dropped, skeletons equal, well-formedness clauses of C03) for a rendered forest *)
Definition faithful_check (B : backend) (C : cfg) (OR : oracles) (ts : list tok)
  : outcome (bool * bool * bool * (bool * bool * bool)) :=
  match render_doc B C OR ts with
  | Bad e => Bad e
  | Good (doc, _) =>
      Good (static B C OR ts, has_dropped doc,
            skels_eqb (skel_node (o_nlt OR) doc) (skel_toks (o_nlt OR) B C OR ts),
            (sections_ok [] doc, transitions_ok [] doc, rows_ok doc))
  end.
