(* String literals and association lists for the doctree model (group Doc; owned by C02/C03). *)
From Coq Require Import List NArith Bool.
From Coq Require String Ascii.
Export String.StringSyntax.
From MV Require Import Base.PyStr.
Import ListNotations.
Open Scope N_scope.

(* Coq string literal -> list of code points *)
Fixpoint lit (x : String.string) : str :=
  match x with
  | String.EmptyString => []
  | String.String a r => Ascii.N_of_ascii a :: lit r
  end.

Arguments lit x%string_scope.

(* ---- Python dict with str keys as ordered association list ---- *)
Fixpoint assoc {V : Type} (k : str) (l : list (str * V)) : option V :=
  match l with
  | [] => None
  | (k', v) :: r => if str_eqb k k' then Some v else assoc k r
  end.

Definition has_key {V : Type} (k : str) (l : list (str * V)) : bool :=
  match assoc k l with Some _ => true | None => false end.

(* d[k] = v : replaces in place, new keys go to the end (dict insertion order) *)
Fixpoint aset {V : Type} (k : str) (v : V) (l : list (str * V)) : list (str * V) :=
  match l with
  | [] => [(k, v)]
  | (k', v') :: r => if str_eqb k k' then (k, v) :: r else (k', v') :: aset k v r
  end.

Fixpoint adel {V : Type} (k : str) (l : list (str * V)) : list (str * V) :=
  match l with
  | [] => []
  | (k', v') :: r => if str_eqb k k' then r else (k', v') :: adel k r
  end.

(* ---- dict keyed by object identity (allocation number) ---- *)
Fixpoint nassoc {V : Type} (k : N) (l : list (N * V)) : option V :=
  match l with
  | [] => None
  | (k', v) :: r => if N.eqb k k' then Some v else nassoc k r
  end.

Fixpoint nset {V : Type} (k : N) (v : V) (l : list (N * V)) : list (N * V) :=
  match l with
  | [] => [(k, v)]
  | (k', v') :: r => if N.eqb k k' then (k, v) :: r else (k', v') :: nset k v r
  end.

(* list.remove(x): first occurrence *)
Fixpoint remove_first (x : str) (l : list str) : list str :=
  match l with
  | [] => []
  | y :: r => if str_eqb x y then r else y :: remove_first x r
  end.

(* s[n:] *)
Fixpoint drop (n : nat) (s : str) : str :=
  match n, s with
  | O, _ => s
  | S n', [] => []
  | S n', _ :: r => drop n' r
  end.

Definition is_empty (s : str) : bool := match s with [] => true | _ => false end.

(* markdown_it.common.utils.escapeHtml: ampersand, less-than, greater-than, double quote *)
Definition e_amp : str := Eval vm_compute in lit "&amp;".
Definition e_lt : str := Eval vm_compute in lit "&lt;".
Definition e_gt : str := Eval vm_compute in lit "&gt;".
Definition e_quot : str := Eval vm_compute in lit "&quot;".

Fixpoint escape_html (s : str) : str :=
  match s with
  | [] => []
  | c :: r =>
      (if c =? 38 then e_amp
       else if c =? 60 then e_lt
       else if c =? 62 then e_gt
       else if c =? 34 then e_quot
       else [c]) ++ escape_html r
  end.

(* REGEX_SCHEME: a letter, then letters / digits / plus / period / hyphen, then a colon; group 1 is the scheme *)
Definition is_alpha (c : N) : bool := ((65 <=? c) && (c <=? 90)) || ((97 <=? c) && (c <=? 122)).
Definition is_scheme_char (c : N) : bool :=
  is_alpha c || ((48 <=? c) && (c <=? 57)) || (c =? 43) || (c =? 46) || (c =? 45).

Fixpoint scheme_rest (s acc : str) : option str :=
  match s with
  | [] => None
  | c :: r => if c =? 58 then Some (rev acc)
              else if is_scheme_char c then scheme_rest r (c :: acc) else None
  end.

Definition scheme_of (href : str) : option str :=
  match href with
  | c :: r => if is_alpha c then scheme_rest r [c] else None
  | [] => None
  end.
