(* Path lemmas and the refinement theorem: for every program p and every state whose current
   path leads to an element, the Python semantics run_i appends at the current path exactly the
   nodes the functional semantics run_f returns, and leaves current path and level map as they
   were (unless p opens a section, which run_f refuses with ENotFrameable). *)
From Coq Require Import List NArith Bool Lia PeanoNat Arith.
From MV Require Import Base.PyStr.
From MV Require Import Base.Res.
From MV Require Import Doc.Str.
From MV Require Import Doc.Node.
From MV Require Import Doc.Registry.
From MV Require Import Doc.Prog.
Import ListNotations.

(* ---- upd_nth ---- *)
Lemma upd_nth_length {A} i (f : A -> A) l : length (upd_nth i f l) = length l.
Proof. revert i; induction l as [|x l IH]; intros [|i]; simpl; auto. Qed.

Lemma nth_error_upd_nth_same {A} i (f : A -> A) l :
  nth_error (upd_nth i f l) i = option_map f (nth_error l i).
Proof. revert i; induction l as [|x l IH]; intros [|i]; simpl; auto. Qed.

Lemma nth_error_upd_nth_other {A} i j (f : A -> A) l :
  i <> j -> nth_error (upd_nth i f l) j = nth_error l j.
Proof.
  revert i j; induction l as [|x l IH]; intros [|i] [|j] H; simpl; auto; try congruence.
Qed.

Lemma upd_nth_compose {A} i (f g : A -> A) l :
  upd_nth i f (upd_nth i g l) = upd_nth i (fun x => f (g x)) l.
Proof. revert i; induction l as [|x l IH]; intros [|i]; simpl; auto. f_equal. apply IH. Qed.

Lemma upd_nth_ext {A} i (f g : A -> A) l :
  (forall x, nth_error l i = Some x -> f x = g x) -> upd_nth i f l = upd_nth i g l.
Proof.
  revert i; induction l as [|x l IH]; intros [|i] H; simpl; auto.
  - f_equal. apply H. reflexivity.
  - f_equal. apply IH. intros y Hy. apply H. exact Hy.
Qed.

Lemma upd_nth_id {A} i (f : A -> A) l :
  (forall x, nth_error l i = Some x -> f x = x) -> upd_nth i f l = l.
Proof.
  revert i; induction l as [|x l IH]; intros [|i] H; simpl; auto.
  - f_equal. apply H. reflexivity.
  - f_equal. apply IH. intros y Hy. apply H. exact Hy.
Qed.

Lemma nth_error_app_len {A} (l : list A) x : nth_error (l ++ [x]) (length l) = Some x.
Proof. induction l; simpl; auto. Qed.

(* ---- app_at / get_at ---- *)
Lemma app_at_text p ns o s : app_at p ns (Text o s) = Text o s.
Proof. destruct p; reflexivity. Qed.

Lemma app_at_nil p t : app_at p [] t = t.
Proof.
  revert t; induction p as [|i p IH]; intros [o s|o tg a cs]; simpl; auto.
  - rewrite app_nil_r. reflexivity.
  - f_equal. apply upd_nth_id. intros x _. apply IH.
Qed.

Lemma app_at_app p ns1 ns2 t : app_at p (ns1 ++ ns2) t = app_at p ns2 (app_at p ns1 t).
Proof.
  revert t; induction p as [|i p IH]; intros [o s|o tg a cs]; simpl; auto.
  - rewrite app_assoc. reflexivity.
  - f_equal. rewrite upd_nth_compose. apply upd_nth_ext. intros x _. apply IH.
Qed.

Lemma tag_of_app_at p ns t : tag_of (app_at p ns t) = tag_of t.
Proof. destruct p, t; reflexivity. Qed.

Lemma is_elem_app_at p ns t :
  match app_at p ns t with Elem _ _ _ _ => true | Text _ _ => false end =
  match t with Elem _ _ _ _ => true | Text _ _ => false end.
Proof. destruct p, t; reflexivity. Qed.

Lemma get_at_app q r t :
  get_at (q ++ r) t = match get_at q t with Some n => get_at r n | None => None end.
Proof.
  revert t; induction q as [|i q IH]; intros t; simpl; auto.
  destruct (nth_error (kids_of t) i); auto.
Qed.

(* looking at q after appending at p: the node there keeps its tag and stays an element *)
Lemma get_at_app_at_shape q : forall p ns t n,
  get_at q t = Some n ->
  exists n', get_at q (app_at p ns t) = Some n' /\ tag_of n' = tag_of n /\
             (match n' with Elem _ _ _ _ => true | Text _ _ => false end =
              match n with Elem _ _ _ _ => true | Text _ _ => false end).
Proof.
  induction q as [|j q IH]; intros p ns t n H; simpl in *.
  - inversion H; subst. eexists; split; [reflexivity|]. split; [apply tag_of_app_at | apply is_elem_app_at].
  - destruct t as [o s|o tg a cs]; simpl in H.
    + destruct j; discriminate.
    + destruct (nth_error cs j) as [c|] eqn:E; [|discriminate].
      destruct p as [|i p]; simpl.
      * rewrite nth_error_app1 by (apply nth_error_Some; congruence). rewrite E.
        exists n. auto.
      * destruct (Nat.eq_dec i j) as [->|Hne].
        -- rewrite nth_error_upd_nth_same, E. simpl. apply IH. exact H.
        -- rewrite nth_error_upd_nth_other by exact Hne. rewrite E. exists n. auto.
Qed.

Lemma valid_app_at q p ns t : valid q t = true -> valid q (app_at p ns t) = true.
Proof.
  unfold valid. destruct (get_at q t) as [n|] eqn:E; [|discriminate].
  intro H. destruct (get_at_app_at_shape q p ns t n E) as [n' [E' [_ Hs]]].
  rewrite E'. destruct n; [discriminate|]. destruct n'; [discriminate|reflexivity].
Qed.

Lemma tag_at_app_at q p ns t : valid q t = true -> tag_at q (app_at p ns t) = tag_at q t.
Proof.
  unfold valid, tag_at. destruct (get_at q t) as [n|] eqn:E; [|discriminate].
  intros _. destruct (get_at_app_at_shape q p ns t n E) as [n' [E' [Ht _]]].
  rewrite E'. exact Ht.
Qed.

(* the node at p itself, after appending at p *)
Lemma get_at_app_at_same p : forall ns t o tg a cs,
  get_at p t = Some (Elem o tg a cs) ->
  get_at p (app_at p ns t) = Some (Elem o tg a (cs ++ ns)).
Proof.
  induction p as [|i p IH]; intros ns t o tg a cs H; simpl in *.
  - inversion H; subst. reflexivity.
  - destruct t as [o' s|o' tg' a' cs']; simpl in H.
    + destruct i; discriminate.
    + destruct (nth_error cs' i) as [c|] eqn:E; [|discriminate]. simpl.
      rewrite nth_error_upd_nth_same, E. simpl. apply IH. exact H.
Qed.

Lemma valid_elem p t : valid p t = true -> exists o tg a cs, get_at p t = Some (Elem o tg a cs).
Proof.
  unfold valid. destruct (get_at p t) as [[o s|o tg a cs]|]; try discriminate. intros _. eauto.
Qed.

(* the freshly appended child *)
Lemma get_at_new_child p n t :
  valid p t = true -> get_at (p ++ [nchildren p t]) (app_at p [n] t) = Some n.
Proof.
  intro H. destruct (valid_elem p t H) as [o [tg [a [cs E]]]].
  rewrite get_at_app. rewrite (get_at_app_at_same p [n] t o tg a cs E).
  unfold nchildren. rewrite E. simpl. rewrite nth_error_app_len. reflexivity.
Qed.

(* appending under the freshly appended child = appending the child with those children *)
Lemma app_at_under_new p : forall t o tg a cs0 ms,
  valid p t = true ->
  app_at (p ++ [nchildren p t]) ms (app_at p [Elem o tg a cs0] t) =
  app_at p [Elem o tg a (cs0 ++ ms)] t.
Proof.
  induction p as [|i p IH]; intros t o tg a cs0 ms H.
  - destruct (valid_elem [] t H) as [o' [tg' [a' [cs' E]]]]. simpl in E. inversion E; subst.
    unfold nchildren. simpl. f_equal.
    assert (G : forall (l : list node) x, upd_nth (length l) (app_at [] ms) (l ++ [x]) = l ++ [app_at [] ms x]).
    { induction l; simpl; auto. intro x. f_equal. apply IHl. }
    rewrite G. reflexivity.
  - destruct (valid_elem (i :: p) t H) as [o' [tg' [a' [cs' E]]]].
    destruct t as [ot st|ot tgt at_ cst]; simpl in E.
    + destruct i; discriminate.
    + destruct (nth_error cst i) as [c|] eqn:Ec; [|discriminate].
      assert (Hv : valid p c = true) by (unfold valid; rewrite E; reflexivity).
      assert (Hn : nchildren (i :: p) (Elem ot tgt at_ cst) = nchildren p c).
      { unfold nchildren. simpl. rewrite Ec. reflexivity. }
      rewrite Hn. simpl. f_equal. rewrite upd_nth_compose. apply upd_nth_ext.
      intros x Hx. rewrite Ec in Hx. inversion Hx; subst. apply IH. exact Hv.
Qed.

(* ---- the refinement theorem ---- *)
Definition embed (s : istate) (r : outcome (list node * fstate)) : outcome istate :=
  match r with
  | Good (ns, f') => Good (mkI (app_at (cur s) ns (tree s)) (cur s) (lvl s) f')
  | Bad e => Bad e
  end.

Definition st_valid (s : istate) : Prop := valid (cur s) (tree s) = true.
Definition st_tag (s : istate) : str := tag_at (cur s) (tree s).

Theorem refine : forall (p : prog) (s : istate) r,
  st_valid s ->
  run_f p (st_tag s) (fs s) = Some r ->
  run_i p s = embed s r.
Proof.
  induction p as [ | e | B op k IH | n k IH | k IH | o tg a cs0 body IHb k IHk
                   | o tg a cs0 body IHb k IHk | level k IH | level sec k IH ];
    intros s r Hv Hr; simpl in *.
  - (* Done *) inversion Hr; subst. simpl. rewrite app_at_nil. destruct s; reflexivity.
  - (* Fail *) inversion Hr; subst. reflexivity.
  - (* FOp *)
    destruct (op (fs s)) as [[b f']|e] eqn:E.
    + apply (IH b (mkI (tree s) (cur s) (lvl s) f')); auto.
    + inversion Hr; subst. reflexivity.
  - (* Append *)
    assert (Ht1 : tag_at (cur s) (app_at (cur s) [n] (tree s)) = st_tag s) by (apply tag_at_app_at; exact Hv).
    destruct (run_f k (st_tag s) (fs s)) as [r1|] eqn:E; [|discriminate].
    rewrite (IH (mkI (app_at (cur s) [n] (tree s)) (cur s) (lvl s) (fs s)) r1);
      [ | unfold st_valid; cbn [tree cur]; apply valid_app_at; exact Hv
        | unfold st_tag; cbn [tree cur fs]; rewrite Ht1; exact E ].
    destruct r1 as [[ns f']|e]; inversion Hr; subst; cbn [embed tree cur lvl fs]; [|reflexivity].
    rewrite <- app_at_app. reflexivity.
  - (* CurTag *) apply IH; auto.
  - (* Ctx *)
    assert (Hg : get_at (cur s ++ [nchildren (cur s) (tree s)]) (app_at (cur s) [Elem o tg a cs0] (tree s))
                 = Some (Elem o tg a cs0)) by (apply get_at_new_child; exact Hv).
    destruct (run_f body tg (fs s)) as [rb|] eqn:Eb; [|discriminate].
    rewrite (IHb (mkI (app_at (cur s) [Elem o tg a cs0] (tree s)) (cur s ++ [nchildren (cur s) (tree s)])
                      (lvl s) (fs s)) rb);
      [ | unfold st_valid, valid; cbn [tree cur]; rewrite Hg; reflexivity
        | unfold st_tag, tag_at; cbn [tree cur fs]; rewrite Hg; exact Eb ].
    destruct rb as [[cs f1]|e]; [|inversion Hr; subst; reflexivity].
    cbn [embed tree cur lvl fs]. rewrite app_at_under_new by exact Hv.
    rewrite (get_at_new_child (cur s) (Elem o tg a (cs0 ++ cs)) (tree s) Hv).
    assert (Ht2 : tag_at (cur s) (app_at (cur s) [Elem o tg a (cs0 ++ cs)] (tree s)) = st_tag s)
      by (apply tag_at_app_at; exact Hv).
    destruct (run_f (k (Elem o tg a (cs0 ++ cs))) (st_tag s) f1) as [rk|] eqn:Ek; [|discriminate].
    rewrite (IHk (Elem o tg a (cs0 ++ cs))
                 (mkI (app_at (cur s) [Elem o tg a (cs0 ++ cs)] (tree s)) (cur s) (lvl s) f1) rk);
      [ | unfold st_valid; cbn [tree cur]; apply valid_app_at; exact Hv
        | unfold st_tag; cbn [tree cur fs]; rewrite Ht2; exact Ek ].
    destruct rk as [[ns f2]|e]; inversion Hr; subst; cbn [embed tree cur lvl fs]; [|reflexivity].
    rewrite <- app_at_app. reflexivity.
  - (* Detached *)
    destruct (run_f body tg (fs s)) as [rb|] eqn:Eb; [|discriminate].
    rewrite (IHb (mkI (Elem o tg a cs0) [] (lvl s) (fs s)) rb); [ | reflexivity | exact Eb ].
    destruct rb as [[cs f1]|e]; [|inversion Hr; subst; reflexivity].
    cbn [embed tree cur lvl fs app_at].
    apply (IHk (Elem o tg a (cs0 ++ cs)) (mkI (tree s) (cur s) (lvl s) f1) r Hv). exact Hr.
  - (* LevelParent *) discriminate.
  - (* OpenSection *) discriminate.
Qed.

Lemma frameable_run_f : forall p ctag f, frameable p ctag -> run_f p ctag f <> None.
Proof.
  induction p as [ | e | B op k IH | n k IH | k IH | o tg a cs0 body IHb k IHk
                   | o tg a cs0 body IHb k IHk | level k IH | level sec k IH ];
    intros ctag f H; simpl in *; try discriminate; try contradiction.
  - destruct (op f) as [[b f']|e]; [apply IH; apply H | discriminate].
  - specialize (IH ctag f H). destruct (run_f k ctag f) as [[[ns f']|e]|]; try discriminate. congruence.
  - apply IH. exact H.
  - destruct H as [Hb Hk]. specialize (IHb tg f Hb).
    destruct (run_f body tg f) as [[[cs f1]|e]|]; try discriminate; [|congruence].
    specialize (IHk (Elem o tg a (cs0 ++ cs)) ctag f1 (Hk _)).
    destruct (run_f (k _) ctag f1) as [[[ns f2]|e]|]; try discriminate. congruence.
  - destruct H as [Hb Hk]. specialize (IHb tg f Hb).
    destruct (run_f body tg f) as [[[cs f1]|e]|]; try discriminate; [|congruence].
    apply IHk. apply Hk.
Qed.

(* what a frameable program does under the Python semantics *)
Corollary refine_frameable : forall p s,
  st_valid s -> frameable p (st_tag s) ->
  exists r, run_f p (st_tag s) (fs s) = Some r /\ run_i p s = embed s r.
Proof.
  intros p s Hv Hf. destruct (run_f p (st_tag s) (fs s)) as [r|] eqn:E.
  - exists r. split; auto. apply refine; auto.
  - exfalso. exact (frameable_run_f p _ _ Hf E).
Qed.

Corollary run_i_restores : forall p s s',
  st_valid s -> frameable p (st_tag s) ->
  run_i p s = Good s' -> cur s' = cur s /\ lvl s' = lvl s.
Proof.
  intros p s s' Hv Hf H. destruct (refine_frameable p s Hv Hf) as [r [_ E]].
  rewrite E in H. destruct r as [[ns f']|e]; simpl in H; inversion H; subst. simpl. auto.
Qed.

(* sequencing *)
Lemma run_i_seq : forall p q s,
  run_i (seq p q) s = match run_i p s with Good s1 => run_i q s1 | Bad e => Bad e end.
Proof.
  induction p as [ | e | B op k IH | n k IH | k IH | o tg a cs0 body IHb k IHk
                   | o tg a cs0 body IHb k IHk | level k IH | level sec k IH ];
    intros q s; simpl; auto.
  - destruct (op (fs s)) as [[b f']|e]; auto.
  - destruct (run_i body _) as [s1|e]; auto. destruct (get_at _ _); auto.
  - destruct (run_i body _) as [s1|e]; auto.
  - destruct (parent_level (lvl s) level None) as [[l pp]|]; auto.
Qed.

Lemma frameable_seq : forall p q ctag, frameable p ctag -> frameable q ctag -> frameable (seq p q) ctag.
Proof.
  induction p as [ | e | B op k IH | n k IH | k IH | o tg a cs0 body IHb k IHk
                   | o tg a cs0 body IHb k IHk | level k IH | level sec k IH ];
    intros q ctag Hp Hq; simpl in *; auto; try contradiction.
  - destruct Hp as [Hb Hk]. split; auto.
  - destruct Hp as [Hb Hk]. split; auto.
Qed.

Lemma frameable_seq_all : forall ps ctag, Forall (fun p => frameable p ctag) ps -> frameable (seq_all ps) ctag.
Proof.
  induction ps as [|p ps IH]; intros ctag H; simpl; auto.
  inversion H; subst. apply frameable_seq; auto.
Qed.

Lemma run_f_seq : forall p q ctag f,
  run_f (seq p q) ctag f =
  match run_f p ctag f with
  | Some (Good (ns1, f1)) =>
      match run_f q ctag f1 with
      | Some (Good (ns2, f2)) => Some (Good (ns1 ++ ns2, f2))
      | Some (Bad e) => Some (Bad e)
      | None => None
      end
  | Some (Bad e) => Some (Bad e)
  | None => None
  end.
Proof.
  induction p as [ | e | B op k IH | n k IH | k IH | o tg a cs0 body IHb k IHk
                   | o tg a cs0 body IHb k IHk | level k IH | level sec k IH ];
    intros q ctag f; simpl; auto.
  - destruct (run_f q ctag f) as [[[ns f']|e]|]; auto.
  - destruct (op f) as [[b f']|e]; auto.
  - rewrite IH. destruct (run_f k ctag f) as [[[ns1 f1]|e]|]; auto.
    destruct (run_f q ctag f1) as [[[ns2 f2]|e]|]; auto.
  - destruct (run_f body tg f) as [[[cs f1]|e]|]; auto. rewrite IHk.
    destruct (run_f (k _) ctag f1) as [[[ns1 f2]|e]|]; auto.
    destruct (run_f q ctag f2) as [[[ns2 f3]|e]|]; auto.
  - destruct (run_f body tg f) as [[[cs f1]|e]|]; auto.
Qed.
