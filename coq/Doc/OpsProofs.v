(* Facts about the state operations of Registry.v / Render.v used by the property proofs:
   what they return (system messages with known tags), how far they advance the allocation
   counter, and which attributes copy_attributes leaves alone. *)
From Coq Require Import List NArith Bool Lia.
From MV Require Import Base.PyStr.
From MV Require Import Base.Res.
From MV Require Import Doc.Str.
From MV Require Import Doc.Tok.
From MV Require Import Doc.Node.
From MV Require Import Doc.Registry.
From MV Require Import Doc.Prog.
From MV Require Import Gen.Render.
From MV Require Import Doc.Render.
From MV Require Import Doc.Skel.
Import ListNotations.
Open Scope N_scope.

(* ---- allocation ranges ---- *)
Definition oids_l (ns : list node) : list N := flat_map oids ns.

(* l is duplicate free and lies in [lo, hi) *)
Definition seg (lo hi : N) (l : list N) : Prop :=
  lo <= hi /\ NoDup l /\ forall x, In x l -> lo <= x < hi.

Lemma NoDup_app_intro {A} (a b : list A) :
  NoDup a -> NoDup b -> (forall x, In x a -> In x b -> False) -> NoDup (a ++ b).
Proof.
  induction a as [|x a IH]; intros Ha Hb Hd; simpl; auto.
  inversion Ha; subst. constructor.
  - intro H. apply in_app_or in H. destruct H as [H|H]; [contradiction|]. apply (Hd x); simpl; auto.
  - apply IH; auto. intros y Hy1 Hy2. apply (Hd y); simpl; auto.
Qed.

Lemma seg_nil lo hi : lo <= hi -> seg lo hi [].
Proof. intro H. split; [exact H|]. split; [constructor|]. intros x []. Qed.

Lemma seg_le lo hi l : seg lo hi l -> lo <= hi.
Proof. intros [H _]. exact H. Qed.

Lemma seg_weaken lo hi lo' hi' l : seg lo hi l -> lo' <= lo -> hi <= hi' -> seg lo' hi' l.
Proof.
  intros [H1 [H2 H3]] Ha Hb. split; [lia|]. split; [exact H2|].
  intros x Hx. specialize (H3 x Hx). lia.
Qed.

Lemma seg_app lo mid hi l1 l2 : seg lo mid l1 -> seg mid hi l2 -> seg lo hi (l1 ++ l2).
Proof.
  intros [A1 [A2 A3]] [B1 [B2 B3]]. split; [lia|]. split.
  - apply NoDup_app_intro; auto. intros x H1 H2. specialize (A3 x H1). specialize (B3 x H2). lia.
  - intros x Hx. apply in_app_or in Hx. destruct Hx as [Hx|Hx]; [specialize (A3 x Hx)|specialize (B3 x Hx)]; lia.
Qed.

(* the same, for the case where the later allocation is placed first *)
Lemma seg_app_rev lo mid hi l1 l2 : seg lo mid l1 -> seg mid hi l2 -> seg lo hi (l2 ++ l1).
Proof.
  intros [A1 [A2 A3]] [B1 [B2 B3]]. split; [lia|]. split.
  - apply NoDup_app_intro; auto. intros x H1 H2. specialize (B3 x H1). specialize (A3 x H2). lia.
  - intros x Hx. apply in_app_or in Hx. destruct Hx as [Hx|Hx]; [specialize (B3 x Hx)|specialize (A3 x Hx)]; lia.
Qed.

Lemma seg_cons lo hi l : seg (N.succ lo) hi l -> seg lo hi (lo :: l).
Proof.
  intros [A1 [A2 A3]]. split; [lia|]. split.
  - constructor; auto. intro H. specialize (A3 lo H). lia.
  - intros x [Hx|Hx]; [subst; lia|specialize (A3 x Hx); lia].
Qed.

Lemma seg_one lo : seg lo (N.succ lo) [lo].
Proof. apply seg_cons. apply seg_nil. lia. Qed.

Lemma oids_l_app a b : oids_l (a ++ b) = oids_l a ++ oids_l b.
Proof. unfold oids_l. apply flat_map_app. Qed.

Lemma oids_l_cons n ns : oids_l (n :: ns) = oids n ++ oids_l ns.
Proof. reflexivity. Qed.

Lemma oids_elem o tg a cs : oids (Elem o tg a cs) = o :: oids_l cs.
Proof. reflexivity. Qed.

(* ---- system messages ---- *)
Definition sysmsg_with (P : str -> Prop) (n : node) : Prop :=
  exists o lv tag, n = Elem o k_system_message [(k_level, [lv]); (k_msg, [tag])] [] /\ P tag.

(* messages of the docutils registry: duplicate id / name *)
Definition regtag (tag : str) : Prop := tag = k_dupid \/ tag = k_dupexp \/ tag = k_dupimp.
Definition regmsg (n : node) : Prop := sysmsg_with regtag n.

Lemma mk_sysmsg_post lv tag f n f' :
  mk_sysmsg lv tag f = Good (n, f') ->
  n = Elem (nxt f) k_system_message [(k_level, [show lv]); (k_msg, [tag])] [] /\ nxt f' = N.succ (nxt f).
Proof. unfold mk_sysmsg, fbind, alloc, fret. intro H. inversion H; subst. simpl. auto. Qed.

Lemma create_warning_post tag f n f' :
  create_warning tag f = Good (n, f') ->
  n = Elem (nxt f) k_system_message [(k_level, [show 2]); (k_msg, [tag])] [] /\ nxt f' = N.succ (nxt f).
Proof.
  unfold create_warning, fbind, log_warning. intro H.
  apply mk_sysmsg_post in H. simpl in H. exact H.
Qed.

Lemma alloc_post f o f' : alloc f = Good (o, f') -> o = nxt f /\ nxt f' = N.succ (nxt f).
Proof. unfold alloc. intro H. inversion H; subst. simpl. auto. Qed.

(* ---- a generic way to state "op advances nxt by allocating the returned messages only" ---- *)
Definition msgs_post (f : fstate) (msgs : list node) (f' : fstate) : Prop :=
  Forall regmsg msgs /\ seg (nxt f) (nxt f') (oids_l msgs).

Definition keeps_nxt {A} (op : fop A) : Prop := forall f a f', op f = Good (a, f') -> nxt f' = nxt f.

Lemma keeps_put_rec o r : keeps_nxt (put_rec o r).
Proof. intros f a f' H. unfold put_rec in H. inversion H; subst. reflexivity. Qed.

Lemma keeps_add_name o tg nm : keeps_nxt (add_name o tg nm).
Proof. intros f a f' H. unfold add_name in H. apply keeps_put_rec in H. exact H. Qed.

Lemma keeps_set_refuri o tg u : keeps_nxt (set_refuri o tg u).
Proof. intros f a f' H. unfold set_refuri in H. apply keeps_put_rec in H. exact H. Qed.

Lemma keeps_get_names o tg : keeps_nxt (get_names o tg).
Proof. intros f a f' H. unfold get_names in H. inversion H; subst. reflexivity. Qed.

Lemma keeps_set_names o tg l : keeps_nxt (set_names o tg l).
Proof. intros f a f' H. unfold set_names in H. apply keeps_put_rec in H. exact H. Qed.

Lemma keeps_log_warning tag : keeps_nxt (log_warning tag).
Proof. intros f a f' H. unfold log_warning in H. inversion H; subst. reflexivity. Qed.

Lemma keeps_dupname o nm : keeps_nxt (dupname o nm).
Proof.
  intros f a f' H. unfold dupname in H. destruct (nassoc o (objs f)); [|discriminate].
  destruct (mem_str nm (nr_names n)); [|discriminate]. apply keeps_put_rec in H. exact H.
Qed.

Lemma regmsg_dupid o lv : regmsg (Elem o k_system_message [(k_level, [lv]); (k_msg, [k_dupid])] []).
Proof. exists o, lv, k_dupid. split; [reflexivity|]. left. reflexivity. Qed.
Lemma regmsg_dupexp o lv : regmsg (Elem o k_system_message [(k_level, [lv]); (k_msg, [k_dupexp])] []).
Proof. exists o, lv, k_dupexp. split; [reflexivity|]. right. left. reflexivity. Qed.
Lemma regmsg_dupimp o lv : regmsg (Elem o k_system_message [(k_level, [lv]); (k_msg, [k_dupimp])] []).
Proof. exists o, lv, k_dupimp. split; [reflexivity|]. right. right. reflexivity. Qed.

Lemma regmsg_oids n : regmsg n -> oids n = [oid_of n].
Proof. intros [o [lv [tag [E _]]]]. subst. reflexivity. Qed.

Lemma msgs_post_nil f : msgs_post f [] f.
Proof. split; [constructor|apply seg_nil; lia]. Qed.

Lemma msgs_post_trans f f1 f2 m1 m2 :
  msgs_post f m1 f1 -> msgs_post f1 m2 f2 -> msgs_post f (m1 ++ m2) f2.
Proof.
  intros [A1 A2] [B1 B2]. split; [apply Forall_app; auto|].
  rewrite oids_l_app. eapply seg_app; eauto.
Qed.

Lemma msgs_post_keep f f1 f2 m : msgs_post f m f1 -> nxt f2 = nxt f1 -> msgs_post f m f2.
Proof. intros [A1 A2] E. split; auto. rewrite E. exact A2. Qed.

Lemma msgs_post_keep_l f0 f f1 m : nxt f = nxt f0 -> msgs_post f m f1 -> msgs_post f0 m f1.
Proof. intros E [A1 A2]. split; auto. rewrite <- E. exact A2. Qed.

Lemma msgs_post_one f n f' tag lv :
  mk_sysmsg lv tag f = Good (n, f') -> regtag tag -> msgs_post f [n] f'.
Proof.
  intros H Ht. apply mk_sysmsg_post in H. destruct H as [E En]. subst n. split.
  - constructor; [|constructor]. exists (nxt f), (show lv), tag. auto.
  - unfold oids_l. simpl. rewrite En. apply seg_one.
Qed.

Section Reg.
  Variable make_id : str -> str.
  Variable aip : str.

  Lemma register_ids_post o l : forall msgs0 f msgs f',
    register_ids o l msgs0 f = Good (msgs, f') ->
    exists new, msgs = msgs0 ++ new /\ msgs_post f new f'.
  Proof.
    induction l as [|i r IH]; intros msgs0 f msgs f' H; simpl in H.
    - inversion H; subst. exists []. rewrite app_nil_r. split; auto. apply msgs_post_nil.
    - destruct (assoc i (ids f)) as [o'|] eqn:E.
      + destruct (o' =? o).
        * apply IH in H. exact H.
        * unfold fbind in H. destruct (mk_sysmsg 4 k_dupid f) as [[m f1]|e] eqn:Em; [|discriminate].
          apply IH in H. destruct H as [new [E1 P]]. exists (m :: new). split.
          -- rewrite E1. rewrite <- app_assoc. reflexivity.
          -- change (m :: new) with ([m] ++ new). eapply msgs_post_trans; [|exact P].
             eapply msgs_post_one; [exact Em|]. left. reflexivity.
      + apply IH in H. destruct H as [new [E1 P]]. exists new. split; auto.
  Qed.

  Lemma counter_loop_keeps fuel prefix c f i c' : counter_loop fuel prefix c f = Good (i, c') -> True.
  Proof. auto. Qed.

  Lemma set_id_post o tg f i msgs f' :
    set_id make_id aip o tg f = Good ((i, msgs), f') -> msgs_post f msgs f'.
  Proof.
    unfold set_id. intro H.
    destruct (nr_ids (get_rec o tg f)) as [|x xs] eqn:E.
    - destruct (name_loop make_id (nr_names (get_rec o tg f)) [] [] f) as [[broke base] i0].
      destruct broke.
      + inversion H; subst. apply (msgs_post_keep f f); [apply msgs_post_nil | reflexivity].
      + destruct (counter_loop _ _ _ _) as [[i1 c']|e]; [|discriminate].
        inversion H; subst. apply (msgs_post_keep f f); [apply msgs_post_nil | reflexivity].
    - destruct (register_ids o (x :: xs) [] f) as [[ms f1]|e] eqn:Er; [|discriminate].
      inversion H; subst. apply register_ids_post in Er. destruct Er as [new [E1 P]].
      simpl in E1. subst. exact P.
  Qed.

  Lemma fbind_inv {A B} (m : fop A) (k : A -> fop B) f b f' :
    fbind m k f = Good (b, f') -> exists a f1, m f = Good (a, f1) /\ k a f1 = Good (b, f').
  Proof. unfold fbind. destruct (m f) as [[a f1]|e]; [|discriminate]. intro H. eauto. Qed.

  Lemma lookup_obj_keeps i : keeps_nxt (lookup_obj i).
  Proof. intros f a f' H. unfold lookup_obj in H. destruct (assoc i (ids f)); inversion H; subst. reflexivity. Qed.

  Lemma rec_of_keeps o : keeps_nxt (rec_of o).
  Proof. intros f a f' H. unfold rec_of in H. destruct (nassoc o (objs f)); inversion H; subst. reflexivity. Qed.

  Ltac fbi H := let a := fresh "a" in let f1 := fresh "f" in let E := fresh "E" in
                apply fbind_inv in H; destruct H as [a [f1 [E H]]].

  Lemma set_nameids_keeps (g : fstate -> list (str * option str)) f a f' :
    (fun f => Good (tt, set_nameids f (g f))) f = Good (a, f') -> nxt f' = nxt f.
  Proof. intro H. inversion H; subst. reflexivity. Qed.

  Tactic Notation "fbn" hyp(H) ident(a) ident(f1) ident(E) :=
    apply fbind_inv in H; destruct H as [a [f1 [E H]]].

  Lemma level_nxt (old_id : option str) o name f0 lvl f2 :
    match old_id with
    | Some oid' =>
        oo <-- lookup_obj oid' ;;
        ro <-- rec_of oo ;;
        rn <-- rec_of o ;;
        let level :=
            match nr_refuri rn with
            | Some u => match nr_names ro, nr_refuri ro with
                        | _ :: _, Some u' => if str_eqb u u' then 1 else 2
                        | _, _ => 2
                        end
            | None => 2
            end in
        if 1 <? level
        then _ <-- dupname oo name ;;
             (fun f => Good (level, set_nameids f (aset name None (nameids f))))
        else fret level
    | None => fret 2
    end f0 = Good (lvl, f2) -> nxt f2 = nxt f0.
  Proof.
    destruct old_id as [oid'|]; intro H.
    - fbn H oo fa Ea. fbn H ro fb Eb. fbn H rn fc Ec.
      apply lookup_obj_keeps in Ea. apply rec_of_keeps in Eb. apply rec_of_keeps in Ec.
      cbv zeta in H. destruct (1 <? _).
      + fbn H u fd Ed. apply keeps_dupname in Ed. inversion H; subst. simpl. congruence.
      + inversion H; subst. congruence.
    - inversion H; subst. reflexivity.
  Qed.

  Lemma set_duplicate_name_id_post o i name explicit f msgs f' :
    set_duplicate_name_id o i name explicit f = Good (msgs, f') -> msgs_post f msgs f'.
  Proof.
    unfold set_duplicate_name_id. intro H.
    destruct (assoc name (nameids f)) as [old_id|]; [|discriminate].
    destruct (assoc name (nametypes f)) as [old_explicit|]; [|discriminate].
    set (f0 := set_nametypes f (aset name (old_explicit || explicit) (nametypes f))) in *.
    assert (N0 : nxt f0 = nxt f) by reflexivity.
    apply (msgs_post_keep_l f f0); [exact N0|]. clear N0. revert H. generalize f0. clear f0. intros f0 H.
    fbn H msgs1 f1 E.
    assert (P1 : msgs_post f0 msgs1 f1).
    { clear H. destruct explicit.
      - destruct old_explicit.
        + fbn E lvl f2 El. fbn E m f3 Em. fbn E u f4 Ed. inversion E; subst.
          apply level_nxt in El. apply keeps_dupname in Ed.
          apply (msgs_post_keep_l f0 f2); [exact El|].
          apply (msgs_post_keep _ f3); [|exact Ed].
          eapply msgs_post_one; [exact Em|]. right. left. reflexivity.
        + fbn E u f2 Es. inversion Es; subst. clear Es.
          destruct old_id as [oid'|].
          * fbn E oo f3 Eo. fbn E u2 f4 Ed. inversion E; subst.
            apply lookup_obj_keeps in Eo. apply keeps_dupname in Ed.
            apply (msgs_post_keep f0 f0); [apply msgs_post_nil|]. simpl in *. congruence.
          * inversion E; subst. apply (msgs_post_keep f0 f0); [apply msgs_post_nil|reflexivity].
      - fbn E u f2 E0. fbn E u2 f3 Ed. inversion E; subst. apply keeps_dupname in Ed.
        assert (Nl : nxt f2 = nxt f0).
        { clear Ed. destruct old_id as [oid'|].
          - destruct (negb old_explicit).
            + fbn E0 u3 f4 Es. inversion Es; subst. fbn E0 oo f5 Eo.
              apply lookup_obj_keeps in Eo. apply keeps_dupname in E0. simpl in *. congruence.
            + inversion E0; subst. reflexivity.
          - inversion E0; subst. reflexivity. }
        apply (msgs_post_keep f0 f0); [apply msgs_post_nil|]. congruence. }
    destruct (negb explicit || _).
    - fbn H m f2 Em. inversion H; subst. eapply msgs_post_trans; [exact P1|].
      eapply msgs_post_one; [exact Em|]. right. right. reflexivity.
    - inversion H; subst. exact P1.
  Qed.

  Lemma set_name_id_map_post o i names explicit : forall msgs0 f msgs f',
    set_name_id_map o i names explicit msgs0 f = Good (msgs, f') ->
    exists new, msgs = msgs0 ++ new /\ msgs_post f new f'.
  Proof.
    induction names as [|name r IH]; intros msgs0 f msgs f' H; simpl in H.
    - inversion H; subst. exists []. rewrite app_nil_r. split; auto. apply msgs_post_nil.
    - destruct (has_key name (nameids f)).
      + fbi H. apply set_duplicate_name_id_post in E. apply IH in H.
        destruct H as [new [E1 P]]. exists (a ++ new). split.
        * rewrite E1, app_assoc. reflexivity.
        * eapply msgs_post_trans; eauto.
      + apply IH in H. destruct H as [new [E1 P]]. exists new. split; [exact E1 | exact P].
  Qed.

  Lemma note_target_post o tg explicit f msgs f' :
    note_target make_id aip o tg explicit f = Good (msgs, f') -> msgs_post f msgs f'.
  Proof.
    unfold note_target. intro H. fbi H. destruct a as [i m1]. fbi H. inversion E0; subst. clear E0.
    fbi H. inversion H; subst. apply set_id_post in E. apply set_name_id_map_post in E0.
    destruct E0 as [new [E1 P]]. simpl in E1. subst. eapply msgs_post_trans; eauto.
  Qed.

  Lemma set_id_nomsg_le o tg f a f' : set_id_nomsg make_id aip o tg f = Good (a, f') -> nxt f <= nxt f'.
  Proof.
    unfold set_id_nomsg. intro H. fbi H. inversion H; subst. destruct a0 as [i ms].
    apply set_id_post in E. destruct E as [_ S]. apply seg_le in S. exact S.
  Qed.

  Lemma note_footnote_le o tg f a f' : note_footnote make_id aip o tg f = Good (a, f') -> nxt f <= nxt f'.
  Proof. unfold note_footnote. intro H. fbi H. apply set_id_nomsg_le in E. inversion H; subst. exact E. Qed.
  Lemma note_autofootnote_le o tg f a f' : note_autofootnote make_id aip o tg f = Good (a, f') -> nxt f <= nxt f'.
  Proof. unfold note_autofootnote. intro H. fbi H. apply set_id_nomsg_le in E. inversion H; subst. exact E. Qed.
  Lemma note_autofootnote_ref_le o tg f a f' : note_autofootnote_ref make_id aip o tg f = Good (a, f') -> nxt f <= nxt f'.
  Proof. unfold note_autofootnote_ref. intro H. fbi H. apply set_id_nomsg_le in E. inversion H; subst. exact E. Qed.
  Lemma note_footnote_ref_le o tg rn f a f' : note_footnote_ref make_id aip o tg rn f = Good (a, f') -> nxt f <= nxt f'.
  Proof. unfold note_footnote_ref. intro H. fbi H. apply set_id_nomsg_le in E. inversion H; subst. exact E. Qed.
End Reg.

(* ---- association lists ---- *)
Lemma assoc_aset_same {V} k (v : V) l : assoc k (aset k v l) = Some v.
Proof.
  induction l as [|[k' v'] l IH]; simpl.
  - rewrite str_eqb_refl. reflexivity.
  - destruct (str_eqb k k') eqn:E; simpl.
    + rewrite str_eqb_refl. reflexivity.
    + rewrite E. exact IH.
Qed.

Lemma assoc_aset_other {V} k k' (v : V) l : k <> k' -> assoc k (aset k' v l) = assoc k l.
Proof.
  intro H. induction l as [|[k2 v2] l IH]; simpl.
  - destruct (str_eqb k k') eqn:E; [apply str_eqb_eq in E; contradiction|reflexivity].
  - destruct (str_eqb k' k2) eqn:E2; simpl.
    + apply str_eqb_eq in E2. subst k2.
      destruct (str_eqb k k') eqn:E; [apply str_eqb_eq in E; contradiction|reflexivity].
    + destruct (str_eqb k k2); [reflexivity|exact IH].
Qed.

Lemma assoc_add_classes_other k a l : k <> a_classes -> assoc k (add_classes a l) = assoc k a.
Proof. intro H. unfold add_classes. apply assoc_aset_other. exact H. Qed.

Lemma classes_of_add_classes a l : classes_of (add_classes a l) = classes_of a ++ l.
Proof. unfold classes_of, add_classes. rewrite assoc_aset_same. reflexivity. Qed.

Section CopyAttrs.
  Variable C : cfg.
  Variable OR : oracles.

  Lemma fbind_inv' {A B} (m : fop A) (k : A -> fop B) f b f' :
    fbind m k f = Good (b, f') -> exists a f1, m f = Good (a, f1) /\ k a f1 = Good (b, f').
  Proof. unfold fbind. destruct (m f) as [[a f1]|e]; [|discriminate]. intro H. eauto. Qed.

  Lemma note_target'_post o tg explicit f msgs f' :
    note_target' C OR o tg explicit f = Good (msgs, f') -> msgs_post f msgs f'.
  Proof. apply note_target_post. Qed.

  (* copy_attributes: the messages are registry messages allocated in the call; attributes whose key is
     not among the copied keys (and is not "classes") are left alone *)
  Lemma copy_loop_post o tg keys aliases conv l : forall a msgs0 f a' msgs f',
    copy_loop C OR o tg keys aliases conv l a msgs0 f = Good ((a', msgs), f') ->
    exists new, msgs = msgs0 ++ new /\ msgs_post f new f' /\
                (forall k, ~ In k keys -> k <> a_classes -> assoc k a' = assoc k a).
  Proof.
    induction l as [|[k0 v] r IH]; intros a msgs0 f a' msgs f' H; cbn [copy_loop] in H.
    - inversion H; subst. exists []. rewrite app_nil_r. split; auto. split; [apply msgs_post_nil|auto].
    - set (k := match assoc k0 aliases with Some k' => k' | None => k0 end) in *.
      destruct (mem_str k keys) eqn:Ek; cbn [negb] in H.
      2:{ apply IH in H. exact H. }
      apply mem_str_In in Ek.
      destruct (str_eqb k a_class) eqn:Ec.
      { apply IH in H. destruct H as [new [E1 [P Ha]]]. exists new. split; auto. split; auto.
        intros k1 Hk1 Hk2. rewrite Ha by auto. apply assoc_add_classes_other. exact Hk2. }
      destruct (str_eqb k a_id) eqn:Ei.
      { apply fbind_inv' in H. destruct H as [u [f1 [Ea H]]]. apply keeps_add_name in Ea.
        apply fbind_inv' in H. destruct H as [ms [f2 [En H]]]. apply note_target'_post in En.
        apply IH in H. destruct H as [new [E1 [P Ha]]]. exists (ms ++ new). split.
        - rewrite E1, app_assoc. reflexivity.
        - split; auto. eapply msgs_post_trans; [|exact P]. eapply msgs_post_keep_l; [exact Ea|exact En]. }
      destruct (mem_str k conv); [discriminate|].
      apply IH in H. destruct H as [new [E1 [P Ha]]]. exists new. split; auto. split; auto.
      intros k1 Hk1 Hk2. rewrite Ha by auto. apply assoc_aset_other. intro X. subst k1. contradiction.
  Qed.

  Lemma copy_attributes_post t o tg keys aliases a f a' msgs f' :
    copy_attributes C OR t o tg keys aliases a f = Good ((a', msgs), f') ->
    msgs_post f msgs f' /\ (forall k, ~ In k keys -> k <> a_classes -> assoc k a' = assoc k a).
  Proof.
    unfold copy_attributes. intro H. apply copy_loop_post in H. destruct H as [new [E [P Ha]]].
    simpl in E. subst. auto.
  Qed.

  (* without aliases and with distinct keys (a dict), a copied plain key carries the token's value *)
  Lemma copy_loop_plain o tg keys conv k : forall l a msgs0 f a' msgs f',
    In k keys -> k <> a_class -> k <> a_id -> k <> a_classes -> nodup_keys l = true ->
    copy_loop C OR o tg keys [] conv l a msgs0 f = Good ((a', msgs), f') ->
    assoc k a' = match assoc k l with Some v => Some [v] | None => assoc k a end.
  Proof.
    induction l as [|[k0 v] r IH]; intros a msgs0 f a' msgs f' Hin Hc Hi Hcs Hnd H; cbn [copy_loop] in H.
    - inversion H; subst. reflexivity.
    - cbn [assoc] in H. cbn [nodup_keys] in Hnd. apply andb_true_iff in Hnd. destruct Hnd as [Hn1 Hn2].
      cbn [assoc].
      destruct (mem_str k0 keys) eqn:Ek; cbn [negb] in H.
      2:{ assert (str_eqb k k0 = false).
          { apply str_eqb_neq. intro X. subst k0. apply mem_str_In in Hin. congruence. }
          rewrite H0. eapply IH; eauto. }
      destruct (str_eqb k0 a_class) eqn:Ec.
      { apply str_eqb_eq in Ec. subst k0.
        assert (str_eqb k a_class = false) by (apply str_eqb_neq; exact Hc). rewrite H0.
        rewrite (IH _ _ _ _ _ _ Hin Hc Hi Hcs Hn2 H).
        destruct (assoc k r); auto. apply assoc_add_classes_other. exact Hcs. }
      destruct (str_eqb k0 a_id) eqn:Ei.
      { apply str_eqb_eq in Ei. subst k0.
        assert (str_eqb k a_id = false) by (apply str_eqb_neq; exact Hi). rewrite H0.
        apply fbind_inv' in H. destruct H as [u [f1 [Ea H]]].
        apply fbind_inv' in H. destruct H as [ms [f2 [En H]]]. eapply IH; eauto. }
      destruct (mem_str k0 conv); [discriminate|].
      destruct (str_eqb k k0) eqn:E.
      + apply str_eqb_eq in E. subst k0. rewrite (IH _ _ _ _ _ _ Hin Hc Hi Hcs Hn2 H).
        unfold has_key in Hn1. destruct (assoc k r); [discriminate|]. apply assoc_aset_same.
      + rewrite (IH _ _ _ _ _ _ Hin Hc Hi Hcs Hn2 H). destruct (assoc k r); auto. apply assoc_aset_other.
        apply str_eqb_neq. exact E.
  Qed.

  Lemma copy_loop_classes o tg keys conv : forall l a msgs0 f a' msgs f',
    In a_class keys -> ~ In a_classes keys -> nodup_keys l = true ->
    copy_loop C OR o tg keys [] conv l a msgs0 f = Good ((a', msgs), f') ->
    classes_of a' = classes_of a ++ match assoc a_class l with Some c => o_split OR c | None => [] end.
  Proof.
    induction l as [|[k0 v] r IH]; intros a msgs0 f a' msgs f' Hin Hcs Hnd H; cbn [copy_loop] in H.
    - inversion H; subst. rewrite app_nil_r. reflexivity.
    - cbn [assoc] in H. cbn [nodup_keys] in Hnd. apply andb_true_iff in Hnd. destruct Hnd as [Hn1 Hn2].
      cbn [assoc].
      destruct (mem_str k0 keys) eqn:Ek; cbn [negb] in H.
      2:{ assert (str_eqb a_class k0 = false).
          { apply str_eqb_neq. intro X. subst k0. apply mem_str_In in Hin. congruence. }
          rewrite H0. eapply IH; eauto. }
      destruct (str_eqb k0 a_class) eqn:Ec.
      { apply str_eqb_eq in Ec. subst k0. rewrite str_eqb_refl.
        rewrite (IH _ _ _ _ _ _ Hin Hcs Hn2 H). unfold has_key in Hn1.
        destruct (assoc a_class r); [discriminate|].
        rewrite app_nil_r. apply classes_of_add_classes. }
      assert (Ec' : str_eqb a_class k0 = false).
      { apply str_eqb_neq. intro X. subst k0. rewrite str_eqb_refl in Ec. discriminate. }
      rewrite Ec'.
      destruct (str_eqb k0 a_id) eqn:Ei.
      { apply fbind_inv' in H. destruct H as [u [f1 [Ea H]]].
        apply fbind_inv' in H. destruct H as [ms [f2 [En H]]]. eapply IH; eauto. }
      destruct (mem_str k0 conv); [discriminate|].
      rewrite (IH _ _ _ _ _ _ Hin Hcs Hn2 H). f_equal. unfold classes_of. rewrite assoc_aset_other; auto.
      intro X. subst k0. apply mem_str_In in Ek. contradiction.
  Qed.
End CopyAttrs.
